CHECK = dict(
    level="exploration", engine="S",
    technique=("exhaustive enumeration of a constructed object pool x fixed query alphabets on the real library; every returned number, hit list, "
               "polygon set and component list is judged by brute-force all-triangle / all-triangle-pair code (long double) that only sees the "
               "GetMeshGL64 export"),
    level_text=("Object pool (built by enumeration; 679 objects quick, 972 thorough): the 21 non-degenerate seeds of lib/alphabet.h under the 6 "
                "generic rigid motions of harness/C02.cpp; all ordered pairs (x#T1, y#T4) of 15 seeds (all 21 in thorough) x {+,-,^}; 4 unary results "
                "(Refine(2), Scale(-1,1,1), Scale(.7,-1.3,1.1), Mirror(1,1,0)) of every seed under one rigid motion; a candidate is kept iff it is "
                "NoError, non-empty, passes lib/topo.h's C01 predicate, has 1-3 connected components, <= 3 handles, <= 1600 triangles and is not "
                "byte-identical to an earlier one. "
                "Per object: Volume/SurfaceArea == signed-tetrahedron / triangle-area sums of the export (1e-12 relative + 16 eps per triangle x "
                "|vertex|^3 resp. ^2); BoundingBox bit-equal to the tight box of the exported vertices; NumTri/NumVert/NumEdge/NumProp/IsEmpty/"
                "Genus (and, under its own key class, NumPropVert) == counts of the export after merge vectors; WindingNumber (one batch call + 64 "
                "single calls) == rounded solid-angle winding at 64+343 lattice points; Slice at 7 generic heights: 2-D winding of the polygons == "
                "solid-angle winding of the mesh at 144 samples each; Project: winding > 0 of the returned polygons (and coverage by "
                "CrossSection(polygons), positive fill) iff the vertical line through the sample crosses a triangle, 256 samples; Decompose: as many "
                "parts as brute-force components (union-find over triangles sharing merged vertices), each part a closed connected manifold whose "
                "triangle set is exactly one component and whose Volume() is that component's, volumes summing to the whole. RayCast: every ordered "
                "pair of the 64 points of a 4x4x4 lattice (irrational offsets, 1.3 x the bounding box) as (origin, endpoint), 4032 segments per "
                "object, on every pool object: hits sorted, distance in [0,1], position == origin + distance*(endpoint-origin) within 1e-9, number "
                "of hits and their parameters == the proper crossings found by Moeller-Trumbore over all triangles, parity == parity of the "
                "solid-angle winding difference of the two ends, normal == unit normal of the crossed triangle, position on the exported triangle "
                "named by faceID and faceIDs == crossed triangles. MinGap: all ordered pairs of a 48-member placed family (42 pool objects under 8 "
                "translations + 6 shrunken objects placed deep inside a host) x searchLength {0.1,1,10}: == min over all triangle pairs of an "
                "independent triangle-triangle distance (6 vertex-triangle + 9 edge-edge distances), clamped, and 0 iff an edge of one surface "
                "crosses a triangle of the other or a component of one has a vertex with non-zero winding in the other."),
    level_note=("Trusted: compiler, lib/solid.h (solid-angle winding, point-triangle distance), lib/geom2.h (2-D winding), lib/topo.h, and the ~250 "
                "lines of brute-force code in harness/C18.cpp. General position is enforced by skipping, not by tolerance: lattice points within "
                "1e-6 (x scale) of the surface, segments passing within 1e-7 of any triangle edge, Project samples within 1e-6 of any projected "
                "edge, and pairs of solids whose surfaces come within 1e-6 without a robust crossing are not judged (14 of 2.7M segments and 2 of "
                "2256 pairs in the quick tier). Pool objects are not audited for self-intersection; none of the oracles depends on it (all are "
                "statements about a closed oriented surface), and the winding number at all 276k sample points was 0 or 1. The seq-asan run uses "
                "the 8-seed Boolean alphabet (362 objects) and repeats every 3rd object (measure), every 6th (raycast) and a 16-member MinGap "
                "family."),
    # loaded machine: seq-fast quick ~20 s, thorough ~4 min; seq-asan ~35 s.  Budgets are deadlines with slack for a shared machine.
    runs=[S("seq-fast", quick=300, thorough=2400, workers=8, case_timeout=120),
          S("seq-asan", quick=600, thorough=900, workers=8, case_timeout=300, args=["--asan-subset"])],
    rule=("phases measure (one case per pool object), raycast (one case per pool object = all ordered lattice-point pairs), mingap (one case "
          "per ordered pair of the placed family = 3 search lengths). Every phase enumerates its whole index space. distinct = distinct objects "
          "(byte hash of the export) resp. distinct ordered pairs; non-trivial = objects with more than one component or a handle (measure), "
          "objects with at least one hit (raycast), pairs with a positive gap below at least one search length (mingap). Counters give the "
          "judged sample points, segments, hits, and the MinGap outcome classes (crossing / contained / gap below L / clamped). At most one "
          "violation per check class and object is reported; its key names the first failing query, its detail the number of failing queries."),
    bounds=dict(quick=("754 objects (incl. 75 unions of bounding-box-disjoint lazily rotated parts; 1-3 components, 0-3 handles); 407 winding points, 7x144 slice samples, 256 "
                       "projection samples per object; 64-point ray lattice = 2.74M segments; 48 placed objects = 2256 ordered pairs x 3 search "
                       "lengths"),
                thorough=("972 objects (all 21 seeds as Boolean operands, 53.6k triangles); 216-point ray lattice (46 440 segments per object, 45M "
                          "in total), 64+1331 winding points, 7x576 slice samples, 1024 projection samples per object; 144 placed objects = 20 592 "
                          "ordered pairs x 3 search lengths")),
    assumptions=COMMON_ASSUME + [
        "query arguments are generic: points within 1e-6 of the surface, segments within 1e-7 of a triangle edge or vertex, projection samples within "
        "1e-6 of a projected edge and solid pairs that touch within 1e-6 without crossing are not judged",
        "RayHit::faceID ('the triangle index that was hit') is read as an index into the triangles of GetMeshGL64(), the only triangle numbering the "
        "public API exposes",
        "NumPropVert ('the number of property vertices ... always >= NumVert') is read as the number of vertices of the export",
        "hits exactly at the segment's ends, slices at the bounding box's bottom/top and coincident solids are outside the general-position quantifier",
    ],
)
