CHECK = dict(
    level="exploration", engine="S",
    technique="exhaustive enumeration of a program-generated object pool x four export/import trips, field-wise comparison of re-export with export after canonical renumbering",
    level_text=("Every object of the pool (21 non-degenerate seeds + an import with user face IDs/two reserved IDs, each under 11 unary derivations - normals with and "
                "without seams, extra properties, SmoothOut/SmoothByNormals tangents, Refine, mirror, rotation, AsOriginal -, Boolean results of all pairs x 3 ops "
                "under the same derivations - i.e. multi-run, back-side, smoothed multi-run meshes -, and two instances of one original) goes through: MeshGL64 -> "
                "Manifold -> MeshGL64, the same in 32 bit, WriteOBJ -> ReadOBJ, and merge vectors stripped -> Merge() -> Manifold. The re-export must have the "
                "identical multiset of triangle records (corner positions bit-exact, properties bit-exact except normal channels, the tangent of each directed edge, "
                "run original ID / flags / transform, user face IDs), the same position set, NoError, a tolerance not smaller, Refine(2) giving the same surface; "
                "OBJ must reproduce positions bit-exactly and the triangle set; the exported merge vectors must make the mesh manifold (lib/topo.h) and Merge() must restore it."),
    level_note="Trusted: compiler, lib/topo.h, the 150-line record comparison in harness/C08.cpp. Bound: the stated pool (3156 objects quick). Epsilon-invalid seeds are excluded because import is documented to collapse degenerate triangles.",
    runs=[S("seq-fast", quick=200, thorough=1200, workers=8), S("seq-asan", quick=400, thorough=1500, workers=8, tiers=("quick",))],
    rule="cases = pool objects; each runs 4 trips. distinct = canonical geometry hashes; non-trivial = objects with more than one run, tangents, extra properties or merge vectors.",
    bounds=dict(quick="every 2nd seed as Boolean operand, 9 derivations after Booleans (incl. a raised tolerance)", thorough="all seeds as Boolean operands, all 12 derivations"),
    assumptions=COMMON_ASSUME + ["normal channels (runFlags bit 1) are compared to 1e-9 (64 bit) / 1e-5 (32 bit), as the statement allows renormalisation rounding"],
)
