"""Per-property configuration of bin/check: which harness runs in which build
variant, with what time budget, and how the evidence describes it."""

def S(variant, quick=150, thorough=1500, **kw):
    d = dict(variant=variant, budget=dict(quick=quick, thorough=thorough))
    d.update(kw)
    return d

COMMON_ASSUME = [
    "compiler, sanitizers and the oracle library under /verif/lib are trusted",
    "the claim is the stated finite alphabet and depth, not all inputs",
]

HOOK_COMMITS = ["55eb3a4f", "0e93fea4", "d333c875", "9604a163", "adfc0bbc", "fb472076", "03f820f8"]
NOT_APPLICABLE_REASON = {}

CHECKS = {
    "C01": dict(
        level="model_checking", engine="S",
        technique="explicit-state exploration of API programs on the real library (depth-bounded, all programs), manifoldness invariant checked on every reached state under ASan/UBSan",
        level_text=("All programs over a 32-seed / 38-unary / 10-binary operation alphabet (constructors incl. deliberately degenerate ones, transforms, warps, "
                    "property ops, refinement, smoothing, simplification, hull, decompose, split, Booleans, Minkowski, batch) up to the depth bound are executed; "
                    "the full C01 predicate is evaluated on every reached state from its MeshGL64 export; a crash or sanitizer report is an outcome."),
        level_note="Trusted: compiler, ASan/UBSan, lib/topo.h. Bound: programs of <= 2 unary steps, one binary step with a unary step before or after (quick); 3 unary steps and all seeds as second operand (thorough). States above 6000 triangles are checked but not expanded.",
        runs=[S("seq-asan", quick=1500, thorough=5400, workers=8)],
        rule=("programs = seed | seed.u | seed.u.u | b(s,s') | b(s,s').u | b(s.u,s') | b(s',s.u) over lib/alphabet.h; states de-duplicated by canonical geometry hash; "
              "non-trivial = NoError and non-empty. A violating state is reported once and not expanded."),
        bounds=dict(quick="depth 2 unary, 1 binary + 1 unary; second operand of mixed phases from every 3rd seed",
                    thorough="depth 3 unary; all seeds as second operand"),
        assumptions=COMMON_ASSUME,
    ),
    "C02": dict(
        level="model_checking", engine="S",
        technique="explicit-state model checking of the real Boolean code: exhaustive program enumeration + BFS over canonical mesh states vs voxel-set reference model",
        level_text=("Every CSG program of the stated alphabet and depth is executed on the real library and compared with a voxel-set "
                    "reference model (lattice regime, exact) or a solid-angle winding oracle (general position); BFS re-uses every distinct "
                    "result mesh as an operand. Exhaustive inside the bound, silent outside it."),
        level_note="Trusted: compiler, the 60-line voxel model, the long-double solid-angle winding oracle (cross-checked against the voxel model on every lattice case). Bound: depth <= 3 programs over boxes of [0,2]^3/[0,3]^3 and a 30-leaf general-position family.",
        runs=[S("seq-fast", quick=900, thorough=7200)],
        rule=("exhaustive enumeration of CSG programs: all ordered pairs of the 216 integer boxes of [0,3]^3 x {+,-,^,Split}; all depth-2 "
              "programs over the 27 boxes of [0,2]^3 (both nestings, forced and lazy intermediates); breadth-first search over (voxel set, "
              "canonical mesh) states re-using every result mesh as operand; thorough adds all depth-3 programs. General position: all ordered "
              "pairs of a 30-leaf family x 3 ops + Split + inclusion-exclusion, BatchBoolean triples, 12 cutting planes per leaf, judged at grid "
              "points by a solid-angle winding oracle. distinct = (voxel set, canonical result mesh) pairs; non-trivial = result differs from "
              "both operands and from empty."),
        bounds=dict(quick="lattice N=3 depth 1, N=2 depth 2, BFS depth 3; gp pairs 30x30, triples over 10 leaves",
                    thorough="adds lattice N=2 depth 3 (28.7M programs), BFS depth 4, gp triples over 30 leaves, finer grid"),
        assumptions=COMMON_ASSUME + ["points closer than max(result tolerance,1e-6) to an input surface are not judged"],
    ),
}

# per-property fragments (one file per property, so several people can work in parallel)
import glob as _glob, os as _os
# a fragment only counts once the coordinator has reviewed it and listed it here
ENABLED_FRAGMENTS = ["C03", "C04", "C05", "C06", "C07", "C08", "C09", "C10", "C11", "C12", "C13", "C14", "C15", "C16", "C17", "C18", "C19", "C20"]
for _f in sorted(_glob.glob(_os.path.join(_os.path.dirname(_os.path.abspath(__file__)), "checks.d", "C*.py"))):
    if _os.path.basename(_f)[:-3] not in ENABLED_FRAGMENTS and not _os.environ.get("VERIF_ALL_FRAGMENTS"):
        continue
    _ns = dict(S=S, COMMON_ASSUME=COMMON_ASSUME)
    exec(compile(open(_f).read(), _f, "exec"), _ns)
    CHECKS[_os.path.basename(_f)[:-3]] = _ns["CHECK"]
