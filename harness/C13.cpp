// C13 - parallel primitives and lock-free containers equal their sequential spec.
// Engine T+C: each primitive of src/parallel.h is called with
// ExecutionPolicy::Par on EVERY input sequence over a 3-letter alphabet up to
// the length bound, with oneTBB's real header algorithms running on the
// replacement runtime (engine/tbbrt), and for each input EVERY schedule of the
// modelled workers within the preemption bound is executed; the result of
// each execution is compared with the std:: algorithm.
// VBUILD: variants=par-model,par-model-asan,par-model-tsan
#include <algorithm>
#include <numeric>
#include <sstream>

#include "engine/explore.h"
#include "engine/runner.h"
#include "disjoint_sets.h"
#include "hashtable.h"
#include "parallel.h"

using namespace manifold;
using namespace vf;

static const ExecutionPolicy PAR = ExecutionPolicy::Par;
static uint64_t identityHash(uint64_t x) { return x; }  // forces chosen keys into the same home slot

struct KT {  // key with a hidden tag: makes stability observable
  int key, tag;
};
struct Mat2 {  // 2x2 matrices over Z_7: associative, NOT commutative
  int a, b, c, d;
  bool operator==(const Mat2& o) const { return a == o.a && b == o.b && c == o.c && d == o.d; }
};
static Mat2 mul(const Mat2& x, const Mat2& y) {
  return {(x.a * y.a + x.b * y.c) % 7, (x.a * y.b + x.b * y.d) % 7, (x.c * y.a + x.d * y.c) % 7, (x.c * y.b + x.d * y.d) % 7};
}
static const Mat2 GEN[3] = {{1, 1, 0, 1}, {1, 0, 1, 1}, {2, 1, 1, 1}};

template <typename V>
static std::string ser(const V& v) {
  std::ostringstream s;
  for (auto x : v) s << x << ",";
  return s.str();
}

struct Prim {
  const char* name;
  size_t seqThreshold;  // value of kSeqThreshold during the call
  std::function<std::string(const std::vector<int>&, bool par)> f;  // par=false: std:: reference
};

static std::vector<Prim> prims() {
  std::vector<Prim> P;
  auto add = [&](const char* n, size_t thr, std::function<std::string(const std::vector<int>&, bool)> f) { P.push_back({n, thr, f}); };
  add("for_each", 2, [](const std::vector<int>& in, bool par) {
    std::vector<int> out(in.size(), -1);
    auto body = [&](size_t i) { out[i] = in[i] * 2 + 1; };
    if (par) for_each(PAR, countAt(0_uz), countAt(in.size()), body);
    else for (size_t i = 0; i < in.size(); ++i) body(i);
    return ser(out);
  });
  add("for_each_n", 2, [](const std::vector<int>& in, bool par) {
    std::vector<int> out(in.size(), -1);
    auto body = [&](size_t i) { out[i] = in[i] + 10; };
    if (par) for_each_n(PAR, countAt(0_uz), in.size(), body);
    else for (size_t i = 0; i < in.size(); ++i) body(i);
    return ser(out);
  });
  add("transform", 2, [](const std::vector<int>& in, bool par) {
    std::vector<int> out(in.size(), -1);
    auto g = [](int x) { return x * x + 3; };
    if (par) transform(PAR, in.begin(), in.end(), out.begin(), g);
    else std::transform(in.begin(), in.end(), out.begin(), g);
    return ser(out);
  });
  add("copy", 2, [](const std::vector<int>& in, bool par) {
    std::vector<int> out(in.size(), -1);
    if (par) copy(PAR, in.begin(), in.end(), out.begin());
    else std::copy(in.begin(), in.end(), out.begin());
    return ser(out);
  });
  add("copy_n", 2, [](const std::vector<int>& in, bool par) {
    std::vector<int> out(in.size() + 1, -1);
    if (par) copy_n(PAR, in.begin(), in.size(), out.begin());
    else std::copy_n(in.begin(), in.size(), out.begin());
    return ser(out);
  });
  add("fill", 2, [](const std::vector<int>& in, bool par) {
    std::vector<int> out(in.size() + 1, -1);
    if (par) fill(PAR, out.begin(), out.begin() + in.size(), 7);
    else std::fill(out.begin(), out.begin() + in.size(), 7);
    return ser(out);
  });
  add("reduce(+)", 2, [](const std::vector<int>& in, bool par) {
    int r = par ? reduce(PAR, in.begin(), in.end(), 5, std::plus<int>()) : std::accumulate(in.begin(), in.end(), 5);
    return std::to_string(r);
  });
  add("reduce(max)", 2, [](const std::vector<int>& in, bool par) {
    auto mx = [](int a, int b) { return a > b ? a : b; };
    int r = par ? reduce(PAR, in.begin(), in.end(), -1, mx) : std::accumulate(in.begin(), in.end(), -1, mx);
    return std::to_string(r);
  });
  add("transform_reduce", 2, [](const std::vector<int>& in, bool par) {
    auto g = [](int x) { return 3 * x + 1; };
    int r = par ? transform_reduce(PAR, in.begin(), in.end(), 2, std::plus<int>(), g)
                : std::transform_reduce(in.begin(), in.end(), 2, std::plus<int>(), g);
    return std::to_string(r);
  });
  add("inclusive_scan", 2, [](const std::vector<int>& in, bool par) {
    std::vector<int> out(in.size(), -1);
    if (par) inclusive_scan(PAR, in.begin(), in.end(), out.begin());
    else std::inclusive_scan(in.begin(), in.end(), out.begin());
    return ser(out);
  });
  add("exclusive_scan(+,init=5)", 2, [](const std::vector<int>& in, bool par) {
    std::vector<int> out(in.size(), -1);
    if (par) exclusive_scan(PAR, in.begin(), in.end(), out.begin(), 5);
    else std::exclusive_scan(in.begin(), in.end(), out.begin(), 5);
    return ser(out);
  });
  add("exclusive_scan(matmul mod 7)", 2, [](const std::vector<int>& in, bool par) {
    std::vector<Mat2> m(in.size()), out(in.size(), Mat2{9, 9, 9, 9});
    for (size_t i = 0; i < in.size(); ++i) m[i] = GEN[in[i]];
    Mat2 init{3, 1, 4, 1}, id{1, 0, 0, 1};
    if (par) exclusive_scan(PAR, m.begin(), m.end(), out.begin(), init, mul, id);
    else std::exclusive_scan(m.begin(), m.end(), out.begin(), init, mul);
    std::ostringstream s;
    for (auto& x : out) s << x.a << x.b << x.c << x.d << ",";
    return s.str();
  });
  add("copy_if(!=0)", 2, [](const std::vector<int>& in, bool par) {
    std::vector<int> out(in.size() + 1, -1);
    auto p = [](int x) { return x != 0; };
    size_t n = par ? copy_if(PAR, in.begin(), in.end(), out.begin(), p) - out.begin()
                   : std::copy_if(in.begin(), in.end(), out.begin(), p) - out.begin();
    return std::to_string(n) + ":" + ser(out);
  });
  add("remove_if(==1)", 2, [](const std::vector<int>& in, bool par) {
    std::vector<KT> v(in.size());
    for (size_t i = 0; i < in.size(); ++i) v[i] = {in[i], (int)i};
    auto p = [](const KT& x) { return x.key == 1; };
    size_t n = par ? remove_if(PAR, v.begin(), v.end(), p) - v.begin() : std::remove_if(v.begin(), v.end(), p) - v.begin();
    std::ostringstream s;
    s << n << ":";
    for (size_t i = 0; i < n; ++i) s << v[i].key << "/" << v[i].tag << ",";
    return s.str();
  });
  add("remove(2)", 2, [](const std::vector<int>& in, bool par) {
    std::vector<int> v = in;
    size_t n = par ? remove(PAR, v.begin(), v.end(), 2) - v.begin() : std::remove(v.begin(), v.end(), 2) - v.begin();
    v.resize(n);
    return std::to_string(n) + ":" + ser(v);
  });
  add("unique", 2, [](const std::vector<int>& in, bool par) {
    std::vector<int> v = in;
    size_t n = par ? unique(PAR, v.begin(), v.end()) - v.begin() : std::unique(v.begin(), v.end()) - v.begin();
    v.resize(n);
    return std::to_string(n) + ":" + ser(v);
  });
  add("count_if(==2)", 2, [](const std::vector<int>& in, bool par) {
    auto p = [](int x) { return x == 2; };
    size_t n = par ? count_if(PAR, in.begin(), in.end(), p) : (size_t)std::count_if(in.begin(), in.end(), p);
    return std::to_string(n);
  });
  add("all_of(!=2)", 2, [](const std::vector<int>& in, bool par) {
    auto p = [](int x) { return x != 2; };
    bool b = par ? all_of(PAR, in.begin(), in.end(), p) : std::all_of(in.begin(), in.end(), p);
    return b ? "T" : "F";
  });
  add("gather", 2, [](const std::vector<int>& in, bool par) {
    size_t n = in.size();
    std::vector<int> map(n), out(n, -1);
    for (size_t i = 0; i < n; ++i) map[i] = (int)((i * 2 + 1) % (n ? n : 1));  // not a permutation in general: gather allows repeats
    if (par) gather(PAR, map.begin(), map.end(), in.begin(), out.begin());
    else for (size_t i = 0; i < n; ++i) out[i] = in[map[i]];
    return ser(out);
  });
  add("scatter", 2, [](const std::vector<int>& in, bool par) {
    size_t n = in.size();
    std::vector<int> map(n), out(n, -1);
    for (size_t i = 0; i < n; ++i) map[i] = (int)(n - 1 - i);  // a permutation: scatter requires distinct targets
    if (par) scatter(PAR, in.begin(), in.end(), map.begin(), out.begin());
    else for (size_t i = 0; i < n; ++i) out[map[i]] = in[i];
    return ser(out);
  });
  add("sequence", 2, [](const std::vector<int>& in, bool par) {
    std::vector<int> out(in.size() + 1, -1);
    if (par) sequence(PAR, out.begin(), out.begin() + in.size());
    else std::iota(out.begin(), out.begin() + in.size(), 0);
    return ser(out);
  });
  add("stable_sort(comp,key+tag)", 2, [](const std::vector<int>& in, bool par) {
    std::vector<KT> v(in.size());
    for (size_t i = 0; i < in.size(); ++i) v[i] = {in[i], (int)i};
    auto c = [](const KT& a, const KT& b) { return a.key < b.key; };
    if (par) stable_sort(PAR, v.begin(), v.end(), c);
    else std::stable_sort(v.begin(), v.end(), c);
    std::ostringstream s;
    for (auto& x : v) s << x.key << "/" << x.tag << ",";
    return s.str();
  });
  add("stable_sort(comp,desc)", 2, [](const std::vector<int>& in, bool par) {
    std::vector<KT> v(in.size());
    for (size_t i = 0; i < in.size(); ++i) v[i] = {in[i], (int)i};
    auto c = [](const KT& a, const KT& b) { return a.key > b.key; };
    if (par) stable_sort(PAR, v.begin(), v.end(), c);
    else std::stable_sort(v.begin(), v.end(), c);
    std::ostringstream s;
    for (auto& x : v) s << x.key << "/" << x.tag << ",";
    return s.str();
  });
  add("stable_sort(int,radix)", 4, [](const std::vector<int>& in, bool par) {
    static const int MAP[3] = {70000, 0, 300};  // keys differing in different radix digits
    std::vector<int> v(in.size());
    for (size_t i = 0; i < in.size(); ++i) v[i] = MAP[in[i]];
    if (par) stable_sort(PAR, v.data(), v.data() + v.size());
    else std::stable_sort(v.begin(), v.end());
    return ser(v);
  });
  add("stable_sort(int,radix,negative)", 4, [](const std::vector<int>& in, bool par) {
    static const int MAP[3] = {-1, 0, 3};
    std::vector<int> v(in.size());
    for (size_t i = 0; i < in.size(); ++i) v[i] = MAP[in[i]];
    if (par) stable_sort(PAR, v.data(), v.data() + v.size());
    else std::stable_sort(v.begin(), v.end());
    return ser(v);
  });
  add("stable_sort(uint64,radix)", 8, [](const std::vector<int>& in, bool par) {
    static const uint64_t MAP[3] = {1ull << 40, 5, 1ull << 33};
    std::vector<uint64_t> v(in.size());
    for (size_t i = 0; i < in.size(); ++i) v[i] = MAP[in[i]];
    if (par) stable_sort(PAR, v.data(), v.data() + v.size());
    else std::stable_sort(v.begin(), v.end());
    return ser(v);
  });
  return P;
}

static std::vector<int> inputOf(uint64_t code, int len) {
  std::vector<int> v(len);
  for (int i = len - 1; i >= 0; --i) {
    v[i] = code % 3;
    code /= 3;
  }
  return v;
}

int main(int argc, char** argv) {
  Runner R("C13", argc, argv);
  const bool thorough = R.a.thorough();
  auto P = prims();
  const int np = (int)P.size();
  // (length, all contents) x concurrency settings x schedules
  const int maxLen = thorough ? 8 : 6;
  const std::vector<int> CONC = thorough ? std::vector<int>{1, 2, 4, 16} : std::vector<int>{1, 2, 4};
  const int W = thorough ? 3 : 2;
  auto boundFor = [&](int len) { return thorough ? (len <= 6 ? 3 : 2) : (len <= 4 ? 3 : 2); };

  std::vector<std::pair<int, uint64_t>> inputs;  // (len, code)
  for (int len = 0; len <= maxLen; ++len) {
    uint64_t n = 1;
    for (int i = 0; i < len; ++i) n *= 3;
    for (uint64_t c = 0; c < n; ++c) inputs.push_back({len, c});
  }
  const uint64_t ni = inputs.size(), nc = CONC.size();
  R.phase("primitives", (uint64_t)np * ni * nc, nc, [&](uint64_t idx, Ctx& c) {
    int ci = idx % nc;
    uint64_t ii = (idx / nc) % ni;
    int pi = (int)(idx / nc / ni);
    const Prim& p = P[pi];
    std::vector<int> in = inputOf(inputs[ii].second, inputs[ii].first);
    std::string name = std::string(p.name) + " in=[" + ser(in) + "] C=" + std::to_string(CONC[ci]) + " W=" + std::to_string(W);
    c.describe(name);
    std::string expect = p.f(in, false);
    vx::Explorer ex;
    vx::Config cfg;
    cfg.bound = boundFor(inputs[ii].first);
    cfg.freeCost = 0;
    cfg.workers = W;
    cfg.concurrency = CONC[ci];
    cfg.timeout = 20;
    cfg.inProcess = true;  // fork costs ~30 ms in this sandbox; executions run inside the worker, state reset by tbbrt_reset/vs_begin
    auto body = [&]() {
      kSeqThreshold = p.seqThreshold;
      verif::par_threshold = 0;
      return p.f(in, true);
    };
    bool reported = false;
    vx::Stats st = ex.explore(cfg, body, [&](const vx::Exec& e) {
      if (e.outcome != expect && !reported) {
        reported = true;
        c.viol("prim:" + std::string(p.name) + " in=[" + ser(in) + "]", name,
               "schedule " + e.scheduleStr() + " gives " + e.outcome + " expected " + expect + (e.note.empty() ? "" : " (" + e.note + ")"));
      }
      return true;
    });
    if (R.single_) fprintf(stderr, "%s: %llu executions, max %llu choice points, %zu outcomes\n", name.c_str(),
                           (unsigned long long)st.executions, (unsigned long long)st.maxTrace, st.outcomes.size());
    c.count("executions", st.executions);
    c.count("schedules_with_steals", st.withSteals);
    c.count("tasks", st.tasks);
    c.count("choice_points", st.choicePoints);
    if (st.capped) c.count("capped");
    c.distinct(hash_str(name));
    if (st.withSteals) c.nontrivial(hash_str(name));
    if (idx % 4001 == 0) {
      std::ostringstream s;
      s << name << ": " << st.executions << " schedules (" << st.withSteals << " with steals), bound " << cfg.bound << ", outcomes " << st.outcomes.size();
      c.sample(s.str());
    }
  }, {"executions", "schedules_with_steals", "tasks", "choice_points", "capped"});

  // ------------------------------------------------------------------ size literals that kSeqThreshold does not control
  // unique() works in chunks of MAX_BUFFER_SIZE = 1<<16 elements; the chunk seam is part of the input-length space
  // ("for every input length").  Inputs: lengths around one and two seams, base content with runs of equal values,
  // and EVERY assignment of a 3-letter alphabet to the 4 elements straddling each seam; schedules within bound 1.
  {
    const std::vector<size_t> LENS = thorough ? std::vector<size_t>{65536, 65537, 65538, 65540, 131072, 131073, 131075, 200000}
                                              : std::vector<size_t>{65536, 65537, 65539, 131073};
    const int WIN = 81;  // 3^4 window contents
    const Prim* uq = nullptr;
    for (auto& p : P)
      if (std::string(p.name) == "unique") uq = &p;
    R.phase("unique-chunk-seams", LENS.size() * WIN * 2, 2, [&](uint64_t idx, Ctx& c) {
      int ci = idx % 2;
      int w = (idx / 2) % WIN;
      size_t n = LENS[idx / 2 / WIN];
      std::vector<int> in(n);
      for (size_t i = 0; i < n; ++i) in[i] = (int)((i / 3) % 3);  // runs of three equal values
      std::vector<int> win = inputOf(w, 4);
      for (size_t seam = 65536; seam + 2 <= n + 1 && seam < n; seam += 65536)
        for (int k = 0; k < 4; ++k)
          if (seam - 2 + k < n) in[seam - 2 + k] = win[k];
      std::string name = "unique n=" + std::to_string(n) + " seam-window=[" + ser(win) + "] C=" + std::to_string(ci ? 4 : 2);
      c.describe(name);
      std::string expect = std::to_string(hash_str(uq->f(in, false)));
      vx::Explorer ex;
      vx::Config cfg;
      cfg.bound = 1;
      cfg.freeCost = 0;
      cfg.workers = 2;
      cfg.concurrency = ci ? 4 : 2;
      cfg.timeout = 120;
      cfg.inProcess = true;
      cfg.maxExec = thorough ? 4000 : 400;
      auto body = [&]() {
        kSeqThreshold = 10000;  // the library's own value: the seam logic is what is being exercised
        verif::par_threshold = 0;
        return std::to_string(hash_str(uq->f(in, true)));
      };
      bool reported = false;
      vx::Stats st = ex.explore(cfg, body, [&](const vx::Exec& e) {
        if (e.outcome != expect && !reported) {
          reported = true;
          std::vector<int> v = in;
          size_t got = unique(PAR, v.begin(), v.end()) - v.begin();
          std::vector<int> r = in;
          size_t want = std::unique(r.begin(), r.end()) - r.begin();
          c.viol("prim:unique n=" + std::to_string(n) + " seam-window=[" + ser(win) + "]", name,
                 "schedule " + e.scheduleStr() + ": unique(Par) keeps " + std::to_string(got) + " elements, std::unique keeps " + std::to_string(want));
        }
        return true;
      });
      c.count("executions", st.executions);
      c.count("schedules_with_steals", st.withSteals);
      c.count("tasks", st.tasks);
      c.count("choice_points", st.choicePoints);
      if (st.capped) c.count("schedule_cap_hit");
      c.distinct(hash_str(name));
      if (st.withSteals) c.nontrivial(hash_str(name));
      if (idx % 97 == 0) c.sample(name + ": " + std::to_string(st.executions) + " schedules");
    }, {"executions", "schedules_with_steals", "tasks", "choice_points", "schedule_cap_hit"});
  }

  // ------------------------------------------------------------------ radix sort: blocks large enough for the parallel histogram
  // With kSeqThreshold = 2 and max_concurrency 1 a 9..12-element uint64 sort is cut into blocks of n/4 >= 2 elements whose
  // histogram is itself a parallel_for over a tbb::combinable (one partial histogram per thread that took a chunk), merged
  // afterwards: the lengths 0..maxLen of phase "primitives" never reach that code.  All contents over a 2-letter alphabet.
  {
    const std::vector<int> LENS = thorough ? std::vector<int>{8, 9, 10, 11, 12, 13} : std::vector<int>{9, 12};
    std::vector<std::pair<int, uint32_t>> in2;
    for (int len : LENS)
      for (uint32_t code = 0; code < (1u << len); ++code) in2.push_back({len, code});
    R.phase("radix-blocks", in2.size(), 16, [&](uint64_t idx, Ctx& c) {
      int len = in2[idx].first;
      uint32_t code = in2[idx].second;
      static const uint64_t MAP[2] = {(1ull << 33) + 7, 5};
      std::vector<uint64_t> in(len);
      std::string bits;
      for (int i = 0; i < len; ++i) {
        in[i] = MAP[(code >> i) & 1] + (uint64_t(i) << 48);  // high bits make every element distinct: stability and loss are both visible
        bits += char('0' + ((code >> i) & 1));
      }
      // sorted by the low 48 bits only would need a comparator; here the full value is the key, the tag just makes a lost
      // or duplicated element visible.  A second pass sorts keys WITHOUT tags (many equal keys, skip logic of prefixSum).
      std::string name = "stable_sort(uint64,radix) n=" + std::to_string(len) + " in=" + bits + " thr=2 C=1 W=2";
      c.describe(name);
      auto run = [&](bool par, bool tagged) {
        std::vector<uint64_t> v(len);
        for (int i = 0; i < len; ++i) v[i] = tagged ? in[i] : MAP[(code >> i) & 1];
        if (par) stable_sort(PAR, v.data(), v.data() + v.size());
        else std::stable_sort(v.begin(), v.end());
        return ser(v);
      };
      std::string expect = run(false, true) + "|" + run(false, false);
      vx::Explorer ex;
      vx::Config cfg;
      cfg.bound = (thorough || len <= 9) ? 2 : 1;
      cfg.freeCost = 0;
      cfg.workers = 2;
      cfg.concurrency = 1;
      cfg.timeout = 600;
      cfg.inProcess = true;
      cfg.maxExec = thorough ? 400000 : 20000;
      auto body = [&]() {
        kSeqThreshold = 2;
        verif::par_threshold = 0;
        return run(true, true) + "|" + run(true, false);
      };
      bool reported = false;
      vx::Stats st = ex.explore(cfg, body, [&](const vx::Exec& e) {
        if (e.outcome != expect && !reported) {
          reported = true;
          c.viol("prim:radix n=" + std::to_string(len) + " in=" + bits, name, "schedule " + e.scheduleStr() + " gives " + e.outcome + " expected " + expect);
        }
        return true;
      });
      c.count("executions", st.executions);
      c.count("schedules_with_steals", st.withSteals);
      c.count("tasks", st.tasks);
      c.count("choice_points", st.choicePoints);
      if (st.capped) c.count("schedule_cap_hit");
      c.distinct(hash_str(name));
      if (st.withSteals) c.nontrivial(hash_str(name));
      if (idx % 997 == 0) c.sample(name + ": " + std::to_string(st.executions) + " schedules, " + std::to_string(st.tasks / std::max<uint64_t>(1, st.executions)) + " tasks each");
    }, {"executions", "schedules_with_steals", "tasks", "choice_points", "schedule_cap_hit"});
  }

  // ------------------------------------------------------------------ lock-free containers (engine C)
  // every interleaving (at the library's atomic operations = hook H5 yield points) of 2-3 threads
  // within the preemption bound; oracle = sequential structure on the same operations.
  verif::yield = [](const char* tag, const void*) { vs_point(tag); };

  {  // DisjointSets: unite/find on 4 elements with forced-colliding pairs
    static const int PAIRS[5][2] = {{0, 1}, {1, 2}, {2, 0}, {2, 3}, {1, 0}};
    const int npairs = 5;
    const bool three = true;
    // quick: 2 threads x 2 unites; thorough adds 3 threads x (unite, unite|find)
    std::vector<std::vector<std::vector<int>>> progs;  // per program: per thread: list of pair indices (>=100: find(x-100))
    for (int a = 0; a < npairs; ++a)
      for (int b = 0; b < npairs; ++b)
        for (int c2 = 0; c2 < npairs; ++c2)
          for (int d = 0; d < npairs; ++d) progs.push_back({{a, b}, {c2, d}});
    if (three)
      for (int a = 0; a < npairs; ++a)
        for (int b = 0; b < npairs; ++b)
          for (int c2 = 0; c2 < npairs; ++c2)
            for (int f = 0; f < 4; ++f) progs.push_back({{a, 100 + f}, {b}, {c2}});
    R.phase("disjoint-sets", progs.size(), 4, [&](uint64_t idx, Ctx& c) {
      const auto& pr = progs[idx];
      std::ostringstream nm;
      nm << "DisjointSets(4):";
      for (auto& t : pr) {
        nm << " [";
        for (int op : t) {
          if (op >= 100) nm << "find(" << op - 100 << ") ";
          else nm << "unite(" << PAIRS[op][0] << "," << PAIRS[op][1] << ") ";
        }
        nm << "]";
      }
      std::string name = nm.str();
      c.describe(name);
      // sequential reference partition
      int par[4] = {0, 1, 2, 3};
      std::function<int(int)> fnd = [&](int x) { return par[x] == x ? x : par[x] = fnd(par[x]); };
      for (auto& t : pr)
        for (int op : t)
          if (op < 100) par[fnd(PAIRS[op][0])] = fnd(PAIRS[op][1]);
      std::string expect;
      for (int i = 0; i < 4; ++i)
        for (int j = 0; j < 4; ++j) expect += fnd(i) == fnd(j) ? '1' : '0';
      vx::Explorer ex;
      vx::Config cfg;
      cfg.bound = thorough ? 4 : 3;
      cfg.freeCost = 0;
      cfg.useTbb = false;
      cfg.timeout = 20;
      cfg.inProcess = true;
      auto body = [&]() {
        verif::yield = [](const char* tag, const void*) { vs_point(tag); };
        verif::par_threshold = 1 << 30;  // constructor loop stays sequential
        DisjointSets ds(4);
        std::string bad;
        std::vector<std::function<void()>> fs;
        for (auto& t : pr)
          fs.push_back([&ds, &t, &bad] {
            for (int op : t) {
              if (op >= 100) {
                size_t r = ds.find(op - 100);
                if (r >= 4) bad = "find out of range";
              } else {
                size_t r = ds.unite(PAIRS[op][0], PAIRS[op][1]);
                if (r >= 4) bad = "unite returned out of range";
              }
            }
          });
        std::vector<int> tids;
        for (auto& f : fs) tids.push_back(vs_thread_create([](void* p) { (*(std::function<void()>*)p)(); }, &f));
        for (int t : tids) vs_thread_join(t);
        verif::yield = nullptr;  // quiescent from here on
        std::string out;
        for (int i = 0; i < 4; ++i)
          for (int j = 0; j < 4; ++j) out += ds.find(i) == ds.find(j) ? '1' : '0';
        std::string again;
        for (int i = 0; i < 4; ++i)
          for (int j = 0; j < 4; ++j) again += ds.find(i) == ds.find(j) ? '1' : '0';
        if (again != out) bad = "find not stable after quiescence";
        for (int i = 0; i < 4; ++i)
          for (int j = 0; j < 4; ++j)
            if (ds.same(i, j) != (out[i * 4 + j] == '1')) bad = "same() disagrees with find()";
        std::vector<int> comp;
        int nc = ds.connectedComponents(comp);
        int distinctRoots = 0;
        for (int i = 0; i < 4; ++i) {
          bool first = true;
          for (int j = 0; j < i; ++j)
            if (out[i * 4 + j] == '1') first = false;
          distinctRoots += first;
        }
        if (nc != distinctRoots) bad = "connectedComponents count wrong";
        for (int i = 0; i < 4; ++i)
          for (int j = 0; j < 4; ++j)
            if ((comp[i] == comp[j]) != (out[i * 4 + j] == '1')) bad = "connectedComponents labels wrong";
        return bad.empty() ? out : "BAD " + bad + " " + out;
      };
      bool reported = false;
      vx::Stats st = ex.explore(cfg, body, [&](const vx::Exec& e) {
        if (e.outcome != expect && !reported) {
          reported = true;
          c.viol("ds:" + name, name, "schedule " + e.scheduleStr() + " gives " + e.outcome + " expected " + expect + (e.note.empty() ? "" : " (" + e.note + ")"));
        }
        return true;
      });
      if (R.single_) fprintf(stderr, "%s: %llu executions, max %llu choice points, %zu outcomes\n", name.c_str(),
                             (unsigned long long)st.executions, (unsigned long long)st.maxTrace, st.outcomes.size());
      c.count("executions", st.executions);
      c.count("choice_points", st.choicePoints);
      if (st.capped) c.count("capped");
      c.distinct(hash_str(name));
      if (st.executions > 1) c.nontrivial(hash_str(name));
      if (idx % 97 == 0) {
        std::ostringstream s2;
        s2 << name << ": " << st.executions << " interleavings, bound " << cfg.bound;
        c.sample(s2.str());
      }
    }, {"executions", "choice_points", "capped"});
  }

  {  // HashTableD: concurrent inserts with colliding home slots / duplicate keys, below and at the Full() limit
    struct Ins {
      uint64_t key;
      int val;
    };
    // identity hash: keys 1,5,9 share home slot 1 in a table of 4 or 8... (8: 1 and 9)
    static const Ins ALPHA[6] = {{1, 10}, {5, 50}, {9, 90}, {1, 11}, {2, 20}, {13, 130}};
    const int na = 6;
    std::vector<std::pair<int, std::vector<std::vector<int>>>> progs;  // (table size, threads -> inserts)
    for (int size : {8, 4})
      for (int a = 0; a < na; ++a)
        for (int b = 0; b < na; ++b)
          for (int c2 = 0; c2 < na; ++c2)
            for (int d = 0; d < na; ++d) progs.push_back({size, {{a, b}, {c2, d}}});
    if (true)
      for (int size : {8, 4})
        for (int a = 0; a < na; ++a)
          for (int b = 0; b < na; ++b)
            for (int c2 = 0; c2 < na; ++c2) progs.push_back({size, {{a}, {b}, {c2}}});
    R.phase("hashtable", progs.size(), 4, [&](uint64_t idx, Ctx& c) {
      const auto& pr = progs[idx];
      std::ostringstream nm;
      nm << "HashTable(" << pr.first << "):";
      for (auto& t : pr.second) {
        nm << " [";
        for (int op : t) nm << "Insert(" << ALPHA[op].key << "," << ALPHA[op].val << ") ";
        nm << "]";
      }
      std::string name = nm.str();
      c.describe(name);
      vx::Explorer ex;
      vx::Config cfg;
      cfg.bound = thorough ? 4 : 3;
      cfg.freeCost = 0;
      cfg.useTbb = false;
      cfg.inProcess = true;
      auto body = [&]() {
        verif::yield = [](const char* tag, const void*) { vs_point(tag); };
        verif::par_threshold = 1 << 30;
        HashTable<int, identityHash> table(pr.first);
        auto d = table.D();
        std::vector<std::function<void()>> fs;
        for (auto& t : pr.second)
          fs.push_back([&d, &t] {
            for (int op : t) d.Insert(ALPHA[op].key, ALPHA[op].val);
          });
        std::vector<int> tids;
        for (auto& f : fs) tids.push_back(vs_thread_create([](void* p) { (*(std::function<void()>*)p)(); }, &f));
        for (int t : tids) vs_thread_join(t);
        verif::yield = nullptr;
        std::string bad;
        bool full = table.Full();
        // structural: no key in two slots, used == occupied slots
        int occupied = 0;
        for (int i = 0; i < d.Size(); ++i) {
          uint64_t k = d.KeyAt(i);
          if (k == kOpen) continue;
          ++occupied;
          for (int j = 0; j < i; ++j)
            if (d.KeyAt(j) == k) bad = "key claimed two slots";
        }
        if (occupied != table.Entries()) bad = "Entries() != occupied slots";
        for (auto& t : pr.second)
          for (int op : t) {
            uint64_t k = ALPHA[op].key;
            bool present = false;
            for (int i = 0; i < d.Size(); ++i)
              if (d.KeyAt(i) == k) present = true;
            if (!present) {
              if (!full) bad = "inserted key lost although the table is not Full";
              continue;
            }
            int v = d[k];
            bool okv = false;
            for (auto& t2 : pr.second)
              for (int op2 : t2)
                if (ALPHA[op2].key == k && ALPHA[op2].val == v) okv = true;
            if (!okv) bad = "key " + std::to_string(k) + " maps to a value never inserted for it: " + std::to_string(v);
          }
        return bad.empty() ? std::string("ok") : "BAD " + bad;
      };
      bool reported = false;
      vx::Stats st = ex.explore(cfg, body, [&](const vx::Exec& e) {
        if (e.outcome != "ok" && !reported) {
          reported = true;
          c.viol("ht:" + name, name, "schedule " + e.scheduleStr() + " gives " + e.outcome + (e.note.empty() ? "" : " (" + e.note + ")"));
        }
        return true;
      });
      if (R.single_) fprintf(stderr, "%s: %llu executions, max %llu choice points, %zu outcomes\n", name.c_str(),
                             (unsigned long long)st.executions, (unsigned long long)st.maxTrace, st.outcomes.size());
      c.count("executions", st.executions);
      c.count("choice_points", st.choicePoints);
      if (st.capped) c.count("capped");
      c.distinct(hash_str(name));
      if (st.executions > 1) c.nontrivial(hash_str(name));
      if (idx % 97 == 0) {
        std::ostringstream s2;
        s2 << name << ": " << st.executions << " interleavings, bound " << cfg.bound;
        c.sample(s2.str());
      }
    }, {"executions", "choice_points", "capped"});
  }
  return R.finish();
}
