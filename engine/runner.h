// Exhaustive case runner shared by all harnesses (engine S / F front end).
//
// A harness declares one or more *phases*; a phase is a finite index space
// [0,N) (inputs of one call, programs in mixed-radix order, fault points ...)
// plus a function that executes case `idx` on the real library and judges it.
// The runner enumerates the WHOLE space (never samples) on W worker processes
// that pull chunks from a shared atomic cursor.  A worker that dies (signal,
// sanitizer abort) or exceeds the per-case watchdog is an *outcome* of the case
// it was running - recorded as a violation - and a fresh worker takes over
// with the next case.  Counters, the distinct-state set (lock-free open
// addressing in shared memory) and samples are aggregated across workers.
//
// Output protocol (stdout, one JSON object per line):
//   {"t":"viol", "phase":..,"idx":..,"key":..,"desc":..,"detail":..}
//   {"t":"phase","phase":..,"N":..,"done":..,"exhaustive":..,"counters":{..},
//    "distinct":..,"nontrivial":..,"samples":[..],"viol":..,"wall_s":..}
// `--case phase:idx` runs a single case in-process: the stand-alone replay.
#pragma once
#include <sys/mman.h>
#include <sys/wait.h>
#include <unistd.h>
#include <fcntl.h>
#include <signal.h>
#include <time.h>

#include <algorithm>
#include <atomic>
#include <cinttypes>
#include <cstdint>
#include <cstdio>
#include <cstdlib>
#include <cstring>
#include <functional>
#include <map>
#include <string>
#include <vector>

namespace vf {

inline double now_s() {
  timespec ts;
  clock_gettime(CLOCK_MONOTONIC, &ts);
  return ts.tv_sec + 1e-9 * ts.tv_nsec;
}
inline double cpu_s(pid_t pid = 0) {  // CPU time consumed by a process (0 = self); -1 if unknown
  clockid_t cid = CLOCK_PROCESS_CPUTIME_ID;
  if (pid != 0 && clock_getcpuclockid(pid, &cid) != 0) return -1;
  timespec ts;
  if (clock_gettime(cid, &ts) != 0) return -1;
  return ts.tv_sec + 1e-9 * ts.tv_nsec;
}

inline std::string jesc(const std::string& s) {
  std::string o;
  o.reserve(s.size() + 8);
  for (unsigned char c : s) {
    if (c == '"' || c == '\\') {
      o += '\\';
      o += c;
    } else if (c == '\n') {
      o += "\\n";
    } else if (c == '\t') {
      o += "\\t";
    } else if (c < 0x20 || c >= 0x7f) {
      char b[8];
      snprintf(b, sizeof b, "\\u%04x", c);
      o += b;
    } else
      o += c;
  }
  return o;
}

inline uint64_t mix64(uint64_t x) {
  x ^= x >> 33;
  x *= 0xff51afd7ed558ccdULL;
  x ^= x >> 33;
  x *= 0xc4ceb9fe1a85ec53ULL;
  x ^= x >> 33;
  return x;
}
inline uint64_t hash_bytes(const void* p, size_t n, uint64_t h = 0xcbf29ce484222325ULL) {
  const unsigned char* c = (const unsigned char*)p;
  // 8 bytes at a time, then tail; not cryptographic, collision odds ~2^-64 per pair
  while (n >= 8) {
    uint64_t w;
    memcpy(&w, c, 8);
    h = mix64(h ^ w) * 0x9e3779b97f4a7c15ULL + 0x1234567;
    c += 8;
    n -= 8;
  }
  uint64_t w = 0;
  memcpy(&w, c, n);
  h = mix64(h ^ w ^ (uint64_t(n) << 56));
  return h;
}
inline uint64_t hash_str(const std::string& s) { return hash_bytes(s.data(), s.size()); }

constexpr int kMaxCounters = 96;
constexpr int kMaxWorkers = 64;
constexpr int kMaxSamples = 6;
constexpr int kSampleLen = 600;
constexpr int kDescLen = 1000;

struct Shared {
  std::atomic<uint64_t> cursor;
  std::atomic<uint64_t> done;
  std::atomic<int> stop;
  std::atomic<uint64_t> viol;
  std::atomic<uint64_t> distinct, nontrivial, distinctCapped;
  std::atomic<int64_t> counters[kMaxCounters];
  std::atomic<int> nsamples;
  char samples[kMaxSamples][kSampleLen];
  struct W {
    std::atomic<uint64_t> cur;     // case being run (UINT64_MAX = idle)
    std::atomic<uint64_t> chunkEnd;
    std::atomic<double> started;   // wall time the case started
    std::atomic<double> startedCpu;  // CPU time of the worker process when the case started
    char desc[kDescLen];
  } w[kMaxWorkers];
};

struct Args {
  std::string id, tier = "quick";
  int workers = 16;
  double deadline = 1e18;  // absolute, now_s() based
  std::string onlyCase;    // "phase:idx"
  std::string onlyPhase;
  long seed = 0;
  double caseTimeout = 60;
  bool thorough() const { return tier == "thorough"; }
};

class Runner;

struct Ctx {
  Runner* r;
  int wid;
  uint64_t idx;
  std::string phase;
  void viol(const std::string& key, const std::string& desc, const std::string& detail = "");
  // report under another (replay-only) phase/index, e.g. a BFS state encoded as an integer
  void violAt(const std::string& phase, uint64_t idx, const std::string& key, const std::string& desc,
              const std::string& detail = "");
  void count(const char* name, int64_t add = 1);
  bool distinct(uint64_t h);          // true if new
  // like distinct(), and remembers the SMALLEST `tag` seen for this hash (deterministic representative of a
  // state however the workers race); Runner::minTags() returns (hash, tag) pairs after the phase
  bool distinctMin(uint64_t h, uint64_t tag);
  bool nontrivial(uint64_t h);        // true if new
  void sample(const std::string& s);  // first few are kept
  void describe(const std::string& s);  // what the worker is about to run (crash attribution)
  void emit(const std::string& line);   // data for the parent (e.g. BFS frontier); returned by phase()
};

using CaseFn = std::function<void(uint64_t, Ctx&)>;

class Runner {
 public:
  Args a;
  Runner(const char* id, int argc, char** argv) {
    a.id = id;
    double budget = 0;
    for (int i = 1; i < argc; ++i) {
      std::string s = argv[i];
      auto nxt = [&]() -> std::string { return i + 1 < argc ? argv[++i] : ""; };
      if (s == "--tier") a.tier = nxt();
      else if (s == "--workers") a.workers = atoi(nxt().c_str());
      else if (s == "--budget") budget = atof(nxt().c_str());
      else if (s == "--case") a.onlyCase = nxt();
      else if (s == "--phase") a.onlyPhase = nxt();
      else if (s == "--seed") a.seed = atol(nxt().c_str());
      else if (s == "--case-timeout") a.caseTimeout = atof(nxt().c_str());
    }
    if (a.workers < 1) a.workers = 1;
    if (a.workers > kMaxWorkers) a.workers = kMaxWorkers;
    if (budget > 0) a.deadline = now_s() + budget;
    setvbuf(stdout, nullptr, _IOLBF, 0);
  }

  // Names registered up-front so every process agrees on counter slots.
  int counterSlot(const char* name) {
    auto it = slots_.find(name);
    if (it != slots_.end()) return it->second;
    int s = (int)slots_.size();
    if (s >= kMaxCounters) {
      fprintf(stderr, "too many counters\n");
      abort();
    }
    slots_[name] = s;
    return s;
  }

  // chunk: number of consecutive indices a worker takes at once (prefix reuse)
  std::vector<std::string> phase(const std::string& name, uint64_t N, uint64_t chunk, CaseFn fn,
                                 std::vector<const char*> counterNames = {}, size_t distinctLog2 = 22) {
    std::vector<std::string> emitted;
    if (!a.onlyPhase.empty() && a.onlyPhase != name) return emitted;
    slots_.clear();
    for (auto c : counterNames) counterSlot(c);
    phase_ = name;
    if (!a.onlyCase.empty()) {
      auto p = a.onlyCase.find(':');
      if (a.onlyCase.substr(0, p) != name) return emitted;
      uint64_t idx = strtoull(a.onlyCase.c_str() + p + 1, nullptr, 10);
      if (idx >= N && N != 0) {
        fprintf(stderr, "--case %s: index out of range (phase has %llu cases)\n", a.onlyCase.c_str(), (unsigned long long)N);
        exit(2);
      }
      single_ = true;
      allocShared(10);
      Ctx c{this, 0, idx, name};
      fn(idx, c);
      printf("{\"t\":\"single\",\"phase\":\"%s\",\"idx\":%" PRIu64 ",\"viol\":%" PRIu64 "}\n",
             name.c_str(), idx, sh_->viol.load());
      totalViol_ += sh_->viol.load();
      freeShared();
      return emitted;
    }
    double t0 = now_s();
    allocShared(distinctLog2);
    emitPath_ = errFile(1000) + ".emit";
    unlink(emitPath_.c_str());
    emitFd_ = open(emitPath_.c_str(), O_WRONLY | O_CREAT | O_APPEND, 0644);
    if (chunk < 1) chunk = 1;
    std::vector<pid_t> pid(a.workers, 0);
    auto spawn = [&](int wi) {
      fflush(stdout);
      pid_t p = fork();
      if (p == 0) {
        workerLoop(wi, N, chunk, fn);
        fflush(stdout);
        _exit(0);
      }
      pid[wi] = p;
    };
    int W = a.workers;
    if ((uint64_t)W > (N + chunk - 1) / chunk) W = (int)((N + chunk - 1) / chunk);
    if (W < 1) W = 1;
    for (int i = 0; i < W; ++i) {
      sh_->w[i].cur = UINT64_MAX;
      spawn(i);
    }
    int live = W;
    while (live > 0) {
      int st = 0;
      pid_t p = waitpid(-1, &st, WNOHANG);
      if (p > 0) {
        int wi = -1;
        for (int i = 0; i < W; ++i)
          if (pid[i] == p) wi = i;
        if (wi < 0) continue;
        bool clean = WIFEXITED(st) && WEXITSTATUS(st) == 0;
        if (clean) {
          pid[wi] = 0;
          --live;
          continue;
        }
        // the worker died inside a case: that is the case's outcome
        uint64_t cur = sh_->w[wi].cur.load();
        std::string why = WIFSIGNALED(st) ? "signal " + std::to_string(WTERMSIG(st))
                                          : "exit " + std::to_string(WEXITSTATUS(st));
        if (killed_[wi]) why = "watchdog: case exceeded " + std::to_string((int)a.caseTimeout) + " s of CPU time (or 30x that asleep)";
        killed_[wi] = false;
        std::string d(sh_->w[wi].desc);
        std::string err = readErr(wi);
        if (cur != UINT64_MAX) {
          emitViol(name, cur, std::string(why.rfind("watchdog", 0) == 0 ? "hang:" : "crash:") + d,
                   d, why + "\n" + err);
          sh_->done++;
          // resume the rest of this worker's chunk, then the shared cursor
          uint64_t ce = sh_->w[wi].chunkEnd.load();
          resumeFrom_[wi] = cur + 1 < ce ? cur + 1 : UINT64_MAX;
          resumeEnd_[wi] = ce;
        } else {
          emitViol(name, 0, "crash-outside-case", "worker died outside any case", why + "\n" + err);
        }
        sh_->w[wi].cur = UINT64_MAX;
        if (!sh_->stop.load()) {
          spawn(wi);
        } else {
          pid[wi] = 0;
          --live;
        }
        continue;
      }
      // watchdog + deadline
      double t = now_s();
      if ((t > a.deadline || (phaseDeadline_ > 0 && t > phaseDeadline_)) && !sh_->stop.load()) sh_->stop = 1;
      for (int i = 0; i < W; ++i) {
        if (!pid[i]) continue;
        // The watchdog judges CPU time, not wall time: an overloaded or briefly frozen machine must not
        // turn into a "hang".  A case that sleeps forever is caught by a (much larger) wall limit.
        if (sh_->w[i].cur.load() != UINT64_MAX && t - sh_->w[i].started.load() > a.caseTimeout && !killed_[i]) {
          double cpuNow = cpu_s(pid[i]);
          bool burnt = cpuNow >= 0 && cpuNow - sh_->w[i].startedCpu.load() > a.caseTimeout;
          bool asleep = t - sh_->w[i].started.load() > 30 * a.caseTimeout;
          if ((burnt || asleep) && sh_->w[i].cur.load() != UINT64_MAX) {
            killed_[i] = true;
            kill(pid[i], SIGKILL);
          }
        }
      }
      usleep(2000);
    }
    uint64_t done = sh_->done.load();
    bool ex = done >= N && !sh_->stop.load();
    phaseDeadline_ = 0;  // a per-phase limit applies to one phase only
    std::string s = "{\"t\":\"phase\",\"phase\":\"" + jesc(name) + "\",\"N\":" + std::to_string(N) +
                    ",\"done\":" + std::to_string(done) + ",\"exhaustive\":" + (ex ? "true" : "false") +
                    ",\"counters\":{";
    bool first = true;
    for (auto& kv : slots_) {
      if (!first) s += ",";
      first = false;
      s += "\"" + jesc(kv.first) + "\":" + std::to_string(sh_->counters[kv.second].load());
    }
    s += "},\"distinct\":" + std::to_string(sh_->distinct.load()) +
         ",\"nontrivial\":" + std::to_string(sh_->nontrivial.load()) +
         ",\"distinct_capped\":" + std::to_string(sh_->distinctCapped.load()) + ",\"samples\":[";
    int ns = std::min(sh_->nsamples.load(), kMaxSamples);
    for (int i = 0; i < ns; ++i) {
      if (i) s += ",";
      s += "\"" + jesc(sh_->samples[i]) + "\"";
    }
    char tail[128];
    snprintf(tail, sizeof tail, "],\"viol\":%" PRIu64 ",\"wall_s\":%.3f}", sh_->viol.load(), now_s() - t0);
    s += tail;
    puts(s.c_str());
    totalViol_ += sh_->viol.load();
    if (usedMin_) {
      uint64_t n = 1ULL << setLog2_;
      for (uint64_t i = 0; i < n; ++i) {
        uint64_t v = valA_[i].load(std::memory_order_relaxed);
        if (v) minTags_.push_back({setA_[i].load(std::memory_order_relaxed), v - 1});
      }
      std::sort(minTags_.begin(), minTags_.end(),
                [](const std::pair<uint64_t, uint64_t>& x, const std::pair<uint64_t, uint64_t>& y) { return x.second < y.second; });
    }
    freeShared();
    if (emitFd_ >= 0) {
      close(emitFd_);
      emitFd_ = -1;
      FILE* f = fopen(emitPath_.c_str(), "r");
      if (f) {
        char* line = nullptr;
        size_t cap = 0;
        ssize_t n;
        while ((n = getline(&line, &cap, f)) > 0) {
          if (line[n - 1] == '\n') --n;
          emitted.emplace_back(line, n);
        }
        free(line);
        fclose(f);
      }
      unlink(emitPath_.c_str());
    }
    return emitted;
  }
  int emitFd_ = -1;
  std::string emitPath_;
  bool usedMin_ = false;  // set by the harness before a phase that uses distinctMin

  // a phase that exists only for stand-alone replay (`--case name:idx`)
  void replayOnly(const std::string& name, CaseFn fn) {
    if (a.onlyCase.empty()) return;
    phase(name, 0, 1, fn);
  }

  int finish() {
    fflush(stdout);
    return totalViol_ ? 1 : 0;
  }

  // --- used by Ctx
  Shared* sh_ = nullptr;
  void emitViol(const std::string& phase, uint64_t idx, const std::string& key,
                const std::string& desc, const std::string& detail) {
    uint64_t n = sh_->viol.fetch_add(1);
    if (n >= 4000) return;  // flood guard; the count stays exact
    std::string det = detail.size() > 2500 ? detail.substr(0, 2500) + "..." : detail;
    std::string dsc = desc.size() > 600 ? desc.substr(0, 600) + "..." : desc;
    std::string k = key.size() > 600 ? key.substr(0, 560) + "#" + std::to_string(hash_str(key)) : key;
    std::string s = "{\"t\":\"viol\",\"phase\":\"" + jesc(phase) + "\",\"idx\":" + std::to_string(idx) +
                    ",\"key\":\"" + jesc(k) + "\",\"desc\":\"" + jesc(dsc) + "\",\"detail\":\"" +
                    jesc(det) + "\"}\n";
    // one write() per line keeps lines whole across processes
    ssize_t r = write(1, s.data(), s.size());
    (void)r;
  }
  bool insertSet(std::atomic<uint64_t>* tab, uint64_t h) {
    if (h == 0) h = 1;
    uint64_t mask = (1ULL << setLog2_) - 1;
    uint64_t i = mix64(h) & mask;
    for (uint64_t probe = 0; probe < 4096; ++probe) {
      uint64_t v = tab[i].load(std::memory_order_relaxed);
      if (v == h) return false;
      if (v == 0) {
        uint64_t exp = 0;
        if (tab[i].compare_exchange_strong(exp, h)) return true;
        if (exp == h) return false;
      }
      i = (i + 1) & mask;
    }
    sh_->distinctCapped++;
    return false;
  }
  std::atomic<uint64_t>* setA_ = nullptr;
  std::atomic<uint64_t>* setB_ = nullptr;
  std::atomic<uint64_t>* valA_ = nullptr;  // min tag + 1 per slot of setA_ (0 = none)
  std::vector<std::pair<uint64_t, uint64_t>> minTags_;
  const std::vector<std::pair<uint64_t, uint64_t>>& minTags() const { return minTags_; }
  int64_t slotOf(std::atomic<uint64_t>* tab, uint64_t h, bool* isNew) {
    if (h == 0) h = 1;
    uint64_t mask = (1ULL << setLog2_) - 1;
    uint64_t i = mix64(h) & mask;
    for (uint64_t probe = 0; probe < 4096; ++probe) {
      uint64_t v = tab[i].load(std::memory_order_relaxed);
      if (v == h) {
        *isNew = false;
        return (int64_t)i;
      }
      if (v == 0) {
        uint64_t exp = 0;
        if (tab[i].compare_exchange_strong(exp, h)) {
          *isNew = true;
          return (int64_t)i;
        }
        if (exp == h) {
          *isNew = false;
          return (int64_t)i;
        }
      }
      i = (i + 1) & mask;
    }
    sh_->distinctCapped++;
    *isNew = false;
    return -1;
  }
  std::map<std::string, int> slots_;
  bool single_ = false;
  // Share of the REMAINING run budget that the next phase may use (so that one huge phase cannot starve the ones
  // behind it); a phase stopped by it reports exhaustive:false like one stopped by the run's deadline.
  double phaseDeadline_ = 0;
  void limitNextPhase(double fractionOfRemaining) {
    double rem = a.deadline - now_s();
    phaseDeadline_ = (a.deadline < 1e17 && rem > 0) ? now_s() + rem * fractionOfRemaining : 0;
  }
  size_t setLog2_ = 22;

 private:
  std::string phase_;
  uint64_t totalViol_ = 0;
  bool killed_[kMaxWorkers] = {};
  uint64_t resumeFrom_[kMaxWorkers];
  uint64_t resumeEnd_[kMaxWorkers];
  bool resumeInit_ = false;

  void allocShared(size_t log2) {
    setLog2_ = log2;
    size_t n = sizeof(Shared);
    sh_ = (Shared*)mmap(nullptr, n, PROT_READ | PROT_WRITE, MAP_SHARED | MAP_ANONYMOUS, -1, 0);
    memset((void*)sh_, 0, n);
    size_t sb = sizeof(uint64_t) << log2;
    setA_ = (std::atomic<uint64_t>*)mmap(nullptr, sb, PROT_READ | PROT_WRITE,
                                         MAP_SHARED | MAP_ANONYMOUS | MAP_NORESERVE, -1, 0);
    setB_ = (std::atomic<uint64_t>*)mmap(nullptr, sb, PROT_READ | PROT_WRITE,
                                         MAP_SHARED | MAP_ANONYMOUS | MAP_NORESERVE, -1, 0);
    valA_ = (std::atomic<uint64_t>*)mmap(nullptr, sb, PROT_READ | PROT_WRITE,
                                         MAP_SHARED | MAP_ANONYMOUS | MAP_NORESERVE, -1, 0);
    minTags_.clear();
    for (int i = 0; i < kMaxWorkers; ++i) {
      resumeFrom_[i] = UINT64_MAX;
      resumeEnd_[i] = 0;
      killed_[i] = false;
    }
  }
  void freeShared() {
    munmap((void*)valA_, sizeof(uint64_t) << setLog2_);
    munmap((void*)sh_, sizeof(Shared));
    munmap((void*)setA_, sizeof(uint64_t) << setLog2_);
    munmap((void*)setB_, sizeof(uint64_t) << setLog2_);
    sh_ = nullptr;
  }
  std::string errFile(int wi) {
    const char* d = getenv("VERIF_RUN_DIR");
    std::string dir = d ? d : ".";
    return dir + "/" + a.id + ".w" + std::to_string(wi) + ".err";
  }
  std::string readErr(int wi) {
    std::string p = errFile(wi);
    FILE* f = fopen(p.c_str(), "r");
    if (!f) return "";
    std::string s;
    char buf[4096];
    size_t n;
    while ((n = fread(buf, 1, sizeof buf, f)) > 0) {
      s.append(buf, n);
      if (s.size() > 1 << 16) break;
    }
    fclose(f);
    unlink(p.c_str());
    // keep the informative head of a sanitizer report
    auto q = s.find("ERROR:");
    if (q != std::string::npos && q > 200) s = s.substr(q - 100);
    if (s.size() > 2000) s = s.substr(0, 2000);
    return s;
  }
  void workerLoop(int wi, uint64_t N, uint64_t chunk, CaseFn& fn) {
    // stderr of the worker goes to a file so a sanitizer report can be attached
    std::string ep = errFile(wi);
    int fd = open(ep.c_str(), O_WRONLY | O_CREAT | O_TRUNC, 0644);
    if (fd >= 0) {
      dup2(fd, 2);
      close(fd);
    }
    Ctx c{this, wi, 0, phase_};
    auto runRange = [&](uint64_t b, uint64_t e) {
      sh_->w[wi].chunkEnd = e;
      for (uint64_t i = b; i < e; ++i) {
        if (sh_->stop.load(std::memory_order_relaxed)) return false;
        c.idx = i;
        sh_->w[wi].desc[0] = 0;
        sh_->w[wi].started = now_s();
        sh_->w[wi].startedCpu = cpu_s();
        sh_->w[wi].cur = i;
        fn(i, c);
        sh_->w[wi].cur = UINT64_MAX;
        sh_->done.fetch_add(1, std::memory_order_relaxed);
      }
      return true;
    };
    if (resumeFrom_[wi] != UINT64_MAX) {
      uint64_t b = resumeFrom_[wi], e = resumeEnd_[wi];
      resumeFrom_[wi] = UINT64_MAX;
      if (!runRange(b, e)) {
        unlink(ep.c_str());
        return;
      }
    }
    for (;;) {
      uint64_t b = sh_->cursor.fetch_add(chunk);
      if (b >= N) break;
      uint64_t e = std::min(N, b + chunk);
      if (!runRange(b, e)) break;
    }
    unlink(ep.c_str());
  }
};

inline void Ctx::viol(const std::string& key, const std::string& desc, const std::string& detail) {
  r->emitViol(phase, idx, key, desc, detail);
}
inline void Ctx::violAt(const std::string& ph, uint64_t i, const std::string& key, const std::string& desc,
                        const std::string& detail) {
  r->emitViol(ph, i, key, desc, detail);
}
inline void Ctx::count(const char* name, int64_t add) {
  if (r->single_) return;
  auto it = r->slots_.find(name);
  if (it == r->slots_.end()) {
    fprintf(stderr, "counter %s not registered\n", name);
    abort();
  }
  r->sh_->counters[it->second].fetch_add(add, std::memory_order_relaxed);
}
inline bool Ctx::distinct(uint64_t h) {
  bool n = r->insertSet(r->setA_, h);
  if (n) r->sh_->distinct.fetch_add(1, std::memory_order_relaxed);
  return n;
}
inline bool Ctx::distinctMin(uint64_t h, uint64_t tag) {
  bool isNew = false;
  int64_t slot = r->slotOf(r->setA_, h, &isNew);
  if (slot < 0) return false;
  if (isNew) r->sh_->distinct.fetch_add(1, std::memory_order_relaxed);
  uint64_t want = tag + 1, cur = r->valA_[slot].load(std::memory_order_relaxed);
  while ((cur == 0 || want < cur) && !r->valA_[slot].compare_exchange_weak(cur, want)) {
  }
  return isNew;
}
inline bool Ctx::nontrivial(uint64_t h) {
  bool n = r->insertSet(r->setB_, h);
  if (n) r->sh_->nontrivial.fetch_add(1, std::memory_order_relaxed);
  return n;
}
inline void Ctx::sample(const std::string& s) {
  if (r->sh_->nsamples.load(std::memory_order_relaxed) >= kMaxSamples) return;
  int i = r->sh_->nsamples.fetch_add(1);
  if (i >= kMaxSamples) return;
  snprintf(r->sh_->samples[i], kSampleLen, "%s", s.c_str());
}
inline void Ctx::emit(const std::string& line) {
  if (r->emitFd_ < 0) return;
  std::string l = line + "\n";
  ssize_t w = write(r->emitFd_, l.data(), l.size());  // O_APPEND: whole-line atomic
  (void)w;
}
inline void Ctx::describe(const std::string& s) {
  snprintf(r->sh_->w[wid].desc, kDescLen, "%s", s.c_str());
}

// mixed radix helper: idx -> digits (most significant first)
inline std::vector<int> digits(uint64_t idx, const std::vector<int>& radix) {
  std::vector<int> d(radix.size());
  for (int i = (int)radix.size() - 1; i >= 0; --i) {
    d[i] = (int)(idx % radix[i]);
    idx /= radix[i];
  }
  return d;
}
inline uint64_t product(const std::vector<int>& radix) {
  uint64_t p = 1;
  for (int r : radix) p *= (uint64_t)r;
  return p;
}

}  // namespace vf
