// Canonical forms and hashes of exported meshes / polygons.
#pragma once
#include <algorithm>
#include <array>
#include <cstring>
#include <map>
#include <string>
#include <vector>

#include "engine/runner.h"
#include "manifold/cross_section.h"
#include "manifold/manifold.h"

namespace vf {

template <typename T>
inline uint64_t hashVec(const std::vector<T>& v, uint64_t h) {
  uint64_t n = v.size();
  h = hash_bytes(&n, 8, h);
  if (!v.empty()) h = hash_bytes(v.data(), v.size() * sizeof(T), h);
  return h;
}

// every byte of every field, in order: the "bit-identical" fingerprint
template <typename M>
inline uint64_t byteHash(const M& m, bool withIDs = true) {
  uint64_t h = 0x1234;
  uint64_t np = m.numProp;
  h = hash_bytes(&np, 8, h);
  h = hashVec(m.vertProperties, h);
  h = hashVec(m.triVerts, h);
  h = hashVec(m.mergeFromVert, h);
  h = hashVec(m.mergeToVert, h);
  h = hashVec(m.runIndex, h);
  if (withIDs) h = hashVec(m.runOriginalID, h);
  else {
    // IDs up to order-preserving renaming
    std::map<uint32_t, uint32_t> rk;
    for (auto id : m.runOriginalID) rk[id] = 0;
    uint32_t k = 0;
    for (auto& kv : rk) kv.second = k++;
    std::vector<uint32_t> r;
    for (auto id : m.runOriginalID) r.push_back(rk[id]);
    h = hashVec(r, h);
  }
  h = hashVec(m.runTransform, h);
  h = hashVec(m.runFlags, h);
  h = hashVec(m.faceID, h);
  h = hashVec(m.halfedgeTangent, h);
  auto tol = m.tolerance;
  h = hash_bytes(&tol, sizeof tol, h);
  return h;
}

inline uint64_t polyHash(const manifold::Polygons& p) {
  uint64_t h = 0x77;
  uint64_t n = p.size();
  h = hash_bytes(&n, 8, h);
  for (auto& c : p) h = hashVec(c, h);
  return h;
}

// geometry up to renumbering: sorted positions, triangles over position ranks
// rotated to smallest-first and sorted.
template <typename M>
inline uint64_t canonGeomHash(const M& m) {
  size_t np = m.numProp, nv = np ? m.vertProperties.size() / np : 0, nt = m.triVerts.size() / 3;
  using P = std::array<double, 3>;
  std::vector<P> pos(nv);
  for (size_t i = 0; i < nv; ++i)
    pos[i] = {(double)m.vertProperties[i * np], (double)m.vertProperties[i * np + 1],
              (double)m.vertProperties[i * np + 2]};
  std::vector<P> sorted = pos;
  std::sort(sorted.begin(), sorted.end());
  sorted.erase(std::unique(sorted.begin(), sorted.end()), sorted.end());
  auto rank = [&](const P& p) {
    return (uint32_t)(std::lower_bound(sorted.begin(), sorted.end(), p) - sorted.begin());
  };
  std::vector<std::array<uint32_t, 3>> tris(nt);
  for (size_t t = 0; t < nt; ++t) {
    std::array<uint32_t, 3> v;
    for (int k = 0; k < 3; ++k) v[k] = (size_t)m.triVerts[3 * t + k] < nv ? rank(pos[m.triVerts[3 * t + k]]) : ~0u;
    int mn = 0;
    for (int k = 1; k < 3; ++k)
      if (v[k] < v[mn]) mn = k;
    tris[t] = {v[mn], v[(mn + 1) % 3], v[(mn + 2) % 3]};
  }
  std::sort(tris.begin(), tris.end());
  uint64_t h = 0x99;
  h = hashVec(sorted, h);
  h = hashVec(tris, h);
  return h;
}

// Everything observable about a Manifold through cheap getters + export
inline uint64_t fingerprint(const manifold::Manifold& m, bool withIDs = true) {
  uint64_t h = 0x5151;
  int st = (int)m.Status();
  h = hash_bytes(&st, sizeof st, h);
  auto g = m.GetMeshGL64();
  uint64_t b = byteHash(g, withIDs);
  h = hash_bytes(&b, 8, h);
  size_t c[5] = {m.NumVert(), m.NumEdge(), m.NumTri(), m.NumProp(), m.NumPropVert()};
  h = hash_bytes(c, sizeof c, h);
  manifold::Box bb = m.BoundingBox();
  h = hash_bytes(&bb, sizeof bb, h);
  double t[2] = {m.GetTolerance(), m.GetEpsilon()};
  h = hash_bytes(t, sizeof t, h);
  if (withIDs) {
    int id = m.OriginalID();
    h = hash_bytes(&id, sizeof id, h);
  }
  return h;
}

inline uint64_t fingerprint(const manifold::CrossSection& c) {
  uint64_t h = 0x6161;
  uint64_t p = polyHash(c.ToPolygons());
  h = hash_bytes(&p, 8, h);
  size_t n[2] = {c.NumVert(), c.NumContour()};
  h = hash_bytes(n, sizeof n, h);
  manifold::Rect r = c.Bounds();
  h = hash_bytes(&r, sizeof r, h);
  double a[2] = {c.Area(), c.GetTolerance()};
  h = hash_bytes(a, sizeof a, h);
  bool e = c.IsEmpty();
  h = hash_bytes(&e, 1, h);
  return h;
}

}  // namespace vf
