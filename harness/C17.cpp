// C17 - constructors and transforms produce the solid their parameters define.
// Engine S: the full cross product of small argument lists per constructor /
// transform / Quality setting is executed on the real library; the result is
// judged by the long-double solid-angle winding number (lib/solid.h) at
// lattice sample points that lie OUTSIDE the faceting band of the analytic
// shape documented for those arguments.  A point between the inscribed and
// the circumscribed analytic shape (or within `margin` of a surface) is not
// judged.  All analytic predicates are written from the documentation
// comments of the API, never from the mesh the library returned.
#include <algorithm>
#include <array>
#include <cmath>
#include <cstring>
#include <functional>
#include <sstream>

#include "engine/runner.h"
#include "lib/canon.h"
#include "lib/solid.h"
#include "manifold/cross_section.h"
#include "manifold/manifold.h"

using namespace manifold;
using namespace vf;

typedef long double LD;
static const LD PI_L = 3.14159265358979323846264338327950288L;
static const LD kMargin = 1e-6L;  // distance to an analytic surface below which a sample is not judged

// ------------------------------------------------------------------ small helpers
static std::string fmt(double v) {
  char b[40];
  snprintf(b, sizeof b, "%.10g", v);
  return b;
}
static std::string pstr(V3 p) {
  std::ostringstream s;
  s.precision(17);
  s << "(" << (double)p.x << "," << (double)p.y << "," << (double)p.z << ")";
  return s.str();
}
// lattice coordinate i of n over [lo,hi] with a per-axis irrational-ish offset
static const LD kOff[3] = {0.4142135L, 0.7320508L, 0.2360679L};
static LD latt(LD lo, LD hi, int i, int n, int axis) { return lo + (i + kOff[axis]) / n * (hi - lo); }

struct P2 {
  LD x, y;
};
static LD isLeft(P2 a, P2 b, P2 p) { return (b.x - a.x) * (p.y - a.y) - (p.x - a.x) * (b.y - a.y); }
// integer winding number of closed polylines around p (Sunday)
static int wind2(const std::vector<std::vector<P2>>& polys, P2 p) {
  int wn = 0;
  for (auto& poly : polys) {
    size_t n = poly.size();
    for (size_t i = 0; i < n; ++i) {
      P2 a = poly[i], b = poly[(i + 1) % n];
      if (a.y <= p.y) {
        if (b.y > p.y && isLeft(a, b, p) > 0) ++wn;
      } else {
        if (b.y <= p.y && isLeft(a, b, p) < 0) --wn;
      }
    }
  }
  return wn;
}
static LD distPtSeg2(P2 p, P2 a, P2 b) {
  LD dx = b.x - a.x, dy = b.y - a.y, d = dx * dx + dy * dy;
  LD t = d > 0 ? ((p.x - a.x) * dx + (p.y - a.y) * dy) / d : 0;
  t = t < 0 ? 0 : (t > 1 ? 1 : t);
  LD ex = p.x - (a.x + t * dx), ey = p.y - (a.y + t * dy);
  return sqrtl(ex * ex + ey * ey);
}
static bool segsCross2(P2 a, P2 b, P2 c, P2 d) {
  LD d1 = isLeft(a, b, c), d2 = isLeft(a, b, d), d3 = isLeft(c, d, a), d4 = isLeft(c, d, b);
  return ((d1 > 0) != (d2 > 0)) && ((d3 > 0) != (d4 > 0));
}
static LD distSegSeg2(P2 a, P2 b, P2 c, P2 d) {
  if (segsCross2(a, b, c, d)) return 0;
  return std::min(std::min(distPtSeg2(a, c, d), distPtSeg2(b, c, d)), std::min(distPtSeg2(c, a, b), distPtSeg2(d, a, b)));
}
// distance of p to the filled triangle abc (0 inside)
static LD distPtTri2(P2 p, P2 a, P2 b, P2 c) {
  LD s0 = isLeft(a, b, p), s1 = isLeft(b, c, p), s2 = isLeft(c, a, p);
  if ((s0 >= 0 && s1 >= 0 && s2 >= 0) || (s0 <= 0 && s1 <= 0 && s2 <= 0)) return 0;
  return std::min(distPtSeg2(p, a, b), std::min(distPtSeg2(p, b, c), distPtSeg2(p, c, a)));
}
static std::vector<std::vector<P2>> toP2(const Polygons& ps) {
  std::vector<std::vector<P2>> o;
  for (auto& c : ps) {
    std::vector<P2> q;
    for (auto& v : c) q.push_back({(LD)v.x, (LD)v.y});
    o.push_back(q);
  }
  return o;
}

// ------------------------------------------------------------------ judging a result mesh at sample points
struct Judge {
  Soup s;
  long judged = 0, nin = 0, nout = 0, skipped = 0;
  std::string fail;  // first failure
  bool finite = true;
  explicit Judge(const Manifold& m) {
    MeshGL64 g = m.GetMeshGL64();
    for (double v : g.vertProperties)
      if (!std::isfinite(v)) finite = false;
    s = soupOf(g);
  }
  // expect: the integer winding number the documented solid has at p; INT_MIN = not judged
  void at(V3 p, int expect) {
    if (expect == INT32_MIN) {
      ++skipped;
      return;
    }
    ++judged;
    (expect ? nin : nout)++;
    if (!fail.empty()) return;
    LD w = winding(s, p);
    long wi = lroundl(w);
    if (fabsl(w - wi) < 1e-6L && wi == expect) return;
    std::ostringstream o;
    o.precision(17);
    o << "at " << pstr(p) << " the result has winding number " << (double)w << " but the documented solid has " << expect
      << (expect ? " (inside)" : " (outside)");
    fail = o.str();
  }
};
static const int SKIP = INT32_MIN;

static std::string statusName(Manifold::Error e) { return std::to_string((int)e); }

// common epilogue of a constructor case
static void finishCase(Ctx& c, const std::string& key, const Manifold& m, Judge& J, const std::string& extraFail = "") {
  c.count("configs");
  c.count("points_judged", J.judged);
  c.count("points_inside", J.nin);
  c.count("points_in_band", J.skipped);
  uint64_t h = canonGeomHash(m.GetMeshGL64());
  c.distinct(h);
  if (J.nin > 0 && J.nout > 0) c.nontrivial(h);
  if (!J.finite) c.viol(key + ":nonfinite", key, "the exported mesh has a non-finite vertex coordinate");
  if (!J.fail.empty()) c.viol(key, key, J.fail);
  if (!extraFail.empty()) c.viol(key + ":segments", key, extraFail);
}
static bool requireOk(Ctx& c, const std::string& key, const Manifold& m) {
  if (m.Status() != Manifold::Error::NoError) {
    c.count("configs");
    c.viol(key + ":status", key, "valid arguments, but Status() = " + statusName(m.Status()));
    return false;
  }
  return true;
}
static void expectInvalid(Ctx& c, const std::string& key, const Manifold& m) {
  c.count("configs");
  c.count("invalid_cases");
  c.distinct(hash_str(key));
  if (m.Status() != Manifold::Error::InvalidConstruction || !m.IsEmpty() || m.NumTri() != 0) {
    std::ostringstream o;
    o << "invalid arguments must give an empty InvalidConstruction manifold; got Status()=" << (int)m.Status()
      << " IsEmpty=" << m.IsEmpty() << " NumTri=" << m.NumTri();
    c.viol(key, key, o.str());
  }
}

// ------------------------------------------------------------------ Quality: the documented rule
struct QSet {
  int seg;
  double angle, len;
  std::string str() const { return "Q(seg=" + std::to_string(seg) + ",angle=" + fmt(angle) + ",len=" + fmt(len) + ")"; }
};
static void applyQ(const QSet& q) {
  Quality::ResetToDefaults();
  Quality::SetCircularSegments(q.seg);
  Quality::SetMinCircularAngle(q.angle);
  Quality::SetMinCircularEdgeLength(q.len);
}
// common.h: "If circularSegments is specified, it takes precedence. If it is zero, then instead the minimum is
// used of the segments calculated based on edge length and angle, rounded up to the nearest multiple of four."
// The text leaves open whether the (fractional) count 2*pi*r/length is truncated before it is rounded up to a
// multiple of four; both readings are accepted (lo = truncate first, hi = round the real number up).
struct SegRule {
  int lo, hi;
  bool ok(int n) const { return n == lo || n == hi; }
  std::string str() const { return lo == hi ? std::to_string(lo) : std::to_string(lo) + " or " + std::to_string(hi); }
};
static SegRule docSegments(const QSet& q, double radius) {
  if (q.seg > 0) return {q.seg, q.seg};
  double a = 360.0 / q.angle, l = 2.0 * 3.14159265358979323846 * std::fabs(radius) / q.len;
  double m = std::min(a, l);
  auto up4 = [](double v) { return std::max(4, 4 * (int)std::ceil(v / 4.0 - 1e-12)); };
  int lo = up4(std::floor(std::min(std::floor(a + 1e-9), l)));
  int hi = up4(m);
  return {std::min(lo, hi), std::max(lo, hi)};
}
static const QSet kDefaultQ = {0, 10.0, 1.0};

// count of vertices of m on the plane z == z0 (and, if rad > 0, at that distance from the z axis)
static int ringCount(const Manifold& m, double z0, double rad) {
  MeshGL64 g = m.GetMeshGL64();
  int n = 0;
  for (size_t i = 0; i < g.vertProperties.size(); i += g.numProp) {
    double x = g.vertProperties[i], y = g.vertProperties[i + 1], z = g.vertProperties[i + 2];
    if (std::fabs(z - z0) > 1e-9 * (1 + std::fabs(z0))) continue;
    if (rad > 0 && std::fabs(std::hypot(x, y) - rad) > 1e-9 * rad) continue;
    ++n;
  }
  return n;
}

// ------------------------------------------------------------------ analytic predicates
// Sphere(radius, segs): geodesic sphere, vertices on the sphere, made by refining an octahedron so that there
// are `4*ceil(segs/4)` segments around each axis circle.  Inscribed radius: every facet has its vertices on the
// sphere and angular edge length <= theta, so it stays outside radius*sqrt(1 - 4/3 sin^2(theta/2)).  theta is a
// deliberately generous bound (2.4/k rad for k subdivisions per octant edge, at most 90 degrees).
static LD sphereInscribedFactor(int k) {
  LD th = std::min(PI_L / 2, 2.4L / k);
  LD s = sinl(th / 2);
  return sqrtl(1 - 4.0L / 3.0L * s * s);
}

// Revolve profile classification: the mesh at azimuth phi is the profile with its x scaled by a factor in
// [cos(dPhi/2),1]; a point at polar radius r therefore corresponds to profile abscissae in [r, r/cos(dPhi/2)].
// +1 / 0 = winding of the profile if that whole interval is clear of the profile boundary, SKIP otherwise.
static int profileClass(const std::vector<std::vector<P2>>& prof, LD r, LD rOut, LD z, LD margin) {
  P2 a{r, z}, b{rOut, z};
  for (auto& poly : prof) {
    size_t n = poly.size();
    for (size_t i = 0; i < n; ++i)
      if (distSegSeg2(a, b, poly[i], poly[(i + 1) % n]) <= margin) return SKIP;
  }
  return wind2(prof, a) != 0 ? 1 : 0;
}

// ------------------------------------------------------------------ affine maps (oracle side, long double)
struct Aff {
  LD m[3][4];
};
static Aff affId() {
  Aff a{};
  for (int i = 0; i < 3; ++i) a.m[i][i] = 1;
  return a;
}
static Aff compose(const Aff& b, const Aff& a) {  // b after a
  Aff r{};
  for (int i = 0; i < 3; ++i) {
    for (int j = 0; j < 4; ++j) {
      LD s = 0;
      for (int k = 0; k < 3; ++k) s += b.m[i][k] * a.m[k][j];
      r.m[i][j] = s + (j == 3 ? b.m[i][3] : 0);
    }
  }
  return r;
}
static LD det3(const Aff& a) {
  return a.m[0][0] * (a.m[1][1] * a.m[2][2] - a.m[1][2] * a.m[2][1]) - a.m[0][1] * (a.m[1][0] * a.m[2][2] - a.m[1][2] * a.m[2][0]) +
         a.m[0][2] * (a.m[1][0] * a.m[2][1] - a.m[1][1] * a.m[2][0]);
}
static Aff inverse(const Aff& a) {
  LD d = det3(a);
  Aff r{};
  const LD(*m)[4] = a.m;
  r.m[0][0] = (m[1][1] * m[2][2] - m[1][2] * m[2][1]) / d;
  r.m[0][1] = (m[0][2] * m[2][1] - m[0][1] * m[2][2]) / d;
  r.m[0][2] = (m[0][1] * m[1][2] - m[0][2] * m[1][1]) / d;
  r.m[1][0] = (m[1][2] * m[2][0] - m[1][0] * m[2][2]) / d;
  r.m[1][1] = (m[0][0] * m[2][2] - m[0][2] * m[2][0]) / d;
  r.m[1][2] = (m[0][2] * m[1][0] - m[0][0] * m[1][2]) / d;
  r.m[2][0] = (m[1][0] * m[2][1] - m[1][1] * m[2][0]) / d;
  r.m[2][1] = (m[0][1] * m[2][0] - m[0][0] * m[2][1]) / d;
  r.m[2][2] = (m[0][0] * m[1][1] - m[0][1] * m[1][0]) / d;
  for (int i = 0; i < 3; ++i) r.m[i][3] = -(r.m[i][0] * m[0][3] + r.m[i][1] * m[1][3] + r.m[i][2] * m[2][3]);
  return r;
}
static V3 apply(const Aff& a, V3 p) {
  return {a.m[0][0] * p.x + a.m[0][1] * p.y + a.m[0][2] * p.z + a.m[0][3], a.m[1][0] * p.x + a.m[1][1] * p.y + a.m[1][2] * p.z + a.m[1][3],
          a.m[2][0] * p.x + a.m[2][1] * p.y + a.m[2][2] * p.z + a.m[2][3]};
}
// exact for multiples of 90 degrees, long double otherwise
static void sincosDeg(double deg, LD& s, LD& c) {
  double r = std::fmod(deg, 360.0);
  if (r < 0) r += 360.0;
  if (r == 0) { s = 0; c = 1; }
  else if (r == 90) { s = 1; c = 0; }
  else if (r == 180) { s = 0; c = -1; }
  else if (r == 270) { s = -1; c = 0; }
  else { s = sinl((LD)r * PI_L / 180); c = cosl((LD)r * PI_L / 180); }
}
// manifold.cpp Rotate(): "From the global reference frame, a model will be rotated in x-y-z order. That is about
// the global X axis, then global Y axis, and finally global Z." (right-handed rotations)
static Aff affRotate(double x, double y, double z) {
  LD sx, cx, sy, cy, sz, cz;
  sincosDeg(x, sx, cx);
  sincosDeg(y, sy, cy);
  sincosDeg(z, sz, cz);
  Aff rx = affId(), ry = affId(), rz = affId();
  rx.m[1][1] = cx; rx.m[1][2] = -sx; rx.m[2][1] = sx; rx.m[2][2] = cx;
  ry.m[0][0] = cy; ry.m[0][2] = sy; ry.m[2][0] = -sy; ry.m[2][2] = cy;
  rz.m[0][0] = cz; rz.m[0][1] = -sz; rz.m[1][0] = sz; rz.m[1][1] = cz;
  return compose(rz, compose(ry, rx));
}
static Aff affTranslate(LD x, LD y, LD z) {
  Aff a = affId();
  a.m[0][3] = x; a.m[1][3] = y; a.m[2][3] = z;
  return a;
}
static Aff affScale(LD x, LD y, LD z) {
  Aff a{};
  a.m[0][0] = x; a.m[1][1] = y; a.m[2][2] = z;
  return a;
}
// "Mirror this Manifold over the plane described by the unit form of the given normal vector"
static Aff affMirror(LD x, LD y, LD z) {
  LD l = sqrtl(x * x + y * y + z * z);
  LD n[3] = {x / l, y / l, z / l};
  Aff a = affId();
  for (int i = 0; i < 3; ++i)
    for (int j = 0; j < 3; ++j) a.m[i][j] -= 2 * n[i] * n[j];
  return a;
}
static mat3x4 toMat(const double g[3][4]) {
  return mat3x4(vec3(g[0][0], g[1][0], g[2][0]), vec3(g[0][1], g[1][1], g[2][1]), vec3(g[0][2], g[1][2], g[2][2]),
                vec3(g[0][3], g[1][3], g[2][3]));
}
static Aff affOf(const double g[3][4]) {
  Aff a;
  for (int i = 0; i < 3; ++i)
    for (int j = 0; j < 4; ++j) a.m[i][j] = g[i][j];
  return a;
}
// 8 generic matrices: rows x (3 linear columns + translation); 0-3 det > 0, 4-7 det < 0; 2 and 6 are axis-aligned
static const double GEN[8][3][4] = {
    {{1, 0.5, 0, 0.1}, {0, 1, 0.25, -0.2}, {0, 0, 1, 0.3}},
    {{0.8, -0.3, 0.2, 0}, {0.1, 1.1, -0.4, 0}, {0.3, 0.2, 0.9, 0}},
    {{0, -2, 0, 1}, {0.5, 0, 0, 0}, {0, 0, 1.5, -1}},
    {{1.2, 0.7, -0.5, 0.3}, {-0.6, 0.9, 0.4, 0.2}, {0.2, -0.3, 1.1, -0.7}},
    {{-1, -0.5, 0, -0.1}, {0, 1, 0.25, -0.2}, {0, 0, 1, 0.3}},
    {{0.8, -0.3, 0.2, 0}, {-0.1, -1.1, 0.4, 0}, {0.3, 0.2, 0.9, 0}},
    {{0.5, 0, 0, 0}, {0, -2, 0, 1}, {0, 0, 1.5, -1}},
    {{1.2, 0.7, -0.5, 0.3}, {-0.6, 0.9, 0.4, 0.2}, {-0.2, 0.3, -1.1, 0.7}},
};

struct TOp {
  std::string name;
  std::function<Manifold(const Manifold&)> f;
  Aff a;
  bool rot90;  // a rotation by multiples of 90 degrees: the result must be the exact signed permutation
};
static TOp opRotate(double x, double y, double z) {
  auto m90 = [](double v) { return std::fmod(v, 90.0) == 0; };
  return {"Rotate(" + fmt(x) + "," + fmt(y) + "," + fmt(z) + ")", [=](const Manifold& m) { return m.Rotate(x, y, z); }, affRotate(x, y, z),
          m90(x) && m90(y) && m90(z)};
}
static TOp opTranslate(double x, double y, double z) {
  return {"Translate(" + fmt(x) + "," + fmt(y) + "," + fmt(z) + ")", [=](const Manifold& m) { return m.Translate({x, y, z}); },
          affTranslate(x, y, z), false};
}
static TOp opScale(double x, double y, double z) {
  return {"Scale(" + fmt(x) + "," + fmt(y) + "," + fmt(z) + ")", [=](const Manifold& m) { return m.Scale({x, y, z}); }, affScale(x, y, z), false};
}
static TOp opMirror(double x, double y, double z) {
  return {"Mirror(" + fmt(x) + "," + fmt(y) + "," + fmt(z) + ")", [=](const Manifold& m) { return m.Mirror({x, y, z}); }, affMirror(x, y, z),
          false};
}
static TOp opTransform(int k) {
  mat3x4 M = toMat(GEN[k]);
  return {"Transform(G" + std::to_string(k) + ")", [=](const Manifold& m) { return m.Transform(M); }, affOf(GEN[k]), false};
}
static TOp opWarp(int k) {  // the same affine map applied vertex by vertex
  double g[3][4];
  memcpy(g, GEN[k], sizeof g);
  auto fn = [=](vec3& v) {
    vec3 o;
    for (int i = 0; i < 3; ++i) o[i] = g[i][0] * v.x + g[i][1] * v.y + g[i][2] * v.z + g[i][3];
    v = o;
  };
  return {"Warp(G" + std::to_string(k) + ")", [=](const Manifold& m) { return m.Warp(fn); }, affOf(GEN[k]), false};
}

struct Base {
  std::string name;
  std::function<Manifold()> make;
};
static std::vector<Base> bases() {
  std::vector<Base> b;
  b.push_back({"Box", [] { return Manifold::Cube({1, 2, 3}).Translate({0.3, -0.2, 0.1}); }});
  b.push_back({"Tet", [] { return Manifold::Tetrahedron().Scale({1, 0.7, 1.3}).Translate({0.5, 0.25, -0.125}); }});
  b.push_back({"Cone5", [] { return Manifold::Cylinder(2, 1, 0.5, 5).Translate({0.2, 0.1, 0}); }});
  b.push_back({"TwistL", [] {
                 Polygons L = {{{-0.8, -0.8}, {0.8, -0.8}, {0.8, -0.1}, {0.1, -0.1}, {0.1, 0.8}, {-0.8, 0.8}}};
                 return Manifold::Extrude(L, 1.2, 1, 30);
               }});
  // an unevaluated Boolean (CsgOpNode): transforms are recorded on the op node
  b.push_back({"LazyDiff", [] { return Manifold::Cube({2, 2, 2}) - Manifold::Cylinder(3, 0.6, -1, 7).Translate({0.8, 0.9, -0.5}); }});
  return b;
}

// judge result R (which should be `a` applied to the solid whose export is `gm`)
static void judgeTransform(Ctx& c, const std::string& key, const Manifold& R, const MeshGL64& gm, double volM, const Aff& a, bool rot90,
                           int G) {
  c.count("configs");
  if (R.Status() != Manifold::Error::NoError) {
    c.viol(key + ":status", key, "Status() = " + statusName(R.Status()));
    return;
  }
  MeshGL64 gr = R.GetMeshGL64();
  Soup sm = soupOf(gm), sr = soupOf(gr);
  LD d = det3(a);
  // volume scales by |det|, orientation stays outward
  LD want = fabsl(d) * volM, tolv = 1e-9L * (fabsl(want) + 1);
  if (fabsl(R.Volume() - want) > tolv || fabsl(volumeOf(sr) - want) > tolv) {
    std::ostringstream o;
    o.precision(17);
    o << "Volume()=" << R.Volume() << ", signed volume of the export=" << (double)volumeOf(sr) << ", |det|*Volume(M)=" << (double)want
      << " (det=" << (double)d << ")";
    c.viol(key + ":volume", key, o.str());
  }
  // point classification: p in T(M) <=> T^-1 p in M
  LD lo[3] = {1e300L, 1e300L, 1e300L}, hi[3] = {-1e300L, -1e300L, -1e300L};
  for (size_t i = 0; i < gm.vertProperties.size(); i += gm.numProp) {
    V3 q = apply(a, {gm.vertProperties[i], gm.vertProperties[i + 1], gm.vertProperties[i + 2]});
    LD v[3] = {q.x, q.y, q.z};
    for (int k = 0; k < 3; ++k) {
      lo[k] = std::min(lo[k], v[k]);
      hi[k] = std::max(hi[k], v[k]);
    }
  }
  for (int k = 0; k < 3; ++k) {
    LD e = 0.12L * (hi[k] - lo[k]) + 0.05L;
    lo[k] -= e;
    hi[k] += e;
  }
  Aff inv = inverse(a);
  long judged = 0, nin = 0;
  std::string fail;
  for (int i = 0; i < G && fail.empty(); ++i)
    for (int j = 0; j < G && fail.empty(); ++j)
      for (int k = 0; k < G; ++k) {
        V3 p{latt(lo[0], hi[0], i, G, 0), latt(lo[1], hi[1], j, G, 1), latt(lo[2], hi[2], k, G, 2)};
        V3 q = apply(inv, p);
        LD wm = winding(sm, q), wr = winding(sr, p);
        long im = lroundl(wm), ir = lroundl(wr);
        bool clean = fabsl(wm - im) < 1e-6L && fabsl(wr - ir) < 1e-6L;
        if (clean && im == ir) {
          ++judged;
          nin += im != 0;
          continue;
        }
        if (distToSoup(sm, q) <= 1e-7L * (1 + norm(q))) continue;  // preimage on the surface of M: not judged
        ++judged;
        std::ostringstream o;
        o.precision(17);
        o << "at p=" << pstr(p) << " the result has winding " << (double)wr << " but the preimage " << pstr(q) << " has winding " << (double)wm
          << " in M";
        fail = o.str();
        break;
      }
  c.count("points_judged", judged);
  c.count("points_inside", nin);
  if (!fail.empty()) c.viol(key, key, fail);
  // multiples of 90 degrees: every coordinate is bit-for-bit a signed copy of an original coordinate
  if (rot90) {
    c.count("exact_checked");
    auto verts = [](const MeshGL64& g) {
      std::vector<std::array<double, 3>> v;
      for (size_t i = 0; i < g.vertProperties.size(); i += g.numProp)
        v.push_back({g.vertProperties[i] + 0.0, g.vertProperties[i + 1] + 0.0, g.vertProperties[i + 2] + 0.0});  // -0 -> +0
      return v;
    };
    auto vm = verts(gm), vr = verts(gr);
    for (auto& v : vm) {
      double o[3];
      for (int i = 0; i < 3; ++i) {
        double s = 0;
        for (int j = 0; j < 3; ++j)
          if (a.m[i][j] != 0) s = (double)a.m[i][j] * v[j];  // exactly one entry per row is +-1
        o[i] = s + 0.0;
      }
      v = {o[0], o[1], o[2]};
    }
    std::sort(vm.begin(), vm.end());
    std::sort(vr.begin(), vr.end());
    if (vm != vr) {
      std::ostringstream o;
      o.precision(17);
      o << "vertex sets differ from the exact signed permutation";
      if (vm.size() != vr.size())
        o << ": " << vr.size() << " vs " << vm.size() << " vertices";
      else
        for (size_t i = 0; i < vm.size(); ++i)
          if (vm[i] != vr[i]) {
            o << ": e.g. result (" << vr[i][0] << "," << vr[i][1] << "," << vr[i][2] << ") vs exact (" << vm[i][0] << "," << vm[i][1] << ","
              << vm[i][2] << ")";
            break;
          }
      c.viol(key + ":exact90", key, o.str());
    }
  }
  uint64_t h = canonGeomHash(gr);
  c.distinct(h);
  if (nin > 0 && judged > nin) c.nontrivial(h);
}

// ------------------------------------------------------------------ LevelSet shapes (positive inside, unit gradient a.e.)
struct SdfShape {
  std::string name;
  std::function<double(vec3)> f;
};
static std::vector<SdfShape> sdfShapes() {
  std::vector<SdfShape> s;
  s.push_back({"sphere", [](vec3 p) { return 1.5 - la::length(p - vec3(0.1, 0.05, -0.07)); }});
  s.push_back({"box", [](vec3 p) { return std::min(1.4 - std::fabs(p.x), std::min(1.2 - std::fabs(p.y), 1.0 - std::fabs(p.z))); }});
  s.push_back({"lens", [](vec3 p) { return std::min(1.6 - la::length(p - vec3(-0.5, 0, 0)), 1.6 - la::length(p - vec3(0.5, 0, 0))); }});
  s.push_back({"torus", [](vec3 p) {
                 double q = std::hypot(p.x, p.y) - 1.5;
                 return 0.7 - std::hypot(q, p.z);
               }});
  return s;
}

int main(int argc, char** argv) {
  Runner R("C17", argc, argv);
  const bool thorough = R.a.thorough();
  const std::vector<const char*> CN = {"configs", "points_judged", "points_inside", "points_in_band", "invalid_cases"};
  // Quality is process-global: every case sets what it needs.  Constructor phases run under these settings.
  std::vector<QSet> QS = {kDefaultQ};
  if (thorough) {
    QS.push_back({0, 30.0, 0.1});
    QS.push_back({7, 10.0, 1.0});
    QS.push_back({0, 10.0, 0.1});
    QS.push_back({16, 10.0, 1.0});
  }
  const int nQ = (int)QS.size();
  // lattice points per axis; `--lattice n` overrides it (used for the ASan run, where the interest is the
  // library code over the whole argument cross product rather than the sampling density)
  int latticeArg = 0;
  for (int i = 1; i + 1 < argc; ++i)
    if (!strcmp(argv[i], "--lattice")) latticeArg = atoi(argv[i + 1]);
  const int G = latticeArg > 0 ? latticeArg : (thorough ? 19 : 11);

  // ================================================================ Cube and Tetrahedron
  {
    static const double SZ[][3] = {{1, 2, 3}, {2, 1, 0.5}, {1, 2, 0}, {0, 0, 0.5}, {0, 0, 0}, {-1, 2, 3}, {1, -2, 3}, {1, 2, -3}, {-1, -1, -1}};
    const int nS = sizeof SZ / sizeof SZ[0];
    R.phase("cube", nS * 2 + 1, 1,
            [&](uint64_t idx, Ctx& c) {
              Quality::ResetToDefaults();
              if (idx == (uint64_t)nS * 2) {
                // "a tetrahedron centered at the origin with one vertex at (1,1,1) and the rest at similarly symmetric points"
                std::string key = "Tetrahedron()";
                c.describe(key);
                Manifold m = Manifold::Tetrahedron();
                if (!requireOk(c, key, m)) return;
                Judge J(m);
                for (int i = 0; i < G; ++i)
                  for (int j = 0; j < G; ++j)
                    for (int k = 0; k < G; ++k) {
                      LD x = latt(-1.3L, 1.3L, i, G, 0), y = latt(-1.3L, 1.3L, j, G, 1), z = latt(-1.3L, 1.3L, k, G, 2);
                      // faces: -x-y-z<=1, -x+y+z<=1, x-y+z<=1, x+y-z<=1
                      LD f[4] = {-x - y - z, -x + y + z, x - y + z, x + y - z};
                      LD mx = std::max(std::max(f[0], f[1]), std::max(f[2], f[3]));
                      LD mg = kMargin * 2;
                      J.at({x, y, z}, mx < 1 - mg ? 1 : (mx > 1 + mg ? 0 : SKIP));
                    }
                finishCase(c, key, m, J);
                c.sample(key);
                return;
              }
              const double* s = SZ[idx / 2];
              bool center = idx & 1;
              std::string key = "Cube((" + fmt(s[0]) + "," + fmt(s[1]) + "," + fmt(s[2]) + "),center=" + std::to_string(center) + ")";
              c.describe(key);
              Manifold m = Manifold::Cube({s[0], s[1], s[2]}, center);
              // "If any dimensions in size are negative, or if all are zero, an empty Manifold will be returned."
              bool invalid = s[0] < 0 || s[1] < 0 || s[2] < 0 || (s[0] == 0 && s[1] == 0 && s[2] == 0);
              if (invalid) {
                expectInvalid(c, key, m);
                return;
              }
              if (!requireOk(c, key, m)) return;
              Judge J(m);
              LD lo[3], hi[3];
              for (int a = 0; a < 3; ++a) {
                lo[a] = center ? -s[a] / 2 : 0;
                hi[a] = lo[a] + s[a];
              }
              for (int i = 0; i < G; ++i)
                for (int j = 0; j < G; ++j)
                  for (int k = 0; k < G; ++k) {
                    LD p[3] = {latt(lo[0] - 0.4L, hi[0] + 0.4L, i, G, 0), latt(lo[1] - 0.4L, hi[1] + 0.4L, j, G, 1),
                               latt(lo[2] - 0.4L, hi[2] + 0.4L, k, G, 2)};
                    bool in = true, out = false;
                    for (int a = 0; a < 3; ++a) {
                      if (!(p[a] > lo[a] + kMargin && p[a] < hi[a] - kMargin)) in = false;
                      if (p[a] < lo[a] - kMargin || p[a] > hi[a] + kMargin) out = true;
                    }
                    J.at({p[0], p[1], p[2]}, in ? 1 : (out ? 0 : SKIP));
                  }
              finishCase(c, key, m, J);
              if (idx < 4) c.sample(key);
            },
            CN);
  }

  // ================================================================ Sphere
  {
    static const double RAD[] = {1, 0.5, 2, 0, -1};
    static const int SEG[] = {0, 3, 4, 5, 8, 12, 16};
    std::vector<int> radix = {nQ, 5, 7};
    R.phase("sphere", product(radix), 1,
            [&](uint64_t idx, Ctx& c) {
              auto d = digits(idx, radix);
              const QSet& q = QS[d[0]];
              double r = RAD[d[1]];
              int seg = SEG[d[2]];
              std::string key = "Sphere(r=" + fmt(r) + ",segs=" + std::to_string(seg) + ")" + (d[0] ? "@" + q.str() : "");
              c.describe(key);
              applyQ(q);
              Manifold m = Manifold::Sphere(r, seg);
              if (r <= 0) {  // "Radius of the sphere. Must be positive."
                expectInvalid(c, key, m);
                return;
              }
              if (!requireOk(c, key, m)) return;
              // "This number will always be rounded up to the nearest factor of four"
              SegRule sr = seg > 0 ? SegRule{seg, seg} : docSegments(q, r);
              int kLo = (sr.lo + 3) / 4, kHi = (sr.hi + 3) / 4;
              LD fin = sphereInscribedFactor(std::min(kLo, kHi));
              Judge J(m);
              LD b = 1.25L * r;
              for (int i = 0; i < G; ++i)
                for (int j = 0; j < G; ++j)
                  for (int k = 0; k < G; ++k) {
                    V3 p{latt(-b, b, i, G, 0), latt(-b, b, j, G, 1), latt(-b, b, k, G, 2)};
                    LD rr = norm(p);
                    J.at(p, rr < r * fin - kMargin ? 1 : (rr > r + kMargin ? 0 : SKIP));
                  }
              int eq = ringCount(m, 0.0, r);
              std::string segFail;
              if (eq != 4 * kLo && eq != 4 * kHi)
                segFail = "the equator (z=0) has " + std::to_string(eq) + " segments; documented: " + sr.str() +
                          " rounded up to a multiple of four = " + std::to_string(4 * kLo);
              finishCase(c, key, m, J, segFail);
              if (idx % 11 == 0) c.sample(key);
            },
            CN);
  }

  // ================================================================ Cylinder
  {
    static const double HT[] = {2, 0.5, 0, -1};
    static const double RL[] = {1, 0, 0.5, 2, -1};
    static const double RH[] = {-1, 1, 0, 0.5, 2};
    static const int SEG[] = {0, 3, 4, 5, 8};
    std::vector<int> radix = {nQ, 4, 5, 5, 5, 2};
    R.phase("cylinder", product(radix), 2,
            [&](uint64_t idx, Ctx& c) {
              auto d = digits(idx, radix);
              const QSet& q = QS[d[0]];
              double h = HT[d[1]], rl = RL[d[2]], rh = RH[d[3]];
              int seg = SEG[d[4]];
              bool center = d[5];
              std::string key = "Cylinder(h=" + fmt(h) + ",rLow=" + fmt(rl) + ",rHigh=" + fmt(rh) + ",segs=" + std::to_string(seg) +
                                ",center=" + std::to_string(center) + ")" + (d[0] ? "@" + q.str() : "");
              c.describe(key);
              applyQ(q);
              Manifold m = Manifold::Cylinder(h, rl, rh, seg, center);
              // "radiusLow ... Must be non-negative. If zero, radiusHigh must be positive"; height is the Z-extent
              bool invalid = h <= 0 || rl < 0 || (rl == 0 && rh <= 0);
              if (invalid) {
                expectInvalid(c, key, m);
                return;
              }
              if (!requireOk(c, key, m)) return;
              double top = rh < 0 ? rl : rh;  // "Default is equal to radiusLow"
              double rmax = std::max(rl, top);
              SegRule sr = seg > 2 ? SegRule{seg, seg} : docSegments(q, rmax);
              LD cosb = cosl(PI_L / std::min(sr.lo, sr.hi));
              LD z0 = center ? -h / 2 : 0;
              Judge J(m);
              LD b = 1.2L * rmax + 0.1L;
              for (int i = 0; i < G; ++i)
                for (int j = 0; j < G; ++j)
                  for (int k = 0; k < G; ++k) {
                    V3 p{latt(-b, b, i, G, 0), latt(-b, b, j, G, 1), latt(z0 - 0.3L * h, z0 + 1.3L * h, k, G, 2)};
                    LD t = (p.z - z0) / h, rad = rl + (top - rl) * t, rr = sqrtl(p.x * p.x + p.y * p.y);
                    int e = SKIP;
                    if (p.z < z0 - kMargin || p.z > z0 + h + kMargin)
                      e = 0;
                    else if (p.z > z0 + kMargin && p.z < z0 + h - kMargin) {
                      if (rr < rad * cosb - 2 * kMargin)
                        e = 1;  // inside the inscribed cone/cylinder
                      else if (rr > rad + 2 * kMargin)
                        e = 0;  // outside the circumscribed one
                    }
                    J.at(p, e);
                  }
              // "circularSegments How many line segments to use around the circle."
              std::string segFail;
              double zc = rl > 0 ? (double)z0 : (double)(z0 + h);
              int n = ringCount(m, zc, rl > 0 ? rl : top);
              if (!sr.ok(n)) segFail = "the circle at z=" + fmt(zc) + " has " + std::to_string(n) + " segments; documented: " + sr.str();
              finishCase(c, key, m, J, segFail);
              if (idx % 97 == 0) c.sample(key);
            },
            CN);
  }

  // ================================================================ Extrude
  {
    std::vector<std::pair<std::string, Polygons>> POLY = {
        {"sq", {{{0.2, -0.3}, {1.2, -0.3}, {1.2, 0.9}, {0.2, 0.9}}}},
        {"L", {{{-0.8, -0.8}, {0.8, -0.8}, {0.8, -0.1}, {0.1, -0.1}, {0.1, 0.8}, {-0.8, 0.8}}}},
        {"ring", {{{-0.9, -0.9}, {0.9, -0.9}, {0.9, 0.9}, {-0.9, 0.9}}, {{-0.4, -0.35}, {-0.4, 0.45}, {0.35, 0.45}, {0.35, -0.35}}}},
        {"tri", {{{0, 0}, {1, 0.2}, {0.3, 1}}}},
        {"two", {{{0.3, 0.2}, {1, 0.2}, {1, 0.7}, {0.3, 0.7}}, {{-1.1, -0.6}, {-0.4, -0.6}, {-0.75, 0.1}}}},
        {"empty", {}},
    };
    static const double HT[] = {2, 0.5, 0, -1};
    static const int DIV[] = {0, 1, 3};
    static const double TW[] = {0, 30, 90, 360, -45};
    static const double SC[][2] = {{1, 1}, {0.5, 2}, {0, 0}, {0, 1}};
    std::vector<int> radix = {(int)POLY.size(), 4, 3, 5, 4};
    R.phase("extrude", product(radix), 4,
            [&](uint64_t idx, Ctx& c) {
              auto d = digits(idx, radix);
              const Polygons& poly = POLY[d[0]].second;
              double h = HT[d[1]], tw = TW[d[3]];
              int div = DIV[d[2]];
              double sx = SC[d[4]][0], sy = SC[d[4]][1];
              std::string key = "Extrude(" + POLY[d[0]].first + ",h=" + fmt(h) + ",div=" + std::to_string(div) + ",twist=" + fmt(tw) +
                                ",scaleTop=(" + fmt(sx) + "," + fmt(sy) + "))";
              c.describe(key);
              Quality::ResetToDefaults();
              Manifold m = Manifold::Extrude(poly, h, div, tw, {sx, sy});
              if (poly.empty() || h <= 0) {
                expectInvalid(c, key, m);
                return;
              }
              if (!requireOk(c, key, m)) return;
              // documented solid: nDivisions extra copies of the cross-section; copy i at height alpha*h (alpha=i/(div+1)) is
              // the cross-section twisted by alpha*twist and then scaled by lerp(1,scaleTop,alpha); consecutive copies are
              // joined by straight facets.  At height z in slab i the section of that solid is the vertex-wise interpolation
              // of the two copies, up to the choice of the quad diagonal: the two thin triangles (A,D1,B),(A,D2,B) per edge
              // are the faceting band.  Expected value = integer winding number of the interpolated contours.
              auto P = toP2(poly);
              const int nSl = div + 1;
              auto slice = [&](int i) {
                LD al = (LD)i / nSl, s, co;
                LD ph = al * tw * PI_L / 180;
                s = sinl(ph);
                co = cosl(ph);
                LD kx = 1 + (sx - 1) * al, ky = 1 + (sy - 1) * al;
                std::vector<std::vector<P2>> o = P;
                for (auto& ct : o)
                  for (auto& v : ct) v = {kx * (co * v.x - s * v.y), ky * (s * v.x + co * v.y)};
                return o;
              };
              std::vector<std::vector<std::vector<P2>>> SL;
              for (int i = 0; i <= nSl; ++i) SL.push_back(slice(i));
              LD Rb = 0;
              for (auto& ct : P)
                for (auto& v : ct) Rb = std::max(Rb, sqrtl(v.x * v.x + v.y * v.y));
              Rb *= std::max(1.0, std::max(sx, sy)) * 1.15L;
              Judge J(m);
              const int Gz = G - 1;
              for (int k = 0; k < Gz; ++k) {
                LD z = latt(-0.15L * h, 1.15L * h, k, Gz, 2);
                for (int i = 0; i < G + 2; ++i)
                  for (int j = 0; j < G + 2; ++j) {
                    P2 p{latt(-Rb, Rb, i, G + 2, 0), latt(-Rb, Rb, j, G + 2, 1)};
                    V3 p3{p.x, p.y, z};
                    if (z < -kMargin || z > h + kMargin) {
                      J.at(p3, 0);
                      continue;
                    }
                    if (z < kMargin || z > h - kMargin) {
                      J.at(p3, SKIP);
                      continue;
                    }
                    LD u = z / h * nSl;
                    int si = std::min(nSl - 1, (int)floorl(u));
                    LD t = u - si;
                    auto &lo = SL[si], &hi = SL[si + 1];
                    auto lerp = [&](P2 a, P2 b) { return P2{a.x + (b.x - a.x) * t, a.y + (b.y - a.y) * t}; };
                    std::vector<std::vector<P2>> sec = lo;
                    bool band = false;
                    for (size_t ci = 0; ci < lo.size() && !band; ++ci) {
                      size_t n = lo[ci].size();
                      for (size_t v = 0; v < n; ++v) sec[ci][v] = lerp(lo[ci][v], hi[ci][v]);
                      for (size_t v = 0; v < n; ++v) {
                        size_t w = (v + 1) % n;
                        P2 A = sec[ci][v], B = sec[ci][w], D1 = lerp(lo[ci][w], hi[ci][v]), D2 = lerp(lo[ci][v], hi[ci][w]);
                        if (distPtTri2(p, A, D1, B) <= 10 * kMargin || distPtTri2(p, A, D2, B) <= 10 * kMargin) {
                          band = true;
                          break;
                        }
                      }
                    }
                    J.at(p3, band ? SKIP : wind2(sec, p));
                  }
              }
              finishCase(c, key, m, J);
              if (idx % 131 == 0) c.sample(key);
            },
            CN);
  }

  // ================================================================ Revolve
  {
    std::vector<std::pair<std::string, Polygons>> POLY = {
        {"ring", {{{1, -0.5}, {2, -0.5}, {2, 0.5}, {1, 0.5}}}},                                   // right of the axis
        {"smallring", {{{0.2, 0}, {0.5, 0}, {0.5, 0.4}, {0.2, 0.4}}}},                              // right of the axis, radius 0.5
        {"touch", {{{0, 0}, {1, 0}, {0, 1.5}}}},                                                  // an edge on the axis
        {"vtouch", {{{0, 0.5}, {0.6, 0}, {1.2, 0.5}, {0.6, 1}}}},                                 // one vertex on the axis
        {"crossrect", {{{-0.5, 0}, {1, 0}, {1, 1}, {-0.5, 1}}}},                                  // crossing the axis
        {"crosstri", {{{-1, 0}, {1.5, 0.2}, {0.2, 1.3}}}},                                        // crossing obliquely
        {"leftright", {{{0.5, 0}, {1, 0}, {1, 1}, {0.5, 1}}, {{-2, 0}, {-1, 0}, {-1, 1}, {-2, 1}}}},  // one contour is dropped
        {"hole", {{{0.5, 0}, {2, 0}, {2, 1.5}, {0.5, 1.5}}, {{1, 0.5}, {1, 1}, {1.5, 1}, {1.5, 0.5}}}},
        {"allleft", {{{-2, 0}, {-1, 0}, {-1, 1}, {-2, 1}}}},  // invalid
        {"empty", {}},                                        // invalid
        {"emptycontour", {{}}},                               // invalid
    };
    static const double DEG[] = {360, 180, 90, 45, 400, 30};
    static const int SEG[] = {0, 3, 4, 5, 8};
    std::vector<int> radix = {nQ, (int)POLY.size(), 6, 5};
    R.phase("revolve", product(radix), 1,
            [&](uint64_t idx, Ctx& c) {
              auto d = digits(idx, radix);
              const QSet& q = QS[d[0]];
              const Polygons& poly = POLY[d[1]].second;
              double deg = DEG[d[2]];
              int seg = SEG[d[3]];
              std::string key = "Revolve(" + POLY[d[1]].first + ",segs=" + std::to_string(seg) + ",deg=" + fmt(deg) + ")" + (d[0] ? "@" + q.str() : "");
              c.describe(key);
              applyQ(q);
              Manifold m = Manifold::Revolve(poly, seg, deg);
              // radius = largest x among contours that are not entirely left of the axis
              double radius = -1;
              for (auto& ct : poly) {
                bool any = false;
                for (auto& v : ct) any |= v.x >= 0;
                if (any)
                  for (auto& v : ct) radius = std::max(radius, v.x);
              }
              if (radius < 0) {
                expectInvalid(c, key, m);
                return;
              }
              if (!requireOk(c, key, m)) return;
              // "revolving this cross-section around its Y-axis and then setting this as the Z-axis of the resulting
              // manifold. If the polygons cross the Y-axis, only the part on the positive X side is used."  A revolve of
              // more than 360 degrees is a full revolution.  A partial revolve starts on the +X half plane and turns
              // counter-clockwise (the first and last slices are exact planes, so the end caps are not faceted).
              double dg = std::min(deg, 360.0);
              bool full = dg == 360.0;
              SegRule sr = seg > 2 ? SegRule{seg, seg} : docSegments(q, radius);
              int nDoc = std::min(sr.lo, sr.hi);
              LD dphi = 360.0L / nDoc;
              // the partial arc is cut into a whole number of divisions, so they may be wider than 360/n
              if (seg <= 2) dphi = std::max(dphi, (LD)dg / std::max(1, (int)std::floor(nDoc * dg / 360.0)));
              LD cosb = cosl(std::min(dphi, 179.0L) / 2 * PI_L / 180);
              auto prof = toP2(poly);
              LD zlo = 1e300L, zhi = -1e300L;
              for (auto& ct : prof)
                for (auto& v : ct) {
                  zlo = std::min(zlo, v.y);
                  zhi = std::max(zhi, v.y);
                }
              Judge J(m);
              LD b = 1.15L * radius + 0.1L, ez = 0.2L * (zhi - zlo);
              LD ca = cosl(dg * PI_L / 180), sa = sinl(dg * PI_L / 180);
              for (int i = 0; i < G + 2; ++i)
                for (int j = 0; j < G + 2; ++j)
                  for (int k = 0; k < G; ++k) {
                    V3 p{latt(-b, b, i, G + 2, 0), latt(-b, b, j, G + 2, 1), latt(zlo - ez, zhi + ez, k, G, 2)};
                    LD r = sqrtl(p.x * p.x + p.y * p.y);
                    int pc = profileClass(prof, r, r / cosb, p.z, 4 * kMargin);
                    int e = pc;
                    if (!full && pc != 0) {
                      // distance to the two cap half-planes (azimuth 0 and dg)
                      P2 q2{p.x, p.y};
                      LD big = 4 * b;
                      LD dc = std::min(distPtSeg2(q2, {0, 0}, {big, 0}), distPtSeg2(q2, {0, 0}, {big * ca, big * sa}));
                      LD phi = atan2l(p.y, p.x) * 180 / PI_L;
                      if (phi < 0) phi += 360;
                      if (dc <= 4 * kMargin)
                        e = SKIP;
                      else if (phi > dg)
                        e = 0;  // outside the wedge whatever the profile says
                      else
                        e = pc;  // inside the wedge: the profile decides (SKIP stays SKIP)
                    }
                    J.at(p, e);
                  }
              finishCase(c, key, m, J);
              if (idx % 29 == 0) c.sample(key);
            },
            CN);
  }

  // ================================================================ LevelSet
  {
    auto SH = sdfShapes();
    static const double EDGE[] = {0.5, 0.3};
    static const double LEVEL[] = {0, 0.1, -0.1};
    static const double TOL[] = {-1, 1e-3};
    static const double BND[2][6] = {{-3, -3, -3, 3, 3, 3}, {-2.6, -2.9, -2.2, 3.1, 2.7, 2.4}};
    std::vector<int> radix = {(int)SH.size(), 2, 2, 3, 2};
    R.phase("levelset", product(radix), 1,
            [&](uint64_t idx, Ctx& c) {
              auto d = digits(idx, radix);
              const SdfShape& sh = SH[d[0]];
              const double* bd = BND[d[1]];
              double edge = EDGE[d[2]], level = LEVEL[d[3]], tol = TOL[d[4]];
              std::string key = "LevelSet(" + sh.name + ",bounds=" + (d[1] ? "[-2.6,3.1]x[-2.9,2.7]x[-2.2,2.4]" : "[-3,3]^3") + ",edge=" + fmt(edge) +
                                ",level=" + fmt(level) + ",tol=" + fmt(tol) + ")";
              c.describe(key);
              Quality::ResetToDefaults();
              Box bounds({bd[0], bd[1], bd[2]}, {bd[3], bd[4], bd[5]});
              Manifold m = Manifold::LevelSet(sh.f, bounds, edge, level, tol);
              if (!requireOk(c, key, m)) return;
              // grid spacing: each axis of the bounds is divided into floor(size/edgeLength) cells
              double spacing = 0;
              for (int a = 0; a < 3; ++a) spacing = std::max(spacing, (bd[a + 3] - bd[a]) / std::floor((bd[a + 3] - bd[a]) / edge + 1e-9));
              LD band = sqrtl(3.0L) * std::max(spacing, edge);  // one grid cell (its diagonal)
              Judge J(m);
              for (int i = 0; i < G + 2; ++i)
                for (int j = 0; j < G + 2; ++j)
                  for (int k = 0; k < G + 2; ++k) {
                    V3 p{latt(-3.3L, 3.3L, i, G + 2, 0), latt(-3.3L, 3.3L, j, G + 2, 1), latt(-3.3L, 3.3L, k, G + 2, 2)};
                    double v = sh.f({(double)p.x, (double)p.y, (double)p.z}) - level;
                    J.at(p, v > band ? 1 : (v < -band ? 0 : SKIP));
                  }
              // vertices: within one grid cell of the level set, and within `tolerance` when one is given
              MeshGL64 g = m.GetMeshGL64();
              double worst = 0;
              vec3 wv(0.0);
              for (size_t i = 0; i < g.vertProperties.size(); i += g.numProp) {
                vec3 v(g.vertProperties[i], g.vertProperties[i + 1], g.vertProperties[i + 2]);
                double e = std::fabs(sh.f(v) - level);
                if (e > worst) {
                  worst = e;
                  wv = v;
                }
              }
              double lim = tol > 0 ? tol * (1 + 1e-9) + 1e-12 : (double)band;
              std::string vfail;
              if (worst > lim) {
                std::ostringstream o;
                o.precision(17);
                o << "vertex (" << wv.x << "," << wv.y << "," << wv.z << ") has |sdf - level| = " << worst << " > "
                  << (tol > 0 ? "tolerance " : "one grid cell ") << lim;
                vfail = o.str();
              }
              c.count("configs");
              c.count("points_judged", J.judged);
              c.count("points_inside", J.nin);
              c.count("points_in_band", J.skipped);
              uint64_t h = canonGeomHash(g);
              c.distinct(h);
              if (J.nin > 0 && J.nout > 0) c.nontrivial(h);
              if (!J.finite) c.viol(key + ":nonfinite", key, "non-finite vertex");
              if (!J.fail.empty()) c.viol(key, key, J.fail);
              if (!vfail.empty()) c.viol(key + ":vertex", key, vfail);
              if (idx % 7 == 0) c.sample(key);
            },
            CN);
  }

  // ================================================================ transforms
  const std::vector<const char*> TN = {"configs", "points_judged", "points_inside", "exact_checked"};
  auto B = bases();
  const int GT = latticeArg > 0 ? std::max(4, latticeArg - 1) : (thorough ? 12 : 8);
  {
    // single transforms: Rotate over {0,30,90,180,270,360,-90}^3 (includes all 24 axis rotations), Mirror, Scale,
    // Translate, Transform with 8 generic matrices, Warp by the orientation-preserving ones
    std::vector<TOp> OPS;
    static const double ANG[] = {0, 30, 90, 180, 270, 360, -90};
    for (double x : ANG)
      for (double y : ANG)
        for (double z : ANG) OPS.push_back(opRotate(x, y, z));
    static const double MIR[][3] = {{1, 0, 0}, {0, 1, 0}, {0, 0, 1}, {-1, 0, 0}, {0, 0, -2}, {1, 1, 0}, {1, 2, 3}, {-0.3, 0.5, 0.81}, {1e-3, 0, 1}, {0, -3, 4}};
    for (auto& v : MIR) OPS.push_back(opMirror(v[0], v[1], v[2]));
    static const double SCL[][3] = {{1, 1, 1}, {-1, 1, 1}, {1, -2, 0.5}, {-1, -1, 1}, {-1, -1, -1}, {2, 3, 0.25}, {-0.5, 2, -3}, {1, 1, -1}};
    for (auto& v : SCL) OPS.push_back(opScale(v[0], v[1], v[2]));
    static const double TRL[][3] = {{0, 0, 0}, {1, -2, 0.5}, {-0.1, 0.2, 3}, {7, 0, 0}};
    for (auto& v : TRL) OPS.push_back(opTranslate(v[0], v[1], v[2]));
    for (int k = 0; k < 8; ++k) OPS.push_back(opTransform(k));
    for (int k = 0; k < 4; ++k) OPS.push_back(opWarp(k));
    const int nOps = (int)OPS.size(), nB = (int)B.size();
    R.phase("transform1", (uint64_t)nOps * nB, 8,
            [&](uint64_t idx, Ctx& c) {
              const Base& b = B[idx % nB];
              const TOp& op = OPS[idx / nB];
              std::string key = "T1:" + b.name + "|" + op.name;
              c.describe(key);
              Quality::ResetToDefaults();
              Manifold ref = b.make();
              MeshGL64 gm = ref.GetMeshGL64();
              double vol = ref.Volume();
              Manifold r = op.f(b.make());
              judgeTransform(c, key, r, gm, vol, op.a, op.rot90, GT);
              if (idx % 257 == 0) c.sample(key);
            },
            TN);
    // Mirror with a zero normal: "If the length of the normal is zero, an empty Manifold is returned."
    R.phase("mirror-zero", nB, 1,
            [&](uint64_t idx, Ctx& c) {
              std::string key = "T1:" + B[idx].name + "|Mirror(0,0,0)";
              c.describe(key);
              Manifold r = B[idx].make().Mirror({0, 0, 0});
              c.count("configs");
              c.distinct(hash_str(key));
              if (!r.IsEmpty() || r.NumTri() != 0) c.viol(key, key, "Mirror by a zero normal must return an empty Manifold");
            },
            TN);
  }
  {
    // chains of two transforms (lazily combined, or with the intermediate forced)
    std::vector<TOp> OPS = {opTranslate(1, -2, 0.5), opRotate(90, 0, 0),   opRotate(0, 90, 0),   opRotate(0, 0, 90),  opRotate(0, 0, -90),
                            opRotate(180, 90, 270),  opRotate(30, 0, 0),   opRotate(17, 31, 47), opScale(-1, 1, 1),   opScale(2, 3, 0.25),
                            opScale(-0.5, 2, -3),    opMirror(1, 0, 0),    opMirror(1, 2, 3),    opMirror(0, 0, 1),   opTransform(0),
                            opTransform(3),          opTransform(5),       opTransform(6),       opWarp(1),           opWarp(2)};
    const int nOps = (int)OPS.size(), nB = (int)B.size();
    std::vector<int> radix = {nOps, nOps, 2, nB};
    R.phase("transform2", product(radix), 10,
            [&](uint64_t idx, Ctx& c) {
              auto d = digits(idx, radix);
              const TOp &o1 = OPS[d[0]], &o2 = OPS[d[1]];
              bool forced = d[2];
              const Base& b = B[d[3]];
              std::string key = "T2:" + b.name + "|" + o1.name + (forced ? "!" : "") + "|" + o2.name;
              c.describe(key);
              Quality::ResetToDefaults();
              Manifold ref = b.make();
              MeshGL64 gm = ref.GetMeshGL64();
              double vol = ref.Volume();
              Manifold mid = o1.f(b.make());
              if (forced) (void)mid.NumTri();
              Manifold r = o2.f(mid);
              judgeTransform(c, key, r, gm, vol, compose(o2.a, o1.a), o1.rot90 && o2.rot90, GT);
              if (idx % 1009 == 0) c.sample(key);
            },
            TN);
  }

  {
    // a transform applied to an unevaluated NESTED union: o2( o1(A + B) + C ) + D, every intermediate a temporary, so
    // that the evaluator may flatten the nest and has to compose o2 and o1 itself.  D is a small cube inside the
    // transformed solid (the union with a subset changes nothing), so the result must be o2 applied to the solid
    // X = o1(A + B) + C, which is built eagerly (every step forced) for the comparison.
    std::vector<TOp> OPS = {opTranslate(1, -2, 0.5), opRotate(90, 0, 0),   opRotate(0, 0, 90),   opRotate(180, 90, 270), opRotate(30, 0, 0),
                            opRotate(17, 31, 47),    opScale(-1, 1, 1),    opScale(2, 3, 0.25),  opScale(-0.5, 2, -3),   opMirror(1, 2, 3),
                            opTransform(0),          opTransform(3),       opTransform(5),       opTransform(6)};
    const int nOps = (int)OPS.size();
    std::vector<int> radix = {nOps, nOps, 3};
    R.phase("transform-nested", product(radix), 6,
            [&](uint64_t idx, Ctx& c) {
              auto d = digits(idx, radix);
              const TOp &o1 = OPS[d[0]], &o2 = OPS[d[1]];
              const int opk = d[2];  // the Boolean used at every level: + (flattened), ^, -
              static const char* ON[3] = {"+", "^", "-"};
              std::string key = std::string("TN:") + o2.name + "(" + o1.name + "(Box" + ON[opk] + "Tet)" + ON[opk] + "Cone5)" + ON[opk] + "D";
              c.describe(key);
              Quality::ResetToDefaults();
              auto bop = [&](const Manifold& x, const Manifold& y) { return opk == 0 ? x + y : opk == 1 ? (x ^ y) : x - y; };
              // eager X
              Manifold ab = bop(B[0].make(), B[1].make());
              (void)ab.NumTri();
              Manifold x1 = o1.f(ab);
              (void)x1.NumTri();
              Manifold X = bop(x1, B[2].make());
              (void)X.NumTri();
              if (X.IsEmpty()) {
                c.count("configs");
                return;  // nothing to classify
              }
              MeshGL64 gm = X.GetMeshGL64();
              double vol = X.Volume();
              // D: neutral for the operation at the top level (inside the solid for +, a superset box for ^, far away for -)
              Manifold Dn;
              if (opk == 0) {
                // a tiny cube around an interior point of X: centroid of the first triangle pushed inwards is fragile; use
                // a point of X found by sampling its bounding box with the harness oracle
                Soup sx = soupOf(gm);
                Box bb = X.BoundingBox();
                V3 in{0, 0, 0};
                bool found = false;
                for (int i = 1; i < 12 && !found; ++i)
                  for (int j = 1; j < 12 && !found; ++j)
                    for (int k = 1; k < 12 && !found; ++k) {
                      V3 p{bb.min.x + (bb.max.x - bb.min.x) * i / 12.0L, bb.min.y + (bb.max.y - bb.min.y) * j / 12.0L, bb.min.z + (bb.max.z - bb.min.z) * k / 12.0L};
                      if (lroundl(winding(sx, p)) == 1 && distToSoup(sx, p) > 0.06L) in = p, found = true;
                    }
                if (!found) {
                  c.count("configs");
                  return;
                }
                Dn = o2.f(Manifold::Cube({0.05, 0.05, 0.05}, true).Translate({(double)in.x, (double)in.y, (double)in.z}));
              } else if (opk == 1) {
                Dn = Manifold::Cube({400, 400, 400}, true);
              } else {
                Dn = Manifold::Cube({1, 1, 1}).Translate({500, 500, 500});
              }
              (void)Dn.NumTri();
              Manifold r = bop(o2.f(bop(o1.f(bop(B[0].make(), B[1].make())), B[2].make())), Dn);
              judgeTransform(c, key, r, gm, vol, o2.a, false, GT);
              if (idx % 101 == 0) c.sample(key);
            },
            TN);
  }

  // ================================================================ Quality
  {
    // every setting x radius x constructor: the segment count present in the result equals
    // Quality::GetCircularSegments(radius), which equals the documented rule
    static const int SEGS[] = {0, 6, 7, 3, 12};
    static const double ANGS[] = {10, 30};
    static const double LENS[] = {0.1, 1};
    static const double RADS[] = {0.1, 1, 10};
    static const char* CT[] = {"Cylinder", "Sphere", "Revolve", "Circle"};
    std::vector<int> radix = {5, 2, 2, 3, 4};
    R.phase("quality", product(radix), 1,
            [&](uint64_t idx, Ctx& c) {
              auto d = digits(idx, radix);
              QSet q{SEGS[d[0]], ANGS[d[1]], LENS[d[2]]};
              double r = RADS[d[3]];
              int ct = d[4];
              std::string key = std::string("Quality:") + CT[ct] + "(r=" + fmt(r) + ")@" + q.str();
              c.describe(key);
              applyQ(q);
              SegRule sr = docSegments(q, r);
              int got = Quality::GetCircularSegments(r);
              int present = -1;
              std::string want = sr.str();
              bool ok = true;
              switch (ct) {
                case 0:
                  present = ringCount(Manifold::Cylinder(1.0, r), 0.0, r);
                  ok = present == got;
                  break;
                case 1: {
                  // Sphere: "always be rounded up to the nearest factor of four"
                  present = ringCount(Manifold::Sphere(r), 0.0, r);
                  int up = 4 * ((got + 3) / 4);
                  want = std::to_string(up) + " (" + sr.str() + " rounded up to a multiple of four)";
                  ok = present == up;
                  break;
                }
                case 2: {
                  Polygons prof = {{{r / 2, 0}, {r, 0}, {r, r / 2}, {r / 2, r / 2}}};
                  present = ringCount(Manifold::Revolve(prof), 0.0, r);
                  ok = present == got;
                  break;
                }
                case 3:
                  present = (int)CrossSection::Circle(r).NumVert();
                  ok = present == got;
                  break;
              }
              Quality::ResetToDefaults();
              bool defaultsBack = Quality::GetCircularSegments(1.0) == docSegments(kDefaultQ, 1.0).lo;
              c.count("configs");
              c.distinct(hash_str(key));
              if (present > 0) c.nontrivial(hash_str(key));
              if (!sr.ok(got))
                c.viol(key + ":rule", key, "GetCircularSegments(" + fmt(r) + ") = " + std::to_string(got) + "; documented rule gives " + sr.str());
              if (!ok)
                c.viol(key, key,
                       std::string(CT[ct]) + " has " + std::to_string(present) + " segments; GetCircularSegments = " + std::to_string(got) +
                           ", documented: " + want);
              if (!defaultsBack) c.viol(key + ":reset", key, "ResetToDefaults() did not restore the default segment rule");
              if (idx % 37 == 0) c.sample(key + " -> " + std::to_string(present));
            },
            {"configs"});
  }
  return R.finish();
}
