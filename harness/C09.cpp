// C09 - malformed input gives an error Status, never undefined behaviour.
// Engine S/F: structure-aware exhaustive mutation.  For each small valid seed
// mesh EVERY listed value class is written to EVERY position of EVERY field
// (one mutation at a time; thorough: all pairs on the smallest seed), the
// mutated mesh is imported, and a fixed list of follow-up operations is run on
// the result.  Numeric-argument alphabets are applied to every scalar
// parameter of every constructor / operation.  A crash, sanitizer report,
// escaped exception or watchdog timeout is an outcome of the case.
#include <sys/wait.h>
#include <unistd.h>

#include <climits>
#include <cmath>
#include <limits>
#include <sstream>

#include "engine/runner.h"
#include "lib/alphabet.h"
#include "lib/topo.h"
#include "manifold/cross_section.h"
#include "manifold/manifold.h"
#include "manifold/polygon.h"

using namespace manifold;
using namespace vf;

typedef std::function<void(MeshGL64&)> Mut;
struct NamedMut {
  std::string name;
  Mut f;
};

static const double kNaN = std::numeric_limits<double>::quiet_NaN();
static const double kInf = std::numeric_limits<double>::infinity();

static std::vector<std::pair<std::string, MeshGL64>> seedsMesh() {
  std::vector<std::pair<std::string, MeshGL64>> S;
  S.push_back({"tet", Manifold::Tetrahedron().GetMeshGL64()});
  {
    MeshGL64 g = cubeWithProps();  // 2 extra channels, merge vectors along the x=1 face
    uint32_t id = Manifold::ReserveIDs(2);
    g.runIndex = {0, 18, 36};
    g.runOriginalID = {id, id + 1};
    g.runTransform = {1, 0, 0, 0, 1, 0, 0, 0, 1, 0, 0, 0, 0, 1, 0, -1, 0, 0, 0, 0, 1, 0.5, 0, 0};
    g.runFlags = {0, 1};
    g.faceID.resize(12);
    for (int i = 0; i < 12; ++i) g.faceID[i] = i / 2;
    g.tolerance = 1e-6;
    S.push_back({"cubeFull", g});
  }
  S.push_back({"smoothTet", Manifold::Smooth(Manifold::Tetrahedron().GetMeshGL64()).GetMeshGL64()});
  return S;
}

template <typename V, typename T>
static void addVecMuts(std::vector<NamedMut>& M, const std::string& field, V MeshGL64::*mem, size_t len, const std::vector<std::pair<std::string, T>>& vals,
                       size_t stepLen = 1) {
  M.push_back({field + ".pop", [mem](MeshGL64& g) {
                 if (!(g.*mem).empty()) (g.*mem).pop_back();
               }});
  M.push_back({field + ".push", [mem](MeshGL64& g) { (g.*mem).push_back((g.*mem).empty() ? typename V::value_type() : (g.*mem)[0]); }});
  M.push_back({field + ".clear", [mem](MeshGL64& g) { (g.*mem).clear(); }});
  M.push_back({field + ".half", [mem](MeshGL64& g) { (g.*mem).resize((g.*mem).size() / 2); }});
  if (stepLen > 1) {
    M.push_back({field + ".push" + std::to_string(stepLen), [mem, stepLen](MeshGL64& g) {
                   for (size_t k = 0; k < stepLen; ++k) (g.*mem).push_back(typename V::value_type());
                 }});
    M.push_back({field + ".pop" + std::to_string(stepLen), [mem, stepLen](MeshGL64& g) {
                   for (size_t k = 0; k < stepLen && !(g.*mem).empty(); ++k) (g.*mem).pop_back();
                 }});
  }
  for (size_t i = 0; i < len; ++i)
    for (auto& v : vals)
      M.push_back({field + "[" + std::to_string(i) + "]=" + v.first, [mem, i, v](MeshGL64& g) {
                     if (i < (g.*mem).size()) (g.*mem)[i] = (typename V::value_type)v.second;
                   }});
}

static std::vector<NamedMut> mutationsFor(const MeshGL64& g) {
  std::vector<NamedMut> M;
  const uint64_t nv = g.vertProperties.size() / g.numProp;
  std::vector<std::pair<std::string, double>> fvals = {{"NaN", kNaN}, {"+Inf", kInf}, {"-Inf", -kInf}, {"1e308", 1e308}, {"denorm", 5e-324}, {"-0", -0.0}};
  std::vector<std::pair<std::string, uint64_t>> ivals = {{"0", 0}, {"n-1", nv - 1}, {"n", nv}, {"n+1", nv + 1}, {"2^31", 1ull << 31}, {"2^32", 1ull << 32}, {"max", ~0ull}};
  addVecMuts(M, "vertProperties", &MeshGL64::vertProperties, g.vertProperties.size(), fvals, g.numProp);
  addVecMuts(M, "triVerts", &MeshGL64::triVerts, g.triVerts.size(), ivals, 3);
  addVecMuts(M, "mergeFromVert", &MeshGL64::mergeFromVert, g.mergeFromVert.size(), ivals);
  addVecMuts(M, "mergeToVert", &MeshGL64::mergeToVert, g.mergeToVert.size(), ivals);
  const uint64_t end = g.triVerts.size();
  std::vector<std::pair<std::string, uint64_t>> rvals = {{"0", 0}, {"3", 3}, {"1", 1}, {"end", end}, {"end+3", end + 3}, {"end-3", end - 3}, {"2^31", 1ull << 31}, {"max", ~0ull}};
  addVecMuts(M, "runIndex", &MeshGL64::runIndex, g.runIndex.size(), rvals);
  std::vector<std::pair<std::string, uint64_t>> idvals = {{"0", 0}, {"max", 0xffffffffu}, {"same", g.runOriginalID.empty() ? 0 : g.runOriginalID[0]}};
  addVecMuts(M, "runOriginalID", &MeshGL64::runOriginalID, g.runOriginalID.size(), idvals);
  addVecMuts(M, "runTransform", &MeshGL64::runTransform, g.runTransform.size(), fvals, 12);
  std::vector<std::pair<std::string, uint64_t>> flvals = {{"0", 0}, {"1", 1}, {"2", 2}, {"3", 3}, {"255", 255}};
  addVecMuts(M, "runFlags", &MeshGL64::runFlags, g.runFlags.size(), flvals);
  std::vector<std::pair<std::string, uint64_t>> fidvals = {{"0", 0}, {"max", ~0ull}, {"2^31", 1ull << 31}};
  addVecMuts(M, "faceID", &MeshGL64::faceID, g.faceID.size(), fidvals);
  addVecMuts(M, "halfedgeTangent", &MeshGL64::halfedgeTangent, g.halfedgeTangent.size(), fvals, 4);
  for (uint64_t np : {0ull, 1ull, 2ull, 3ull, 4ull, 7ull, 1ull << 31, ~0ull})
    M.push_back({"numProp=" + std::to_string(np), [np](MeshGL64& m) { m.numProp = np; }});
  for (auto& v : std::vector<std::pair<std::string, double>>{{"NaN", kNaN}, {"Inf", kInf}, {"-1", -1.0}, {"1e308", 1e308}})
    M.push_back({"tolerance=" + v.first, [v](MeshGL64& m) { m.tolerance = v.second; }});
  // structural: add a run table to a mesh without one / runs without IDs
  M.push_back({"runIndex={0}", [](MeshGL64& m) { m.runIndex = {0}; }});
  M.push_back({"runIndex=decreasing", [end](MeshGL64& m) {
                 m.runIndex = {0, end, 3};
                 m.runOriginalID = {1, 2};
               }});
  M.push_back({"faceID=numTri", [](MeshGL64& m) { m.faceID.assign(m.triVerts.size() / 3, 7); }});
  M.push_back({"tangents=numTri*3 zeros", [](MeshGL64& m) { m.halfedgeTangent.assign(4 * m.triVerts.size(), 0.0); }});
  M.push_back({"tangents=wrong length", [](MeshGL64& m) { m.halfedgeTangent.assign(4 * m.triVerts.size() - 4, 0.5); }});
  M.push_back({"flip tri 0", [](MeshGL64& m) {
                 if (m.triVerts.size() >= 3) std::swap(m.triVerts[0], m.triVerts[1]);
               }});
  M.push_back({"duplicate tri 0", [](MeshGL64& m) {
                 for (int k = 0; k < 3 && m.triVerts.size() >= 3; ++k) m.triVerts.push_back(m.triVerts[k]);
               }});
  return M;
}

static bool errorStatus(const Manifold& m) { return m.Status() != Manifold::Error::NoError; }

// run the follow-up program; returns "" or what went wrong
static std::string followUps(const Manifold& m, Ctx& c, const std::string& name) {
  const bool bad = errorStatus(m);
  auto judge = [&](const char* what, const Manifold& r) -> std::string {
    if (bad && !errorStatus(r)) return std::string(what) + ": the error status was lost (result has NoError)";
    std::string why = checkManifoldC01(r);
    if (!why.empty()) return std::string(what) + ": " + why;
    return "";
  };
  std::string w;
  auto step = [&](const char* what, std::function<Manifold()> f) {
    if (!w.empty()) return;
    c.describe(name + " -> " + what);
    w = judge(what, f());
  };
  if (bad && (!m.IsEmpty() || m.NumTri() != 0)) return "import: error status but not empty";
  step("import", [&] { return m; });
  step("Translate", [&] { return m.Translate({1, 2, 3}); });
  step("+Cube", [&] { return m + Manifold::Cube().Translate({0.3, 0.3, 0.3}); });
  step("Cube-", [&] { return Manifold::Cube() - m; });
  step("^Cube", [&] { return m ^ Manifold::Cube(); });
  step("Refine(2)", [&] { return m.Refine(2); });
  step("Hull", [&] { return m.Hull(); });
  step("Simplify", [&] { return m.Simplify(0.01); });
  step("Split.first", [&] { return m.Split(Manifold::Cube()).first; });
  step("SplitByPlane.second", [&] { return m.SplitByPlane({0, 0, 1}, 0.1).second; });
  step("MinkowskiSum", [&] { return m.NumTri() > 40 ? m : m.MinkowskiSum(Manifold::Tetrahedron().Scale({0.1, 0.1, 0.1})); });
  step("SmoothOut.Refine", [&] { return m.SmoothOut().Refine(2); });
  step("CalculateNormals", [&] { return m.CalculateNormals(0, 30); });
  step("AsOriginal", [&] { return m.AsOriginal(); });
  step("Batch", [&] { return Manifold::BatchBoolean({Manifold::Cube(), m, Manifold::Tetrahedron()}, OpType::Add); });
  if (w.empty()) {
    c.describe(name + " -> Decompose");
    auto d = m.Decompose();
    for (auto& x : d) {
      std::string why = checkManifoldC01(x);
      if (!why.empty()) w = "Decompose: " + why;
      if (bad && !errorStatus(x)) w = "Decompose: the error status was lost";
    }
  }
  if (w.empty()) {
    c.describe(name + " -> queries");
    (void)m.GetMeshGL();
    (void)m.Volume();
    (void)m.SurfaceArea();
    (void)m.Genus();
    (void)m.MinGap(Manifold::Cube().Translate({3, 0, 0}), 1.0);
    (void)m.RayCast({-5, 0.1, 0.2}, {5, 0.2, 0.1});
    (void)m.WindingNumber({{0.1, 0.2, 0.3}});
    (void)m.Slice(0.1);
    (void)m.Project();
  }
  return w;
}

template <typename F>
static std::string guarded(F f) {
  try {
    return f();
  } catch (const std::exception& e) {
    return std::string("exception escaped: ") + e.what();
  } catch (...) {
    return "unknown exception escaped";
  }
}

// ---------------------------------------------------------------- numeric arguments
struct ArgCase {
  std::string name;
  std::function<std::string(Ctx&)> run;  // returns "" or violation
};
static std::vector<ArgCase> argCases(bool thorough) {
  std::vector<ArgCase> A;
  std::vector<std::pair<std::string, double>> D = {{"NaN", kNaN}, {"+Inf", kInf}, {"-Inf", -kInf}, {"0", 0.0}, {"-1", -1.0}, {"1e308", 1e308}, {"-1e308", -1e308}, {"5e-324", 5e-324}, {"1e-300", 1e-300}};
  std::vector<std::pair<std::string, int>> I = {{"0", 0}, {"-1", -1}, {"1", 1}, {"2", 2}, {"INT_MIN", INT_MIN}, {"INT_MAX", INT_MAX}, {"-2", -2}, {"100000", 100000}};
  auto M = [&](const std::string& n, std::function<Manifold()> f) {
    A.push_back({n, [n, f](Ctx& c) {
                   c.describe(n);
                   Manifold m = f();
                   std::string why = checkManifoldC01(m);
                   if (!why.empty()) return why;
                   // one consuming op: the status must survive and nothing may crash
                   Manifold r = m + Manifold::Cube();
                   if (errorStatus(m) && !errorStatus(r)) return std::string("error status lost by + Cube");
                   return checkManifoldC01(r);
                 }});
  };
  auto Q = [&](const std::string& n, std::function<void()> f) {  // queries: must return
    A.push_back({n, [n, f](Ctx& c) {
                   c.describe(n);
                   f();
                   return std::string();
                 }});
  };
  Polygons sq = {{{0, 0}, {1, 0}, {1, 1}, {0, 1}}};
  Polygons rv = {{{1, 0}, {2, 0}, {2, 1}}};
  for (auto& d : D) {
    double x = d.second;
    const std::string v = d.first;
    for (int k = 0; k < 3; ++k) M("Cube(size[" + std::to_string(k) + "]=" + v + ")", [x, k] {
      vec3 s(1, 2, 3);
      s[k] = x;
      return Manifold::Cube(s);
    });
    M("Cylinder(h=" + v + ")", [x] { return Manifold::Cylinder(x, 1, 1, 8); });
    M("Cylinder(rLow=" + v + ")", [x] { return Manifold::Cylinder(1, x, 1, 8); });
    M("Cylinder(rHigh=" + v + ")", [x] { return Manifold::Cylinder(1, 1, x, 8); });
    M("Cylinder(r=" + v + ",segs=0)", [x] { return Manifold::Cylinder(1, x); });
    M("Sphere(r=" + v + ",8)", [x] { return Manifold::Sphere(x, 8); });
    M("Sphere(r=" + v + ")", [x] { return Manifold::Sphere(x); });
    M("Extrude(h=" + v + ")", [x, sq] { return Manifold::Extrude(sq, x); });
    M("Extrude(twist=" + v + ")", [x, sq] { return Manifold::Extrude(sq, 1, 2, x); });
    M("Extrude(scaleTop.x=" + v + ")", [x, sq] { return Manifold::Extrude(sq, 1, 1, 0, {x, 1}); });
    M("Extrude(poly.x=" + v + ")", [x] { return Manifold::Extrude({{{0, 0}, {x, 0}, {1, 1}, {0, 1}}}, 1); });
    M("Revolve(deg=" + v + ")", [x, rv] { return Manifold::Revolve(rv, 8, x); });
    M("Revolve(deg=" + v + ",segs=0)", [x, rv] { return Manifold::Revolve(rv, 0, x); });
    M("Revolve(poly.x=" + v + ")", [x] { return Manifold::Revolve({{{1, 0}, {x, 0}, {2, 1}}}, 8); });
    M("LevelSet(edge=" + v + ")", [x] { return Manifold::LevelSet([](vec3 p) { return 1 - la::length(p); }, Box(vec3(-1.2, -1.2, -1.2), vec3(1.2, 1.2, 1.2)), x); });
    M("LevelSet(level=" + v + ")", [x] { return Manifold::LevelSet([](vec3 p) { return 1 - la::length(p); }, Box(vec3(-1.2, -1.2, -1.2), vec3(1.2, 1.2, 1.2)), 0.6, x); });
    M("LevelSet(tol=" + v + ")", [x] { return Manifold::LevelSet([](vec3 p) { return 1 - la::length(p); }, Box(vec3(-1.2, -1.2, -1.2), vec3(1.2, 1.2, 1.2)), 0.6, 0, x); });
    M("LevelSet(bounds.max.x=" + v + ")", [x] { return Manifold::LevelSet([](vec3 p) { return 1 - la::length(p); }, Box(vec3(-1.2, -1.2, -1.2), vec3(x, 1.2, 1.2)), 0.6); });
    M("LevelSet(sdf=" + v + ")", [x] { return Manifold::LevelSet([x](vec3 p) { return p.x > 0 ? x : 1 - la::length(p); }, Box(vec3(-1.2, -1.2, -1.2), vec3(1.2, 1.2, 1.2)), 0.6); });
    M("Translate(" + v + ")", [x] { return Manifold::Cube().Translate({x, 0, 0}); });
    M("Scale(" + v + ")", [x] { return Manifold::Cube().Scale({1, x, 1}); });
    M("Rotate(" + v + ")", [x] { return Manifold::Cube().Rotate(x, 10, 20); });
    M("Mirror(" + v + ")", [x] { return Manifold::Cube().Mirror({x, 1, 0}); });
    M("Transform(m[1][1]=" + v + ")", [x] { return Manifold::Cube().Transform(mat3x4({1, 0, 0}, {0, x, 0}, {0, 0, 1}, {0, 0, 0})); });
    M("Warp(->" + v + ")", [x] { return Manifold::Sphere(1, 8).Warp([x](vec3& p) { if (p.z > 0.5) p.z = x; }); });
    M("RefineToLength(" + v + ")", [x] { return Manifold::Cube().RefineToLength(x); });
    M("RefineToTolerance(" + v + ")", [x] { return Manifold::Cube().SmoothOut().RefineToTolerance(x); });
    M("SetTolerance(" + v + ")", [x] { return Manifold::Sphere(1, 8).SetTolerance(x); });
    M("Simplify(" + v + ")", [x] { return Manifold::Sphere(1, 8).Simplify(x); });
    M("SmoothOut(angle=" + v + ")", [x] { return Manifold::Cube().SmoothOut(x).Refine(2); });
    M("SmoothOut(smoothness=" + v + ")", [x] { return Manifold::Cube().SmoothOut(50, x).Refine(2); });
    M("CalculateNormals(angle=" + v + ")", [x] { return Manifold::Cube().CalculateNormals(0, x); });
    M("SplitByPlane(n.x=" + v + ")", [x] { return Manifold::Cube().SplitByPlane({x, 0, 1}, 0.5).first; });
    M("SplitByPlane(off=" + v + ")", [x] { return Manifold::Cube().SplitByPlane({0, 0, 1}, x).second; });
    M("TrimByPlane(n=0,off=" + v + ")", [x] { return Manifold::Cube().TrimByPlane({0, 0, 0}, x); });
    // (a user callback writing NaN into a property channel is user data, not malformed input: not judged)
    M("Hull(pt=" + v + ")", [x] { return Manifold::Hull(std::vector<vec3>{{0, 0, 0}, {1, 0, 0}, {0, 1, 0}, {0, 0, 1}, {x, x, x}}); });
    M("Smooth(smoothness=" + v + ")", [x] { return Manifold::Smooth(Manifold::Tetrahedron().GetMeshGL64(), {{0, x}}).Refine(2); });
    Q("MinGap(len=" + v + ")", [x] { (void)Manifold::Cube().MinGap(Manifold::Cube().Translate({2, 0, 0}), x); });
    Q("RayCast(o.x=" + v + ")", [x] { (void)Manifold::Cube().RayCast({x, 0.5, 0.5}, {2, 0.5, 0.5}); });
    Q("Slice(" + v + ")", [x] { (void)Manifold::Cube().Slice(x); });
    Q("WindingNumber(" + v + ")", [x] { (void)Manifold::Cube().WindingNumber({{x, 0.5, 0.5}}); });
    Q("Quality(" + v + ")", [x] {
      Quality::SetMinCircularAngle(x);
      Quality::SetMinCircularEdgeLength(x);
      (void)Quality::GetCircularSegments(x);
      (void)Manifold::Sphere(1).NumTri();
      Quality::ResetToDefaults();
    });
    // cross sections / polygons
    Q("CS::Square(" + v + ")", [x] { (void)CrossSection::Square({x, 1}).Area(); });
    Q("CS::Circle(r=" + v + ")", [x] { (void)CrossSection::Circle(x, 8).Area(); });
    Q("CS::Offset(delta=" + v + ")", [x] { (void)CrossSection::Square({1, 1}).Offset(x, CrossSection::JoinType::Round, 2, 8).Area(); });
    Q("CS::Offset(miter=" + v + ")", [x] { (void)CrossSection::Square({1, 1}).Offset(0.1, CrossSection::JoinType::Miter, x).Area(); });
    Q("CS(contour.x=" + v + ")", [x] { (void)CrossSection(SimplePolygon{{0, 0}, {x, 0}, {1, 1}}).Area(); });
    Q("CS::Simplify(" + v + ")", [x] { (void)CrossSection::Circle(1, 16).Simplify(x).NumVert(); });
    Q("CS::Rotate(" + v + ")", [x] { (void)CrossSection::Square({1, 2}).Rotate(x).Area(); });
    Q("CS::Scale(" + v + ")", [x] { (void)(CrossSection::Square({1, 2}).Scale({x, 1}) + CrossSection::Circle(0.3, 6)).Area(); });
    Q("CS::Hull(pt=" + v + ")", [x] { (void)CrossSection::Hull(SimplePolygon{{0, 0}, {1, 0}, {0, 1}, {x, x}}).Area(); });
    Q("Triangulate(eps=" + v + ")", [x, sq] { (void)Triangulate(sq, x); });
    Q("Triangulate(pt=" + v + ")", [x] { (void)Triangulate({{{0, 0}, {1, 0}, {x, 1}, {0, 1}}}); });
  }
  for (auto& i : I) {
    int n = i.second;
    const std::string v = i.first;
    // A count that IS the amount of work or memory asked for (segments, divisions, property channels) is a legitimate
    // request when it is huge: 2^31 segments end in an allocation failure or hours of work, which is resource exhaustion,
    // not malformed input.  Those APIs get every value except INT_MAX and 100000.  Where the value enters int arithmetic
    // before anything is allocated (Sphere's (n+3)/4, Refine's n*n, channel index + 3) the huge values stay.
    const bool huge = n == INT_MAX || n == 100000;
    if (n != 100000) M("Sphere(1,segs=" + v + ")", [n] { return Manifold::Sphere(1, n); });
    if (!huge) M("Cylinder(segs=" + v + ")", [n] { return Manifold::Cylinder(1, 1, 1, n); });
    if (!huge) M("Extrude(nDiv=" + v + ")", [n, sq] { return Manifold::Extrude(sq, 1, n); });
    if (!huge) M("Revolve(segs=" + v + ")", [n, rv] { return Manifold::Revolve(rv, n); });
    M("Refine(" + v + ")", [n] { return Manifold::Cube().Refine(n); });
    M("CalculateNormals(idx=" + v + ")", [n] { return Manifold::Cube().CalculateNormals(n); });
    M("CalculateCurvature(" + v + ",1)", [n] { return Manifold::Cube().CalculateCurvature(n, 1); });
    if (!huge) M("SetProperties(n=" + v + ")", [n] { return Manifold::Cube().SetProperties(n, nullptr); });
    M("SmoothByNormals(" + v + ")", [n] { return Manifold::Cube().CalculateNormals(0).SmoothByNormals(n); });
    Q("GetMeshGL(normalIdx=" + v + ")", [n] { (void)Manifold::Cube().CalculateNormals(0).GetMeshGL64(n); });
    // ReserveIDs moves a process-wide counter: run it in a child process so that the cases this worker runs afterwards
    // do not inherit a counter near the end of its range; the child also uses the IDs it reserved in one Boolean.
    A.push_back({"ReserveIDs(" + v + ") then Boolean", [n, v](Ctx& c) {
                   c.describe("ReserveIDs(" + v + ") then Boolean");
                   fflush(nullptr);
                   pid_t pid = fork();
                   if (pid == 0) {
                     (void)Manifold::ReserveIDs((uint32_t)n);
                     Manifold r = Manifold::Cube() + Manifold::Sphere(0.7, 8).Translate({0.5, 0.5, 0.5});
                     std::string why = checkManifoldC01(r);
                     _exit(why.empty() ? 0 : 3);
                   }
                   int st = 0;
                   waitpid(pid, &st, 0);
                   if (WIFEXITED(st) && WEXITSTATUS(st) == 0) return std::string();
                   if (WIFEXITED(st) && WEXITSTATUS(st) == 3) return std::string("the Boolean after ReserveIDs is not a valid manifold");
                   return std::string("the process died (sanitizer report or signal) in ReserveIDs or in the Boolean that followed; status ") + std::to_string(st);
                 }});
    if (!huge) Q("CS::Circle(segs=" + v + ")", [n] { (void)CrossSection::Circle(1, n).Area(); });
    if (!huge) Q("CS::Offset(segs=" + v + ")", [n] { (void)CrossSection::Square({1, 1}).Offset(0.2, CrossSection::JoinType::Round, 2, n).Area(); });
    if (!huge) Q("Quality::SetCircularSegments(" + v + ")", [n] {
      Quality::SetCircularSegments(n);
      (void)Manifold::Cylinder(1, 1).NumTri();
      (void)Manifold::Sphere(1).NumTri();
      Quality::ResetToDefaults();
    });
  }
  // degenerate polygon / point sets
  std::vector<std::pair<std::string, Polygons>> PS = {{"empty", {}}, {"empty-contour", {{}}}, {"1pt", {{{0, 0}}}}, {"2pt", {{{0, 0}, {1, 0}}}},
                                                      {"repeated", {{{0, 0}, {0, 0}, {1, 0}, {1, 1}, {1, 1}}}}, {"bowtie", {{{0, 0}, {1, 1}, {1, 0}, {0, 1}}}},
                                                      {"collinear", {{{0, 0}, {1, 0}, {2, 0}}}}, {"cw", {{{0, 0}, {0, 1}, {1, 1}, {1, 0}}}},
                                                      {"dup-contour", {{{0, 0}, {1, 0}, {1, 1}}, {{0, 0}, {1, 0}, {1, 1}}}}};
  for (auto& p : PS) {
    Polygons pp = p.second;
    M("Extrude(" + p.first + ")", [pp] { return Manifold::Extrude(pp, 1); });
    M("Revolve(" + p.first + ")", [pp] { return Manifold::Revolve(pp, 8); });
    Q("Triangulate(" + p.first + ")", [pp] { (void)Triangulate(pp); });
    Q("CrossSection(" + p.first + ")", [pp] { (void)CrossSection(pp).Offset(0.1).Area(); });
  }
  std::vector<std::pair<std::string, std::vector<vec3>>> HS = {{"0pts", {}}, {"1pt", {{0, 0, 0}}}, {"2pts", {{0, 0, 0}, {1, 0, 0}}}, {"3pts", {{0, 0, 0}, {1, 0, 0}, {0, 1, 0}}},
                                                               {"allEqual", {{1, 1, 1}, {1, 1, 1}, {1, 1, 1}, {1, 1, 1}, {1, 1, 1}}},
                                                               {"collinear", {{0, 0, 0}, {1, 1, 1}, {2, 2, 2}, {3, 3, 3}, {4, 4, 4}}},
                                                               {"coplanar", {{0, 0, 0}, {1, 0, 0}, {0, 1, 0}, {1, 1, 0}, {0.5, 0.5, 0}}}};
  for (auto& h : HS) {
    auto pts = h.second;
    M("Hull(" + h.first + ")", [pts] { return Manifold::Hull(pts); });
  }
  // OBJ text
  std::vector<std::pair<std::string, std::string>> OBJ = {
      {"huge-index", "v 0 0 0\nv 1 0 0\nv 0 1 0\nv 0 0 1\nf 1 2 99999999999999999999\nf 1 3 2\nf 1 4 3\nf 2 3 4\n"},
      {"zero-index", "v 0 0 0\nv 1 0 0\nv 0 1 0\nv 0 0 1\nf 0 2 3\nf 1 3 2\nf 1 4 3\nf 2 3 4\n"},
      {"negative-index", "v 0 0 0\nv 1 0 0\nv 0 1 0\nv 0 0 1\nf -1 2 3\nf 1 3 2\n"},
      {"missing-field", "v 0 0\nv 1 0 0\nf 1 2\n"},
      {"long-line", "v 0 0 0 " + std::string(5000, '1') + "\nv 1 0 0\nv 0 1 0\nv 0 0 1\nf 1 3 2\nf 1 2 4\nf 1 4 3\nf 2 3 4\n"},
      {"cr-lines", "v 0 0 0\r\nv 1 0 0\r\nv 0 1 0\r\nv 0 0 1\r\nf 1 3 2\r\nf 1 2 4\r\nf 1 4 3\r\nf 2 3 4\r\n"},
      {"nan-vertex", "v nan 0 0\nv 1 0 0\nv 0 1 0\nv 0 0 1\nf 1 3 2\nf 1 2 4\nf 1 4 3\nf 2 3 4\n"},
      {"huge-exponent", "v 1e999 0 0\nv 1 0 0\nv 0 1 0\nv 0 0 1\nf 1 3 2\nf 1 2 4\nf 1 4 3\nf 2 3 4\n"},
      {"empty", ""},
      {"tolerance-garbage", "# tolerance = 1e99999\n# epsilon = -5\nv 0 0 0\nv 1 0 0\nv 0 1 0\nv 0 0 1\nf 1 3 2\nf 1 2 4\nf 1 4 3\nf 2 3 4\n"}};
  for (auto& o : OBJ) {
    std::string text = o.second;
    M("ReadOBJ(" + o.first + ")", [text] {
      std::istringstream ss(text);
      return Manifold::ReadOBJ(ss);
    });
  }
  return A;
}

int main(int argc, char** argv) {
  Runner R("C09", argc, argv);
  const bool thorough = R.a.thorough();
  auto S = seedsMesh();
  std::vector<std::vector<NamedMut>> MU;
  std::vector<uint64_t> off = {0};
  for (auto& s : S) {
    MU.push_back(mutationsFor(s.second));
    off.push_back(off.back() + MU.back().size());
  }
  auto caseBody = [&](const std::string& name, const MeshGL64& g, Ctx& c, bool viaFloat) {
    c.describe(name + " -> import");
    std::string why = guarded([&]() -> std::string {
      Manifold m = viaFloat ? Manifold([&] {
        MeshGL f;  // the same structure in 32 bit
        f.numProp = (uint32_t)g.numProp;
        f.vertProperties.assign(g.vertProperties.begin(), g.vertProperties.end());
        f.triVerts.assign(g.triVerts.begin(), g.triVerts.end());
        f.mergeFromVert.assign(g.mergeFromVert.begin(), g.mergeFromVert.end());
        f.mergeToVert.assign(g.mergeToVert.begin(), g.mergeToVert.end());
        f.runIndex.assign(g.runIndex.begin(), g.runIndex.end());
        f.runOriginalID = g.runOriginalID;
        f.runTransform.assign(g.runTransform.begin(), g.runTransform.end());
        f.runFlags = g.runFlags;
        f.faceID.assign(g.faceID.begin(), g.faceID.end());
        f.halfedgeTangent.assign(g.halfedgeTangent.begin(), g.halfedgeTangent.end());
        f.tolerance = (float)g.tolerance;
        return f;
      }())
                           : Manifold(g);
      c.count(errorStatus(m) ? "rejected" : "accepted");
      return followUps(m, c, name);
    });
    c.count("transitions", 18);
    if (!why.empty()) c.viol("mesh:" + name, name, why);
    // MeshGL::Merge() on the malformed mesh itself
    c.describe(name + " -> MeshGL::Merge()");
    std::string w2 = guarded([&]() -> std::string {
      MeshGL64 h = g;
      h.Merge();
      Manifold m(h);
      return checkManifoldC01(m);
    });
    if (!w2.empty()) c.viol("merge:" + name, name, w2);
  };

  R.phase("mesh-single", off.back() * 2, 1, [&](uint64_t idx0, Ctx& c) {
    bool viaFloat = idx0 % 2;
    uint64_t idx = idx0 / 2;
    size_t si = 0;
    while (off[si + 1] <= idx) ++si;
    const NamedMut& mu = MU[si][idx - off[si]];
    std::string name = S[si].first + (viaFloat ? "/f32" : "/f64") + ":" + mu.name;
    MeshGL64 g = S[si].second;
    mu.f(g);
    c.distinct(hash_str(name));
    c.nontrivial(hash_str(name));
    if (idx0 % 997 == 0) c.sample(name);
    caseBody(name, g, c, viaFloat);
  }, {"transitions", "accepted", "rejected"});

  if (thorough) {
    // all ordered pairs of single mutations on the smallest seed
    const auto& M0 = MU[0];
    const uint64_t n = M0.size();
    R.phase("mesh-pairs", n * n, n, [&](uint64_t idx, Ctx& c) {
      const NamedMut &a = M0[idx / n], &b = M0[idx % n];
      std::string name = S[0].first + "/f64:" + a.name + " & " + b.name;
      MeshGL64 g = S[0].second;
      a.f(g);
      b.f(g);
      c.distinct(hash_str(name));
      c.nontrivial(hash_str(name));
      if (idx % 9973 == 0) c.sample(name);
      caseBody(name, g, c, false);
    }, {"transitions", "accepted", "rejected"});
  }

  auto A = argCases(thorough);
  R.phase("arguments", A.size(), 1, [&](uint64_t idx, Ctx& c) {
    const ArgCase& a = A[idx];
    std::string why = guarded([&] { return a.run(c); });
    c.count("transitions");
    c.distinct(hash_str(a.name));
    c.nontrivial(hash_str(a.name));
    if (idx % 53 == 0) c.sample(a.name);
    if (!why.empty()) c.viol("arg:" + a.name, a.name, why);
  }, {"transitions"});
  return R.finish();
}
