CHECK = dict(
    level="model_checking", engine="S",
    technique=("exhaustive enumeration of lattice polygon sets executed on the real triangulator (public Triangulate/TriangulateIdx and the "
               "internal reusable PolygonTriangulator), judged by an exact integer-arithmetic oracle; crash, sanitizer report, exception and "
               "watchdog timeout are outcomes"),
    level_text=("Every vertex sequence of length 3..6 (quick) / 3..7 (thorough) over the 16 points of a 4x4 integer lattice is handed to "
                "TriangulateIdx.  An exact integer classifier decides which inputs are valid (strictly simple contours, straight vertices and "
                "consecutive duplicate vertices allowed, boundaries pairwise disjoint or - one pair at most - touching in a single point, CCW at "
                "even and CW at odd nesting depth); only those are judged against the full statement: count = V-2+2h-2(o-1), every triangle's "
                "exact orientation >= 0, exact area sum, every input edge once in its direction, every other edge matched by its reverse, "
                "indices are input indices - under both allowConvex settings, scales 1e-6 / 1 / 1e6 and epsilon -1 / 0 / 1e-9*scale (18 calls "
                "per valid input) plus Triangulate(Polygons) == TriangulateIdx.  All other inputs (self-intersecting, clockwise, overlapping, "
                "degenerate, 0/1/2-vertex contours) are checked for termination, absence of crashes/exceptions and index validity, also with "
                "an epsilon larger than the lattice step.  Further phases: every (outer contour, hole) combination, outer contour x {two "
                "holes, hole with an island inside}, all ordered pairs of CCW contours (o = 2), and the reuse differential of "
                "PolygonTriangulator over all ordered pairs of a pool of inputs."),
    level_note=("Trusted: compiler, ASan/UBSan, the ~200-line exact integer classifier and oracle in harness/C10.cpp (coordinates are small "
                "integers; for epsilon = 0 the small scale is 2^-20 instead of 1e-6 so that the doubles the library sees are exactly the lattice "
                "polygon). Bound: one contour <= 6 (7) vertices on the 4x4 lattice; holes = CW rings of 3..4 vertices on the half lattice "
                "{1,1.5,2}^2; islands = CCW triangles on the quarter lattice {1.25,1.5,1.75}^2; nesting depth <= 2.  With epsilon = 0, inputs "
                "containing a zero-length edge or a touching pair of contours are not judged (termination and index validity only); "
                "self-touching contours, shared edges and multiple contacts are never judged."),
    runs=[S("seq-fast", quick=600, thorough=5400, workers=8, case_timeout=20),
          S("seq-asan", quick=600, thorough=5400, workers=8, case_timeout=60, args=["--asan-subset"])],
    rule=("phases: seq = all 16^n vertex sequences, n = 3..6 (7); hole1 = all (outer, hole) with outer a simple CCW ring over the 12 "
          "boundary lattice points with <= 4 vertices (thorough: all 16 points, <= 5 vertices) and hole one of the 796 simple CW rings with "
          "3..4 vertices over {1,1.5,2}^2; holes2 = outer x {pair of holes | hole + island} restricted to valid combinations (thorough: "
          "ordered pairs, both contour orders, holes touching in a point); two = all ordered pairs of CCW triangles (thorough: + triangle x "
          "quad, quad x triangle) over the 16 lattice points; tiny = contours with 0, 1, 2 vertices alone or beside a triangle / inside a "
          "square, one case per configuration; reuse = all ordered pairs (P,Q) of a 400 (1200)-input pool x epsilon {-1, 0}: "
          "T.Triangulate(P); T.Triangulate(Q) vs a fresh PolygonTriangulator, vs the one-shot TriangulateIdxHalfedges, vs the overload "
          "borrowing the used triangulator, and P again.  distinct = valid inputs up to cyclic rotation of each contour; non-trivial = "
          "valid input that is not a single strictly convex contour (ear clipping / key-holing is exercised even with allowConvex).  The "
          "seq-asan run (--asan-subset) runs seq and reuse one size level lower (quick: n <= 5, pool 200; thorough: the quick bound) and the "
          "hole / pair phases at a small bound (triangles as outer contours, the square as holes2 outer, pairs over the 3x3 sub-lattice)."),
    bounds=dict(quick="seq n<=6 (17.9M sequences, 0.81M valid x 18 configurations); hole1 2576 outers x 796 holes; holes2 188 outers x 2846 inner "
                      "configurations; two 1548^2 pairs; tiny 424; reuse 400^2 pairs x 2 epsilon",
                thorough="seq n<=7 (286M sequences, 4.4M valid); hole1 60728 outers x 796 holes; holes2 1076 outers x up to 39120 inner "
                         "configurations (11.4M valid sets); two 30.8M pairs; reuse 1200^2 pairs x 2 epsilon"),
    assumptions=COMMON_ASSUME + [
        "an input is judged only if the exact integer classifier calls it valid: strictly simple contours that are pairwise disjoint or (one "
        "pair, epsilon != 0 only) touch in exactly one point; every other input is run for termination and index validity only",
        "'counter-clockwise within epsilon' is evaluated as exact lattice orientation >= 0: a clockwise lattice triangle has area >= 1/32 "
        "lattice cell, far above every epsilon used in a judged configuration",
        "'does not depend on the allowConvex fast path' is read as: both settings satisfy the whole statement (the two triangulations may differ)",
        "an exception escaping Triangulate counts as a violation (no triangulation is returned)",
    ],
)
