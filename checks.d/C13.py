CHECK = dict(
    level="model_checking", engine="T+C",
    technique="stateless model checking: preemption-bounded exhaustive schedule exploration (CHESS-style DFS) of the real parallel.h primitives on oneTBB's header algorithms over a replacement runtime, and of the lock-free containers at hooked atomic operations; all inputs over a 3-letter alphabet up to the length bound",
    level_text=("Every primitive of src/parallel.h is run with ExecutionPolicy::Par on every sequence over {0,1,2} up to the length bound; oneTBB's own "
                "parallel_for/reduce/scan/invoke, partitioners and body split/join protocols execute on engine/tbbrt, where the choice of which modelled "
                "worker takes which ready task (own newest / steal oldest, isolation respected) is enumerated by DFS up to the preemption bound; each "
                "execution's result is compared with the std:: algorithm. DisjointSets and HashTableD are driven by 2-3 real threads whose every "
                "interleaving at the library's atomic operations (hook H5) is enumerated within the bound and compared with a sequential structure."),
    level_note=("Trusted: the scheduler/runtime model in engine/tbbrt (owner LIFO, thief FIFO, task-boundary scheduling points, isolation tags), sequential "
                "consistency (relaxed/acquire-release reorderings are not enumerated), spurious compare_exchange_weak failures are not modelled. "
                "kSeqThreshold is lowered (hook H3) so merge/radix/scan split at tiny sizes; the production constant is exercised by C04's scale-L programs."),
    runs=[S("par-model", quick=1500, thorough=5400, workers=16, case_timeout=600),
          # binding of the scheduler model to the implementation: canonical traces of small TBB programs, model (exhaustive) vs real libtbb
          S("par-model", quick=900, thorough=3600, workers=16, case_timeout=900, harness="TBBCONF"),
          S("par-tbb", quick=300, thorough=900, workers=2, harness="TBBCONF")],
    rule=("cases = (primitive, input sequence, reported concurrency); per case ALL schedules within the bound are executed. distinct = cases; non-trivial = "
          "cases in which at least one explored schedule had a task stolen by another worker (primitives) / more than one interleaving (containers). "
          "executions = total schedules run. Run TBBCONF/par-model enumerates the model's canonical traces, run TBBCONF/par-tbb checks every canonical trace "
          "of real libtbb (arenas of 1-3 threads) against them: traces_validated counts those."),
    bounds=dict(quick="26 primitives x all 1093 sequences of length <= 6 x C in {1,2,4}, W=2 workers, preemption bound 3 (len<=4) / 2; unique at 4 lengths around its 65536-element "
                      "chunk seams x 81 seam windows x C in {2,4}, bound 1; radix sort with kSeqThreshold=2 on all 2-letter inputs of length 9 (bound 2) and 12 (bound 1); "
                      "TBBCONF: 58 trace programs x (W=2,C=1), (W=2,C=2) complete up to an execution cap, (W=3,C=3) bound 4, vs libtbb arenas 1..16 x 1500 runs; DisjointSets: 625 programs "
                      "of 2 threads x 2 unites on 4 elements, bound 2; HashTableD: 2592 programs of 2 threads x 2 inserts (sizes 8 and 4), bound 2",
                thorough="sequences of length <= 7, C in {1,2,4}, W=3, bound 3 (len<=5) / 2; containers: + 3-thread programs, bound 3"),
    assumptions=COMMON_ASSUME + ["sequentially consistent interleavings only", "scheduling points at task boundaries / spawn / wait and at hooked atomics only"],
)
