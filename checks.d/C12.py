CHECK = dict(
    level="exploration", engine="S",
    technique=("exhaustive enumeration of region x delta x join x miter limit x segment count for Offset and of all small lattice inputs for "
               "Hull / Decompose / Simplify, executed on the real CrossSection code and judged by an exact distance field of the input region, "
               "a brute-force lattice hull, a pixel-set model with connected components, and a direct reading of the Simplify contract"),
    level_text=("Offset: 9 regions on half-integer coordinates (square, square with collinear vertices, L, T, square with a square hole, two squares 1 "
                "apart, 7-degree spike triangle, 45-degree triangle, dart with an oblique reflex vertex) x {Round, Miter, Square, Bevel} x miter limit "
                "{1,2,4} x segments {0,4,8,16} x delta in {0, +-0.25, +-0.5, +-1, +-1.5}. With d(p) the exact distance from a sample to the input's "
                "boundary (int64 arithmetic, samples (2k+1)/32 of (-7.5,12.5)^2): for delta>0 the input itself, every point q+t*n (q in an edge's "
                "interior, n its outward normal, t<delta) and - Round only - every point with d<delta*cos(pi/n) must be inside the result; points "
                "with d>delta (Round) resp. d>max(2,miterLimit)*delta (other joins) must be outside; for delta<0 the mirror statement about the "
                "complement; n is the given segment count or Quality::GetCircularSegments(|delta|) for 0. Results must be nested in delta at the "
                "samples, have winding 0/1 and no ring defects; Offset(0) is the input. Every non-empty Offset result is fed to Decompose (contours "
                "partitioned, one outline per piece, areas sum, piece windings 0/1 summing to the whole's), Hull (vertices are input vertices, convex "
                "counter-clockwise, contains every input vertex) and Simplify x {0,0.01,0.1,0.6}. Hull: every subset of <= 6 of the 16 lattice points "
                "in sorted / reversed / reversed-with-a-repeated-point order through Hull(SimplePolygon), and all ordered pairs of the 516 lattice "
                "triangles through Hull(vector<CrossSection>) and Hull(Polygons), must equal the brute-force hull exactly (vertex sequence "
                "counter-clockwise, area; collinear or < 3 points: empty). Decompose: every multiset of <= 3 shapes (integer rectangles, rectangles "
                "with any strictly interior rectangular hole) in [0,4]^2, a 9x9 frame ring plus every unordered pair of rectangles / unit-thick "
                "rings in its hole, and every one of the 65536 unions of unit squares of the 4x4 pixel grid (all lattice regions of that window, hence "
                "every way of touching at a corner), against the pixel model: contours partitioned, one outline per component, areas sum, exactly one component "
                "contains each filled pixel centre and none an empty one, the pixel to the left of every contour edge belongs to the component the "
                "contour is attached to, component count == number of connected components of the pixel set. Simplify: every simple counter-clockwise "
                "lattice ring of 3..6 vertices x tolerance {0,0.1,0.6,1.1}: every output ring is a cyclic in-order subsequence of a distinct input "
                "ring and no vertex of an output ring with more than 3 vertices is closer than the tolerance to the line through its neighbours."),
    level_note=("Trusted: compiler, sanitizers, lib/geom2.h (exact int64 orientation / winding / point-segment distance, long-double winding of the output), "
                "the ~80 lines of distance-field rules and the brute-force hull in harness/C12.cpp. Samples closer than 2e-8 + the result's tolerance to a "
                "decision boundary (d = delta*cos(pi/n), d = delta, d = limit*delta, strip depth = delta) are not judged; the chordal band "
                "delta*cos(pi/n) <= d <= delta of Round joins is never judged. The miter limit is only an upper bound max(2,limit)*|delta| for every join "
                "type (the library documents that limits below 2 are clamped to 2). Component counts are demanded exactly only when 4- and "
                "8-connectivity of the pixel model agree (no ambiguity about regions touching at a corner), otherwise the count must lie between the two. "
                "Decompose of an empty cross-section returns one empty piece; this is not judged. Simplify with tolerance 0 is judged against "
                "GetTolerance() of the input as documented."),
    # budgets are deadlines with slack for a heavily shared machine (measured at load 25-40 on 16 cores: quick seq-fast 41 s + seq-asan 74 s,
    # thorough seq-fast 312 s + seq-asan 126 s)
    runs=[S("seq-fast", quick=900, thorough=3000, workers=8, case_timeout=120),
          S("seq-asan", quick=1200, thorough=1500, workers=8, case_timeout=300, args=["--asan-subset"])],
    rule=("offset: mixed-radix enumeration region x join x limit x segments, each case runs all 9 deltas (needed for the monotonicity comparison); "
          "distinct = distinct (delta, result ring set); non-trivial = non-empty result for delta != 0. hull-pts: all 14893 subsets x 3 orders; distinct = "
          "distinct hulls; non-trivial = subsets with a point that is not a hull vertex. hull-pairs: 516^2 ordered pairs; non-trivial = hull with more than 3 "
          "vertices. decomp-free / decomp-nest: multisets by unranking, every index executed; decomp-pixels: the index is the pixel bitmap; distinct = "
          "distinct pixel sets; non-trivial = more than one component or at least one hole. simplify: a case is the 256 vertex sequences sharing their first n-2 vertices, every sequence is tested for "
          "simple + counter-clockwise by the exact integer test and the survivors (counter `rings`) are run; non-trivial = (ring, tolerance) pairs in "
          "which vertices were deleted and the ring survived."),
    bounds=dict(quick=("offset 432 cases x 9 deltas at 320x320 samples; 44679 point sequences; 266256 triangle pairs x 2 hull APIs; 333375 shape multisets in "
                       "[0,4]^2; 509545 frame + pair scenes in [0,9]^2; 65536 pixel regions; 17.9M vertex sequences -> 272888 rings x 6 tolerances (0 .. 2.5); seq-asan re-runs offset at "
                       "160x160 samples, hull-pts, 1/8 of hull-pairs, shapes in [0,3]^2, frame scenes in [0,7]^2, the 4x3 pixel grid, rings of <= 5 vertices"),
                thorough=("offset at 640x640 samples; point subsets of <= 8 points (117609 sequences); shapes in [0,5]^2 (15.3M multisets); frame + pairs in "
                          "[0,11]^2 (3.9M scenes); the 4x5 pixel grid (1M regions); the rest as quick")),
    assumptions=COMMON_ASSUME + [
        "samples within 2e-8 + result tolerance of a decision boundary are not judged; the Round chordal band is not judged",
        "for delta < 0 'the input dilated along its edges' and 'the miter-limit distance' are read as the same statements about the complement",
        "general (non half-integer) regions, other deltas, segment counts and miter limits, point sets of more than 6 points and the parallel build are outside this bound",
    ],
)
