CHECK = dict(
    level="model_checking", engine="S",
    technique="explicit-state exploration of all handle/derivation histories up to the depth bound on a pool of live objects; value-semantics invariant (bit-identical fingerprints of all older objects) evaluated after every transition",
    level_text=("From 6 Manifold seed pools (primitive; lazily transformed leaf; unevaluated op node; two Impls sharing halfedge storage copy-on-write; Boolean result "
                "with properties; smoothed mesh) and 3 CrossSection pools, EVERY history of 36 Manifold / 22 CrossSection transitions (21 unary derivations, 6 binary, "
                "copy-construct, copy-assign, move-construct, move-assign, op=, destroy, operations on moved-from handles) applied to any slots is executed up to "
                "the depth bound. After every transition the fingerprint (byte hash of GetMeshGL64/ToPolygons, counts, bounding box, tolerance, epsilon, Status, "
                "OriginalID) of every live older object is recomputed and must equal the value recorded at its creation; copies must fingerprint like their source."),
    level_note="Trusted: compiler, lib/canon.h hashing. Bound: depth 2 (quick) / 3 (thorough) histories, pool of at most 4+2 slots. Infeasible index combinations (dead slot, moved-from operand) are skipped deterministically, not sampled.",
    runs=[S("seq-fast", quick=300, thorough=3000, workers=16)],
    rule="cases = (seed pool, transition, slot i, slot j)^depth in mixed radix; distinct = feasible histories; non-trivial = histories ending with >= 2 live objects (aliasing possible).",
    bounds=dict(quick="all histories of length 2", thorough="all histories of length 3"),
    assumptions=COMMON_ASSUME + ["single thread (C06 covers concurrent use)"],
)
