// Conformance of the scheduler model (engine/tbbrt) to real libtbb.
//
// The only modelled component of engine T is "which thread takes which ready
// task next".  Its behaviours must INCLUDE those of the real runtime.  The
// same trace-producing bodies are compiled twice:
//   variant par-model : ALL schedules of the model are enumerated (no bound) for
//                       each small parallel_for / parallel_reduce / parallel_scan /
//                       parallel_invoke / task_group program and every CANONICAL
//                       TRACE they produce is written to a file;
//   variant par-tbb   : the programs run on real libtbb (arena sizes 1..16, many
//                       repetitions, bodies spin so that steals happen) and every
//                       canonical trace observed must be a member of the model's set.
// A canonical trace is independent of timing and thread identity: the reduction /
// scan expression tree with its leaf sub-ranges (strings built by the bodies
// themselves), resp. the set of leaf sub-ranges of a parallel_for.
// A miss means the model is too narrow (fix tbbrt) - it is not a finding about manifold.
// VBUILD: variants=par-model,par-tbb
#ifdef VERIF_TBBRT
#define TBBCONF_MODEL 1
#endif
#include <tbb/blocked_range.h>
#include <tbb/parallel_for.h>
#include <tbb/parallel_invoke.h>
#include <tbb/parallel_reduce.h>
#include <tbb/parallel_scan.h>
#include <tbb/task_arena.h>
#include <tbb/task_group.h>

#include <algorithm>
#include <fstream>
#include <mutex>
#include <set>
#include <sstream>

#include "engine/runner.h"
#ifdef TBBCONF_MODEL
#include "engine/explore.h"
#endif

using namespace vf;

static void spin() {
#ifndef TBBCONF_MODEL
  volatile int x = 0;
  for (int i = 0; i < 20000; ++i) x += i;
#endif
}
static std::string rng(size_t b, size_t e) { return "[" + std::to_string(b) + "," + std::to_string(e) + ")"; }

struct Prog {
  std::string name;
  std::function<std::string()> run;  // returns the canonical trace
};

static std::vector<Prog> programs(bool thorough) {
  std::vector<Prog> P;
  for (int n : thorough ? std::vector<int>{1, 2, 3, 4, 5, 6, 8} : std::vector<int>{1, 2, 3, 4, 5})
    for (int grain : {1, 2}) {
      std::string tag = "n=" + std::to_string(n) + ",g=" + std::to_string(grain);
      P.push_back({"for(auto) " + tag, [n, grain] {
                     std::mutex mu;
                     std::vector<std::string> leaves;
                     tbb::parallel_for(tbb::blocked_range<size_t>(0, n, grain), [&](const tbb::blocked_range<size_t>& r) {
                       spin();
                       std::lock_guard<std::mutex> l(mu);
                       leaves.push_back(rng(r.begin(), r.end()));
                     });
                     std::sort(leaves.begin(), leaves.end());
                     std::string s;
                     for (auto& x : leaves) s += x;
                     return s;
                   }});
      P.push_back({"for(simple) " + tag, [n, grain] {
                     std::mutex mu;
                     std::vector<std::string> leaves;
                     tbb::parallel_for(tbb::blocked_range<size_t>(0, n, grain), [&](const tbb::blocked_range<size_t>& r) {
                       spin();
                       std::lock_guard<std::mutex> l(mu);
                       leaves.push_back(rng(r.begin(), r.end()));
                     }, tbb::simple_partitioner());
                     std::sort(leaves.begin(), leaves.end());
                     std::string s;
                     for (auto& x : leaves) s += x;
                     return s;
                   }});
      P.push_back({"reduce " + tag, [n, grain] {
                     return tbb::parallel_reduce(
                         tbb::blocked_range<size_t>(0, n, grain), std::string(),
                         [](const tbb::blocked_range<size_t>& r, std::string v) {
                           spin();
                           return v + rng(r.begin(), r.end());
                         },
                         [](const std::string& a, const std::string& b) { return "(" + a + "+" + b + ")"; });
                   }});
      P.push_back({"scan " + tag, [n, grain] {
                     std::mutex mu;
                     std::vector<std::string> ev;
                     std::string total = tbb::parallel_scan(
                         tbb::blocked_range<size_t>(0, n, grain), std::string(),
                         [&](const tbb::blocked_range<size_t>& r, std::string sum, bool fin) {
                           spin();
                           {
                             std::lock_guard<std::mutex> l(mu);
                             ev.push_back(std::string(fin ? "F" : "P") + rng(r.begin(), r.end()) + "<" + sum + ">");
                           }
                           return sum + rng(r.begin(), r.end());
                         },
                         [](const std::string& a, const std::string& b) { return "(" + a + "*" + b + ")"; });
                     std::sort(ev.begin(), ev.end());
                     std::string s = total + " ::";
                     for (auto& x : ev) s += " " + x;
                     return s;
                   }});
    }
  P.push_back({"invoke2", [] {
                 std::mutex mu;
                 std::string s;
                 tbb::parallel_invoke([&] { spin(); std::lock_guard<std::mutex> l(mu); s += "a"; }, [&] { spin(); std::lock_guard<std::mutex> l(mu); s += "b"; });
                 std::sort(s.begin(), s.end());
                 return s;
               }});
  P.push_back({"task_group4", [] {
                 std::mutex mu;
                 std::string s;
                 tbb::task_group g;
                 for (int i = 0; i < 4; ++i) g.run([&, i] { spin(); std::lock_guard<std::mutex> l(mu); s += char('a' + i); });
                 g.wait();
                 std::sort(s.begin(), s.end());
                 return s;
               }});
  return P;
}

static std::string setPath() {
  const char* d = getenv("VERIF_RUN_DIR");
  return std::string(d ? d : ".") + "/TBBCONF.model-traces";
}

int main(int argc, char** argv) {
  Runner R("TBBCONF", argc, argv);
  auto P = programs(R.a.thorough());
#ifdef TBBCONF_MODEL
  // ---- enumerate every schedule of the model for W in {2,3} and C in {1,2,4,16}
  // (threads W, reported max_concurrency C).  W=2 is explored completely; W=3 within preemption bound 4.
  std::vector<std::pair<int, int>> cfgs = {{2, 1}, {2, 2}, {3, 3}};
  auto lines = R.phase("model-traces", P.size() * cfgs.size(), 1, [&](uint64_t idx, Ctx& c) {
    const Prog& p = P[idx / cfgs.size()];
    auto wc = cfgs[idx % cfgs.size()];
    c.describe(p.name + " W=" + std::to_string(wc.first) + " C=" + std::to_string(wc.second));
    vx::Explorer ex;
    vx::Config cfg;
    // W=2: no bound (complete) - except parallel_scan from 3 elements on, whose two-pass protocol has too many schedules
    // (preemption bound 4 there); W=3: preemption bound 3
    const bool scanBig = p.name.rfind("scan", 0) == 0 && p.name.find("n=1,") == std::string::npos && p.name.find("n=2,") == std::string::npos;
    const bool completeSpace = wc.first == 2 && !scanBig;
    cfg.bound = completeSpace ? 1000 : (wc.first == 2 ? 4 : 3);
    cfg.freeCost = 0;
    cfg.workers = wc.first;
    cfg.concurrency = wc.second;
    cfg.maxExec = getenv("TBBCONF_MAXEXEC") ? atoll(getenv("TBBCONF_MAXEXEC")) : (R.a.thorough() ? 3000000 : 600000);
    cfg.inProcess = true;
    cfg.timeout = 600;
    std::set<std::string> seen;
    vx::Stats st = ex.explore(cfg, p.run, [&](const vx::Exec& e) {
      if (e.status != 1) c.viol("model:" + p.name, p.name, "execution did not finish: " + e.outcome);
      else if (seen.insert(e.outcome).second) c.emit("C=" + std::to_string(wc.second) + " " + p.name + "\t" + e.outcome);
      return true;
    });
    c.count("executions", st.executions);
    c.count("distinct_traces", seen.size());
    if (st.capped) c.count("model_cases_cut_at_execution_cap");
    // a (program, concurrency) whose schedule space was enumerated completely: only then is a libtbb trace outside the set a miss of the model
    if (!st.capped && completeSpace) c.emit("COMPLETE C=" + std::to_string(wc.second) + " " + p.name);
    if (!st.capped && !completeSpace) c.emit("BOUNDED C=" + std::to_string(wc.second) + " " + p.name);
    c.distinct(hash_str(p.name + std::to_string(idx)));
    if (seen.size() > 1) c.nontrivial(hash_str(p.name + std::to_string(idx)));
    if (idx % 17 == 0) c.sample(p.name + ": " + std::to_string(st.executions) + " schedules, " + std::to_string(seen.size()) + " canonical traces");
  }, {"executions", "distinct_traces", "model_cases_cut_at_execution_cap"});
  if (R.a.onlyCase.empty()) {
    std::set<std::string> all(lines.begin(), lines.end());
    std::ofstream f(setPath());
    for (auto& l : all) f << l << "\n";
  }
#else
  // ---- real libtbb: every observed canonical trace must be in the model's set
  std::set<std::string> model;
  {
    std::ifstream f(setPath());
    std::string l;
    while (std::getline(f, l)) model.insert(l);
  }
  // Strict part: an arena of k threads (k = 1, 2, 3; max_concurrency k) against the model explored with the same
  // reported concurrency and at least as many threads - every canonical trace libtbb produces must be one the model
  // produces.  Larger arenas (4, 8, 16) are run for information: traces that need more than three concurrent thieves
  // are outside the model's thread bound by construction and are only counted.
  const int reps = R.a.thorough() ? 6000 : 1500;
  const std::vector<int> ARENAS = {1, 2, 3, 4, 8, 16};
  const size_t na = ARENAS.size();
  R.phase("libtbb-traces", P.size() * na, 1, [&](uint64_t idx, Ctx& c) {
    const Prog& p = P[idx / na];
    int arenaSize = ARENAS[idx % na];
    const bool strict = arenaSize <= 3;
    c.describe(p.name + " arena=" + std::to_string(arenaSize));
    if (model.empty()) {
      c.viol("setup:no-model-traces", p.name, "the model's trace set is missing (run order / build problem)");
      return;
    }
    tbb::task_arena arena(arenaSize);
    std::set<std::string> seen;
    for (int r = 0; r < reps; ++r) {
      std::string t;
      arena.execute([&] { t = p.run(); });
      seen.insert(t);
    }
    c.count("runs", reps);
    c.count(strict ? "distinct_traces_strict" : "distinct_traces_large_arena", seen.size());
    for (auto& t : seen) {
      bool in = false;
      if (strict) in = model.count("C=" + std::to_string(arenaSize) + " " + p.name + "\t" + t);
      else
        for (int cc : {1, 2, 3}) in = in || model.count("C=" + std::to_string(cc) + " " + p.name + "\t" + t);
      const bool complete = model.count("COMPLETE C=" + std::to_string(arenaSize <= 2 ? arenaSize : 3) + " " + p.name) && arenaSize <= 2;
      if (strict && !in && !complete) {
        // the model's enumeration for this program was bounded (W=3: preemption bound 4) or cut at its execution cap
        c.count("traces_beyond_explored_bound");
      } else if (strict) {
        c.count("traces_validated");
        if (!in) c.viol("conformance:" + p.name + ":arena" + std::to_string(arenaSize) + ":" + t, p.name,
                        "real libtbb (arena of " + std::to_string(arenaSize) + ") produced a canonical trace that no schedule of the model with the same concurrency produces: " + t);
      } else {
        c.count(in ? "large_arena_traces_in_model" : "large_arena_traces_beyond_thread_bound");
      }
    }
    c.distinct(hash_str(p.name + std::to_string(arenaSize)));
    if (seen.size() > 1) c.nontrivial(hash_str(p.name + std::to_string(arenaSize)));
    if (idx % 23 == 0) c.sample(p.name + " arena " + std::to_string(arenaSize) + ": " + std::to_string(seen.size()) + " distinct traces in " + std::to_string(reps) + " runs");
  }, {"runs", "distinct_traces_strict", "distinct_traces_large_arena", "traces_validated", "traces_beyond_explored_bound", "large_arena_traces_in_model", "large_arena_traces_beyond_thread_bound"});
#endif
  return R.finish();
}
