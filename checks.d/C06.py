CHECK = dict(
    level="model_checking", engine="C",
    technique="stateless model checking of real client threads under a cooperative scheduler: preemption-bounded exhaustive interleaving exploration (CHESS-style DFS) at interposed pthread mutex acquisitions and hooked shared atomics; ThreadSanitizer as race oracle inside every explored schedule; serializability oracle",
    level_text=("2-3 real client threads run 1-2 operations each on shared lazy objects (an unevaluated op-node tree R whose sub-expression S is shared with a second tree R2, "
                "a leaf with a pending transform, a second shared handle that one thread assigns into, a CrossSection with a pending transform, one ExecutionContext, the "
                "subdivision Partition cache, the mesh-ID counter). Exactly one thread runs at a time; every pthread_mutex_lock/trylock (std::mutex, recursive_mutex, "
                "scoped_lock, libstdc++'s shared_ptr atomic pool) and every hooked access to state shared between clients is a scheduling point; a thread waiting for a "
                "held lock is disabled; 'no enabled thread' is reported as deadlock. Every interleaving within the preemption bound is executed in a forked child. "
                "Oracles: no deadlock; the joint observations of the threads equal those of SOME serial order of the same operations (computed by running the serial "
                "orders on fresh worlds); ReserveIDs blocks do not overlap; in the par-model-tsan variant every ThreadSanitizer report on any explored schedule is a "
                "violation (the scheduler and the mutex interposition are uninstrumented and forward to TSan's interceptors, so the detector sees the program's own "
                "happens-before, not the serialisation)."),
    level_note=("Trusted: the scheduler, the interposition and the TBB runtime model under engine/tbbrt; sequential consistency (relaxed/acquire-release reorderings are not "
                "enumerated, TSan still flags unsynchronised accesses); no scheduling point after a mutex release, at atomics private to one evaluating client, or at task "
                "boundaries without a thief (sound for race-free code, which TSan monitors). Bound: 2-3 threads, preemption bound 2 (pairs) / 1 (triples, 2x2), 5000 executions per program "
                "(a hit cap is reported as not exhaustive)."),
    runs=[S("par-model", quick=900, thorough=3000, workers=16, case_timeout=900),
          S("par-model-tsan", quick=2400, thorough=3000, workers=16, case_timeout=1200, env={"TSAN_OPTIONS": "halt_on_error=0:report_signal_unsafe=0:symbolize=0:exitcode=0"})],
    rule=("cases = thread programs built from 5 groups of operations that touch the same shared object (all unordered pairs incl. the same op twice, triples and 2+1 programs for "
          "the small groups); per case ALL interleavings within the bound. distinct = programs; non-trivial = programs with more than one explored interleaving."),
    bounds=dict(quick="272 programs (4 of them on the mesh-ID counter with TBB task boundaries as scheduling points): pairs with preemption bound 2, triples / 2+1 programs of the small groups with bound 1",
                thorough="all triples and 2+1 programs of every group, bounds 3 / 2, 30000 executions per program"),
    assumptions=COMMON_ASSUME + ["sequentially consistent interleavings only", "4-8 client threads are not explored (only 2-3)"],
)
