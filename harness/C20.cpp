// C20 - the C binding is a faithful, memory-safe image of the C++ API.
// VBUILD: cbind=1
// VBUILD: variants=seq-asan,seq-fast
// VBUILD: cxxflags=-O0
//
// Engine S.  A table with one or more rows per exported function of
// bindings/c/include/manifold/manifoldc.h: (C function, printable argument
// tuple, typed object inputs, typed object outputs, the C call, the C++ call it
// names).  A *program* is executed twice: in the "C world" exclusively through
// the C API on objects living in caller storage of exactly manifold_X_size()
// bytes (malloc'ed, so one byte too many is an ASan report) or in
// manifold_alloc_X() storage, and in the "C++ world" on ordinary C++ objects.
// The two worlds never share an object.  Everything observable is compared:
// scalars bit for bit, objects through the C accessors on one side and the
// C++ members on the other (mesh IDs up to order-preserving renaming).  Inputs
// are re-observed after the call (an unintended mutation is a mismatch).
// Every C object is destroyed exactly once (destruct_X + free, or delete_X) in
// an order and mode assignment that the life-cycle phase enumerates
// exhaustively; in that phase the allocator's live-byte count must return to
// its starting value (leak check) and results must still be correct when all
// inputs are destroyed before the result is first evaluated.
#include <algorithm>
#include <cmath>
#include <cstdarg>
#include <cstring>
#include <functional>
#include <map>
#include <memory>
#include <set>
#include <sstream>
#include <string>
#include <vector>

#include "conv.h"  // bindings/c/conv.h: only for the white-box check of the enum switch tables
#include "engine/runner.h"
#include "lib/canon.h"
#include "manifold/cross_section.h"
#include "manifold/manifold.h"
#include "manifold/manifoldc.h"
#include "manifold/polygon.h"

using namespace manifold;
using namespace vf;

// ------------------------------------------------------------------ the header itself, bound at build time
asm(".section .rodata\n.global c20_hdr_begin\nc20_hdr_begin:\n.incbin \"manifold/manifoldc.h\"\n.global c20_hdr_end\nc20_hdr_end:\n.byte 0\n.text\n");
extern "C" const char c20_hdr_begin[], c20_hdr_end[];

static std::vector<std::string> exportedFunctions() {
  std::string t(c20_hdr_begin, c20_hdr_end), u;
  // strip // and /* */ comments
  for (size_t i = 0; i < t.size();) {
    if (t.compare(i, 2, "//") == 0) {
      while (i < t.size() && t[i] != '\n') ++i;
    } else if (t.compare(i, 2, "/*") == 0) {
      size_t e = t.find("*/", i + 2);
      i = e == std::string::npos ? t.size() : e + 2;
    } else
      u += t[i++];
  }
  std::vector<std::string> out;
  std::set<std::string> seen;
  for (size_t i = 0; i + 9 < u.size(); ++i) {
    if (u.compare(i, 9, "manifold_") != 0) continue;
    if (i > 0 && (isalnum((unsigned char)u[i - 1]) || u[i - 1] == '_')) continue;
    size_t j = i;
    while (j < u.size() && (isalnum((unsigned char)u[j]) || u[j] == '_')) ++j;
    size_t k = j;
    while (k < u.size() && isspace((unsigned char)u[k])) ++k;
    if (k < u.size() && u[k] == '(') {
      std::string n = u.substr(i, j - i);
      if (seen.insert(n).second) out.push_back(n);
    }
    i = j;
  }
  return out;
}

// ------------------------------------------------------------------ allocator accounting
#if defined(__SANITIZE_ADDRESS__)
extern "C" size_t __sanitizer_get_current_allocated_bytes();
static size_t liveBytes() { return __sanitizer_get_current_allocated_bytes(); }
static const char* kLeakCounter = "__sanitizer_get_current_allocated_bytes";
static const bool kAsan = true;
#else
// glibc's mallinfo2() counts chunks parked in the tcache / fastbins as in use, so it is not an exact live-byte
// counter; without ASan the leak pass still runs (exactly-once destruction) but nothing is compared.
static size_t liveBytes() { return 0; }
static const char* kLeakCounter = "(no exact live-byte counter in this build)";
static const bool kAsan = false;
#endif

static std::string F(const char* f, ...) {
  char b[512];
  va_list ap;
  va_start(ap, f);
  vsnprintf(b, sizeof b, f, ap);
  va_end(ap);
  return b;
}

// ------------------------------------------------------------------ object types
enum Ty { tM, tCS, tMG, tMG64, tSP, tPS, tBOX, tRECT, tMV, tCSV, tTRI, tRH, tEC, NTY };
struct TyInfo {
  const char* name;
  const char *fSize, *fAlloc, *fDestruct, *fDelete;
  size_t (*size)();
  void* (*alloc)();
  void (*destruct)(void*);
  void (*del)(void*);
  size_t cppSize;
  const char* cppName;
};
#define TYROW(N, CT, XT)                                                                                        \
  {#N, "manifold_" #N "_size", "manifold_alloc_" #N, "manifold_destruct_" #N, "manifold_delete_" #N,            \
   manifold_##N##_size, []() -> void* { return manifold_alloc_##N(); },                                         \
   [](void* p) { manifold_destruct_##N((CT*)p); }, [](void* p) { manifold_delete_##N((CT*)p); }, sizeof(XT), #XT}
using IVec3Vec = std::vector<ivec3>;
static const TyInfo kTy[NTY] = {
    TYROW(manifold, ManifoldManifold, Manifold),
    TYROW(cross_section, ManifoldCrossSection, CrossSection),
    TYROW(meshgl, ManifoldMeshGL, MeshGL),
    TYROW(meshgl64, ManifoldMeshGL64, MeshGL64),
    TYROW(simple_polygon, ManifoldSimplePolygon, SimplePolygon),
    TYROW(polygons, ManifoldPolygons, Polygons),
    TYROW(box, ManifoldBox, Box),
    TYROW(rect, ManifoldRect, Rect),
    TYROW(manifold_vec, ManifoldManifoldVec, std::vector<Manifold>),
    TYROW(cross_section_vec, ManifoldCrossSectionVec, std::vector<CrossSection>),
    TYROW(triangulation, ManifoldTriangulation, IVec3Vec),
    TYROW(ray_hit_vec, ManifoldRayHitVec, std::vector<RayHit>),
    TYROW(execution_context, ManifoldExecutionContext, ExecutionContext),
};
static const char* kTyShort[NTY] = {"m", "cs", "mg", "mg64", "sp", "ps", "box", "rect", "mv", "csv", "tri", "rh", "ec"};

// ------------------------------------------------------------------ enum tables, written by NAME (independent of conv.cpp)
struct ErrName {
  ManifoldError c;
  Manifold::Error x;
  const char* name;
};
static const ErrName kErr[] = {
    {MANIFOLD_NO_ERROR, Manifold::Error::NoError, "NoError"},
    {MANIFOLD_NON_FINITE_VERTEX, Manifold::Error::NonFiniteVertex, "NonFiniteVertex"},
    {MANIFOLD_NOT_MANIFOLD, Manifold::Error::NotManifold, "NotManifold"},
    {MANIFOLD_VERTEX_INDEX_OUT_OF_BOUNDS, Manifold::Error::VertexOutOfBounds, "VertexOutOfBounds"},
    {MANIFOLD_PROPERTIES_WRONG_LENGTH, Manifold::Error::PropertiesWrongLength, "PropertiesWrongLength"},
    {MANIFOLD_MISSING_POSITION_PROPERTIES, Manifold::Error::MissingPositionProperties, "MissingPositionProperties"},
    {MANIFOLD_MERGE_VECTORS_DIFFERENT_LENGTHS, Manifold::Error::MergeVectorsDifferentLengths, "MergeVectorsDifferentLengths"},
    {MANIFOLD_MERGE_INDEX_OUT_OF_BOUNDS, Manifold::Error::MergeIndexOutOfBounds, "MergeIndexOutOfBounds"},
    {MANIFOLD_TRANSFORM_WRONG_LENGTH, Manifold::Error::TransformWrongLength, "TransformWrongLength"},
    {MANIFOLD_RUN_INDEX_WRONG_LENGTH, Manifold::Error::RunIndexWrongLength, "RunIndexWrongLength"},
    {MANIFOLD_FACE_ID_WRONG_LENGTH, Manifold::Error::FaceIDWrongLength, "FaceIDWrongLength"},
    {MANIFOLD_INVALID_CONSTRUCTION, Manifold::Error::InvalidConstruction, "InvalidConstruction"},
    {MANIFOLD_RESULT_TOO_LARGE, Manifold::Error::ResultTooLarge, "ResultTooLarge"},
    {MANIFOLD_INVALID_TANGENTS, Manifold::Error::InvalidTangents, "InvalidTangents"},
    {MANIFOLD_CANCELLED, Manifold::Error::Cancelled, "Cancelled"},
};
static const int kNErr = sizeof kErr / sizeof kErr[0];
static int errIdxC(ManifoldError e) {
  for (int i = 0; i < kNErr; ++i)
    if (kErr[i].c == e) return i;
  return 100 + (int)e;
}
static int errIdxX(Manifold::Error e) {
  for (int i = 0; i < kNErr; ++i)
    if (kErr[i].x == e) return i;
  return 200 + (int)e;
}
struct OpName {
  ManifoldOpType c;
  OpType x;
  const char* name;
};
static const OpName kOp[] = {{MANIFOLD_ADD, OpType::Add, "ADD"}, {MANIFOLD_SUBTRACT, OpType::Subtract, "SUBTRACT"}, {MANIFOLD_INTERSECT, OpType::Intersect, "INTERSECT"}};
struct JoinName {
  ManifoldJoinType c;
  CrossSection::JoinType x;
  const char* name;
};
static const JoinName kJoin[] = {{MANIFOLD_JOIN_TYPE_SQUARE, CrossSection::JoinType::Square, "SQUARE"},
                                 {MANIFOLD_JOIN_TYPE_ROUND, CrossSection::JoinType::Round, "ROUND"},
                                 {MANIFOLD_JOIN_TYPE_MITER, CrossSection::JoinType::Miter, "MITER"},
                                 {MANIFOLD_JOIN_TYPE_BEVEL, CrossSection::JoinType::Bevel, "BEVEL"}};

// ------------------------------------------------------------------ observations
struct Obs {
  struct E {
    const char* label;
    uint64_t bits;
    char kind;  // d double, f float, i integer, h hash
  };
  std::vector<E> v;
  void d(const char* l, double x) {
    uint64_t b;
    memcpy(&b, &x, 8);
    v.push_back({l, b, 'd'});
  }
  void f(const char* l, float x) {
    uint32_t b;
    memcpy(&b, &x, 4);
    v.push_back({l, b, 'f'});
  }
  void i(const char* l, int64_t x) { v.push_back({l, (uint64_t)x, 'i'}); }
  void h(const char* l, uint64_t x) { v.push_back({l, x, 'h'}); }
  static std::string show(const E& e) {
    char b[96];
    if (e.kind == 'd') {
      double x;
      memcpy(&x, &e.bits, 8);
      snprintf(b, sizeof b, "%s=%.17g", e.label, x);
    } else if (e.kind == 'f') {
      float x;
      uint32_t w = (uint32_t)e.bits;
      memcpy(&x, &w, 4);
      snprintf(b, sizeof b, "%s=%.9g", e.label, (double)x);
    } else if (e.kind == 'i')
      snprintf(b, sizeof b, "%s=%lld", e.label, (long long)e.bits);
    else
      snprintf(b, sizeof b, "%s=#%016llx", e.label, (unsigned long long)e.bits);
    return b;
  }
  uint64_t hash() const {
    uint64_t hh = 0x20;
    for (auto& e : v) hh = hash_bytes(&e.bits, 8, hh);
    return hh;
  }
};
// first difference between two observation sequences ("" if equal)
static std::string diffObs(const Obs& c, const Obs& x) {
  size_t n = std::min(c.v.size(), x.v.size());
  for (size_t k = 0; k < n; ++k) {
    if (strcmp(c.v[k].label, x.v[k].label) != 0 || c.v[k].bits != x.v[k].bits)
      return F("observation #%zu: C gives %s, C++ gives %s", k, Obs::show(c.v[k]).c_str(), Obs::show(x.v[k]).c_str());
  }
  if (c.v.size() != x.v.size())
    return F("C yields %zu observed values, C++ yields %zu (first extra: %s)", c.v.size(), x.v.size(),
             Obs::show(c.v.size() > n ? c.v[n] : x.v[n]).c_str());
  return "";
}

template <class V>
static std::vector<uint32_t> rankIDs(const V& ids) {
  std::map<uint32_t, uint32_t> rk;
  for (auto id : ids) rk[id] = 0;
  uint32_t k = 0;
  for (auto& kv : rk) kv.second = k++;
  std::vector<uint32_t> r;
  for (auto id : ids) r.push_back(rk[id]);
  return r;
}
// every field of a MeshGL / MeshGL64, IDs up to order-preserving renaming
template <class MG>
static void obsMesh(const MG& g, Obs& o) {
  o.i("numProp", (int64_t)g.numProp);
  o.i("vertProperties.size", g.vertProperties.size());
  o.i("triVerts.size", g.triVerts.size());
  o.h("vertProperties", hashVec(g.vertProperties, 1));
  o.h("triVerts", hashVec(g.triVerts, 2));
  o.h("mergeFromVert", hashVec(g.mergeFromVert, 3));
  o.h("mergeToVert", hashVec(g.mergeToVert, 4));
  o.h("runIndex", hashVec(g.runIndex, 5));
  o.h("runOriginalID(ranked)", hashVec(rankIDs(g.runOriginalID), 6));
  o.h("runTransform", hashVec(g.runTransform, 7));
  o.h("runFlags", hashVec(g.runFlags, 8));
  o.h("faceID", hashVec(g.faceID, 9));
  o.h("halfedgeTangent", hashVec(g.halfedgeTangent, 10));
  if (sizeof(g.tolerance) == 4)
    o.f("tolerance", (float)g.tolerance);
  else
    o.d("tolerance", (double)g.tolerance);
}

// ------------------------------------------------------------------ callback user data
struct UD {
  uint64_t magic;
  double k;
  long calls;
  int oldExtra;  // set_properties: number of old extra property channels that may be read
  int numProp;
};
static const void* g_expectCtx = nullptr;
static long g_badCtx = 0;
static bool ctxOk(void* ctx) {
  if (ctx != g_expectCtx || ((UD*)ctx)->magic != 0xC20C20C20ULL) {
    ++g_badCtx;
    return false;
  }
  ((UD*)ctx)->calls++;
  return true;
}
static ManifoldVec3 cbWarp(double x, double y, double z, void* ctx) {
  if (!ctxOk(ctx)) return {x, y, z};
  double k = ((UD*)ctx)->k;
  return {x + k * y, y * 1.5, z - 0.25 * x};
}
static ManifoldVec2 cbWarp2(double x, double y, void* ctx) {
  if (!ctxOk(ctx)) return {x, y};
  double k = ((UD*)ctx)->k;
  return {x + k * y, y * 1.5 - 0.25 * x};
}
static double sdfValue(double x, double y, double z, double k) { return k - std::sqrt(x * x + y * y / 2.25 + z * z / 0.64) + 0.05 * x; }
static double cbSdf(double x, double y, double z, void* ctx) {
  if (!ctxOk(ctx)) return -1;
  return sdfValue(x, y, z, ((UD*)ctx)->k);
}
static void cbProp(double* np, ManifoldVec3 p, const double* op, void* ctx) {
  if (!ctxOk(ctx)) return;
  UD* u = (UD*)ctx;
  for (int i = 0; i < u->numProp; ++i) np[i] = u->k * p.x + 2 * p.y + 3 * p.z + i + (i < u->oldExtra ? 0.5 * op[i] : 0.0);
}
static void cbObj(char* s, void* ctx) {
  if (!ctxOk(ctx)) return;
  UD* u = (UD*)ctx;
  size_t n = strlen(s);
  uint64_t h = hash_bytes(s, n);
  memcpy(&u->k, &h, 8);  // smuggle the text hash out through the user data
  u->numProp = (int)n;
}

// ------------------------------------------------------------------ the C world
struct CW {
  struct O {
    Ty t;
    void* p;
    int mode;  // 0: malloc(manifold_X_size()) ... destruct_X + free; 1: manifold_alloc_X() ... delete_X
    bool live;
    bool top;
  };
  std::vector<O> objs;
  std::vector<void*> bufs;
  std::vector<int> pending;
  std::vector<int> in, outs;
  Obs sc;
  std::vector<std::string> fails;
  uint32_t topMask = 0;
  int nTop = 0, nTmp = 0;
  bool rowState = false;  // storage requested by a row body is "top level"
  long cbCalls = 0;

  void fail(const std::string& s) {
    if (fails.size() < 4) fails.push_back(s);
  }
  void* memMode(Ty t, bool top) {
    int mode = top ? ((topMask >> (nTop++ & 31)) & 1) : (nTmp++ & 1);
    void* p = mode ? kTy[t].alloc() : malloc(kTy[t].size());
    objs.push_back({t, p, mode, false, top});
    pending.push_back((int)objs.size() - 1);
    return p;
  }
  void* mem(Ty t) { return memMode(t, rowState); }
  void* fin(Ty t) { return memMode(t, true); }  // final object of a pool builder
  int adopt(Ty t, void* ret) {
    for (int k = (int)pending.size() - 1; k >= 0; --k) {
      O& o = objs[pending[k]];
      if (o.p == ret && o.t == t) {
        int i = pending[k];
        pending.erase(pending.begin() + k);
        o.live = true;
        return i;
      }
    }
    fail(F("a constructor of %s returned %p, which is not the caller-supplied storage", kTy[t].name, ret));
    // treat the most recent pending storage of that type as constructed, so that it is destroyed
    for (int k = (int)pending.size() - 1; k >= 0; --k)
      if (objs[pending[k]].t == t) {
        int i = pending[k];
        pending.erase(pending.begin() + k);
        objs[i].live = true;
        return i;
      }
    return -1;
  }
  void kill(int i) {
    if (i < 0) return;
    O& o = objs[i];
    if (!o.live) return;
    if (o.mode)
      kTy[o.t].del(o.p);
    else {
      kTy[o.t].destruct(o.p);
      free(o.p);
    }
    o.live = false;
    o.p = nullptr;
  }
  void* buf(size_t n) {
    void* p = malloc(n);
    bufs.push_back(p);
    return p;
  }
  // destroy everything that is still alive: temporaries first, then the top-level objects in the given order
  void destroyAll(uint64_t permIdx) {
    std::vector<int> tops;
    for (int i = 0; i < (int)objs.size(); ++i)
      if (objs[i].live && !objs[i].top) kill(i);
    for (int i = 0; i < (int)objs.size(); ++i)
      if (objs[i].live) tops.push_back(i);
    killInOrder(tops, permIdx);
  }
  void killInOrder(std::vector<int> ids, uint64_t permIdx) {
    int k = (int)std::min<size_t>(ids.size(), 4);
    std::vector<int> head(ids.begin(), ids.begin() + k);
    // permIdx-th permutation of the head (factorial number system)
    std::vector<int> order;
    uint64_t fact = 1;
    for (int i = 2; i <= k; ++i) fact *= i;
    permIdx %= std::max<uint64_t>(fact, 1);
    std::vector<int> pool = head;
    for (int i = k; i >= 1; --i) {
      fact /= i;
      uint64_t q = fact ? permIdx / fact : 0;
      permIdx = fact ? permIdx % fact : 0;
      order.push_back(pool[q]);
      pool.erase(pool.begin() + q);
    }
    for (int id : order) kill(id);
    for (int i = (int)ids.size() - 1; i >= k; --i) kill(ids[i]);
  }
  ~CW() {
    for (int i = 0; i < (int)objs.size(); ++i) kill(i);
    for (int k : pending) {
      O& o = objs[k];
      if (o.mode)
        ::operator delete(o.p);
      else
        free(o.p);
    }
    for (void* b : bufs) free(b);
  }

  // typed input access
  void* inp(int k, Ty t) {
    O& o = objs[in[k]];
    if (o.t != t) {
      fprintf(stderr, "harness bug: input %d is %s, wanted %s\n", k, kTy[o.t].name, kTy[t].name);
      abort();
    }
    return o.p;
  }
  ManifoldManifold* m(int k) { return (ManifoldManifold*)inp(k, tM); }
  ManifoldCrossSection* cs(int k) { return (ManifoldCrossSection*)inp(k, tCS); }
  ManifoldMeshGL* mg(int k) { return (ManifoldMeshGL*)inp(k, tMG); }
  ManifoldMeshGL64* mg64(int k) { return (ManifoldMeshGL64*)inp(k, tMG64); }
  ManifoldSimplePolygon* sp(int k) { return (ManifoldSimplePolygon*)inp(k, tSP); }
  ManifoldPolygons* ps(int k) { return (ManifoldPolygons*)inp(k, tPS); }
  ManifoldBox* box(int k) { return (ManifoldBox*)inp(k, tBOX); }
  ManifoldRect* rect(int k) { return (ManifoldRect*)inp(k, tRECT); }
  ManifoldManifoldVec* mv(int k) { return (ManifoldManifoldVec*)inp(k, tMV); }
  ManifoldCrossSectionVec* csv(int k) { return (ManifoldCrossSectionVec*)inp(k, tCSV); }
  ManifoldTriangulation* tri(int k) { return (ManifoldTriangulation*)inp(k, tTRI); }
  ManifoldRayHitVec* rh(int k) { return (ManifoldRayHitVec*)inp(k, tRH); }
  ManifoldExecutionContext* ec(int k) { return (ManifoldExecutionContext*)inp(k, tEC); }

  // register the result of a constructor: out() = a result of the row, tmp() = a temporary
#define C20_OUT(CT, T)                         \
  int out(CT* p) {                             \
    int i = adopt(T, p);                       \
    outs.push_back(i);                         \
    return i;                                  \
  }                                            \
  int tmp(CT* p) { return adopt(T, p); }
  C20_OUT(ManifoldManifold, tM)
  C20_OUT(ManifoldCrossSection, tCS)
  C20_OUT(ManifoldMeshGL, tMG)
  C20_OUT(ManifoldMeshGL64, tMG64)
  C20_OUT(ManifoldSimplePolygon, tSP)
  C20_OUT(ManifoldPolygons, tPS)
  C20_OUT(ManifoldBox, tBOX)
  C20_OUT(ManifoldRect, tRECT)
  C20_OUT(ManifoldManifoldVec, tMV)
  C20_OUT(ManifoldCrossSectionVec, tCSV)
  C20_OUT(ManifoldTriangulation, tTRI)
  C20_OUT(ManifoldRayHitVec, tRH)
  C20_OUT(ManifoldExecutionContext, tEC)
#undef C20_OUT

  // scalars
  void s(const char* l, double x) { sc.d(l, x); }
  void s(const char* l, float x) { sc.f(l, x); }
  void s(const char* l, int x) { sc.i(l, x); }
  void s(const char* l, size_t x) { sc.i(l, (int64_t)x); }
  void s(const char* l, uint32_t x) { sc.i(l, x); }
  void s(const char* l, ManifoldVec2 v) {
    sc.d(l, v.x);
    sc.d(l, v.y);
  }
  void s(const char* l, ManifoldVec3 v) {
    sc.d(l, v.x);
    sc.d(l, v.y);
    sc.d(l, v.z);
  }

  // user data for callbacks: a unique heap pointer the callback must receive unchanged
  UD* ud(double k) {
    UD* u = (UD*)buf(sizeof(UD));
    *u = UD{0xC20C20C20ULL, k, 0, 0, 0};
    g_expectCtx = u;
    g_badCtx = 0;
    return u;
  }
  void udDone(UD* u, const char* what) {
    if (g_badCtx) fail(F("%s: the callback received a user pointer different from the one passed in (%ld calls)", what, g_badCtx));
    sc.i("callback calls", u->calls);
    cbCalls += u->calls;
    g_expectCtx = nullptr;
  }
};

// ------------------------------------------------------------------ the C++ world
struct XO {
  Ty t;
  std::shared_ptr<void> p;
};
struct XW {
  std::vector<XO> in, outs;
  Obs sc;
  template <class T>
  T& get(int k, Ty t) {
    if (in[k].t != t) {
      fprintf(stderr, "harness bug: C++ input %d is %s, wanted %s\n", k, kTy[in[k].t].name, kTy[t].name);
      abort();
    }
    return *static_cast<T*>(in[k].p.get());
  }
  Manifold& m(int k) { return get<Manifold>(k, tM); }
  CrossSection& cs(int k) { return get<CrossSection>(k, tCS); }
  MeshGL& mg(int k) { return get<MeshGL>(k, tMG); }
  MeshGL64& mg64(int k) { return get<MeshGL64>(k, tMG64); }
  SimplePolygon& sp(int k) { return get<SimplePolygon>(k, tSP); }
  Polygons& ps(int k) { return get<Polygons>(k, tPS); }
  Box& box(int k) { return get<Box>(k, tBOX); }
  Rect& rect(int k) { return get<Rect>(k, tRECT); }
  std::vector<Manifold>& mv(int k) { return get<std::vector<Manifold>>(k, tMV); }
  std::vector<CrossSection>& csv(int k) { return get<std::vector<CrossSection>>(k, tCSV); }
  IVec3Vec& tri(int k) { return get<IVec3Vec>(k, tTRI); }
  std::vector<RayHit>& rh(int k) { return get<std::vector<RayHit>>(k, tRH); }
  ExecutionContext& ec(int k) { return get<ExecutionContext>(k, tEC); }

  template <class T>
  static XO mk(Ty t, T v) {
    return XO{t, std::make_shared<T>(std::move(v))};
  }
  void out(Manifold v) { outs.push_back(mk(tM, std::move(v))); }
  void out(CrossSection v) { outs.push_back(mk(tCS, std::move(v))); }
  void out(MeshGL v) { outs.push_back(mk(tMG, std::move(v))); }
  void out(MeshGL64 v) { outs.push_back(mk(tMG64, std::move(v))); }
  void out(SimplePolygon v) { outs.push_back(mk(tSP, std::move(v))); }
  void out(Polygons v) { outs.push_back(mk(tPS, std::move(v))); }
  void out(Box v) { outs.push_back(mk(tBOX, v)); }
  void out(Rect v) { outs.push_back(mk(tRECT, v)); }
  void out(std::vector<Manifold> v) { outs.push_back(mk(tMV, std::move(v))); }
  void out(std::vector<CrossSection> v) { outs.push_back(mk(tCSV, std::move(v))); }
  void out(IVec3Vec v) { outs.push_back(mk(tTRI, std::move(v))); }
  void out(std::vector<RayHit> v) { outs.push_back(mk(tRH, std::move(v))); }
  void out(ExecutionContext v) { outs.push_back(mk(tEC, std::move(v))); }

  void s(const char* l, double x) { sc.d(l, x); }
  void s(const char* l, float x) { sc.f(l, x); }
  void s(const char* l, int x) { sc.i(l, x); }
  void s(const char* l, bool x) { sc.i(l, x ? 1 : 0); }
  void s(const char* l, size_t x) { sc.i(l, (int64_t)x); }
  void s(const char* l, uint32_t x) { sc.i(l, x); }
  void s(const char* l, vec2 v) {
    sc.d(l, v.x);
    sc.d(l, v.y);
  }
  void s(const char* l, vec3 v) {
    sc.d(l, v.x);
    sc.d(l, v.y);
    sc.d(l, v.z);
  }
  void calls(long n) { sc.i("callback calls", n); }
};

// ------------------------------------------------------------------ observing objects: C side through the C API only
template <class T, class G>
static std::vector<T> pullArr(CW& c, size_t n, const char* what, G get) {
  std::vector<T> v(n);
  if (n == 0) return v;  // a careful client does not fetch an empty array (see phase "empty-arrays")
  T* b = (T*)c.buf(n * sizeof(T));  // exactly the advertised length
  T* r = get((void*)b);
  if (r != b) c.fail(F("%s returned %p instead of the caller buffer %p", what, (void*)r, (void*)b));
  memcpy(v.data(), b, n * sizeof(T));
  return v;
}
#define C20_PULL(PFX, CT, XT, P, I)                                                                                                         \
  static XT pullMesh(CW& c, CT* g) {                                                                                                        \
    XT x;                                                                                                                                   \
    x.numProp = (I)manifold_##PFX##_num_prop(g);                                                                                            \
    x.vertProperties = pullArr<P>(c, manifold_##PFX##_vert_properties_length(g), "manifold_" #PFX "_vert_properties",                       \
                                  [&](void* b) { return manifold_##PFX##_vert_properties(b, g); });                                         \
    x.triVerts = pullArr<I>(c, manifold_##PFX##_tri_length(g), "manifold_" #PFX "_tri_verts",                                               \
                            [&](void* b) { return manifold_##PFX##_tri_verts(b, g); });                                                     \
    x.mergeFromVert = pullArr<I>(c, manifold_##PFX##_merge_length(g), "manifold_" #PFX "_merge_from_vert",                                  \
                                 [&](void* b) { return manifold_##PFX##_merge_from_vert(b, g); });                                          \
    x.mergeToVert = pullArr<I>(c, manifold_##PFX##_merge_length(g), "manifold_" #PFX "_merge_to_vert",                                      \
                               [&](void* b) { return manifold_##PFX##_merge_to_vert(b, g); });                                              \
    x.runIndex = pullArr<I>(c, manifold_##PFX##_run_index_length(g), "manifold_" #PFX "_run_index",                                         \
                            [&](void* b) { return manifold_##PFX##_run_index(b, g); });                                                     \
    x.runOriginalID = pullArr<uint32_t>(c, manifold_##PFX##_run_original_id_length(g), "manifold_" #PFX "_run_original_id",                 \
                                        [&](void* b) { return manifold_##PFX##_run_original_id(b, g); });                                   \
    x.runTransform = pullArr<P>(c, manifold_##PFX##_run_transform_length(g), "manifold_" #PFX "_run_transform",                             \
                                [&](void* b) { return manifold_##PFX##_run_transform(b, g); });                                             \
    x.runFlags = pullArr<uint8_t>(c, manifold_##PFX##_run_flags_length(g), "manifold_" #PFX "_run_flags",                                   \
                                  [&](void* b) { return manifold_##PFX##_run_flags(b, g); });                                               \
    x.faceID = pullArr<I>(c, manifold_##PFX##_face_id_length(g), "manifold_" #PFX "_face_id",                                               \
                          [&](void* b) { return manifold_##PFX##_face_id(b, g); });                                                         \
    x.halfedgeTangent = pullArr<P>(c, manifold_##PFX##_tangent_length(g), "manifold_" #PFX "_halfedge_tangent",                             \
                                   [&](void* b) { return manifold_##PFX##_halfedge_tangent(b, g); });                                       \
    x.tolerance = manifold_##PFX##_tolerance(g);                                                                                            \
    return x;                                                                                                                               \
  }
C20_PULL(meshgl, ManifoldMeshGL, MeshGL, float, uint32_t)
C20_PULL(meshgl64, ManifoldMeshGL64, MeshGL64, double, uint64_t)
#undef C20_PULL

static void obsC(CW& c, Ty t, void* p, Obs& o);
static void obsC_M(CW& c, ManifoldManifold* m, Obs& o) {
  o.i("status", errIdxC(manifold_status(m)));
  ManifoldMeshGL64* g = manifold_get_meshgl64(c.memMode(tMG64, false), m);
  int gi = c.adopt(tMG64, g);
  obsMesh(pullMesh(c, g), o);
  c.kill(gi);
}
static void obsC_PS(CW& c, ManifoldPolygons* ps, Obs& o) {
  size_t n = manifold_polygons_length(ps);
  o.i("polygons.length", n);
  for (size_t i = 0; i < n; ++i) {
    size_t k = manifold_polygons_simple_length(ps, i);
    o.i("contour.length", k);
    for (size_t j = 0; j < k; ++j) {
      ManifoldVec2 v = manifold_polygons_get_point(ps, i, j);
      o.d("x", v.x);
      o.d("y", v.y);
    }
  }
}
static void obsC_CS(CW& c, ManifoldCrossSection* cs, Obs& o) {
  ManifoldPolygons* ps = manifold_cross_section_to_polygons(c.memMode(tPS, false), cs);
  int pi = c.adopt(tPS, ps);
  obsC_PS(c, ps, o);
  c.kill(pi);
  o.d("cs.tolerance", manifold_cross_section_get_tolerance(cs));
}
static void obsC(CW& c, Ty t, void* p, Obs& o) {
  switch (t) {
    case tM:
      obsC_M(c, (ManifoldManifold*)p, o);
      break;
    case tCS:
      obsC_CS(c, (ManifoldCrossSection*)p, o);
      break;
    case tMG:
      obsMesh(pullMesh(c, (ManifoldMeshGL*)p), o);
      break;
    case tMG64:
      obsMesh(pullMesh(c, (ManifoldMeshGL64*)p), o);
      break;
    case tSP: {
      auto sp = (ManifoldSimplePolygon*)p;
      size_t n = manifold_simple_polygon_length(sp);
      o.i("simple_polygon.length", n);
      for (size_t j = 0; j < n; ++j) {
        ManifoldVec2 v = manifold_simple_polygon_get_point(sp, j);
        o.d("x", v.x);
        o.d("y", v.y);
      }
      break;
    }
    case tPS:
      obsC_PS(c, (ManifoldPolygons*)p, o);
      break;
    case tBOX: {
      ManifoldVec3 a = manifold_box_min((ManifoldBox*)p), b = manifold_box_max((ManifoldBox*)p);
      o.d("min.x", a.x), o.d("min.y", a.y), o.d("min.z", a.z), o.d("max.x", b.x), o.d("max.y", b.y), o.d("max.z", b.z);
      break;
    }
    case tRECT: {
      ManifoldVec2 a = manifold_rect_min((ManifoldRect*)p), b = manifold_rect_max((ManifoldRect*)p);
      o.d("min.x", a.x), o.d("min.y", a.y), o.d("max.x", b.x), o.d("max.y", b.y);
      break;
    }
    case tMV: {
      auto v = (ManifoldManifoldVec*)p;
      size_t n = manifold_manifold_vec_length(v);
      o.i("manifold_vec.length", n);
      for (size_t i = 0; i < n; ++i) {
        ManifoldManifold* e = manifold_manifold_vec_get(c.memMode(tM, false), v, i);
        int ei = c.adopt(tM, e);
        obsC_M(c, e, o);
        c.kill(ei);
      }
      break;
    }
    case tCSV: {
      auto v = (ManifoldCrossSectionVec*)p;
      size_t n = manifold_cross_section_vec_length(v);
      o.i("cross_section_vec.length", n);
      for (size_t i = 0; i < n; ++i) {
        ManifoldCrossSection* e = manifold_cross_section_vec_get(c.memMode(tCS, false), v, i);
        int ei = c.adopt(tCS, e);
        obsC_CS(c, e, o);
        c.kill(ei);
      }
      break;
    }
    case tTRI: {
      auto tr = (ManifoldTriangulation*)p;
      size_t n = manifold_triangulation_num_tri(tr);
      o.i("triangulation.num_tri", n);
      auto v = pullArr<int>(c, 3 * n, "manifold_triangulation_tri_verts", [&](void* b) { return manifold_triangulation_tri_verts(b, tr); });
      o.h("tri_verts", hashVec(v, 11));
      break;
    }
    case tRH: {
      auto v = (ManifoldRayHitVec*)p;
      size_t n = manifold_ray_hit_vec_length(v);
      o.i("ray_hit_vec.length", n);
      for (size_t i = 0; i < n; ++i) {
        ManifoldRayHit hh = manifold_ray_hit_vec_get(v, i);
        o.i("face_id", (int64_t)hh.face_id);
        o.d("distance", hh.distance);
        o.d("position.x", hh.position.x), o.d("position.y", hh.position.y), o.d("position.z", hh.position.z);
        o.d("normal.x", hh.normal.x), o.d("normal.y", hh.normal.y), o.d("normal.z", hh.normal.z);
      }
      break;
    }
    case tEC: {
      auto e = (ManifoldExecutionContext*)p;
      o.i("cancelled", manifold_execution_context_cancelled(e));
      o.d("progress", manifold_execution_context_progress(e));
      break;
    }
    default:
      break;
  }
}

// ------------------------------------------------------------------ observing objects: C++ side
static void obsX_M(const Manifold& m, Obs& o) {
  o.i("status", errIdxX(m.Status()));
  obsMesh(m.GetMeshGL64(), o);
}
static void obsX_PS(const Polygons& ps, Obs& o) {
  o.i("polygons.length", ps.size());
  for (auto& sp : ps) {
    o.i("contour.length", sp.size());
    for (auto& v : sp) o.d("x", v.x), o.d("y", v.y);
  }
}
static void obsX_CS(const CrossSection& cs, Obs& o) {
  obsX_PS(cs.ToPolygons(), o);
  o.d("cs.tolerance", cs.GetTolerance());
}
static void obsX(const XO& x, Obs& o) {
  void* p = x.p.get();
  switch (x.t) {
    case tM:
      obsX_M(*(Manifold*)p, o);
      break;
    case tCS:
      obsX_CS(*(CrossSection*)p, o);
      break;
    case tMG:
      obsMesh(*(MeshGL*)p, o);
      break;
    case tMG64:
      obsMesh(*(MeshGL64*)p, o);
      break;
    case tSP: {
      auto& sp = *(SimplePolygon*)p;
      o.i("simple_polygon.length", sp.size());
      for (auto& v : sp) o.d("x", v.x), o.d("y", v.y);
      break;
    }
    case tPS:
      obsX_PS(*(Polygons*)p, o);
      break;
    case tBOX: {
      Box& b = *(Box*)p;
      o.d("min.x", b.min.x), o.d("min.y", b.min.y), o.d("min.z", b.min.z), o.d("max.x", b.max.x), o.d("max.y", b.max.y), o.d("max.z", b.max.z);
      break;
    }
    case tRECT: {
      Rect& b = *(Rect*)p;
      o.d("min.x", b.min.x), o.d("min.y", b.min.y), o.d("max.x", b.max.x), o.d("max.y", b.max.y);
      break;
    }
    case tMV: {
      auto& v = *(std::vector<Manifold>*)p;
      o.i("manifold_vec.length", v.size());
      for (auto& e : v) {
        Manifold copy(e);  // manifold_manifold_vec_get hands out a copy: mirror it (one more holder of the node)
        obsX_M(copy, o);
      }
      break;
    }
    case tCSV: {
      auto& v = *(std::vector<CrossSection>*)p;
      o.i("cross_section_vec.length", v.size());
      for (auto& e : v) {
        CrossSection copy(e);
        obsX_CS(copy, o);
      }
      break;
    }
    case tTRI: {
      auto& v = *(IVec3Vec*)p;
      o.i("triangulation.num_tri", v.size());
      std::vector<int> flat;
      for (auto& t : v) flat.push_back(t.x), flat.push_back(t.y), flat.push_back(t.z);
      o.h("tri_verts", hashVec(flat, 11));
      break;
    }
    case tRH: {
      auto& v = *(std::vector<RayHit>*)p;
      o.i("ray_hit_vec.length", v.size());
      for (auto& hh : v) {
        o.i("face_id", (int64_t)hh.faceID);
        o.d("distance", hh.distance);
        o.d("position.x", hh.position.x), o.d("position.y", hh.position.y), o.d("position.z", hh.position.z);
        o.d("normal.x", hh.normal.x), o.d("normal.y", hh.normal.y), o.d("normal.z", hh.normal.z);
      }
      break;
    }
    case tEC: {
      auto& e = *(ExecutionContext*)p;
      o.i("cancelled", e.Cancelled() ? 1 : 0);
      o.d("progress", e.Progress());
      break;
    }
    default:
      break;
  }
}


// ---- documented preconditions, checked by the client in both worlds before the call (through the C getters in the C world).
// Where they fail the call is skipped in both worlds: what the C++ library does on malformed meshes is C09's subject.
template <class MG>
static bool runsOk(const MG& g) {
  // safe to import: both run vectors empty, or both given; if given with consistent lengths, runIndex must be monotone and within
  // triVerts (inconsistent lengths are rejected gracefully with RunIndexWrongLength).  One vector given without the other makes the
  // importer index runIndex by the length of runOriginalID / leave triangle references uninitialised (C09's subject).
  if (g.runIndex.empty() && g.runOriginalID.empty()) return true;
  if (g.runIndex.empty() || g.runOriginalID.empty()) return false;
  if (g.runIndex.size() != g.runOriginalID.size() + 1 && g.runIndex.size() != g.runOriginalID.size()) return true;
  for (size_t i = 0; i + 1 < g.runIndex.size(); ++i)
    if (g.runIndex[i] > g.runIndex[i + 1]) return false;
  return g.runIndex.back() <= g.triVerts.size();
}
template <class MG>
static bool indicesOk(const MG& g) {  // every triangle index and merge index names a vertex (Merge()/WriteOBJ do not check)
  if (g.numProp < 3 || g.vertProperties.size() % g.numProp) return false;
  size_t nv = g.vertProperties.size() / g.numProp;
  for (auto v : g.triVerts)
    if ((size_t)v >= nv) return false;
  if (g.mergeFromVert.size() != g.mergeToVert.size()) return false;
  for (auto v : g.mergeFromVert)
    if ((size_t)v >= nv) return false;
  for (auto v : g.mergeToVert)
    if ((size_t)v >= nv) return false;
  return true;
}

// ------------------------------------------------------------------ rows and pools
struct Row {
  const char* fn;
  std::string args;
  std::vector<Ty> in, out;
  std::function<void(CW&)> c;
  std::function<void(XW&)> x;
  std::function<bool(const std::vector<int>&)> filter;  // on pool indices (depth 1); rows with a filter are not depth-2 consumers
  bool primary = false;                                 // first argument tuple of its function
  std::vector<int> lifecyclePin;                        // pool indices used by the life-cycle phase (default: entry 1 of every pool)
};
struct PoolEntry {
  const char* name;
  std::function<int(CW&)> c;  // builds the object through the C API, returns its index in CW::objs
  std::function<XO()> x;
};
static std::vector<Row> g_rows;
static std::vector<PoolEntry> g_pool[NTY];

#define NAME(fn) ((void)&fn, #fn)
static Row& add(const char* fn, std::string args, std::vector<Ty> in, std::vector<Ty> out, std::function<void(CW&)> c,
                std::function<void(XW&)> x) {
  Row r;
  r.fn = fn;
  r.args = std::move(args);
  r.in = std::move(in);
  r.out = std::move(out);
  r.c = std::move(c);
  r.x = std::move(x);
  r.primary = true;
  for (auto& o : g_rows)
    if (!strcmp(o.fn, fn)) r.primary = false;
  g_rows.push_back(std::move(r));
  return g_rows.back();
}

// ---- raw data alphabets (deliberately asymmetric)
static float kTetV[] = {0, 0, 0, 1.5f, 0, 0, 0, 1.25f, 0, 0.1f, 0.2f, 2};
static uint32_t kTetT[] = {0, 2, 1, 0, 1, 3, 0, 3, 2, 1, 2, 3};
static float kTet6V[] = {0, 0, 0, 0.5f, 0, 1, 1.5f, 0, 0, 0.6f, 0.2f, 1.3f, 0, 1.25f, 0, 0.7f, 0.4f, 1.6f, 0.1f, 0.2f, 2, 0.8f, 0.6f, 1.9f};
// "seam" tetrahedron: vertex 4 duplicates vertex 0 and is used by triangle 1 only
static float kSeamV[] = {0, 0, 0, 1.5f, 0, 0, 0, 1.25f, 0, 0.1f, 0.2f, 2, 0, 0, 0};
static uint32_t kSeamT[] = {0, 2, 1, 4, 1, 3, 0, 3, 2, 1, 2, 3};
static uint32_t kMergeFrom[] = {4}, kMergeTo[] = {0};
static uint32_t kRunIdx[] = {0, 6, 12}, kRunIds[] = {7, 3};
static float kNanV[] = {0, 0, 0, 1.5f, 0, 0, 0, NAN, 0, 0.1f, 0.2f, 2};
static uint32_t kOobT[] = {0, 2, 1, 0, 1, 3, 0, 3, 2, 1, 2, 9};
static float kTang[48];
static double kTetV64[12], kTet6V64[24], kSeamV64[15], kNanV64[12], kTang64[48];
static uint64_t kTetT64[12], kSeamT64[12], kOobT64[12], kMergeFrom64[] = {4}, kMergeTo64[] = {0}, kRunIdx64[] = {0, 6, 12};
static void initData() {
  for (int i = 0; i < 48; ++i) kTang[i] = (i % 4 == 3) ? 1.0f : 0.03f * (float)((i * 7) % 11 + 1) * ((i % 3) ? 1.f : -1.f);
  for (int i = 0; i < 48; ++i) kTang64[i] = kTang[i];
  for (int i = 0; i < 12; ++i) kTetV64[i] = kTetV[i], kNanV64[i] = kNanV[i], kTetT64[i] = kTetT[i], kSeamT64[i] = kSeamT[i], kOobT64[i] = kOobT[i];
  for (int i = 0; i < 24; ++i) kTet6V64[i] = kTet6V[i];
  for (int i = 0; i < 15; ++i) kSeamV64[i] = kSeamV[i];
}
template <class T>
static std::vector<T> vec(const T* p, size_t n) {
  return std::vector<T>(p, p + n);
}
static const char* kObjText =
    "# C20 tetrahedron\nv 0 0 0\nv 1.5 0 0\nv 0 1.25 0\nv 0.1 0.2 2\nf 1 3 2\nf 1 2 4\nf 1 4 3\nf 2 3 4\n";

struct P2 {
  double x, y;
};
static const std::vector<std::pair<const char*, std::vector<P2>>> kSimplePolys = {
    {"tri", {{0, 0}, {2, 0}, {0.5, 1.5}}},
    {"L", {{0, 0}, {3, 0}, {3, 1}, {1, 1}, {1, 2}, {0, 2}}},
    {"cwSquare", {{0, 0}, {0, 1}, {1, 1}, {1, 0}}},
    {"sq4x3", {{0, 0}, {4, 0}, {4, 3}, {0, 3}}},
    {"holeCW", {{1, 1}, {1, 2}, {2, 2}, {2, 1}}},
    {"sq2", {{0, 0}, {2, 0}, {2, 2}, {0, 2}}},
    {"sqShift", {{1, 1}, {3, 1}, {3, 3.5}, {1, 3.5}}},
    {"none", {}},
};
static const std::vector<P2>& spts(const char* n) {
  for (auto& kv : kSimplePolys)
    if (!strcmp(kv.first, n)) return kv.second;
  abort();
}
static SimplePolygon spX(const char* n) {
  SimplePolygon s;
  for (auto& p : spts(n)) s.push_back({p.x, p.y});
  return s;
}
static int spC(CW& c, const char* n, bool fin) {
  auto& pts = spts(n);
  std::vector<ManifoldVec2> a;
  for (auto& p : pts) a.push_back({p.x, p.y});
  ManifoldVec2 dummy{0, 0};
  return c.tmp(manifold_simple_polygon(fin ? c.fin(tSP) : c.memMode(tSP, false), a.empty() ? &dummy : a.data(), a.size()));
}
static Polygons psX(std::vector<const char*> names) {
  Polygons p;
  for (auto n : names) p.push_back(spX(n));
  return p;
}
static int psC(CW& c, std::vector<const char*> names, bool fin) {
  std::vector<int> ids;
  std::vector<ManifoldSimplePolygon*> ptrs;
  for (auto n : names) {
    ids.push_back(spC(c, n, false));
    ptrs.push_back((ManifoldSimplePolygon*)c.objs[ids.back()].p);
  }
  ManifoldSimplePolygon* dummy = nullptr;
  int r = c.tmp(manifold_polygons(fin ? c.fin(tPS) : c.memMode(tPS, false), ptrs.empty() ? &dummy : ptrs.data(), ptrs.size()));
  for (int i : ids) c.kill(i);
  return r;
}

// pool helper: C objects by pointer
static ManifoldManifold* PM(CW& c, int i) { return (ManifoldManifold*)c.objs[i].p; }
static ManifoldCrossSection* PCS(CW& c, int i) { return (ManifoldCrossSection*)c.objs[i].p; }

// C builders of the manifold pool; `fin` = the object is the pool entry itself (top level) or a temporary
static int mC(CW& c, int which, bool fin);
static Manifold mX(int which);
static const char* kMNames[] = {"cube123", "cyl", "sphereNormals", "twoCubes", "lazyDiff", "empty", "invalidCube", "mirroredTet"};
static const int kNM = 8;
static void* MM(CW& c, bool fin) { return fin ? c.fin(tM) : c.memMode(tM, false); }
static int mC(CW& c, int which, bool fin) {
  switch (which) {
    case 0:
      return c.tmp(manifold_cube(MM(c, fin), 1, 2, 3, 0));
    case 1: {
      int a = c.tmp(manifold_cylinder(MM(c, false), 2, 1, 0.5, 5, 1));
      int r = c.tmp(manifold_translate(MM(c, fin), PM(c, a), 0.3, 0.2, 0.1));
      c.kill(a);
      return r;
    }
    case 2: {
      int a = c.tmp(manifold_sphere(MM(c, false), 1.1, 8));
      int r = c.tmp(manifold_calculate_normals(MM(c, fin), PM(c, a), 0, 50));
      c.kill(a);
      return r;
    }
    case 3: {
      int a = c.tmp(manifold_cube(MM(c, false), 1, 1, 1, 0));
      int b = c.tmp(manifold_translate(MM(c, false), PM(c, a), 3, 0.5, 0.25));
      int r = c.tmp(manifold_union(MM(c, fin), PM(c, a), PM(c, b)));
      c.kill(b);
      c.kill(a);
      return r;
    }
    case 4: {
      int a = c.tmp(manifold_cube(MM(c, false), 2, 2, 2, 1));
      int b = c.tmp(manifold_cylinder(MM(c, false), 3, 0.6, 0.4, 6, 1));
      int r = c.tmp(manifold_difference(MM(c, fin), PM(c, a), PM(c, b)));
      c.kill(a);
      c.kill(b);
      return r;
    }
    case 5:
      return c.tmp(manifold_empty(MM(c, fin)));
    case 6:
      return c.tmp(manifold_cube(MM(c, fin), -1, 1, 1, 0));
    default: {
      int a = c.tmp(manifold_tetrahedron(MM(c, false)));
      int r = c.tmp(manifold_mirror(MM(c, fin), PM(c, a), 1, 0, 0));
      c.kill(a);
      return r;
    }
  }
}
static Manifold mX(int which) {
  switch (which) {
    case 0:
      return Manifold::Cube({1, 2, 3}, false);
    case 1:
      return Manifold::Cylinder(2, 1, 0.5, 5, true).Translate({0.3, 0.2, 0.1});
    case 2:
      return Manifold::Sphere(1.1, 8).CalculateNormals(0, 50);
    case 3: {
      Manifold a = Manifold::Cube({1, 1, 1}, false);
      Manifold b = a.Translate({3, 0.5, 0.25});
      return a + b;
    }
    case 4: {
      Manifold a = Manifold::Cube({2, 2, 2}, true);
      Manifold b = Manifold::Cylinder(3, 0.6, 0.4, 6, true);
      return a - b;
    }
    case 5:
      return Manifold();
    case 6:
      return Manifold::Cube({-1, 1, 1}, false);
    default:
      return Manifold::Tetrahedron().Mirror({1, 0, 0});
  }
}
static const char* kCSNames[] = {"square12", "circle5", "sqHole", "twoSquares", "emptyCS"};
static const int kNCS = 5;
static void* MCS(CW& c, bool fin) { return fin ? c.fin(tCS) : c.memMode(tCS, false); }
static int csC(CW& c, int which, bool fin) {
  switch (which) {
    case 0:
      return c.tmp(manifold_cross_section_square(MCS(c, fin), 1, 2, 0));
    case 1: {
      int a = c.tmp(manifold_cross_section_circle(MCS(c, false), 1.5, 5));
      int r = c.tmp(manifold_cross_section_translate(MCS(c, fin), PCS(c, a), 0.25, -0.5));
      c.kill(a);
      return r;
    }
    case 2: {
      int p = psC(c, {"sq4x3", "holeCW"}, false);
      int r = c.tmp(manifold_cross_section_of_polygons(MCS(c, fin), (ManifoldPolygons*)c.objs[p].p));
      c.kill(p);
      return r;
    }
    case 3: {
      int a = c.tmp(manifold_cross_section_square(MCS(c, false), 1, 1, 0));
      int b = c.tmp(manifold_cross_section_translate(MCS(c, false), PCS(c, a), 3, 1));
      int r = c.tmp(manifold_cross_section_union(MCS(c, fin), PCS(c, a), PCS(c, b)));
      c.kill(a);
      c.kill(b);
      return r;
    }
    default:
      return c.tmp(manifold_cross_section_empty(MCS(c, fin)));
  }
}
static CrossSection csX(int which) {
  switch (which) {
    case 0:
      return CrossSection::Square({1, 2}, false);
    case 1:
      return CrossSection::Circle(1.5, 5).Translate({0.25, -0.5});
    case 2:
      return CrossSection(psX({"sq4x3", "holeCW"}));
    case 3: {
      CrossSection a = CrossSection::Square({1, 1}, false);
      return a + a.Translate({3, 1});
    }
    default:
      return CrossSection();
  }
}

template <class T>
static XO xo(Ty t, T v) {
  return XW::mk(t, std::move(v));
}
static MeshGL rawGL(const float* v, size_t nv, size_t np, const uint32_t* t, size_t nt) {
  MeshGL g;
  g.numProp = (uint32_t)np;
  g.vertProperties = vec(v, nv * np);
  g.triVerts = vec(t, nt * 3);
  return g;
}
static MeshGL64 rawGL64(const double* v, size_t nv, size_t np, const uint64_t* t, size_t nt) {
  MeshGL64 g;
  g.numProp = np;
  g.vertProperties = vec(v, nv * np);
  g.triVerts = vec(t, nt * 3);
  return g;
}

static void buildPools() {
  for (int i = 0; i < kNM; ++i)
    g_pool[tM].push_back({kMNames[i], [i](CW& c) { return mC(c, i, true); }, [i] { return xo(tM, mX(i)); }});
  for (int i = 0; i < kNCS; ++i)
    g_pool[tCS].push_back({kCSNames[i], [i](CW& c) { return csC(c, i, true); }, [i] { return xo(tCS, csX(i)); }});
  // MeshGL
  auto fromM = [](int which) {
    return PoolEntry{which == 0 ? "cubeGL" : "diffGL",
                     [which](CW& c) {
                       int m = mC(c, which, false);
                       int r = c.tmp(manifold_get_meshgl(c.fin(tMG), PM(c, m)));
                       c.kill(m);
                       return r;
                     },
                     [which] { return xo(tMG, mX(which).GetMeshGL()); }};
  };
  g_pool[tMG].push_back(fromM(0));
  g_pool[tMG].push_back({"tet6", [](CW& c) { return c.tmp(manifold_meshgl(c.fin(tMG), kTet6V, 4, 6, kTetT, 4)); },
                         [] { return xo(tMG, rawGL(kTet6V, 4, 6, kTetT, 4)); }});
  g_pool[tMG].push_back({"seamTet", [](CW& c) { return c.tmp(manifold_meshgl(c.fin(tMG), kSeamV, 5, 3, kSeamT, 4)); },
                         [] { return xo(tMG, rawGL(kSeamV, 5, 3, kSeamT, 4)); }});
  g_pool[tMG].push_back({"tetTangents", [](CW& c) { return c.tmp(manifold_meshgl_w_tangents(c.fin(tMG), kTetV, 4, 3, kTetT, 4, kTang)); },
                         [] {
                           MeshGL g = rawGL(kTetV, 4, 3, kTetT, 4);
                           g.halfedgeTangent = vec(kTang, 48);
                           return xo(tMG, g);
                         }});
  g_pool[tMG].push_back({"nanTet", [](CW& c) { return c.tmp(manifold_meshgl(c.fin(tMG), kNanV, 4, 3, kTetT, 4)); },
                         [] { return xo(tMG, rawGL(kNanV, 4, 3, kTetT, 4)); }});
  g_pool[tMG].push_back({"oobTet", [](CW& c) { return c.tmp(manifold_meshgl(c.fin(tMG), kTetV, 4, 3, kOobT, 4)); },
                         [] { return xo(tMG, rawGL(kTetV, 4, 3, kOobT, 4)); }});
  g_pool[tMG].push_back(fromM(4));
  g_pool[tMG].push_back({"normalsGL",
                         [](CW& c) {
                           int m = mC(c, 7, false);
                           int n = c.tmp(manifold_calculate_normals(MM(c, false), PM(c, m), 0, 50));
                           int r = c.tmp(manifold_get_meshgl(c.fin(tMG), PM(c, n)));
                           c.kill(m);
                           c.kill(n);
                           return r;
                         },
                         [] { return xo(tMG, mX(7).CalculateNormals(0, 50).GetMeshGL()); }});
  // MeshGL64
  auto fromM64 = [](int which) {
    return PoolEntry{which == 0 ? "cubeGL64" : "diffGL64",
                     [which](CW& c) {
                       int m = mC(c, which, false);
                       int r = c.tmp(manifold_get_meshgl64(c.fin(tMG64), PM(c, m)));
                       c.kill(m);
                       return r;
                     },
                     [which] { return xo(tMG64, mX(which).GetMeshGL64()); }};
  };
  g_pool[tMG64].push_back(fromM64(0));
  g_pool[tMG64].push_back({"tet6_64", [](CW& c) { return c.tmp(manifold_meshgl64(c.fin(tMG64), kTet6V64, 4, 6, kTetT64, 4)); },
                           [] { return xo(tMG64, rawGL64(kTet6V64, 4, 6, kTetT64, 4)); }});
  g_pool[tMG64].push_back({"seamTet64", [](CW& c) { return c.tmp(manifold_meshgl64(c.fin(tMG64), kSeamV64, 5, 3, kSeamT64, 4)); },
                           [] { return xo(tMG64, rawGL64(kSeamV64, 5, 3, kSeamT64, 4)); }});
  g_pool[tMG64].push_back(
      {"tetTangents64", [](CW& c) { return c.tmp(manifold_meshgl64_w_tangents(c.fin(tMG64), kTetV64, 4, 3, kTetT64, 4, kTang64)); },
       [] {
         MeshGL64 g = rawGL64(kTetV64, 4, 3, kTetT64, 4);
         g.halfedgeTangent = vec(kTang64, 48);
         return xo(tMG64, g);
       }});
  g_pool[tMG64].push_back(fromM64(4));
  // simple polygons / polygons
  for (const char* n : {"tri", "L", "cwSquare", "none"})
    g_pool[tSP].push_back({n, [n](CW& c) { return spC(c, n, true); }, [n] { return xo(tSP, spX(n)); }});
  struct PSDef {
    const char* name;
    std::vector<const char*> parts;
  };
  static const std::vector<PSDef> psd = {{"sqHole", {"sq4x3", "holeCW"}}, {"overlap", {"sq2", "sqShift"}}, {"L1", {"L"}}, {"nonePS", {}}, {"cw1", {"cwSquare"}}};
  for (auto& d : psd)
    g_pool[tPS].push_back({d.name, [d](CW& c) { return psC(c, d.parts, true); }, [d] { return xo(tPS, psX(d.parts)); }});
  // boxes / rects
  struct B6 {
    const char* name;
    double a[6];
  };
  static const std::vector<B6> boxes = {{"box123", {0, 0, 0, 1, 2, 3}}, {"boxMixed", {0.5, 3, -1, -1, -2, 0.25}}, {"boxFar", {10, 11, 12, 13, 14, 15}}};
  for (auto& b : boxes)
    g_pool[tBOX].push_back({b.name, [b](CW& c) { return c.tmp(manifold_box(c.fin(tBOX), b.a[0], b.a[1], b.a[2], b.a[3], b.a[4], b.a[5])); },
                            [b] { return xo(tBOX, Box({b.a[0], b.a[1], b.a[2]}, {b.a[3], b.a[4], b.a[5]})); }});
  g_pool[tBOX].push_back({"boxOfEmpty",
                          [](CW& c) {
                            int m = mC(c, 5, false);
                            int r = c.tmp(manifold_bounding_box(c.fin(tBOX), PM(c, m)));
                            c.kill(m);
                            return r;
                          },
                          [] { return xo(tBOX, Manifold().BoundingBox()); }});
  static const std::vector<B6> rects = {{"rect12", {0, 0, 1, 2}}, {"rectMixed", {0.5, 3, -1, -2}}, {"rectFar", {10, 11, 12, 13}}};
  for (auto& b : rects)
    g_pool[tRECT].push_back({b.name, [b](CW& c) { return c.tmp(manifold_rect(c.fin(tRECT), b.a[0], b.a[1], b.a[2], b.a[3])); },
                             [b] { return xo(tRECT, Rect({b.a[0], b.a[1]}, {b.a[2], b.a[3]})); }});
  g_pool[tRECT].push_back({"rectOfEmpty",
                           [](CW& c) {
                             int m = csC(c, 4, false);
                             int r = c.tmp(manifold_cross_section_bounds(c.fin(tRECT), PCS(c, m)));
                             c.kill(m);
                             return r;
                           },
                           [] { return xo(tRECT, CrossSection().Bounds()); }});
  // vectors
  g_pool[tMV].push_back({"mvEmpty", [](CW& c) { return c.tmp(manifold_manifold_empty_vec(c.fin(tMV))); }, [] { return xo(tMV, std::vector<Manifold>()); }});
  g_pool[tMV].push_back({"mvCubeCyl",
                         [](CW& c) {
                           int v = c.tmp(manifold_manifold_empty_vec(c.fin(tMV)));
                           int a = mC(c, 0, false), b = mC(c, 1, false);
                           manifold_manifold_vec_push_back((ManifoldManifoldVec*)c.objs[v].p, PM(c, a));
                           manifold_manifold_vec_push_back((ManifoldManifoldVec*)c.objs[v].p, PM(c, b));
                           c.kill(a);
                           c.kill(b);
                           return v;
                         },
                         [] { return xo(tMV, std::vector<Manifold>{mX(0), mX(1)}); }});
  g_pool[tMV].push_back({"mvParts+Diff",
                         [](CW& c) {
                           int a = mC(c, 3, false);
                           int v = c.tmp(manifold_decompose(c.fin(tMV), PM(c, a)));
                           int b = mC(c, 4, false);
                           manifold_manifold_vec_push_back((ManifoldManifoldVec*)c.objs[v].p, PM(c, b));
                           c.kill(b);
                           c.kill(a);
                           return v;
                         },
                         [] {
                           std::vector<Manifold> v = mX(3).Decompose();
                           v.push_back(mX(4));
                           return xo(tMV, v);
                         }});
  g_pool[tCSV].push_back({"csvEmpty", [](CW& c) { return c.tmp(manifold_cross_section_empty_vec(c.fin(tCSV))); },
                          [] { return xo(tCSV, std::vector<CrossSection>()); }});
  g_pool[tCSV].push_back({"csvSquareCircle",
                          [](CW& c) {
                            int v = c.tmp(manifold_cross_section_empty_vec(c.fin(tCSV)));
                            int a = csC(c, 0, false), b = csC(c, 1, false);
                            manifold_cross_section_vec_push_back((ManifoldCrossSectionVec*)c.objs[v].p, PCS(c, a));
                            manifold_cross_section_vec_push_back((ManifoldCrossSectionVec*)c.objs[v].p, PCS(c, b));
                            c.kill(b);
                            c.kill(a);
                            return v;
                          },
                          [] { return xo(tCSV, std::vector<CrossSection>{csX(0), csX(1)}); }});
  g_pool[tCSV].push_back({"csvParts+Hole",
                          [](CW& c) {
                            int a = csC(c, 3, false);
                            int v = c.tmp(manifold_cross_section_decompose(c.fin(tCSV), PCS(c, a)));
                            int b = csC(c, 2, false);
                            manifold_cross_section_vec_push_back((ManifoldCrossSectionVec*)c.objs[v].p, PCS(c, b));
                            c.kill(a);
                            c.kill(b);
                            return v;
                          },
                          [] {
                            std::vector<CrossSection> v = csX(3).Decompose();
                            v.push_back(csX(2));
                            return xo(tCSV, v);
                          }});
  // triangulations
  g_pool[tTRI].push_back({"triSqHole",
                          [](CW& c) {
                            int p = psC(c, {"sq4x3", "holeCW"}, false);
                            int r = c.tmp(manifold_triangulate(c.fin(tTRI), (ManifoldPolygons*)c.objs[p].p, -1));
                            c.kill(p);
                            return r;
                          },
                          [] { return xo(tTRI, Triangulate(psX({"sq4x3", "holeCW"}), -1)); }});
  g_pool[tTRI].push_back({"triNone",
                          [](CW& c) {
                            int p = psC(c, {}, false);
                            int r = c.tmp(manifold_triangulate(c.fin(tTRI), (ManifoldPolygons*)c.objs[p].p, -1));
                            c.kill(p);
                            return r;
                          },
                          [] { return xo(tTRI, Triangulate(Polygons(), -1)); }});
  // ray hit vectors
  struct Ray {
    const char* name;
    int m;
    double a[6];
  };
  static const std::vector<Ray> rays = {{"rhCube2", 0, {-1, 0.5, 0.7, 3, 1.0, 1.5}}, {"rhMiss", 0, {-1, 5, 5, 3, 5, 6}}, {"rhTwoCubes", 3, {-1, 0.6, 0.4, 6, 0.8, 0.5}}};
  for (auto& r : rays)
    g_pool[tRH].push_back({r.name,
                           [r](CW& c) {
                             int m = mC(c, r.m, false);
                             int v = c.tmp(manifold_ray_cast(c.fin(tRH), PM(c, m), r.a[0], r.a[1], r.a[2], r.a[3], r.a[4], r.a[5]));
                             c.kill(m);
                             return v;
                           },
                           [r] { return xo(tRH, mX(r.m).RayCast({r.a[0], r.a[1], r.a[2]}, {r.a[3], r.a[4], r.a[5]})); }});
  // execution contexts
  g_pool[tEC].push_back({"ecFresh", [](CW& c) { return c.tmp(manifold_execution_context(c.fin(tEC))); }, [] { return xo(tEC, ExecutionContext()); }});
  g_pool[tEC].push_back({"ecCancelled",
                         [](CW& c) {
                           int e = c.tmp(manifold_execution_context(c.fin(tEC)));
                           manifold_execution_context_cancel((ManifoldExecutionContext*)c.objs[e].p);
                           return e;
                         },
                         [] {
                           ExecutionContext e;
                           e.Cancel();
                           return xo(tEC, e);
                         }});
}

// ------------------------------------------------------------------ the rows
#define R_MM(FN, ARGS, XCALL, ...) \
  add(NAME(FN), ARGS, {tM}, {tM}, [=](CW& c) { c.out(FN(c.mem(tM), c.m(0), ##__VA_ARGS__)); }, [=](XW& x) { x.out(x.m(0).XCALL); })
#define R_CC(FN, ARGS, XCALL, ...) \
  add(NAME(FN), ARGS, {tCS}, {tCS}, [=](CW& c) { c.out(FN(c.mem(tCS), c.cs(0), ##__VA_ARGS__)); }, [=](XW& x) { x.out(x.cs(0).XCALL); })
// object -> scalar: ACC is the input accessor (m, cs, mg, ...), XEXPR an expression over `o` (the C++ object)
#define R_S(FN, ARGS, T, ACC, XEXPR, ...)                                                              \
  add(NAME(FN), ARGS, {T}, {}, [=](CW& c) { c.s("ret", FN(c.ACC(0), ##__VA_ARGS__)); }, [=](XW& x) { \
    auto& o = x.ACC(0);                                                                                \
    x.s("ret", XEXPR);                                                                                 \
  })

struct V3 {
  double x, y, z;
};
struct V2 {
  double x, y;
};

static void rowsPolygonsAndMeshes() {
  // ---- Polygons
  for (auto& kv : kSimplePolys) {
    const char* n = kv.first;
    add(NAME(manifold_simple_polygon), F("ps=%s,length=%zu", n, kv.second.size()), {}, {tSP},
        [n](CW& c) {
          std::vector<ManifoldVec2> a;
          for (auto& p : spts(n)) a.push_back({p.x, p.y});
          ManifoldVec2 dummy{0, 0};
          c.out(manifold_simple_polygon(c.mem(tSP), a.empty() ? &dummy : a.data(), a.size()));
        },
        [n](XW& x) { x.out(spX(n)); });
  }
  add(NAME(manifold_polygons), "ps=[],length=0", {}, {tPS},
      [](CW& c) {
        ManifoldSimplePolygon* none = nullptr;
        c.out(manifold_polygons(c.mem(tPS), &none, 0));
      },
      [](XW& x) { x.out(Polygons()); });
  add(NAME(manifold_polygons), "ps=[#0],length=1", {tSP}, {tPS},
      [](CW& c) {
        ManifoldSimplePolygon* a[1] = {c.sp(0)};
        c.out(manifold_polygons(c.mem(tPS), a, 1));
      },
      [](XW& x) { x.out(Polygons{x.sp(0)}); });
  add(NAME(manifold_polygons), "ps=[#0,#1],length=2", {tSP, tSP}, {tPS},
      [](CW& c) {
        ManifoldSimplePolygon* a[2] = {c.sp(0), c.sp(1)};
        c.out(manifold_polygons(c.mem(tPS), a, 2));
      },
      [](XW& x) { x.out(Polygons{x.sp(0), x.sp(1)}); });
  R_S(manifold_simple_polygon_length, "", tSP, sp, o.size());
  R_S(manifold_polygons_length, "", tPS, ps, o.size());
  add(NAME(manifold_polygons_simple_length), "idx=all valid", {tPS}, {},
      [](CW& c) {
        for (size_t i = 0, n = manifold_polygons_length(c.ps(0)); i < n; ++i) c.s("len", manifold_polygons_simple_length(c.ps(0), i));
      },
      [](XW& x) {
        for (auto& s : x.ps(0)) x.s("len", s.size());
      });
  add(NAME(manifold_simple_polygon_get_point), "idx=all valid", {tSP}, {},
      [](CW& c) {
        for (size_t i = 0, n = manifold_simple_polygon_length(c.sp(0)); i < n; ++i) c.s("pt", manifold_simple_polygon_get_point(c.sp(0), i));
      },
      [](XW& x) {
        for (auto& v : x.sp(0)) x.s("pt", v);
      });
  for (size_t idx : {0, 1})
    add(NAME(manifold_polygons_get_simple), F("idx=%zu (if valid)", idx), {tPS}, {tSP},
        [idx](CW& c) {
          if (idx < manifold_polygons_length(c.ps(0))) c.out(manifold_polygons_get_simple(c.mem(tSP), c.ps(0), idx));
        },
        [idx](XW& x) {
          if (idx < x.ps(0).size()) x.out(SimplePolygon(x.ps(0)[idx]));
        });
  add(NAME(manifold_polygons_get_point), "simple_idx,pt_idx=all valid", {tPS}, {},
      [](CW& c) {
        for (size_t i = 0, n = manifold_polygons_length(c.ps(0)); i < n; ++i)
          for (size_t j = 0, k = manifold_polygons_simple_length(c.ps(0), i); j < k; ++j) c.s("pt", manifold_polygons_get_point(c.ps(0), i, j));
      },
      [](XW& x) {
        for (auto& s : x.ps(0))
          for (auto& v : s) x.s("pt", v);
      });

  // ---- Mesh construction from arrays
  struct Raw {
    const char* name;
    float* v;
    double* v64;
    size_t nv, np;
    uint32_t* t;
    uint64_t* t64;
    size_t nt;
  };
  static const std::vector<Raw> raws = {
      {"tet", kTetV, kTetV64, 4, 3, kTetT, kTetT64, 4},          {"tet6props", kTet6V, kTet6V64, 4, 6, kTetT, kTetT64, 4},
      {"seamTet", kSeamV, kSeamV64, 5, 3, kSeamT, kSeamT64, 4},   {"nanTet", kNanV, kNanV64, 4, 3, kTetT, kTetT64, 4},
      {"oobTet", kTetV, kTetV64, 4, 3, kOobT, kOobT64, 4},        {"numProp2", kTetV, kTetV64, 6, 2, kTetT, kTetT64, 4},
      {"noTris", kTetV, kTetV64, 4, 3, kTetT, kTetT64, 0},
  };
  for (auto& r : raws) {
    std::string a = F("mesh=%s,n_verts=%zu,n_props=%zu,n_tris=%zu", r.name, r.nv, r.np, r.nt);
    add(NAME(manifold_meshgl), a, {}, {tMG}, [r](CW& c) { c.out(manifold_meshgl(c.mem(tMG), r.v, r.nv, r.np, r.t, r.nt)); },
        [r](XW& x) { x.out(rawGL(r.v, r.nv, r.np, r.t, r.nt)); });
    add(NAME(manifold_meshgl64), a, {}, {tMG64}, [r](CW& c) { c.out(manifold_meshgl64(c.mem(tMG64), r.v64, r.nv, r.np, r.t64, r.nt)); },
        [r](XW& x) { x.out(rawGL64(r.v64, r.nv, r.np, r.t64, r.nt)); });
  }
  add(NAME(manifold_meshgl_w_tangents), "mesh=tet,tangents=48 floats", {}, {tMG},
      [](CW& c) { c.out(manifold_meshgl_w_tangents(c.mem(tMG), kTetV, 4, 3, kTetT, 4, kTang)); },
      [](XW& x) {
        MeshGL g = rawGL(kTetV, 4, 3, kTetT, 4);
        g.halfedgeTangent = vec(kTang, 48);
        x.out(g);
      });
  add(NAME(manifold_meshgl64_w_tangents), "mesh=tet,tangents=48 doubles", {}, {tMG64},
      [](CW& c) { c.out(manifold_meshgl64_w_tangents(c.mem(tMG64), kTetV64, 4, 3, kTetT64, 4, kTang64)); },
      [](XW& x) {
        MeshGL64 g = rawGL64(kTetV64, 4, 3, kTetT64, 4);
        g.halfedgeTangent = vec(kTang64, 48);
        x.out(g);
      });
  // every subset of the optional fields.  merge_from_vert / merge_to_vert share one length field and one length getter,
  // so they are given together or not at all ([4] -> [0]: asymmetric, a swap shows)
  for (int m4 = 0; m4 < 16; ++m4) {
    const int mask = (m4 & 3) | (m4 & 4 ? 12 : 0) | (m4 & 8 ? 16 : 0);
    std::string a = F("mesh=seamTet,run_indices=%s,run_original_ids=%s,merge_from_vert=%s,merge_to_vert=%s,halfedge_tangents=%s", mask & 1 ? "[0,6,12]" : "NULL",
                      mask & 2 ? "[7,3]" : "NULL", mask & 4 ? "[4]" : "NULL", mask & 8 ? "[0]" : "NULL", mask & 16 ? "48" : "NULL");
    add(NAME(manifold_meshgl_w_options), a, {}, {tMG},
        [mask](CW& c) {
          ManifoldMeshGLOptions o;
          o.run_indices = mask & 1 ? kRunIdx : nullptr;
          o.run_indices_length = 3;
          o.run_original_ids = mask & 2 ? kRunIds : nullptr;
          o.run_original_ids_length = 2;
          o.merge_from_vert = mask & 4 ? kMergeFrom : nullptr;
          o.merge_to_vert = mask & 8 ? kMergeTo : nullptr;
          o.merge_verts_length = 1;
          o.halfedge_tangents = mask & 16 ? kTang : nullptr;
          c.out(manifold_meshgl_w_options(c.mem(tMG), kSeamV, 5, 3, kSeamT, 4, &o));
        },
        [mask](XW& x) {
          MeshGL g = rawGL(kSeamV, 5, 3, kSeamT, 4);
          if (mask & 1) g.runIndex = vec(kRunIdx, 3);
          if (mask & 2) g.runOriginalID = vec(kRunIds, 2);
          if (mask & 4) g.mergeFromVert = vec(kMergeFrom, 1);
          if (mask & 8) g.mergeToVert = vec(kMergeTo, 1);
          if (mask & 16) g.halfedgeTangent = vec(kTang, 48);
          x.out(g);
        });
    add(NAME(manifold_meshgl64_w_options), a, {}, {tMG64},
        [mask](CW& c) {
          ManifoldMeshGL64Options o;
          o.run_indices = mask & 1 ? kRunIdx64 : nullptr;
          o.run_indices_length = 3;
          o.run_original_ids = mask & 2 ? kRunIds : nullptr;
          o.run_original_ids_length = 2;
          o.merge_from_vert = mask & 4 ? kMergeFrom64 : nullptr;
          o.merge_to_vert = mask & 8 ? kMergeTo64 : nullptr;
          o.merge_verts_length = 1;
          o.halfedge_tangents = mask & 16 ? kTang64 : nullptr;
          c.out(manifold_meshgl64_w_options(c.mem(tMG64), kSeamV64, 5, 3, kSeamT64, 4, &o));
        },
        [mask](XW& x) {
          MeshGL64 g = rawGL64(kSeamV64, 5, 3, kSeamT64, 4);
          if (mask & 1) g.runIndex = vec(kRunIdx64, 3);
          if (mask & 2) g.runOriginalID = vec(kRunIds, 2);
          if (mask & 4) g.mergeFromVert = vec(kMergeFrom64, 1);
          if (mask & 8) g.mergeToVert = vec(kMergeTo64, 1);
          if (mask & 16) g.halfedgeTangent = vec(kTang64, 48);
          x.out(g);
        });
  }
  // two malformed option sets the importer rejects gracefully (RunIndexWrongLength, MergeIndexOutOfBounds)
  for (int bad = 0; bad < 2; ++bad) {
    std::string a = bad ? "mesh=seamTet,merge_from_vert=[4],merge_to_vert=[9] (out of range),others NULL"
                        : "mesh=seamTet,run_indices=[0,6,12],run_original_ids=[7] (length 1),others NULL";
    static uint32_t mergeToBad[] = {9};
    static uint64_t mergeToBad64[] = {9};
    add(NAME(manifold_meshgl_w_options), a, {}, {tMG},
        [bad](CW& c) {
          ManifoldMeshGLOptions o = {};
          if (bad) {
            o.merge_from_vert = kMergeFrom;
            o.merge_to_vert = mergeToBad;
            o.merge_verts_length = 1;
          } else {
            o.run_indices = kRunIdx;
            o.run_indices_length = 3;
            o.run_original_ids = kRunIds;
            o.run_original_ids_length = 1;
          }
          c.out(manifold_meshgl_w_options(c.mem(tMG), kSeamV, 5, 3, kSeamT, 4, &o));
        },
        [bad](XW& x) {
          MeshGL g = rawGL(kSeamV, 5, 3, kSeamT, 4);
          if (bad) {
            g.mergeFromVert = vec(kMergeFrom, 1);
            g.mergeToVert = vec(mergeToBad, 1);
          } else {
            g.runIndex = vec(kRunIdx, 3);
            g.runOriginalID = vec(kRunIds, 1);
          }
          x.out(g);
        });
    add(NAME(manifold_meshgl64_w_options), a, {}, {tMG64},
        [bad](CW& c) {
          ManifoldMeshGL64Options o = {};
          if (bad) {
            o.merge_from_vert = kMergeFrom64;
            o.merge_to_vert = mergeToBad64;
            o.merge_verts_length = 1;
          } else {
            o.run_indices = kRunIdx64;
            o.run_indices_length = 3;
            o.run_original_ids = kRunIds;
            o.run_original_ids_length = 1;
          }
          c.out(manifold_meshgl64_w_options(c.mem(tMG64), kSeamV64, 5, 3, kSeamT64, 4, &o));
        },
        [bad](XW& x) {
          MeshGL64 g = rawGL64(kSeamV64, 5, 3, kSeamT64, 4);
          if (bad) {
            g.mergeFromVert = vec(kMergeFrom64, 1);
            g.mergeToVert = vec(mergeToBad64, 1);
          } else {
            g.runIndex = vec(kRunIdx64, 3);
            g.runOriginalID = vec(kRunIds, 1);
          }
          x.out(g);
        });
  }
  add(NAME(manifold_get_meshgl), "", {tM}, {tMG}, [](CW& c) { c.out(manifold_get_meshgl(c.mem(tMG), c.m(0))); }, [](XW& x) { x.out(x.m(0).GetMeshGL()); });
  add(NAME(manifold_get_meshgl64), "", {tM}, {tMG64}, [](CW& c) { c.out(manifold_get_meshgl64(c.mem(tMG64), c.m(0))); },
      [](XW& x) { x.out(x.m(0).GetMeshGL64()); });
  for (int ni : {-1, 0}) {
    // "normalIdx + 3 must be <= numProp" (slot 0 = MeshGL channels 3,4,5): idx 0 only on manifolds with >= 6 channels
    add(NAME(manifold_get_meshgl_w_normals), F("normalIdx=%d%s", ni, ni < 0 ? "" : " (if num_prop>=6)"), {tM}, {tMG},
        [ni](CW& c) {
          if (ni < 0 || manifold_num_prop(c.m(0)) >= 6) c.out(manifold_get_meshgl_w_normals(c.mem(tMG), c.m(0), ni));
        },
        [ni](XW& x) {
          if (ni < 0 || x.m(0).NumProp() >= 6) x.out(x.m(0).GetMeshGL(ni));
        });
    add(NAME(manifold_get_meshgl64_w_normals), F("normalIdx=%d%s", ni, ni < 0 ? "" : " (if num_prop>=6)"), {tM}, {tMG64},
        [ni](CW& c) {
          if (ni < 0 || manifold_num_prop(c.m(0)) >= 6) c.out(manifold_get_meshgl64_w_normals(c.mem(tMG64), c.m(0), ni));
        },
        [ni](XW& x) {
          if (ni < 0 || x.m(0).NumProp() >= 6) x.out(x.m(0).GetMeshGL64(ni));
        });
  }
  add(NAME(manifold_meshgl_copy), "", {tMG}, {tMG}, [](CW& c) { c.out(manifold_meshgl_copy(c.mem(tMG), c.mg(0))); }, [](XW& x) { x.out(MeshGL(x.mg(0))); });
  add(NAME(manifold_meshgl64_copy), "", {tMG64}, {tMG64}, [](CW& c) { c.out(manifold_meshgl64_copy(c.mem(tMG64), c.mg64(0))); },
      [](XW& x) { x.out(MeshGL64(x.mg64(0))); });
  // Merge() reads vertices through triVerts without a range check: only when every index is in range
  add(NAME(manifold_meshgl_merge), "(if all indices in range)", {tMG}, {tMG},
      [](CW& c) {
        if (indicesOk(pullMesh(c, c.mg(0)))) c.out(manifold_meshgl_merge(c.mem(tMG), c.mg(0)));
      },
      [](XW& x) {
        if (!indicesOk(x.mg(0))) return;
        MeshGL d = x.mg(0);
        d.Merge();
        x.out(d);
      });
  add(NAME(manifold_meshgl64_merge), "(if all indices in range)", {tMG64}, {tMG64},
      [](CW& c) {
        if (indicesOk(pullMesh(c, c.mg64(0)))) c.out(manifold_meshgl64_merge(c.mem(tMG64), c.mg64(0)));
      },
      [](XW& x) {
        if (!indicesOk(x.mg64(0))) return;
        MeshGL64 d = x.mg64(0);
        d.Merge();
        x.out(d);
      });

  // ---- SDF (level, tolerance) asymmetric so that a swap shows
  struct LS {
    double edge, level, tol;
  };
  for (LS a : {LS{0.7, 0.0, -1.0}, LS{0.6, 0.2, 0.05}}) {
    std::string as = F("sdf=ellipsoid(k=1),bounds=(-2,-2.5,-1.5)..(2,2.5,1.5),edge_length=%g,level=%g,tolerance=%g,ctx=heap", a.edge, a.level, a.tol);
    auto xls = [a](XW& x, bool par, ExecutionContext* ec) {
      long n = 0;
      auto f = [&n](vec3 v) {
        ++n;
        return sdfValue(v.x, v.y, v.z, 1.0);
      };
      Box b({-2, -2.5, -1.5}, {2, 2.5, 1.5});
      x.out(ec ? ec->LevelSet(f, b, a.edge, a.level, a.tol, par) : Manifold::LevelSet(f, b, a.edge, a.level, a.tol, par));
      x.calls(n);
    };
    auto cls = [a](CW& c, int which) {
      UD* u = c.ud(1.0);
      int b = c.tmp(manifold_box(c.memMode(tBOX, false), -2, -2.5, -1.5, 2, 2.5, 1.5));
      ManifoldBox* bb = (ManifoldBox*)c.objs[b].p;
      void* mem = c.mem(tM);
      switch (which) {
        case 0:
          c.out(manifold_level_set(mem, cbSdf, bb, a.edge, a.level, a.tol, u));
          break;
        case 1:
          c.out(manifold_level_set_seq(mem, cbSdf, bb, a.edge, a.level, a.tol, u));
          break;
        case 2:
          c.out(manifold_execution_context_level_set(mem, c.ec(0), cbSdf, bb, a.edge, a.level, a.tol, u));
          break;
        default:
          c.out(manifold_execution_context_level_set_seq(mem, c.ec(0), cbSdf, bb, a.edge, a.level, a.tol, u));
      }
      c.kill(b);
      c.udDone(u, "level_set");
    };
    add(NAME(manifold_level_set), as, {}, {tM}, [cls](CW& c) { cls(c, 0); }, [xls](XW& x) { xls(x, true, nullptr); });
    add(NAME(manifold_level_set_seq), as, {}, {tM}, [cls](CW& c) { cls(c, 1); }, [xls](XW& x) { xls(x, false, nullptr); });
    add(NAME(manifold_execution_context_level_set), as, {tEC}, {tM}, [cls](CW& c) { cls(c, 2); }, [xls](XW& x) { xls(x, true, &x.ec(0)); });
    add(NAME(manifold_execution_context_level_set_seq), as, {tEC}, {tM}, [cls](CW& c) { cls(c, 3); }, [xls](XW& x) { xls(x, false, &x.ec(0)); });
  }
}

static void rowsVectorsBooleansTransforms() {
  // ---- Manifold vectors
  add(NAME(manifold_manifold_empty_vec), "", {}, {tMV}, [](CW& c) { c.out(manifold_manifold_empty_vec(c.mem(tMV))); },
      [](XW& x) { x.out(std::vector<Manifold>()); });
  for (size_t sz : {0, 3})
    add(NAME(manifold_manifold_vec), F("sz=%zu", sz), {}, {tMV}, [sz](CW& c) { c.out(manifold_manifold_vec(c.mem(tMV), sz)); },
        [sz](XW& x) { x.out(std::vector<Manifold>(sz)); });
  for (size_t sz : {0, 10})
    add(NAME(manifold_manifold_vec_reserve), F("sz=%zu", sz), {tMV}, {}, [sz](CW& c) { manifold_manifold_vec_reserve(c.mv(0), sz); },
        [sz](XW& x) { x.mv(0).reserve(sz); });
  R_S(manifold_manifold_vec_length, "", tMV, mv, o.size());
  for (size_t idx : {0, 1, 2})
    add(NAME(manifold_manifold_vec_get), F("idx=%zu (if valid)", idx), {tMV}, {tM},
        [idx](CW& c) {
          if (idx < manifold_manifold_vec_length(c.mv(0))) c.out(manifold_manifold_vec_get(c.mem(tM), c.mv(0), idx));
        },
        [idx](XW& x) {
          if (idx < x.mv(0).size()) x.out(Manifold(x.mv(0)[idx]));
        });
  for (size_t idx : {0, 2})
    add(NAME(manifold_manifold_vec_set), F("idx=%zu (if valid)", idx), {tMV, tM}, {},
        [idx](CW& c) {
          if (idx < manifold_manifold_vec_length(c.mv(0))) manifold_manifold_vec_set(c.mv(0), idx, c.m(1));
        },
        [idx](XW& x) {
          if (idx < x.mv(0).size()) x.mv(0)[idx] = x.m(1);
        });
  add(NAME(manifold_manifold_vec_push_back), "", {tMV, tM}, {}, [](CW& c) { manifold_manifold_vec_push_back(c.mv(0), c.m(1)); },
      [](XW& x) { x.mv(0).push_back(x.m(1)); });

  // ---- Manifold Booleans
  for (auto& op : kOp) {
    add(NAME(manifold_boolean), F("op=MANIFOLD_%s", op.name), {tM, tM}, {tM}, [op](CW& c) { c.out(manifold_boolean(c.mem(tM), c.m(0), c.m(1), op.c)); },
        [op](XW& x) { x.out(x.m(0).Boolean(x.m(1), op.x)); });
    add(NAME(manifold_batch_boolean), F("op=MANIFOLD_%s", op.name), {tMV}, {tM}, [op](CW& c) { c.out(manifold_batch_boolean(c.mem(tM), c.mv(0), op.c)); },
        [op](XW& x) { x.out(Manifold::BatchBoolean(x.mv(0), op.x)); });
  }
  add(NAME(manifold_union), "", {tM, tM}, {tM}, [](CW& c) { c.out(manifold_union(c.mem(tM), c.m(0), c.m(1))); }, [](XW& x) { x.out(x.m(0) + x.m(1)); });
  add(NAME(manifold_difference), "", {tM, tM}, {tM}, [](CW& c) { c.out(manifold_difference(c.mem(tM), c.m(0), c.m(1))); },
      [](XW& x) { x.out(x.m(0) - x.m(1)); });
  add(NAME(manifold_intersection), "", {tM, tM}, {tM}, [](CW& c) { c.out(manifold_intersection(c.mem(tM), c.m(0), c.m(1))); },
      [](XW& x) { x.out(x.m(0) ^ x.m(1)); });
  add(NAME(manifold_split), "", {tM, tM}, {tM, tM},
      [](CW& c) {
        void *m1 = c.mem(tM), *m2 = c.mem(tM);
        ManifoldManifoldPair p = manifold_split(m1, m2, c.m(0), c.m(1));
        if (p.first != m1 || p.second != m2) c.fail("manifold_split: pair.first/second are not mem_first/mem_second in that order");
        c.out(p.first);
        c.out(p.second);
      },
      [](XW& x) {
        auto p = x.m(0).Split(x.m(1));
        x.out(p.first);
        x.out(p.second);
      });
  struct Plane {
    double x, y, z, off;
  };
  for (Plane p : {Plane{1, 2, 3, 0.5}, Plane{0, 0, 1, 0.25}}) {
    std::string a = F("normal=(%g,%g,%g),offset=%g", p.x, p.y, p.z, p.off);
    add(NAME(manifold_split_by_plane), a, {tM}, {tM, tM},
        [p](CW& c) {
          void *m1 = c.mem(tM), *m2 = c.mem(tM);
          ManifoldManifoldPair r = manifold_split_by_plane(m1, m2, c.m(0), p.x, p.y, p.z, p.off);
          if (r.first != m1 || r.second != m2) c.fail("manifold_split_by_plane: pair.first/second are not mem_first/mem_second in that order");
          c.out(r.first);
          c.out(r.second);
        },
        [p](XW& x) {
          auto r = x.m(0).SplitByPlane({p.x, p.y, p.z}, p.off);
          x.out(r.first);
          x.out(r.second);
        });
    R_MM(manifold_trim_by_plane, a, TrimByPlane(vec3(p.x, p.y, p.z), p.off), p.x, p.y, p.z, p.off);
  }
  // Minkowski on the small convex members of the pool only (a 5-gon frustum operand already costs seconds), both orders
  auto smallPair = [](const std::vector<int>& p) {
    auto ok = [](int i) { return i == 0 || i == 5 || i == 6 || i == 7; };  // cube123, empty, invalidCube, mirroredTet
    return ok(p[0]) && ok(p[1]);
  };
  add(NAME(manifold_minkowski_sum), "", {tM, tM}, {tM}, [](CW& c) { c.out(manifold_minkowski_sum(c.mem(tM), c.m(0), c.m(1))); },
      [](XW& x) { x.out(x.m(0).MinkowskiSum(x.m(1))); })
      .filter = smallPair;
  g_rows.back().lifecyclePin = {7, 7};
  add(NAME(manifold_minkowski_difference), "", {tM, tM}, {tM}, [](CW& c) { c.out(manifold_minkowski_difference(c.mem(tM), c.m(0), c.m(1))); },
      [](XW& x) { x.out(x.m(0).MinkowskiDifference(x.m(1))); })
      .filter = smallPair;
  g_rows.back().lifecyclePin = {7, 7};

  // ---- 3D to 2D
  for (double h : {0.5, -0.25, 1.0})
    add(NAME(manifold_slice), F("height=%g", h), {tM}, {tPS}, [h](CW& c) { c.out(manifold_slice(c.mem(tPS), c.m(0), h)); },
        [h](XW& x) { x.out(x.m(0).Slice(h)); });
  add(NAME(manifold_project), "", {tM}, {tPS}, [](CW& c) { c.out(manifold_project(c.mem(tPS), c.m(0))); }, [](XW& x) { x.out(x.m(0).Project()); });

  // ---- Convex hulls
  R_MM(manifold_hull, "", Hull());
  add(NAME(manifold_batch_hull), "", {tMV}, {tM}, [](CW& c) { c.out(manifold_batch_hull(c.mem(tM), c.mv(0))); },
      [](XW& x) { x.out(Manifold::Hull(x.mv(0))); });
  static const std::vector<std::vector<V3>> hullPts = {
      {{0, 0, 0}, {1.5, 0, 0}, {0, 1.25, 0}, {0.1, 0.2, 2}, {0.4, 0.3, 0.2}, {-1, 0.5, 0.75}}, {{0, 0, 0}, {1, 0, 0}, {0, 1, 0}}, {}};
  for (size_t k = 0; k < hullPts.size(); ++k)
    add(NAME(manifold_hull_pts), F("ps=%zu asymmetric points", hullPts[k].size()), {}, {tM},
        [k](CW& c) {
          std::vector<ManifoldVec3> a;
          for (auto& p : hullPts[k]) a.push_back({p.x, p.y, p.z});
          ManifoldVec3 dummy{0, 0, 0};
          c.out(manifold_hull_pts(c.mem(tM), a.empty() ? &dummy : a.data(), a.size()));
        },
        [k](XW& x) {
          std::vector<vec3> a;
          for (auto& p : hullPts[k]) a.push_back({p.x, p.y, p.z});
          x.out(Manifold::Hull(a));
        });

  // ---- Manifold transformations
  for (V3 v : {V3{1, 2, 3}, V3{-0.5, 0, 0.25}}) R_MM(manifold_translate, F("x=%g,y=%g,z=%g", v.x, v.y, v.z), Translate(vec3(v.x, v.y, v.z)), v.x, v.y, v.z);
  for (V3 v : {V3{10, 20, 30}, V3{90, 0, 0}, V3{0, 0, 45}, V3{0, -90, 180}})
    R_MM(manifold_rotate, F("x=%g,y=%g,z=%g", v.x, v.y, v.z), Rotate(v.x, v.y, v.z), v.x, v.y, v.z);
  for (V3 v : {V3{1, 2, 3}, V3{2, 0.5, -1.5}}) R_MM(manifold_scale, F("x=%g,y=%g,z=%g", v.x, v.y, v.z), Scale(vec3(v.x, v.y, v.z)), v.x, v.y, v.z);
  R_MM(manifold_transform, "cols=(1,0.1,0.2),(0.3,2,0.4),(0.5,0.6,3),(7,8,9)", Transform(mat3x4(vec3(1, 0.1, 0.2), vec3(0.3, 2, 0.4), vec3(0.5, 0.6, 3), vec3(7, 8, 9))),
       1.0, 0.1, 0.2, 0.3, 2.0, 0.4, 0.5, 0.6, 3.0, 7.0, 8.0, 9.0);
  for (V3 v : {V3{1, 2, 3}, V3{0, 0, 1}}) R_MM(manifold_mirror, F("nx=%g,ny=%g,nz=%g", v.x, v.y, v.z), Mirror(vec3(v.x, v.y, v.z)), v.x, v.y, v.z);
  for (double k : {0.3, -1.0})
    add(NAME(manifold_warp), F("fun=(x+%g*y,1.5*y,z-0.25*x),ctx=heap", k), {tM}, {tM},
        [k](CW& c) {
          UD* u = c.ud(k);
          c.out(manifold_warp(c.mem(tM), c.m(0), cbWarp, u));
          c.udDone(u, "manifold_warp");
        },
        [k](XW& x) {
          long n = 0;
          x.out(x.m(0).Warp([&n, k](vec3& v) {
            ++n;
            v = vec3(v.x + k * v.y, v.y * 1.5, v.z - 0.25 * v.x);
          }));
          x.calls(n);
        });
  // "NumProp must be at least normalIdx + 3" beyond the position: slot 0 needs >= 6 channels
  add(NAME(manifold_smooth_by_normals), "normalIdx=0 (if num_prop>=6)", {tM}, {tM},
      [](CW& c) {
        if (manifold_num_prop(c.m(0)) >= 6) c.out(manifold_smooth_by_normals(c.mem(tM), c.m(0), 0));
      },
      [](XW& x) {
        if (x.m(0).NumProp() >= 6) x.out(x.m(0).SmoothByNormals(0));
      });
  for (V2 v : {V2{50, 0.3}, V2{20, 0}}) R_MM(manifold_smooth_out, F("minSharpAngle=%g,minSmoothness=%g", v.x, v.y), SmoothOut(v.x, v.y), v.x, v.y);
  for (int n : {2, 3, 1}) R_MM(manifold_refine, F("refine=%d", n), Refine(n), n);
  for (double l : {0.75, 2.0}) R_MM(manifold_refine_to_length, F("length=%g", l), RefineToLength(l), l);
  for (double t : {0.05, 0.5}) R_MM(manifold_refine_to_tolerance, F("tolerance=%g", t), RefineToTolerance(t), t);
  for (double t : {0.01, 0.0}) R_MM(manifold_set_tolerance, F("tolerance=%g", t), SetTolerance(t), t);
  for (double t : {0.1, 0.0}) R_MM(manifold_simplify, F("tolerance=%g", t), Simplify(t), t);
}

#pragma GCC diagnostic push
#pragma GCC diagnostic ignored "-Wdeprecated-declarations"
static Manifold composeX(const std::vector<Manifold>& v) { return Manifold::Compose(v); }
#pragma GCC diagnostic pop

static size_t kHalfedges[] = {0, 4};
static double kSmoothness[] = {0.2, 0.7};
static std::vector<Smoothness> smoothX(size_t n) {
  std::vector<Smoothness> s;
  for (size_t i = 0; i < n; ++i) s.push_back({kHalfedges[i], kSmoothness[i]});
  return s;
}

static void rowsConstructorsInfo() {
  // ---- Manifold shapes / constructors
  add(NAME(manifold_empty), "", {}, {tM}, [](CW& c) { c.out(manifold_empty(c.mem(tM))); }, [](XW& x) { x.out(Manifold()); });
  add(NAME(manifold_copy), "", {tM}, {tM}, [](CW& c) { c.out(manifold_copy(c.mem(tM), c.m(0))); }, [](XW& x) { x.out(Manifold(x.m(0))); });
  add(NAME(manifold_tetrahedron), "", {}, {tM}, [](CW& c) { c.out(manifold_tetrahedron(c.mem(tM))); }, [](XW& x) { x.out(Manifold::Tetrahedron()); });
  struct Cu {
    double x, y, z;
    int center;
  };
  for (Cu a : {Cu{1, 2, 3, 0}, Cu{1, 2, 3, 1}, Cu{-1, 2, 3, 0}, Cu{0, 0, 0, 0}})
    add(NAME(manifold_cube), F("x=%g,y=%g,z=%g,center=%d", a.x, a.y, a.z, a.center), {}, {tM}, [a](CW& c) { c.out(manifold_cube(c.mem(tM), a.x, a.y, a.z, a.center)); },
        [a](XW& x) { x.out(Manifold::Cube({a.x, a.y, a.z}, a.center != 0)); });
  struct Cy {
    double h, rl, rh;
    int seg, center;
  };
  for (Cy a : {Cy{2, 1, 0.5, 5, 1}, Cy{2, 1, 0.5, 5, 0}, Cy{2, 1, -1, 0, 0}, Cy{1.5, 0, 1, 7, 1}, Cy{-1, 1, 1, 4, 0}})
    add(NAME(manifold_cylinder), F("height=%g,radius_low=%g,radius_high=%g,circular_segments=%d,center=%d", a.h, a.rl, a.rh, a.seg, a.center), {}, {tM},
        [a](CW& c) { c.out(manifold_cylinder(c.mem(tM), a.h, a.rl, a.rh, a.seg, a.center)); },
        [a](XW& x) { x.out(Manifold::Cylinder(a.h, a.rl, a.rh, a.seg, a.center != 0)); });
  struct Sp {
    double r;
    int seg;
  };
  for (Sp a : {Sp{1.1, 6}, Sp{0.5, 0}, Sp{-1, 8}})
    add(NAME(manifold_sphere), F("radius=%g,circular_segments=%d", a.r, a.seg), {}, {tM}, [a](CW& c) { c.out(manifold_sphere(c.mem(tM), a.r, a.seg)); },
        [a](XW& x) { x.out(Manifold::Sphere(a.r, a.seg)); });
  // import: only meshes whose run vectors are mutually consistent (the importer indexes runIndex by the length of runOriginalID)
  add(NAME(manifold_of_meshgl), "(if run vectors consistent)", {tMG}, {tM},
      [](CW& c) {
        if (runsOk(pullMesh(c, c.mg(0)))) c.out(manifold_of_meshgl(c.mem(tM), c.mg(0)));
      },
      [](XW& x) {
        if (runsOk(x.mg(0))) x.out(Manifold(x.mg(0)));
      });
  add(NAME(manifold_of_meshgl64), "(if run vectors consistent)", {tMG64}, {tM},
      [](CW& c) {
        if (runsOk(pullMesh(c, c.mg64(0)))) c.out(manifold_of_meshgl64(c.mem(tM), c.mg64(0)));
      },
      [](XW& x) {
        if (runsOk(x.mg64(0))) x.out(Manifold(x.mg64(0)));
      });
  add(NAME(manifold_execution_context_of_meshgl), "(if run vectors consistent)", {tEC, tMG}, {tM},
      [](CW& c) {
        if (runsOk(pullMesh(c, c.mg(1)))) c.out(manifold_execution_context_of_meshgl(c.mem(tM), c.ec(0), c.mg(1)));
      },
      [](XW& x) {
        if (runsOk(x.mg(1))) x.out(x.ec(0).FromMeshGL(x.mg(1)));
      });
  add(NAME(manifold_execution_context_of_meshgl64), "(if run vectors consistent)", {tEC, tMG64}, {tM},
      [](CW& c) {
        if (runsOk(pullMesh(c, c.mg64(1)))) c.out(manifold_execution_context_of_meshgl64(c.mem(tM), c.ec(0), c.mg64(1)));
      },
      [](XW& x) {
        if (runsOk(x.mg64(1))) x.out(x.ec(0).FromMeshGL(x.mg64(1)));
      });
  // Smooth: half-edge indices 0 and 4 must exist (>= 2 triangles), indices in range, run vectors consistent
  for (size_t n : {0, 2}) {
    std::string a = F("half_edges=[0,4],smoothness=[0.2,0.7],n_idxs=%zu (if mesh well-formed)", n);
    auto okC = [](CW& c, auto* g) {
      auto m = pullMesh(c, g);
      return runsOk(m) && indicesOk(m) && m.triVerts.size() >= 6;
    };
    auto okX = [](const auto& m) { return runsOk(m) && indicesOk(m) && m.triVerts.size() >= 6; };
    add(NAME(manifold_smooth), a, {tMG}, {tM},
        [n, okC](CW& c) {
          if (okC(c, c.mg(0))) c.out(manifold_smooth(c.mem(tM), c.mg(0), kHalfedges, kSmoothness, n));
        },
        [n, okX](XW& x) {
          if (okX(x.mg(0))) x.out(Manifold::Smooth(x.mg(0), smoothX(n)));
        });
    add(NAME(manifold_smooth64), a, {tMG64}, {tM},
        [n, okC](CW& c) {
          if (okC(c, c.mg64(0))) c.out(manifold_smooth64(c.mem(tM), c.mg64(0), kHalfedges, kSmoothness, n));
        },
        [n, okX](XW& x) {
          if (okX(x.mg64(0))) x.out(Manifold::Smooth(x.mg64(0), smoothX(n)));
        });
    add(NAME(manifold_execution_context_smooth), a, {tEC, tMG}, {tM},
        [n, okC](CW& c) {
          if (okC(c, c.mg(1))) c.out(manifold_execution_context_smooth(c.mem(tM), c.ec(0), c.mg(1), kHalfedges, kSmoothness, n));
        },
        [n, okX](XW& x) {
          if (okX(x.mg(1))) x.out(x.ec(0).Smooth(x.mg(1), smoothX(n)));
        });
    add(NAME(manifold_execution_context_smooth64), a, {tEC, tMG64}, {tM},
        [n, okC](CW& c) {
          if (okC(c, c.mg64(1))) c.out(manifold_execution_context_smooth64(c.mem(tM), c.ec(0), c.mg64(1), kHalfedges, kSmoothness, n));
        },
        [n, okX](XW& x) {
          if (okX(x.mg64(1))) x.out(x.ec(0).Smooth(x.mg64(1), smoothX(n)));
        });
  }
  struct Ex {
    double h;
    int slices;
    double twist, sx, sy;
  };
  for (Ex a : {Ex{2.5, 3, 40, 0.5, 0.25}, Ex{1, 0, 0, 1, 1}, Ex{1.5, 1, -30, 0, 0}})
    add(NAME(manifold_extrude), F("height=%g,slices=%d,twist_degrees=%g,scale_x=%g,scale_y=%g (if no empty contour)", a.h, a.slices, a.twist, a.sx, a.sy), {tPS}, {tM},
        [a](CW& c) {
          // Manifold::Extrude indexes into every contour: not with an empty contour inside the set (crashes in C++ too)
          for (size_t i = 0, n = manifold_polygons_length(c.ps(0)); i < n; ++i)
            if (manifold_polygons_simple_length(c.ps(0), i) == 0) return;
          c.out(manifold_extrude(c.mem(tM), c.ps(0), a.h, a.slices, a.twist, a.sx, a.sy));
        },
        [a](XW& x) {
          for (auto& sp : x.ps(0))
            if (sp.empty()) return;
          x.out(Manifold::Extrude(x.ps(0), a.h, a.slices, a.twist, {a.sx, a.sy}));
        });
  struct Rv {
    int seg;
    double deg;
  };
  for (Rv a : {Rv{5, 200}, Rv{0, 360}, Rv{8, 90}})
    add(NAME(manifold_revolve), F("circular_segments=%d,revolve_degrees=%g", a.seg, a.deg), {tPS}, {tM},
        [a](CW& c) { c.out(manifold_revolve(c.mem(tM), c.ps(0), a.seg, a.deg)); }, [a](XW& x) { x.out(Manifold::Revolve(x.ps(0), a.seg, a.deg)); });
  add(NAME(manifold_compose), "", {tMV}, {tM}, [](CW& c) { c.out(manifold_compose(c.mem(tM), c.mv(0))); }, [](XW& x) { x.out(composeX(x.mv(0))); });
  add(NAME(manifold_decompose), "", {tM}, {tMV}, [](CW& c) { c.out(manifold_decompose(c.mem(tMV), c.m(0))); }, [](XW& x) { x.out(x.m(0).Decompose()); });
  R_MM(manifold_as_original, "", AsOriginal());

  // ---- Manifold info
  R_S(manifold_is_empty, "", tM, m, o.IsEmpty());
  add(NAME(manifold_status), "", {tM}, {}, [](CW& c) { c.s("status", errIdxC(manifold_status(c.m(0)))); },
      [](XW& x) { x.s("status", errIdxX(x.m(0).Status())); });
  // with_context: the attachment is consumed by the next eager op (status); the context is re-observed afterwards (progress, cancelled)
  add(NAME(manifold_with_context), "then manifold_status", {tM, tEC}, {tM},
      [](CW& c) {
        int r = c.out(manifold_with_context(c.mem(tM), c.m(0), c.ec(1)));
        c.s("status", errIdxC(manifold_status((ManifoldManifold*)c.objs[r].p)));
      },
      [](XW& x) {
        Manifold r = x.m(0).WithContext(x.ec(1));
        x.s("status", errIdxX(r.Status()));
        x.out(r);
      });
  for (int n : {2, 3})
    add(NAME(manifold_with_context), F("then manifold_refine(%d)", n), {tM, tEC}, {tM, tM},
        [n](CW& c) {
          int r = c.out(manifold_with_context(c.mem(tM), c.m(0), c.ec(1)));
          c.out(manifold_refine(c.mem(tM), (ManifoldManifold*)c.objs[r].p, n));
        },
        [n](XW& x) {
          Manifold r = x.m(0).WithContext(x.ec(1));
          Manifold q = r.Refine(n);
          x.out(r);
          x.out(q);
        });
  R_S(manifold_num_vert, "", tM, m, o.NumVert());
  R_S(manifold_num_edge, "", tM, m, o.NumEdge());
  R_S(manifold_num_tri, "", tM, m, o.NumTri());
  R_S(manifold_num_prop, "", tM, m, o.NumProp());
  R_S(manifold_num_prop_vert, "", tM, m, o.NumPropVert());
  add(NAME(manifold_bounding_box), "", {tM}, {tBOX}, [](CW& c) { c.out(manifold_bounding_box(c.mem(tBOX), c.m(0))); },
      [](XW& x) { x.out(x.m(0).BoundingBox()); });
  R_S(manifold_epsilon, "", tM, m, o.GetEpsilon());
  R_S(manifold_get_tolerance, "", tM, m, o.GetTolerance());
  R_S(manifold_genus, "", tM, m, o.Genus());
  R_S(manifold_surface_area, "", tM, m, o.SurfaceArea());
  R_S(manifold_volume, "", tM, m, o.Volume());
  // IDs: the two worlds run the same sequence of ID-consuming calls, so IDs relative to a fresh reservation must agree
  add(NAME(manifold_original_id), "relative to manifold_reserve_ids(1)", {tM}, {},
      [](CW& c) {
        int id = manifold_original_id(c.m(0));
        int64_t base = manifold_reserve_ids(1);
        c.sc.i("id<0", id < 0);
        c.sc.i("base-id", id < 0 ? 0 : base - id);
      },
      [](XW& x) {
        int id = x.m(0).OriginalID();
        int64_t base = Manifold::ReserveIDs(1);
        x.sc.i("id<0", id < 0);
        x.sc.i("base-id", id < 0 ? 0 : base - id);
      });
  for (uint32_t n : {1u, 5u})
    add(NAME(manifold_reserve_ids), F("n=%u", n), {}, {},
        [n](CW& c) {
          uint32_t a = manifold_reserve_ids(n), b = manifold_reserve_ids(1);
          c.s("next-first", b - a);
        },
        [n](XW& x) {
          uint32_t a = Manifold::ReserveIDs(n), b = Manifold::ReserveIDs(1);
          x.s("next-first", b - a);
        });
  for (int np : {1, 4})
    add(NAME(manifold_set_properties), F("num_prop=%d,fun=k*x+2y+3z+i+0.5*old[i],ctx=heap(k=0.75)", np), {tM}, {tM},
        [np](CW& c) {
          UD* u = c.ud(0.75);
          u->numProp = np;
          u->oldExtra = (int)manifold_num_prop(c.m(0)) - 3;
          c.out(manifold_set_properties(c.mem(tM), c.m(0), np, cbProp, u));
          c.udDone(u, "manifold_set_properties");
        },
        [np](XW& x) {
          long n = 0;
          int oldExtra = (int)x.m(0).NumProp() - 3;
          x.out(x.m(0).SetProperties(np, [&n, np, oldExtra](double* newp, vec3 p, const double* oldp) {
            ++n;
            for (int i = 0; i < np; ++i) newp[i] = 0.75 * p.x + 2 * p.y + 3 * p.z + i + (i < oldExtra ? 0.5 * oldp[i] : 0.0);
          }));
          x.calls(n);
        });
  struct II {
    int a, b;
  };
  for (II a : {II{0, 1}, II{1, 0}, II{-1, 2}})
    R_MM(manifold_calculate_curvature, F("gaussian_idx=%d,mean_idx=%d", a.a, a.b), CalculateCurvature(a.a, a.b), a.a, a.b);
  for (double len : {0.5, 10.0})
    add(NAME(manifold_min_gap), F("searchLength=%g", len), {tM, tM}, {}, [len](CW& c) { c.s("ret", manifold_min_gap(c.m(0), c.m(1), len)); },
        [len](XW& x) { x.s("ret", x.m(0).MinGap(x.m(1), len)); });
  struct ID {
    int i;
    double d;
  };
  for (ID a : {ID{0, 50}, ID{3, 20}})
    R_MM(manifold_calculate_normals, F("normal_idx=%d,min_sharp_angle=%g", a.i, a.d), CalculateNormals(a.i, a.d), a.i, a.d);

  // ---- Ray casting / containment
  struct Ray {
    double a[6];
  };
  for (Ray r : {Ray{{-1, 0.5, 0.7, 3, 1.0, 1.5}}, Ray{{0.2, 0.3, -5, 0.25, 0.35, 5}}, Ray{{3, 1.0, 1.5, -1, 0.5, 0.7}}})
    add(NAME(manifold_ray_cast), F("origin=(%g,%g,%g),end=(%g,%g,%g)", r.a[0], r.a[1], r.a[2], r.a[3], r.a[4], r.a[5]), {tM}, {tRH},
        [r](CW& c) { c.out(manifold_ray_cast(c.mem(tRH), c.m(0), r.a[0], r.a[1], r.a[2], r.a[3], r.a[4], r.a[5])); },
        [r](XW& x) { x.out(x.m(0).RayCast({r.a[0], r.a[1], r.a[2]}, {r.a[3], r.a[4], r.a[5]})); });
  R_S(manifold_ray_hit_vec_length, "", tRH, rh, o.size());
  add(NAME(manifold_ray_hit_vec_get), "idx=all valid", {tRH}, {},
      [](CW& c) {
        for (size_t i = 0, n = manifold_ray_hit_vec_length(c.rh(0)); i < n; ++i) {
          ManifoldRayHit h = manifold_ray_hit_vec_get(c.rh(0), i);
          c.sc.i("face_id", (int64_t)h.face_id);
          c.s("distance", h.distance);
          c.s("position", h.position);
          c.s("normal", h.normal);
        }
      },
      [](XW& x) {
        for (auto& h : x.rh(0)) {
          x.sc.i("face_id", (int64_t)h.faceID);
          x.s("distance", h.distance);
          x.s("position", h.position);
          x.s("normal", h.normal);
        }
      });
  for (V3 p : {V3{0.5, 0.5, 0.5}, V3{3.2, 0.7, 0.5}, V3{0.4, 0.1, -0.6}, V3{10, 10, 10}})
    add(NAME(manifold_winding_number), F("x=%g,y=%g,z=%g", p.x, p.y, p.z), {tM}, {}, [p](CW& c) { c.s("ret", manifold_winding_number(c.m(0), p.x, p.y, p.z)); },
        [p](XW& x) {
          auto w = x.m(0).WindingNumber({{p.x, p.y, p.z}});
          x.s("ret", w.empty() ? 0 : w[0]);
        });

  // ---- ExecutionContext
  add(NAME(manifold_execution_context), "", {}, {tEC}, [](CW& c) { c.out(manifold_execution_context(c.mem(tEC))); }, [](XW& x) { x.out(ExecutionContext()); });
  add(NAME(manifold_execution_context_cancel), "", {tEC}, {}, [](CW& c) { manifold_execution_context_cancel(c.ec(0)); }, [](XW& x) { x.ec(0).Cancel(); });
  R_S(manifold_execution_context_cancelled, "", tEC, ec, o.Cancelled());
  R_S(manifold_execution_context_progress, "", tEC, ec, o.Progress());

  // ---- Static quality globals (each row restores the defaults)
  static const double radii[] = {0.05, 1.0, 7.5, 100.0};
  auto cget = [](CW& c) {
    for (double r : radii) c.s("segments", manifold_get_circular_segments(r));
    int m = c.tmp(manifold_sphere(c.memMode(tM, false), 1.3, 0));
    c.s("sphere tris", manifold_num_tri((ManifoldManifold*)c.objs[m].p));
    c.kill(m);
    manifold_reset_to_circular_defaults();
  };
  auto xget = [](XW& x) {
    for (double r : radii) x.s("segments", Quality::GetCircularSegments(r));
    x.s("sphere tris", Manifold::Sphere(1.3, 0).NumTri());
    Quality::ResetToDefaults();
  };
  for (double r : radii)
    add(NAME(manifold_get_circular_segments), F("radius=%g (default quality)", r), {}, {}, [r](CW& c) { c.s("ret", manifold_get_circular_segments(r)); },
        [r](XW& x) { x.s("ret", Quality::GetCircularSegments(r)); });
  for (double a : {30.0, 2.5})
    add(NAME(manifold_set_min_circular_angle), F("degrees=%g", a), {}, {},
        [a, cget](CW& c) {
          manifold_set_min_circular_angle(a);
          cget(c);
        },
        [a, xget](XW& x) {
          Quality::SetMinCircularAngle(a);
          xget(x);
        });
  for (double a : {0.25, 3.0})
    add(NAME(manifold_set_min_circular_edge_length), F("length=%g", a), {}, {},
        [a, cget](CW& c) {
          manifold_set_min_circular_edge_length(a);
          cget(c);
        },
        [a, xget](XW& x) {
          Quality::SetMinCircularEdgeLength(a);
          xget(x);
        });
  for (int a : {7, 32, 0})
    add(NAME(manifold_set_circular_segments), F("number=%d", a), {}, {},
        [a, cget](CW& c) {
          manifold_set_circular_segments(a);
          cget(c);
        },
        [a, xget](XW& x) {
          Quality::SetCircularSegments(a);
          xget(x);
        });
  add(NAME(manifold_reset_to_circular_defaults), "after angle=30,length=3,segments=7", {}, {},
      [cget](CW& c) {
        manifold_set_min_circular_angle(30);
        manifold_set_min_circular_edge_length(3);
        manifold_set_circular_segments(7);
        manifold_reset_to_circular_defaults();
        cget(c);
      },
      [xget](XW& x) {
        Quality::SetMinCircularAngle(30);
        Quality::SetMinCircularEdgeLength(3);
        Quality::SetCircularSegments(7);
        Quality::ResetToDefaults();
        xget(x);
      });
}

static void rowsCrossSection() {
  add(NAME(manifold_cross_section_empty), "", {}, {tCS}, [](CW& c) { c.out(manifold_cross_section_empty(c.mem(tCS))); }, [](XW& x) { x.out(CrossSection()); });
  add(NAME(manifold_cross_section_copy), "", {tCS}, {tCS}, [](CW& c) { c.out(manifold_cross_section_copy(c.mem(tCS), c.cs(0))); },
      [](XW& x) { x.out(CrossSection(x.cs(0))); });
  add(NAME(manifold_cross_section_of_simple_polygon), "", {tSP}, {tCS}, [](CW& c) { c.out(manifold_cross_section_of_simple_polygon(c.mem(tCS), c.sp(0))); },
      [](XW& x) { x.out(CrossSection(x.sp(0))); });
  add(NAME(manifold_cross_section_of_polygons), "", {tPS}, {tCS}, [](CW& c) { c.out(manifold_cross_section_of_polygons(c.mem(tCS), c.ps(0))); },
      [](XW& x) { x.out(CrossSection(x.ps(0))); });
  add(NAME(manifold_cross_section_even_odd_simple_polygon), "", {tSP}, {tCS},
      [](CW& c) { c.out(manifold_cross_section_even_odd_simple_polygon(c.mem(tCS), c.sp(0))); }, [](XW& x) { x.out(CrossSection::EvenOdd(x.sp(0))); });
  add(NAME(manifold_cross_section_even_odd_polygons), "", {tPS}, {tCS}, [](CW& c) { c.out(manifold_cross_section_even_odd_polygons(c.mem(tCS), c.ps(0))); },
      [](XW& x) { x.out(CrossSection::EvenOdd(x.ps(0))); });
  struct Sq {
    double x, y;
    int center;
  };
  for (Sq a : {Sq{1, 2, 0}, Sq{1, 2, 1}, Sq{-1, 1, 0}})
    add(NAME(manifold_cross_section_square), F("x=%g,y=%g,center=%d", a.x, a.y, a.center), {}, {tCS},
        [a](CW& c) { c.out(manifold_cross_section_square(c.mem(tCS), a.x, a.y, a.center)); }, [a](XW& x) { x.out(CrossSection::Square({a.x, a.y}, a.center != 0)); });
  struct Ci {
    double r;
    int seg;
  };
  for (Ci a : {Ci{1.5, 5}, Ci{0.5, 0}, Ci{-1, 4}})
    add(NAME(manifold_cross_section_circle), F("radius=%g,circular_segments=%d", a.r, a.seg), {}, {tCS},
        [a](CW& c) { c.out(manifold_cross_section_circle(c.mem(tCS), a.r, a.seg)); }, [a](XW& x) { x.out(CrossSection::Circle(a.r, a.seg)); });
  add(NAME(manifold_cross_section_decompose), "", {tCS}, {tCSV}, [](CW& c) { c.out(manifold_cross_section_decompose(c.mem(tCSV), c.cs(0))); },
      [](XW& x) { x.out(x.cs(0).Decompose()); });
  // vectors
  add(NAME(manifold_cross_section_empty_vec), "", {}, {tCSV}, [](CW& c) { c.out(manifold_cross_section_empty_vec(c.mem(tCSV))); },
      [](XW& x) { x.out(std::vector<CrossSection>()); });
  for (size_t sz : {0, 3})
    add(NAME(manifold_cross_section_vec), F("sz=%zu", sz), {}, {tCSV}, [sz](CW& c) { c.out(manifold_cross_section_vec(c.mem(tCSV), sz)); },
        [sz](XW& x) { x.out(std::vector<CrossSection>(sz)); });
  for (size_t sz : {0, 10})
    add(NAME(manifold_cross_section_vec_reserve), F("sz=%zu", sz), {tCSV}, {}, [sz](CW& c) { manifold_cross_section_vec_reserve(c.csv(0), sz); },
        [sz](XW& x) { x.csv(0).reserve(sz); });
  R_S(manifold_cross_section_vec_length, "", tCSV, csv, o.size());
  for (size_t idx : {0, 1, 2})
    add(NAME(manifold_cross_section_vec_get), F("idx=%zu (if valid)", idx), {tCSV}, {tCS},
        [idx](CW& c) {
          if (idx < manifold_cross_section_vec_length(c.csv(0))) c.out(manifold_cross_section_vec_get(c.mem(tCS), c.csv(0), idx));
        },
        [idx](XW& x) {
          if (idx < x.csv(0).size()) x.out(CrossSection(x.csv(0)[idx]));
        });
  for (size_t idx : {0, 2})
    add(NAME(manifold_cross_section_vec_set), F("idx=%zu (if valid)", idx), {tCSV, tCS}, {},
        [idx](CW& c) {
          if (idx < manifold_cross_section_vec_length(c.csv(0))) manifold_cross_section_vec_set(c.csv(0), idx, c.cs(1));
        },
        [idx](XW& x) {
          if (idx < x.csv(0).size()) x.csv(0)[idx] = x.cs(1);
        });
  add(NAME(manifold_cross_section_vec_push_back), "", {tCSV, tCS}, {}, [](CW& c) { manifold_cross_section_vec_push_back(c.csv(0), c.cs(1)); },
      [](XW& x) { x.csv(0).push_back(x.cs(1)); });
  // Booleans
  for (auto& op : kOp) {
    add(NAME(manifold_cross_section_boolean), F("op=MANIFOLD_%s", op.name), {tCS, tCS}, {tCS},
        [op](CW& c) { c.out(manifold_cross_section_boolean(c.mem(tCS), c.cs(0), c.cs(1), op.c)); }, [op](XW& x) { x.out(x.cs(0).Boolean(x.cs(1), op.x)); });
    add(NAME(manifold_cross_section_batch_boolean), F("op=MANIFOLD_%s", op.name), {tCSV}, {tCS},
        [op](CW& c) { c.out(manifold_cross_section_batch_boolean(c.mem(tCS), c.csv(0), op.c)); },
        [op](XW& x) { x.out(CrossSection::BatchBoolean(x.csv(0), op.x)); });
  }
  add(NAME(manifold_cross_section_union), "", {tCS, tCS}, {tCS}, [](CW& c) { c.out(manifold_cross_section_union(c.mem(tCS), c.cs(0), c.cs(1))); },
      [](XW& x) { x.out(x.cs(0) + x.cs(1)); });
  add(NAME(manifold_cross_section_difference), "", {tCS, tCS}, {tCS}, [](CW& c) { c.out(manifold_cross_section_difference(c.mem(tCS), c.cs(0), c.cs(1))); },
      [](XW& x) { x.out(x.cs(0) - x.cs(1)); });
  add(NAME(manifold_cross_section_intersection), "", {tCS, tCS}, {tCS},
      [](CW& c) { c.out(manifold_cross_section_intersection(c.mem(tCS), c.cs(0), c.cs(1))); }, [](XW& x) { x.out(x.cs(0) ^ x.cs(1)); });
  // hulls
  R_CC(manifold_cross_section_hull, "", Hull());
  add(NAME(manifold_cross_section_batch_hull), "", {tCSV}, {tCS}, [](CW& c) { c.out(manifold_cross_section_batch_hull(c.mem(tCS), c.csv(0))); },
      [](XW& x) { x.out(CrossSection::Hull(x.csv(0))); });
  add(NAME(manifold_cross_section_hull_simple_polygon), "", {tSP}, {tCS},
      [](CW& c) { c.out(manifold_cross_section_hull_simple_polygon(c.mem(tCS), c.sp(0))); }, [](XW& x) { x.out(CrossSection::Hull(x.sp(0))); });
  add(NAME(manifold_cross_section_hull_polygons), "", {tPS}, {tCS}, [](CW& c) { c.out(manifold_cross_section_hull_polygons(c.mem(tCS), c.ps(0))); },
      [](XW& x) { x.out(CrossSection::Hull(x.ps(0))); });
  // transformations
  for (V2 v : {V2{1, 2}, V2{-0.5, 0.25}}) R_CC(manifold_cross_section_translate, F("x=%g,y=%g", v.x, v.y), Translate(vec2(v.x, v.y)), v.x, v.y);
  for (double d : {30.0, 90.0, -45.0}) R_CC(manifold_cross_section_rotate, F("deg=%g", d), Rotate(d), d);
  for (V2 v : {V2{1, 2}, V2{2, -0.5}}) R_CC(manifold_cross_section_scale, F("x=%g,y=%g", v.x, v.y), Scale(vec2(v.x, v.y)), v.x, v.y);
  for (V2 v : {V2{1, 2}, V2{0, 1}}) R_CC(manifold_cross_section_mirror, F("ax_x=%g,ax_y=%g", v.x, v.y), Mirror(vec2(v.x, v.y)), v.x, v.y);
  R_CC(manifold_cross_section_transform, "cols=(1,0.1),(0.3,2),(5,6)", Transform(mat2x3(vec2(1, 0.1), vec2(0.3, 2), vec2(5, 6))), 1.0, 0.1, 0.3, 2.0, 5.0, 6.0);
  for (double k : {0.3, -1.0})
    add(NAME(manifold_cross_section_warp_context), F("fun=(x+%g*y,1.5*y-0.25*x),ctx=heap", k), {tCS}, {tCS},
        [k](CW& c) {
          UD* u = c.ud(k);
          c.out(manifold_cross_section_warp_context(c.mem(tCS), c.cs(0), cbWarp2, u));
          c.udDone(u, "manifold_cross_section_warp_context");
        },
        [k](XW& x) {
          long n = 0;
          x.out(x.cs(0).Warp([&n, k](vec2& v) {
            ++n;
            v = vec2(v.x + k * v.y, v.y * 1.5 - 0.25 * v.x);
          }));
          x.calls(n);
        });
  for (double t : {0.1, 0.0}) R_CC(manifold_cross_section_simplify, F("tolerance=%g", t), Simplify(t), t);
  for (double t : {0.01, 0.0}) R_CC(manifold_cross_section_set_tolerance, F("tolerance=%g", t), SetTolerance(t), t);
  struct Of {
    double delta, miter;
    int seg;
  };
  for (auto& jt : kJoin)
    for (Of a : {Of{0.3, 2.5, 7}, Of{-0.2, 4, 0}})
      R_CC(manifold_cross_section_offset, F("delta=%g,jt=MANIFOLD_JOIN_TYPE_%s,miter_limit=%g,circular_segments=%d", a.delta, jt.name, a.miter, a.seg),
           Offset(a.delta, jt.x, a.miter, a.seg), a.delta, jt.c, a.miter, a.seg);
  // info
  R_S(manifold_cross_section_area, "", tCS, cs, o.Area());
  R_S(manifold_cross_section_get_tolerance, "", tCS, cs, o.GetTolerance());
  R_S(manifold_cross_section_num_vert, "", tCS, cs, o.NumVert());
  R_S(manifold_cross_section_num_contour, "", tCS, cs, o.NumContour());
  R_S(manifold_cross_section_is_empty, "", tCS, cs, o.IsEmpty());
  add(NAME(manifold_cross_section_bounds), "", {tCS}, {tRECT}, [](CW& c) { c.out(manifold_cross_section_bounds(c.mem(tRECT), c.cs(0))); },
      [](XW& x) { x.out(x.cs(0).Bounds()); });
  add(NAME(manifold_cross_section_to_polygons), "", {tCS}, {tPS}, [](CW& c) { c.out(manifold_cross_section_to_polygons(c.mem(tPS), c.cs(0))); },
      [](XW& x) { x.out(x.cs(0).ToPolygons()); });
}

static void rowsRectBox() {
  // ---- Rect
  struct R4 {
    double a[4];
  };
  for (R4 r : {R4{{0, 1, 2, 3.5}}, R4{{2, 3.5, 0, 1}}, R4{{-1, 4, 3, -2}}})
    add(NAME(manifold_rect), F("x1=%g,y1=%g,x2=%g,y2=%g", r.a[0], r.a[1], r.a[2], r.a[3]), {}, {tRECT},
        [r](CW& c) { c.out(manifold_rect(c.mem(tRECT), r.a[0], r.a[1], r.a[2], r.a[3])); }, [r](XW& x) { x.out(Rect({r.a[0], r.a[1]}, {r.a[2], r.a[3]})); });
  R_S(manifold_rect_min, "", tRECT, rect, o.min);
  R_S(manifold_rect_max, "", tRECT, rect, o.max);
  R_S(manifold_rect_dimensions, "", tRECT, rect, o.Size());
  R_S(manifold_rect_center, "", tRECT, rect, o.Center());
  R_S(manifold_rect_scale, "", tRECT, rect, o.Scale());
  for (V2 p : {V2{0.5, 1.5}, V2{1.5, 0.5}, V2{11, 12}, V2{-0.5, -1}})
    R_S(manifold_rect_contains_pt, F("x=%g,y=%g", p.x, p.y), tRECT, rect, o.Contains(vec2(p.x, p.y)), p.x, p.y);
  add(NAME(manifold_rect_contains_rect), "", {tRECT, tRECT}, {}, [](CW& c) { c.s("ret", manifold_rect_contains_rect(c.rect(0), c.rect(1))); },
      [](XW& x) { x.s("ret", x.rect(0).Contains(x.rect(1))); });
  for (V2 p : {V2{2, 3}, V2{-1, 0.5}})
    add(NAME(manifold_rect_include_pt), F("x=%g,y=%g", p.x, p.y), {tRECT}, {}, [p](CW& c) { manifold_rect_include_pt(c.rect(0), p.x, p.y); },
        [p](XW& x) { x.rect(0).Union(vec2(p.x, p.y)); });
  add(NAME(manifold_rect_union), "", {tRECT, tRECT}, {tRECT}, [](CW& c) { c.out(manifold_rect_union(c.mem(tRECT), c.rect(0), c.rect(1))); },
      [](XW& x) { x.out(x.rect(0).Union(x.rect(1))); });
  add(NAME(manifold_rect_transform), "cols=(1,0.1),(0.3,2),(5,6)", {tRECT}, {tRECT},
      [](CW& c) { c.out(manifold_rect_transform(c.mem(tRECT), c.rect(0), 1, 0.1, 0.3, 2, 5, 6)); },
      [](XW& x) { x.out(x.rect(0).Transform(mat2x3(vec2(1, 0.1), vec2(0.3, 2), vec2(5, 6)))); });
  add(NAME(manifold_rect_transform), "cols=(0,-2),(1.5,0),(-1,3)", {tRECT}, {tRECT},
      [](CW& c) { c.out(manifold_rect_transform(c.mem(tRECT), c.rect(0), 0, -2, 1.5, 0, -1, 3)); },
      [](XW& x) { x.out(x.rect(0).Transform(mat2x3(vec2(0, -2), vec2(1.5, 0), vec2(-1, 3)))); });
  for (V2 p : {V2{1, 2}, V2{-0.5, 0.25}})
    add(NAME(manifold_rect_translate), F("x=%g,y=%g", p.x, p.y), {tRECT}, {tRECT}, [p](CW& c) { c.out(manifold_rect_translate(c.mem(tRECT), c.rect(0), p.x, p.y)); },
        [p](XW& x) { x.out(x.rect(0) + vec2(p.x, p.y)); });
  for (V2 p : {V2{2, 3}, V2{0.5, -1}})
    add(NAME(manifold_rect_mul), F("x=%g,y=%g", p.x, p.y), {tRECT}, {tRECT}, [p](CW& c) { c.out(manifold_rect_mul(c.mem(tRECT), c.rect(0), p.x, p.y)); },
        [p](XW& x) { x.out(x.rect(0) * vec2(p.x, p.y)); });
  add(NAME(manifold_rect_does_overlap_rect), "", {tRECT, tRECT}, {}, [](CW& c) { c.s("ret", manifold_rect_does_overlap_rect(c.rect(0), c.rect(1))); },
      [](XW& x) { x.s("ret", x.rect(0).DoesOverlap(x.rect(1))); });
  R_S(manifold_rect_is_empty, "", tRECT, rect, o.IsEmpty());
  R_S(manifold_rect_is_finite, "", tRECT, rect, o.IsFinite());

  // ---- Box
  struct B6 {
    double a[6];
  };
  for (B6 b : {B6{{0, 1, 2, 3.5, 4, 5.5}}, B6{{3.5, 4, 5.5, 0, 1, 2}}, B6{{-1, 4, 0, 3, -2, 0.5}}})
    add(NAME(manifold_box), F("x1=%g,y1=%g,z1=%g,x2=%g,y2=%g,z2=%g", b.a[0], b.a[1], b.a[2], b.a[3], b.a[4], b.a[5]), {}, {tBOX},
        [b](CW& c) { c.out(manifold_box(c.mem(tBOX), b.a[0], b.a[1], b.a[2], b.a[3], b.a[4], b.a[5])); },
        [b](XW& x) { x.out(Box({b.a[0], b.a[1], b.a[2]}, {b.a[3], b.a[4], b.a[5]})); });
  R_S(manifold_box_min, "", tBOX, box, o.min);
  R_S(manifold_box_max, "", tBOX, box, o.max);
  R_S(manifold_box_dimensions, "", tBOX, box, o.Size());
  R_S(manifold_box_center, "", tBOX, box, o.Center());
  R_S(manifold_box_scale, "", tBOX, box, o.Scale());
  for (V3 p : {V3{0.5, 1.5, 2.5}, V3{2.5, 1.5, 0.5}, V3{11, 12, 13}, V3{-0.5, -1, 0}}) {
    R_S(manifold_box_contains_pt, F("x=%g,y=%g,z=%g", p.x, p.y, p.z), tBOX, box, o.Contains(vec3(p.x, p.y, p.z)), p.x, p.y, p.z);
    R_S(manifold_box_does_overlap_pt, F("x=%g,y=%g,z=%g", p.x, p.y, p.z), tBOX, box, o.DoesOverlap(vec3(p.x, p.y, p.z)), p.x, p.y, p.z);
  }
  add(NAME(manifold_box_contains_box), "", {tBOX, tBOX}, {}, [](CW& c) { c.s("ret", manifold_box_contains_box(c.box(0), c.box(1))); },
      [](XW& x) { x.s("ret", x.box(0).Contains(x.box(1))); });
  for (V3 p : {V3{2, 3, 4}, V3{-1, 0.5, 1}})
    add(NAME(manifold_box_include_pt), F("x=%g,y=%g,z=%g", p.x, p.y, p.z), {tBOX}, {}, [p](CW& c) { manifold_box_include_pt(c.box(0), p.x, p.y, p.z); },
        [p](XW& x) { x.box(0).Union(vec3(p.x, p.y, p.z)); });
  add(NAME(manifold_box_union), "", {tBOX, tBOX}, {tBOX}, [](CW& c) { c.out(manifold_box_union(c.mem(tBOX), c.box(0), c.box(1))); },
      [](XW& x) { x.out(x.box(0).Union(x.box(1))); });
  add(NAME(manifold_box_transform), "cols=(1,0.1,0.2),(0.3,2,0.4),(0.5,0.6,3),(7,8,9)", {tBOX}, {tBOX},
      [](CW& c) { c.out(manifold_box_transform(c.mem(tBOX), c.box(0), 1, 0.1, 0.2, 0.3, 2, 0.4, 0.5, 0.6, 3, 7, 8, 9)); },
      [](XW& x) { x.out(x.box(0).Transform(mat3x4(vec3(1, 0.1, 0.2), vec3(0.3, 2, 0.4), vec3(0.5, 0.6, 3), vec3(7, 8, 9)))); });
  add(NAME(manifold_box_transform), "cols=(0,-2,0),(1.5,0,0),(0,0,-1),(-1,3,2)", {tBOX}, {tBOX},
      [](CW& c) { c.out(manifold_box_transform(c.mem(tBOX), c.box(0), 0, -2, 0, 1.5, 0, 0, 0, 0, -1, -1, 3, 2)); },
      [](XW& x) { x.out(x.box(0).Transform(mat3x4(vec3(0, -2, 0), vec3(1.5, 0, 0), vec3(0, 0, -1), vec3(-1, 3, 2)))); });
  for (V3 p : {V3{1, 2, 3}, V3{-0.5, 0, 0.25}})
    add(NAME(manifold_box_translate), F("x=%g,y=%g,z=%g", p.x, p.y, p.z), {tBOX}, {tBOX},
        [p](CW& c) { c.out(manifold_box_translate(c.mem(tBOX), c.box(0), p.x, p.y, p.z)); }, [p](XW& x) { x.out(x.box(0) + vec3(p.x, p.y, p.z)); });
  for (V3 p : {V3{2, 3, 4}, V3{0.5, -1, 1.5}})
    add(NAME(manifold_box_mul), F("x=%g,y=%g,z=%g", p.x, p.y, p.z), {tBOX}, {tBOX}, [p](CW& c) { c.out(manifold_box_mul(c.mem(tBOX), c.box(0), p.x, p.y, p.z)); },
        [p](XW& x) { x.out(x.box(0) * vec3(p.x, p.y, p.z)); });
  add(NAME(manifold_box_does_overlap_box), "", {tBOX, tBOX}, {}, [](CW& c) { c.s("ret", manifold_box_does_overlap_box(c.box(0), c.box(1))); },
      [](XW& x) { x.s("ret", x.box(0).DoesOverlap(x.box(1))); });
  R_S(manifold_box_is_finite, "", tBOX, box, o.IsFinite());
}

// ---- mesh extraction: one macro instance per mesh flavour
#define R_LEN(PFX, T_, ACC, FNAME, XEXPR) R_S(manifold_##PFX##_##FNAME, "", T_, ACC, XEXPR)
#define R_ARR(PFX, T_, ACC, FNAME, LENF, FIELD, ELT)                                                                          \
  add(NAME(manifold_##PFX##_##FNAME), "mem=exactly length elements (if length>0)", {T_}, {},                                  \
      [](CW& c) {                                                                                                             \
        auto g = c.ACC(0);                                                                                                    \
        auto v = pullArr<ELT>(c, manifold_##PFX##_##LENF(g), "manifold_" #PFX "_" #FNAME,                                     \
                              [&](void* b) { return manifold_##PFX##_##FNAME(b, g); });                                       \
        c.sc.i("n", v.size());                                                                                                \
        c.sc.h(#FIELD, hashVec(v, 1));                                                                                        \
      },                                                                                                                      \
      [](XW& x) {                                                                                                             \
        auto& v = x.ACC(0).FIELD;                                                                                             \
        x.sc.i("n", v.size());                                                                                                \
        x.sc.h(#FIELD, hashVec(v, 1));                                                                                        \
      })
#define R_MESH_ROWS(PFX, T_, ACC, P, I)                                                                                       \
  R_LEN(PFX, T_, ACC, num_prop, o.numProp);                                                                                   \
  R_LEN(PFX, T_, ACC, num_vert, o.NumVert());                                                                                 \
  R_LEN(PFX, T_, ACC, num_tri, o.NumTri());                                                                                   \
  R_LEN(PFX, T_, ACC, vert_properties_length, o.vertProperties.size());                                                       \
  R_LEN(PFX, T_, ACC, tri_length, o.triVerts.size());                                                                         \
  R_LEN(PFX, T_, ACC, merge_length, o.mergeFromVert.size());                                                                  \
  R_LEN(PFX, T_, ACC, run_index_length, o.runIndex.size());                                                                   \
  R_LEN(PFX, T_, ACC, run_original_id_length, o.runOriginalID.size());                                                        \
  R_LEN(PFX, T_, ACC, run_transform_length, o.runTransform.size());                                                           \
  R_LEN(PFX, T_, ACC, face_id_length, o.faceID.size());                                                                       \
  R_LEN(PFX, T_, ACC, tangent_length, o.halfedgeTangent.size());                                                              \
  R_LEN(PFX, T_, ACC, run_flags_length, o.runFlags.size());                                                                   \
  R_LEN(PFX, T_, ACC, num_run, o.NumRun());                                                                                   \
  R_LEN(PFX, T_, ACC, tolerance, o.tolerance);                                                                                \
  R_ARR(PFX, T_, ACC, vert_properties, vert_properties_length, vertProperties, P);                                            \
  R_ARR(PFX, T_, ACC, tri_verts, tri_length, triVerts, I);                                                                    \
  R_ARR(PFX, T_, ACC, merge_from_vert, merge_length, mergeFromVert, I);                                                       \
  R_ARR(PFX, T_, ACC, merge_to_vert, merge_length, mergeToVert, I);                                                           \
  R_ARR(PFX, T_, ACC, run_index, run_index_length, runIndex, I);                                                              \
  R_ARR(PFX, T_, ACC, run_transform, run_transform_length, runTransform, P);                                                  \
  R_ARR(PFX, T_, ACC, face_id, face_id_length, faceID, I);                                                                    \
  R_ARR(PFX, T_, ACC, halfedge_tangent, tangent_length, halfedgeTangent, P);                                                  \
  R_ARR(PFX, T_, ACC, run_flags, run_flags_length, runFlags, uint8_t);                                                        \
  add(NAME(manifold_##PFX##_run_original_id), "mem=exactly length elements (if length>0); IDs ranked", {T_}, {},              \
      [](CW& c) {                                                                                                             \
        auto g = c.ACC(0);                                                                                                    \
        auto v = pullArr<uint32_t>(c, manifold_##PFX##_run_original_id_length(g), "manifold_" #PFX "_run_original_id",        \
                                   [&](void* b) { return manifold_##PFX##_run_original_id(b, g); });                          \
        c.sc.i("n", v.size());                                                                                                \
        c.sc.h("runOriginalID(ranked)", hashVec(rankIDs(v), 1));                                                              \
      },                                                                                                                      \
      [](XW& x) {                                                                                                             \
        auto& v = x.ACC(0).runOriginalID;                                                                                     \
        x.sc.i("n", v.size());                                                                                                \
        x.sc.h("runOriginalID(ranked)", hashVec(rankIDs(v), 1));                                                              \
      });                                                                                                                     \
  add(NAME(manifold_##PFX##_backside), "run=0..num_run (one past the end included)", {T_}, {},                                \
      [](CW& c) {                                                                                                             \
        for (size_t r = 0, n = manifold_##PFX##_num_run(c.ACC(0)); r <= n; ++r) c.s("ret", manifold_##PFX##_backside(c.ACC(0), r)); \
      },                                                                                                                      \
      [](XW& x) {                                                                                                             \
        for (size_t r = 0, n = x.ACC(0).NumRun(); r <= n; ++r) x.s("ret", x.ACC(0).Backside(r));                              \
      });                                                                                                                     \
  add(NAME(manifold_##PFX##_has_normals), "run=0..num_run (one past the end included)", {T_}, {},                             \
      [](CW& c) {                                                                                                             \
        for (size_t r = 0, n = manifold_##PFX##_num_run(c.ACC(0)); r <= n; ++r) c.s("ret", manifold_##PFX##_has_normals(c.ACC(0), r)); \
      },                                                                                                                      \
      [](XW& x) {                                                                                                             \
        for (size_t r = 0, n = x.ACC(0).NumRun(); r <= n; ++r) x.s("ret", x.ACC(0).HasNormals(r));                            \
      })

static void rowsMeshExtractionEtc() {
  R_MESH_ROWS(meshgl, tMG, mg, float, uint32_t);
  R_MESH_ROWS(meshgl64, tMG64, mg64, double, uint64_t);

  // ---- Triangulation
  // epsilon-valid inputs only: Triangulate's behaviour on overlapping / clockwise-only input is C10's business
  auto validPS = [](const std::vector<int>& p) {
    const char* n = g_pool[tPS][p[0]].name;
    return !strcmp(n, "sqHole") || !strcmp(n, "L1") || !strcmp(n, "nonePS");
  };
  for (double e : {-1.0, 0.001})
    add(NAME(manifold_triangulate), F("epsilon=%g", e), {tPS}, {tTRI}, [e](CW& c) { c.out(manifold_triangulate(c.mem(tTRI), c.ps(0), e)); },
        [e](XW& x) { x.out(Triangulate(x.ps(0), e)); })
        .filter = validPS;
  R_S(manifold_triangulation_num_tri, "", tTRI, tri, o.size());
  add(NAME(manifold_triangulation_tri_verts), "mem=exactly 3*num_tri ints (if num_tri>0)", {tTRI}, {},
      [](CW& c) {
        auto t = c.tri(0);
        auto v = pullArr<int>(c, 3 * manifold_triangulation_num_tri(t), "manifold_triangulation_tri_verts",
                              [&](void* b) { return manifold_triangulation_tri_verts(b, t); });
        for (int k : v) c.s("v", k);
      },
      [](XW& x) {
        for (auto& t : x.tri(0)) x.s("v", t.x), x.s("v", t.y), x.s("v", t.z);
      });

  // ---- OBJ I/O
  add(NAME(manifold_read_obj), "obj_file=tetrahedron text", {}, {tM},
      [](CW& c) {
        char* t = (char*)c.buf(strlen(kObjText) + 1);
        strcpy(t, kObjText);
        c.out(manifold_read_obj(c.mem(tM), t));
      },
      [](XW& x) {
        std::istringstream iss(kObjText);
        x.out(Manifold::ReadOBJ(iss));
      });
  add(NAME(manifold_meshgl64_read_obj), "obj_file=tetrahedron text", {}, {tMG64},
      [](CW& c) {
        char* t = (char*)c.buf(strlen(kObjText) + 1);
        strcpy(t, kObjText);
        c.out(manifold_meshgl64_read_obj(c.mem(tMG64), t));
      },
      [](XW& x) {
        std::istringstream iss(kObjText);
        x.out(ReadOBJ(iss));
      });
  add(NAME(manifold_write_obj), "callback=hash text,args=heap", {tM}, {},
      [](CW& c) {
        UD* u = c.ud(0);
        manifold_write_obj(c.m(0), cbObj, u);
        uint64_t h;
        memcpy(&h, &u->k, 8);
        c.sc.h("text", h);
        c.sc.i("text length", u->numProp);
        c.udDone(u, "manifold_write_obj");
      },
      [](XW& x) {
        std::stringstream ss;
        x.m(0).WriteOBJ(ss);
        std::string s = ss.str();
        s = std::string(s.c_str());  // the callback sees a NUL-terminated string
        x.sc.h("text", hash_bytes(s.data(), s.size()));
        x.sc.i("text length", (int)s.size());
        x.calls(1);
      });
  add(NAME(manifold_meshgl64_write_obj), "callback=hash text,args=heap (if all indices in range)", {tMG64}, {},
      [](CW& c) {
        if (!indicesOk(pullMesh(c, c.mg64(0)))) return;
        UD* u = c.ud(0);
        manifold_meshgl64_write_obj(c.mg64(0), cbObj, u);
        uint64_t h;
        memcpy(&h, &u->k, 8);
        c.sc.h("text", h);
        c.sc.i("text length", u->numProp);
        c.udDone(u, "manifold_meshgl64_write_obj");
      },
      [](XW& x) {
        if (!indicesOk(x.mg64(0))) return;
        std::stringstream ss;
        WriteOBJ(ss, x.mg64(0));
        std::string s = ss.str();
        s = std::string(s.c_str());
        x.sc.h("text", hash_bytes(s.data(), s.size()));
        x.sc.i("text length", (int)s.size());
        x.calls(1);
      });
}

// functions that are not rows of the table: driven by the phases "sizes" and "lifecycle" for every object type
static std::map<std::string, std::string> g_driven;      // function -> how
static std::map<std::string, std::string> g_notDriven;   // function -> reason (explicit list; empty today)
static void buildAll() {
  initData();
  buildPools();
  rowsPolygonsAndMeshes();
  rowsVectorsBooleansTransforms();
  rowsConstructorsInfo();
  rowsCrossSection();
  rowsRectBox();
  rowsMeshExtractionEtc();
  for (auto& r : g_rows) g_driven[r.fn] = "row";
  for (int t = 0; t < NTY; ++t) {
    g_driven[kTy[t].fSize] = "sizes+every case";
    g_driven[kTy[t].fAlloc] = "lifecycle+every case";
    g_driven[kTy[t].fDestruct] = "lifecycle+every case";
    g_driven[kTy[t].fDelete] = "lifecycle+every case";
  }
  g_driven[NAME(manifold_manifold_pair_size)] = "sizes";
}

// ------------------------------------------------------------------ executing programs
struct Prog {
  const Row* P = nullptr;
  std::vector<int> pin;  // pool indices of P's inputs
  const Row* Q = nullptr;  // optional second call
  int oSlot = 0, jSlot = 0;
  std::vector<int> qin;  // pool indices of Q's inputs (entry jSlot unused)
  std::string key() const {
    std::string s = std::string(P->fn) + "(" + P->args + ")[";
    for (size_t i = 0; i < pin.size(); ++i) s += std::string(i ? "," : "") + kTyShort[P->in[i]] + "=" + g_pool[P->in[i]][pin[i]].name;
    s += "]";
    if (Q) {
      s += " => " + std::string(Q->fn) + "(" + Q->args + ")[";
      for (size_t i = 0; i < qin.size(); ++i) {
        s += std::string(i ? "," : "") + kTyShort[Q->in[i]] + "=";
        if ((int)i == jSlot)
          s += F("result#%d", oSlot);
        else
          s += g_pool[Q->in[i]][qin[i]].name;
      }
      s += "]";
    }
    return s;
  }
};
struct Res {
  Obs scal, outs, ins;
  std::vector<std::string> fails;
  bool noLink = false;
  long cbCalls = 0, objects = 0;
};
struct RunOpts {
  uint32_t topMask = 0;
  uint64_t perm = 0;
  bool early = false;  // destroy every input before the results are first observed
};

static void runC(const Prog& g, const RunOpts& o, Res& r) {
  CW c;
  c.topMask = o.topMask;
  for (size_t i = 0; i < g.pin.size(); ++i) c.in.push_back(g_pool[g.P->in[i]][g.pin[i]].c(c));
  c.rowState = true;
  g.P->c(c);
  c.rowState = false;
  const Row* last = g.P;
  if (g.Q) {
    if ((int)c.outs.size() <= g.oSlot)
      r.noLink = true;
    else {
      int link = c.outs[g.oSlot];
      std::vector<int> in2;
      for (size_t i = 0; i < g.qin.size(); ++i) in2.push_back((int)i == g.jSlot ? link : g_pool[g.Q->in[i]][g.qin[i]].c(c));
      c.in = in2;
      c.outs.clear();
      c.rowState = true;
      g.Q->c(c);
      c.rowState = false;
      last = g.Q;
    }
  }
  (void)last;
  std::vector<int> tops;
  for (int i = 0; i < (int)c.objs.size(); ++i)
    if (c.objs[i].live && !c.objs[i].top) c.kill(i);
  for (int i = 0; i < (int)c.objs.size(); ++i)
    if (c.objs[i].live) tops.push_back(i);
  r.objects = (long)c.objs.size();
  auto isOut = [&](int id) { return std::find(c.outs.begin(), c.outs.end(), id) != c.outs.end(); };
  if (!r.noLink) {
    for (size_t i = 0; i < c.in.size(); ++i)
      if (c.objs[c.in[i]].live) obsC(c, c.objs[c.in[i]].t, c.objs[c.in[i]].p, r.ins);
    if (o.early) {
      std::vector<int> first;
      for (int id : tops)
        if (!isOut(id)) first.push_back(id);
      c.killInOrder(first, o.perm);
    }
    for (int id : c.outs)
      if (id >= 0 && c.objs[id].live) obsC(c, c.objs[id].t, c.objs[id].p, r.outs);
  }
  std::vector<int> rest;
  for (int id : tops)
    if (c.objs[id].live) rest.push_back(id);
  c.killInOrder(rest, o.perm);
  r.scal = c.sc;
  r.fails = c.fails;
  r.cbCalls = c.cbCalls;
  if (!c.pending.empty()) r.fails.push_back(F("%zu storage blocks were handed to a constructor that never constructed into them", c.pending.size()));
}

// The C++ mirror keeps every object alive exactly as long as the C world does: the library flattens nested lazy Booleans only
// when nobody else holds the operand (use_count), so the triangle ORDER of a result depends on which handles are still alive
// when it is first evaluated.
static void runX(const Prog& g, const RunOpts& o, Res& r) {
  XW x;
  std::vector<XO> hold;  // objects of the first call that are not inputs of the second
  for (size_t i = 0; i < g.pin.size(); ++i) x.in.push_back(g_pool[g.P->in[i]][g.pin[i]].x());
  g.P->x(x);
  if (g.Q) {
    if ((int)x.outs.size() <= g.oSlot)
      r.noLink = true;
    else {
      std::vector<XO> in2;
      for (size_t i = 0; i < g.qin.size(); ++i) in2.push_back((int)i == g.jSlot ? x.outs[g.oSlot] : g_pool[g.Q->in[i]][g.qin[i]].x());
      for (auto& i : x.in) hold.push_back(std::move(i));
      for (auto& i : x.outs) hold.push_back(std::move(i));
      x.in = std::move(in2);
      x.outs.clear();
      g.Q->x(x);
    }
  }
  if (!r.noLink) {
    for (auto& i : x.in) obsX(i, r.ins);
    if (o.early) {  // destroy every object that is not a result before the results are first observed
      hold.clear();
      x.in.clear();
    }
    for (auto& out : x.outs) obsX(out, r.outs);
  }
  r.scal = x.sc;
}

static bool nontrivialObs(const Res& r) {
  if (!r.scal.v.empty()) return true;
  for (auto& e : r.outs.v) {
    if (e.kind == 'd') return true;
    if (e.kind == 'i' && e.bits != 0 && strcmp(e.label, "status") && strcmp(e.label, "numProp") && strcmp(e.label, "cancelled")) return true;
  }
  return false;
}

// run the program in both worlds (C++ first: a crash there is the library's, not the binding's) and compare
static void judge(Ctx& c, const Prog& g, const RunOpts& o, bool leakPass) {
  std::string key = g.key();
  struct Timer {
    double t0 = now_s();
    Ctx& c;
    const std::string& k;
    ~Timer() {
      static const char* e = getenv("C20_SLOW_MS");
      if (e && (now_s() - t0) * 1000 > atof(e)) c.emit(F("%8.1f ms  ", (now_s() - t0) * 1000) + k);
    }
  } timer{now_s(), c, key};
  Res rx, rc;
  c.describe(key + " [in the C++ mirror]");
  runX(g, o, rx);
  c.describe(key + " [in the C calls]");
  runC(g, o, rc);
  c.count("programs");
  c.count("objects_constructed_and_destroyed", rc.objects);
  c.count("callback_calls", rc.cbCalls);
  c.count("values_compared", (int64_t)(rc.scal.v.size() + rc.outs.v.size() + rc.ins.v.size()));
  std::string mode = F(" {modes=%x,order=%llu%s}", o.topMask, (unsigned long long)o.perm, o.early ? ",inputs destroyed first" : "");
  for (auto& f : rc.fails) c.viol(key + ":storage", key + mode, f);
  if (rc.noLink != rx.noLink) {
    c.viol(key + ":result", key + mode, "the first call yields a result object in one world only");
    return;
  }
  if (rc.noLink) {
    c.count("no_link");
    return;
  }
  std::string d;
  if (!(d = diffObs(rc.scal, rx.scal)).empty()) c.viol(key + ":value", key + mode, "returned values differ: " + d);
  if (!(d = diffObs(rc.outs, rx.outs)).empty()) c.viol(key + ":result", key + mode, "result objects differ: " + d);
  if (!(d = diffObs(rc.ins, rx.ins)).empty()) c.viol(key + ":inputs", key + mode, "input objects differ after the call: " + d);
  uint64_t h = hash_str(std::string(g.Q ? g.Q->fn : g.P->fn)) ^ rc.outs.hash() ^ (rc.scal.hash() * 3) ^ (rc.ins.hash() * 7);
  // which error codes were reached through the API (black box), by name
  static const char* kStatusCounter[] = {"status_NoError", "status_NonFiniteVertex", "status_NotManifold", "status_VertexOutOfBounds", "status_PropertiesWrongLength",
                                         "status_MissingPositionProperties", "status_MergeVectorsDifferentLengths", "status_MergeIndexOutOfBounds",
                                         "status_TransformWrongLength", "status_RunIndexWrongLength", "status_FaceIDWrongLength", "status_InvalidConstruction",
                                         "status_ResultTooLarge", "status_InvalidTangents", "status_Cancelled"};
  for (const Obs* ob : {&rc.outs, &rc.scal})
    for (auto& e : ob->v)
      if (!strcmp(e.label, "status") && e.bits < (uint64_t)kNErr) c.count(kStatusCounter[e.bits]);
  if (c.distinct(h)) c.count("states");
  c.count("transitions", g.Q ? 2 : 1);
  c.count("impl_traces");
  if (nontrivialObs(rc)) c.nontrivial(h);
  if (leakPass) {
    // second, discarded execution of the C side only: everything it allocates must be gone afterwards
    c.describe(key + mode + " [leak pass]");
    size_t before = liveBytes();
    {
      Res tmp;
      runC(g, o, tmp);
    }
    size_t after = liveBytes();
    if (after != before) {
      // once more (a lazily initialised static would show up exactly once)
      before = liveBytes();
      {
        Res tmp;
        runC(g, o, tmp);
      }
      after = liveBytes();
    }
    c.count("leak_checks");
    if (after != before)
      c.viol(key + ":leak", key + mode, F("%s changed by %lld bytes over a complete create/use/destroy cycle", kLeakCounter, (long long)after - (long long)before));
  }
}

// ------------------------------------------------------------------ index spaces
static uint64_t combos(const Row& r) {
  uint64_t n = 1;
  for (Ty t : r.in) n *= g_pool[t].size();
  return n;
}
static std::vector<int> decode(const Row& r, uint64_t k) {
  std::vector<int> d(r.in.size());
  for (int i = (int)r.in.size() - 1; i >= 0; --i) {
    d[i] = (int)(k % g_pool[r.in[i]].size());
    k /= g_pool[r.in[i]].size();
  }
  return d;
}
static uint64_t fact(int k) {
  uint64_t f = 1;
  for (int i = 2; i <= k; ++i) f *= i;
  return f;
}

int main(int argc, char** argv) {
  Runner R("C20", argc, argv);
  buildAll();
  const bool thorough = R.a.thorough();
  std::vector<std::string> exported = exportedFunctions();

  // ---- phase coverage: every exported function is a row / a life-cycle function, or is listed as not driven
  {
    // static count of depth-1 cases per function (a row whose every input combination is filtered drives nothing)
    std::map<std::string, uint64_t> d1cases;
    for (auto& r : g_rows) {
      uint64_t n = combos(r), ok = 0;
      for (uint64_t k = 0; k < n; ++k)
        if (!r.filter || r.filter(decode(r, k))) ++ok;
      d1cases[r.fn] += ok;
    }
    size_t nDriven = 0, nNot = 0;
    std::string notNames;
    for (auto& f : exported) {
      bool drv = g_driven.count(f) && (g_driven[f] != "row" || d1cases[f] > 0);
      if (drv)
        ++nDriven;
      else if (g_notDriven.count(f)) {
        ++nNot;
        notNames += (notNames.empty() ? "" : ", ") + f + " (" + g_notDriven[f] + ")";
      }
    }
    std::string summary = F("manifoldc.h exports %zu functions; %zu driven (%zu table rows over %zu functions + %d size/alloc/destruct/delete functions); %zu listed as not driven: %s",
                            exported.size(), nDriven, g_rows.size(), d1cases.size(), 4 * NTY + 1, nNot, notNames.empty() ? "none" : notNames.c_str());
    R.phase("coverage", exported.size(), 64,
            [&](uint64_t idx, Ctx& c) {
              const std::string& f = exported[idx];
              c.describe("coverage:" + f);
              if (idx == 0) c.sample(summary);
              c.count("exported");
              bool drv = g_driven.count(f) && (g_driven[f] != "row" || d1cases[f] > 0);
              if (drv) {
                c.count("driven");
                c.distinct(hash_str(f));
              } else if (g_notDriven.count(f)) {
                c.count("not_driven");
                c.sample("not driven: " + f + " - " + g_notDriven[f]);
              } else
                c.viol("coverage:" + f, "coverage:" + f, "manifoldc.h exports " + f + ", which the C20 table neither drives nor lists as not driven");
            },
            {"exported", "driven", "not_driven"});
  }

  // ---- phase sizes: manifold_X_size() == sizeof(the C++ type the binding stores); alloc_X storage is usable and deletable
  R.phase("sizes", NTY + 1, 1,
          [&](uint64_t idx, Ctx& c) {
            c.count("types");
            if (idx == NTY) {
              c.describe("sizes:manifold_manifold_pair_size");
              if (manifold_manifold_pair_size() != sizeof(ManifoldManifoldPair))
                c.viol("sizes:manifold_pair", "manifold_manifold_pair_size", F("%zu != sizeof(ManifoldManifoldPair) = %zu", manifold_manifold_pair_size(), sizeof(ManifoldManifoldPair)));
              return;
            }
            const TyInfo& t = kTy[idx];
            c.describe(std::string("sizes:") + t.fSize);
            c.distinct(t.size() * 131 + idx);
            if (t.size() != t.cppSize)
              c.viol(std::string("sizes:") + t.name, t.fSize, F("%s() = %zu but sizeof(%s) = %zu", t.fSize, t.size(), t.cppName, t.cppSize));
            c.sample(F("%s() = %zu = sizeof(%s)", t.fSize, t.size(), t.cppName));
          },
          {"types"});

  // ---- phase enums: the switch tables of conv.cpp against the by-name tables of this file (white box)
  R.phase("enums", kNErr + 3 + 4, 1,
          [&](uint64_t idx, Ctx& c) {
            c.count("enumerators");
            c.distinct(idx + 1);
            if (idx < (uint64_t)kNErr) {
              c.describe(std::string("enums:Error::") + kErr[idx].name);
              ManifoldError e = to_c(kErr[idx].x);
              if (e != kErr[idx].c) c.viol(std::string("enums:Error::") + kErr[idx].name, "to_c(Manifold::Error)", F("maps to C value %d, the enumerator of that name is %d", (int)e, (int)kErr[idx].c));
            } else if (idx < (uint64_t)kNErr + 3) {
              auto& o = kOp[idx - kNErr];
              c.describe(std::string("enums:MANIFOLD_") + o.name);
              if (from_c(o.c) != o.x) c.viol(std::string("enums:MANIFOLD_") + o.name, "from_c(ManifoldOpType)", "maps to a different OpType");
            } else {
              auto& o = kJoin[idx - kNErr - 3];
              c.describe(std::string("enums:MANIFOLD_JOIN_TYPE_") + o.name);
              if (from_c(o.c) != o.x) c.viol(std::string("enums:MANIFOLD_JOIN_TYPE_") + o.name, "from_c(ManifoldJoinType)", "maps to a different JoinType");
            }
          },
          {"enumerators"});

  const std::vector<const char*> CN = {"programs", "filtered", "no_link", "objects_constructed_and_destroyed", "callback_calls", "values_compared", "leak_checks", "states", "transitions", "impl_traces",
                                       "status_NoError", "status_NonFiniteVertex", "status_NotManifold", "status_VertexOutOfBounds", "status_PropertiesWrongLength",
                                       "status_MissingPositionProperties", "status_MergeVectorsDifferentLengths", "status_MergeIndexOutOfBounds",
                                       "status_TransformWrongLength", "status_RunIndexWrongLength", "status_FaceIDWrongLength", "status_InvalidConstruction",
                                       "status_ResultTooLarge", "status_InvalidTangents", "status_Cancelled"};

  // ---- phase pool: the seed objects themselves, built through the C API and in C++
  {
    std::vector<std::pair<int, int>> entries;
    for (int t = 0; t < NTY; ++t)
      for (int i = 0; i < (int)g_pool[t].size(); ++i) entries.push_back({t, i});
    R.phase("pool", entries.size() * 2, 1,
            [&](uint64_t idx, Ctx& c) {
              auto e = entries[idx / 2];
              Row r;
              r.fn = "pool";
              r.args = "";
              r.in = {(Ty)e.first};
              r.c = [](CW&) {};
              r.x = [](XW&) {};
              Prog g;
              g.P = &r;
              g.pin = {e.second};
              RunOpts o;
              o.topMask = idx & 1;
              judge(c, g, o, true);
            },
            CN);
  }

  // ---- phase d1: every row on every combination of compatible pool objects
  {
    std::vector<uint64_t> off(g_rows.size() + 1, 0);
    for (size_t i = 0; i < g_rows.size(); ++i) off[i + 1] = off[i] + combos(g_rows[i]);
    auto em_d1 = R.phase("d1", off.back(), 4,
            [&](uint64_t idx, Ctx& c) {
              size_t ri = std::upper_bound(off.begin(), off.end(), idx) - off.begin() - 1;
              const Row& r = g_rows[ri];
              Prog g;
              g.P = &r;
              g.pin = decode(r, idx - off[ri]);
              if (r.filter && !r.filter(g.pin)) {
                c.count("filtered");
                return;
              }
              RunOpts o;
              uint64_t hsh = mix64(idx + 0x20);
              o.topMask = (uint32_t)hsh;
              o.perm = hsh >> 32;
              judge(c, g, o, false);
              if (idx % 997 == 0) c.sample(g.key());
            },
            CN);
    for (auto& l : em_d1) fprintf(stderr, "slow d1: %s\n", l.c_str());
  }

  // ---- phase d2: all two-call programs in which the second call consumes the first call's result
  {
    struct Link {
      int p, q, o, j;
    };
    std::vector<Link> links;
    for (int p = 0; p < (int)g_rows.size(); ++p)
      for (int q = 0; q < (int)g_rows.size(); ++q) {
        const Row &P = g_rows[p], &Q = g_rows[q];
        if (P.out.empty() || Q.filter) continue;
        // quick: at least one of the two calls uses its first argument tuple (under ASan: both do)
        if (!thorough && (kAsan ? !(P.primary && Q.primary) : !(P.primary || Q.primary))) continue;
        for (int o = 0; o < (int)P.out.size(); ++o)
          for (int j = 0; j < (int)Q.in.size(); ++j)
            if (P.out[o] == Q.in[j]) links.push_back({p, q, o, j});
      }
    // producer inputs: the first K entries of each pool (the deliberately asymmetric ones)
    const int K = thorough ? 64 : 2;  // thorough: every pool entry
    auto pcombos = [&](const Row& r) {
      uint64_t n = 1;
      for (Ty t : r.in) n *= std::min<size_t>(K, g_pool[t].size());
      return n;
    };
    std::vector<uint64_t> off(links.size() + 1, 0);
    for (size_t i = 0; i < links.size(); ++i) off[i + 1] = off[i] + pcombos(g_rows[links[i].p]);
    auto em_d2 = R.phase("d2", off.back(), 8,
            [&](uint64_t idx, Ctx& c) {
              size_t li = std::upper_bound(off.begin(), off.end(), idx) - off.begin() - 1;
              const Link& l = links[li];
              const Row &P = g_rows[l.p], &Q = g_rows[l.q];
              Prog g;
              g.P = &P;
              g.Q = &Q;
              g.oSlot = l.o;
              g.jSlot = l.j;
              uint64_t k = idx - off[li];
              g.pin.resize(P.in.size());
              for (int i = (int)P.in.size() - 1; i >= 0; --i) {
                size_t n = std::min<size_t>(K, g_pool[P.in[i]].size());
                g.pin[i] = (int)(k % n);
                k /= n;
              }
              if (P.filter && !P.filter(g.pin)) {
                c.count("filtered");
                return;
              }
              for (size_t i = 0; i < Q.in.size(); ++i) g.qin.push_back(g_pool[Q.in[i]].size() > 1 ? 1 : 0);
              RunOpts o;
              uint64_t hsh = mix64(idx + 0x2020);
              o.topMask = (uint32_t)hsh;
              o.perm = hsh >> 32;
              o.early = (hsh >> 31) & 1;
              judge(c, g, o, false);
              if (idx % 9973 == 0) c.sample(g.key());
            },
            CN);
    for (auto& l : em_d2) fprintf(stderr, "slow d2: %s\n", l.c_str());
  }

  // ---- phase lifecycle: every destruction order x every storage mode x {inputs destroyed before/after the result is used}, with a leak check
  {
    std::vector<uint64_t> off(g_rows.size() + 1, 0);
    auto space = [&](const Row& r) {
      int k = (int)std::min<size_t>(4, r.in.size() + r.out.size());
      return fact(k) * (1ull << k) * 2;
    };
    // life cycles do not depend on the numeric arguments: the first argument tuple of every function (thorough: all rows)
    std::vector<int> sel;
    for (int i = 0; i < (int)g_rows.size(); ++i)
      if (thorough || g_rows[i].primary) sel.push_back(i);
    off.assign(sel.size() + 1, 0);
    for (size_t i = 0; i < sel.size(); ++i) off[i + 1] = off[i] + space(g_rows[sel[i]]);
    auto em_lifecycle = R.phase("lifecycle", off.back(), 8,
            [&](uint64_t idx, Ctx& c) {
              size_t si = std::upper_bound(off.begin(), off.end(), idx) - off.begin() - 1;
              const Row& r = g_rows[sel[si]];
              uint64_t k = idx - off[si];
              int n = (int)std::min<size_t>(4, r.in.size() + r.out.size());
              RunOpts o;
              o.early = k & 1;
              k >>= 1;
              o.topMask = (uint32_t)(k & ((1u << n) - 1));
              k >>= n;
              o.perm = k;
              Prog g;
              g.P = &r;
              // inputs: the first pool combination the row's filter admits, preferring entry 1 (the asymmetric one)
              uint64_t nc = combos(r);
              std::vector<int> want(r.in.size());
              for (size_t i = 0; i < r.in.size(); ++i) want[i] = g_pool[r.in[i]].size() > 1 ? 1 : 0;
              g.pin = r.lifecyclePin.empty() ? want : r.lifecyclePin;
              if (r.filter && !r.filter(g.pin)) {
                bool found = false;
                for (uint64_t q = 0; q < nc && !found; ++q) {
                  g.pin = decode(r, q);
                  found = r.filter(g.pin);
                }
                if (!found) {
                  c.count("filtered");
                  return;
                }
              }
              judge(c, g, o, true);
              if (idx % 4999 == 0) c.sample(g.key() + F(" {modes=%x,order=%llu,early=%d}", o.topMask, (unsigned long long)o.perm, (int)o.early));
            },
            CN);
    for (auto& l : em_lifecycle) fprintf(stderr, "slow lifecycle: %s\n", l.c_str());
  }

  // ---- phase empty-arrays: the array getters on a mesh whose array is empty (memcpy from a null source)
  {
    struct EA {
      const char* fn;
      std::function<void(CW&, void*)> call;  // (world, caller buffer)
      int which;                              // 0 MeshGL tet, 1 MeshGL without anything, 2 MeshGL64 tet, 3 MeshGL64 without anything, 4 triangulation
    };
    std::vector<EA> ea;
#define EA_ROW(PFX, CT, FNAME, W) \
  ea.push_back({"manifold_" #PFX "_" #FNAME, [](CW& c, void* b) { if ((void*)manifold_##PFX##_##FNAME(b, (CT*)c.objs[c.in[0]].p) != b) c.fail("did not return the caller buffer"); }, W})
#define EA_ROWS(PFX, CT, W)                       \
  EA_ROW(PFX, CT, vert_properties, W + 1);        \
  EA_ROW(PFX, CT, tri_verts, W + 1);              \
  EA_ROW(PFX, CT, merge_from_vert, W);            \
  EA_ROW(PFX, CT, merge_to_vert, W);              \
  EA_ROW(PFX, CT, run_index, W);                  \
  EA_ROW(PFX, CT, run_original_id, W);            \
  EA_ROW(PFX, CT, run_transform, W);              \
  EA_ROW(PFX, CT, face_id, W);                    \
  EA_ROW(PFX, CT, halfedge_tangent, W);           \
  EA_ROW(PFX, CT, run_flags, W)
    EA_ROWS(meshgl, ManifoldMeshGL, 0);
    EA_ROWS(meshgl64, ManifoldMeshGL64, 2);
    ea.push_back({"manifold_triangulation_tri_verts",
                  [](CW& c, void* b) {
                    if ((void*)manifold_triangulation_tri_verts(b, (ManifoldTriangulation*)c.objs[c.in[0]].p) != b) c.fail("did not return the caller buffer");
                  },
                  4});
    R.phase("empty-arrays", ea.size(), 1,
            [&](uint64_t idx, Ctx& c) {
              const EA& e = ea[idx];
              c.describe(std::string("empty-array:") + e.fn);
              c.count("programs");
              c.distinct(idx + 1);
              // the call runs in a child process, so that a sanitizer abort is an ordinary, replayable violation of this case
              const char* rd = getenv("VERIF_RUN_DIR");
              std::string errPath = std::string(rd ? rd : ".") + F("/C20.ea.%d.err", (int)getpid());
              fflush(stdout);
              pid_t pid = fork();
              if (pid == 0) {
                int fd = open(errPath.c_str(), O_WRONLY | O_CREAT | O_TRUNC, 0644);
                if (fd >= 0) dup2(fd, 2);
                int rc = 0;
                {
                  CW w;
                  int obj;
                  switch (e.which) {
                    case 0:
                      obj = w.tmp(manifold_meshgl(w.fin(tMG), kTetV, 4, 3, kTetT, 4));
                      break;
                    case 1:
                      obj = w.tmp(manifold_meshgl(w.fin(tMG), kTetV, 0, 3, kTetT, 0));
                      break;
                    case 2:
                      obj = w.tmp(manifold_meshgl64(w.fin(tMG64), kTetV64, 4, 3, kTetT64, 4));
                      break;
                    case 3:
                      obj = w.tmp(manifold_meshgl64(w.fin(tMG64), kTetV64, 0, 3, kTetT64, 0));
                      break;
                    default: {
                      int p = psC(w, {}, false);
                      obj = w.tmp(manifold_triangulate(w.fin(tTRI), (ManifoldPolygons*)w.objs[p].p, -1));
                      w.kill(p);
                    }
                  }
                  w.in.push_back(obj);
                  e.call(w, w.buf(8));
                  for (auto& f : w.fails) fprintf(stderr, "%s\n", f.c_str()), rc = 3;
                }
                _exit(rc);
              }
              int st = 0;
              waitpid(pid, &st, 0);
              std::string err;
              if (FILE* f = fopen(errPath.c_str(), "r")) {
                char buf[1500];
                size_t n = fread(buf, 1, sizeof buf - 1, f);
                buf[n] = 0;
                err = buf;
                fclose(f);
                unlink(errPath.c_str());
              }
              if (!(WIFEXITED(st) && WEXITSTATUS(st) == 0))
                c.viol(std::string("empty-array:") + e.fn, std::string(e.fn) + " on an object whose array has length 0",
                       (WIFSIGNALED(st) ? F("killed by signal %d", WTERMSIG(st)) : F("exit status %d", WEXITSTATUS(st))) + "\n" + err);
            },
            {"programs"});
  }
  return R.finish();
}
