CHECK = dict(
    level="model_checking", engine="S",
    technique=("exhaustive enumeration of contour inputs and 2-D Boolean programs on the real CrossSection code, judged by an exact integer "
               "winding-number oracle at rational sample points and by an exact pixel-set reference model"),
    level_text=("Every vertex sequence of length 3..5 over the 4x4 integer lattice (no validity filter: self-intersecting, clockwise, collinear, "
                "repeated vertices) is regularized under both fill rules; the output's winding number at the 42x42 sample points (2i+1)/24 must be "
                "[w>0] resp. [w odd] of the input winding computed in exact integer arithmetic, and the output rings must not cross, overlap or "
                "repeat a vertex. All ordered pairs of the 516 lattice triangles x {+,-,^} are judged the same way by the set formula, plus "
                "inclusion-exclusion of areas and operand-order independence. All programs over the 36 integer rectangles of [0,3]^2 - ordered "
                "pairs x 5 construction variants x 3 ops, BatchBoolean over ordered triples, depth-2 programs in both nestings, signed triples "
                "under both fill rules, 15 transforms/warps on either operand - must equal a pixel-set model exactly: every output edge on a "
                "lattice line, winding at every pixel centre equal to the model bit, Area() equal to the pixel count within 1e-9. Four comb "
                "scenes of >= 400 rectangles (> 1024 edges in one arrangement) drive the BVH broad phase against the same model."),
    level_note=("Trusted: compiler, sanitizers, lib/geom2.h (int64 orientation / winding, long-double winding of the output with a double filter, "
                "70-line pixel model). Points closer than max(result tolerance, 1e-9) to an input edge are not judged; on these lattice inputs that "
                "is exactly the sample points lying on an input edge. A ring crossing is reported only if all four endpoints are farther than that "
                "margin from the other edge's line. The design's threshold hook (kEdgePairBvhThreshold=0) is not available, so the BVH broad phase "
                "is reached only by the comb scenes; the PAR-build merges (tbb::combinable) are not covered here."),
    # budgets are deadlines with ample slack for a shared machine (quiet machine: seq-fast quick ~55 s, thorough ~12 min; seq-asan ~60 s)
    runs=[S("seq-fast", quick=400, thorough=3000, workers=8),
          S("seq-asan", quick=600, thorough=900, workers=8, args=["--asan-subset"])],
    rule=("contour1: all 16^3+16^4+16^5 vertex sequences x {Positive, EvenOdd}; distinct = distinct output ring sets; non-trivial = non-empty "
          "output from a contour that is not a simple counter-clockwise polygon. tri-bool: 516^2 ordered operand pairs x 3 ops (+ swapped "
          "commutative re-runs); non-trivial = pairs whose operands properly overlap (A^B, A-B and B-A all non-empty at the samples). rect-*: mixed-radix enumeration of the stated programs; "
          "distinct = (model pixel set, canonical output rings); non-trivial = model result non-empty and different from every operand. "
          "thorough adds contour2 = all 4096^2 ordered pairs of 3-vertex sequences as one contour set x 2 rules, and region-bool = every "
          "distinct region a <=4-vertex contour regularizes to under either rule (7950) x 516 triangles x 6 programs."),
    bounds=dict(quick=("41k Booleans with an operand whose tolerance was raised above the other operand's feature size (rect-tolerance); contours <= 5 vertices on the 4x4 lattice (1.12M x 2 rules); 266k triangle pairs x 3 ops; rectangles of [0,3]^2: 32k "
                       "variant pairs, 140k batch triples, 746k signed fill triples, 840k depth-2 programs, 292k transformed pairs x 3 ops; 28 "
                       "comb programs of 1600+ edges; seq-asan re-runs contours <= 4 vertices, rectangle pairs, 1/6 of the batch triples and "
                       "of the transformed pairs, and the combs"),
                thorough=("adds 16.8M contour pairs x 2 rules, 4.1M region x triangle pairs x 6 programs, combs of 1000 rectangles")),
    assumptions=COMMON_ASSUME + [
        "points within max(result tolerance, 1e-9) of an input edge are not judged",
        "general (non-lattice) coordinates, near-concurrent crossings at sub-epsilon scale and the parallel build are outside this bound",
    ],
)
