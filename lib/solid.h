// Oracle geometry: generalized winding number of a triangle soup (solid
// angles, van Oosterom-Strackee, long double), exact-ish point/triangle
// distance, signed volume and area.  Independent of the library's own code.
#pragma once
#include <cmath>
#include <cstdint>
#include <limits>
#include <vector>

#include "manifold/manifold.h"

namespace vf {

struct V3 {
  long double x, y, z;
};
inline V3 operator-(V3 a, V3 b) { return {a.x - b.x, a.y - b.y, a.z - b.z}; }
inline V3 operator+(V3 a, V3 b) { return {a.x + b.x, a.y + b.y, a.z + b.z}; }
inline V3 operator*(long double s, V3 a) { return {s * a.x, s * a.y, s * a.z}; }
inline long double dot(V3 a, V3 b) { return a.x * b.x + a.y * b.y + a.z * b.z; }
inline V3 cross(V3 a, V3 b) {
  return {a.y * b.z - a.z * b.y, a.z * b.x - a.x * b.z, a.x * b.y - a.y * b.x};
}
inline long double norm(V3 a) { return sqrtl(dot(a, a)); }

struct Soup {
  std::vector<V3> tri;  // 3 per triangle
  size_t size() const { return tri.size() / 3; }
};

template <typename M>
inline Soup soupOf(const M& m) {
  Soup s;
  s.tri.reserve(m.triVerts.size());
  for (auto i : m.triVerts) {
    size_t o = (size_t)i * m.numProp;
    s.tri.push_back({(long double)m.vertProperties[o], (long double)m.vertProperties[o + 1],
                     (long double)m.vertProperties[o + 2]});
  }
  return s;
}
inline Soup soupOf(const manifold::Manifold& m) { return soupOf(m.GetMeshGL64()); }

// winding number at p (real valued; integer away from the surface for closed soups)
inline long double winding(const Soup& s, V3 p) {
  long double tot = 0;
  for (size_t t = 0; t < s.size(); ++t) {
    V3 a = s.tri[3 * t] - p, b = s.tri[3 * t + 1] - p, c = s.tri[3 * t + 2] - p;
    long double la = norm(a), lb = norm(b), lc = norm(c);
    long double num = dot(a, cross(b, c));
    long double den = la * lb * lc + dot(a, b) * lc + dot(b, c) * la + dot(c, a) * lb;
    tot += 2 * atan2l(num, den);
  }
  return tot / (4 * 3.14159265358979323846264338327950288L);
}
inline int windingInt(const Soup& s, V3 p) { return (int)lroundl(winding(s, p)); }

inline long double distPointSeg(V3 p, V3 a, V3 b) {
  V3 ab = b - a;
  long double d = dot(ab, ab);
  long double t = d > 0 ? dot(p - a, ab) / d : 0;
  t = t < 0 ? 0 : (t > 1 ? 1 : t);
  return norm(p - (a + t * ab));
}
inline long double distPointTri(V3 p, V3 a, V3 b, V3 c) {
  V3 n = cross(b - a, c - a);
  long double nn = dot(n, n);
  long double best = std::min(distPointSeg(p, a, b), std::min(distPointSeg(p, b, c), distPointSeg(p, c, a)));
  if (nn > 0) {
    // projection inside?
    long double d = dot(p - a, n) / nn;
    V3 q = p - d * n;
    long double s0 = dot(cross(b - a, q - a), n), s1 = dot(cross(c - b, q - b), n),
                s2 = dot(cross(a - c, q - c), n);
    if (s0 >= 0 && s1 >= 0 && s2 >= 0) best = std::min(best, fabsl(d) * sqrtl(nn));
  }
  return best;
}
inline long double distToSoup(const Soup& s, V3 p) {
  long double best = std::numeric_limits<long double>::infinity();
  for (size_t t = 0; t < s.size(); ++t)
    best = std::min(best, distPointTri(p, s.tri[3 * t], s.tri[3 * t + 1], s.tri[3 * t + 2]));
  return best;
}
inline long double volumeOf(const Soup& s) {
  long double v = 0;
  for (size_t t = 0; t < s.size(); ++t) v += dot(s.tri[3 * t], cross(s.tri[3 * t + 1], s.tri[3 * t + 2]));
  return v / 6;
}
inline long double areaOf(const Soup& s) {
  long double a = 0;
  for (size_t t = 0; t < s.size(); ++t)
    a += norm(cross(s.tri[3 * t + 1] - s.tri[3 * t], s.tri[3 * t + 2] - s.tri[3 * t])) / 2;
  return a;
}

}  // namespace vf
