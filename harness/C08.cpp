// C08 - MeshGL export and re-import is lossless.
// Engine S: every object of a program-generated pool (multiple runs, instances,
// back-side runs, property seams, normals, tangents, and products of those) is
// sent through four trips - MeshGL64, MeshGL (32 bit), OBJ text, and MeshGL64
// with merge vectors stripped + Merge() - and the re-export is compared with
// the export field by field after canonical renumbering.
#include <algorithm>
#include <cmath>
#include <sstream>

#include "engine/runner.h"
#include "lib/alphabet.h"
#include "lib/canon.h"
#include "lib/topo.h"

using namespace manifold;
using namespace vf;

// one triangle of an export, independent of vertex/triangle numbering
struct TriRec {
  std::vector<double> d;  // corners rotated to canonical start: per corner position, properties, outgoing tangent; then run data
  bool operator<(const TriRec& o) const { return d < o.d; }
  bool operator==(const TriRec& o) const {
    if (d.size() != o.d.size()) return false;
    for (size_t i = 0; i < d.size(); ++i)
      if (memcmp(&d[i], &o.d[i], sizeof(double)) != 0) return false;  // bit compare (distinguishes -0, NaN payloads)
    return true;
  }
};

struct Opts {
  bool withProps = true, withTangents = true, withRun = true, withFaceID = false, normalsLoose = true;
};

template <typename M>
static std::vector<TriRec> records(const M& g, const Opts& o, std::string* err) {
  std::vector<TriRec> out;
  const size_t np = g.numProp, nt = g.triVerts.size() / 3;
  std::vector<int> runOf(nt, -1);
  for (size_t r = 0; r + 1 < g.runIndex.size(); ++r)
    for (size_t t = g.runIndex[r] / 3; t < g.runIndex[r + 1] / 3 && t < nt; ++t) runOf[t] = (int)r;
  const bool tang = o.withTangents && g.halfedgeTangent.size() == 12 * nt;
  if (o.withTangents && !g.halfedgeTangent.empty() && !tang) *err = "halfedgeTangent has wrong length";
  for (size_t t = 0; t < nt; ++t) {
    std::vector<std::vector<double>> corner(3);
    for (int k = 0; k < 3; ++k) {
      size_t v = g.triVerts[3 * t + k];
      for (int c = 0; c < 3; ++c) corner[k].push_back((double)g.vertProperties[v * np + c]);
      if (o.withProps) {
        int r = runOf[t];
        bool hasN = r >= 0 && (size_t)r < g.runFlags.size() && (g.runFlags[r] & 2);
        for (size_t c = 3; c < np; ++c) {
          double x = (double)g.vertProperties[v * np + c];
          // channels flagged as normals may differ by renormalisation rounding: compare them rounded to 1e-9
          if (o.normalsLoose && hasN && c < 6) x = std::round(x * (sizeof(g.vertProperties[0]) == 4 ? 1e5 : 1e9)) / (sizeof(g.vertProperties[0]) == 4 ? 1e5 : 1e9) + 0.0;
          corner[k].push_back(x);
        }
      }
      if (tang)
        for (int c = 0; c < 4; ++c) corner[k].push_back((double)g.halfedgeTangent[4 * (3 * t + k) + c]);
    }
    int mn = 0;
    for (int k = 1; k < 3; ++k)
      if (corner[k] < corner[mn]) mn = k;
    TriRec rec;
    for (int k = 0; k < 3; ++k) rec.d.insert(rec.d.end(), corner[(mn + k) % 3].begin(), corner[(mn + k) % 3].end());
    if (o.withRun) {
      int r = runOf[t];
      rec.d.push_back(r >= 0 && (size_t)r < g.runOriginalID.size() ? (double)g.runOriginalID[r] : -1.0);
      rec.d.push_back(r >= 0 && (size_t)r < g.runFlags.size() ? (double)g.runFlags[r] : 0.0);
      for (int c = 0; c < 12; ++c)
        rec.d.push_back(r >= 0 && (size_t)(12 * r + c) < g.runTransform.size() ? (double)g.runTransform[12 * r + c]
                                                                              : ((c == 0 || c == 4 || c == 8) ? 1.0 : 0.0));  // absent = identity
    }
    if (o.withFaceID) rec.d.push_back(t < g.faceID.size() ? (double)g.faceID[t] : -1.0);
    out.push_back(std::move(rec));
  }
  std::sort(out.begin(), out.end());
  return out;
}

template <typename M>
static std::string compareExports(const M& a, const M& b, const Opts& o) {
  std::string err;
  auto ra = records(a, o, &err), rb = records(b, o, &err);
  if (!err.empty()) return err;
  if (a.numProp != b.numProp) return "numProp differs: " + std::to_string((long)a.numProp) + " vs " + std::to_string((long)b.numProp);
  if (ra.size() != rb.size()) return "triangle count differs: " + std::to_string(ra.size()) + " vs " + std::to_string(rb.size());
  for (size_t i = 0; i < ra.size(); ++i)
    if (!(ra[i] == rb[i])) {
      std::ostringstream s;
      s.precision(17);
      s << "triangle record " << i << " differs (sorted order); first differing field: ";
      for (size_t k = 0; k < ra[i].d.size() && k < rb[i].d.size(); ++k)
        if (memcmp(&ra[i].d[k], &rb[i].d[k], 8)) {
          s << "#" << k << " " << ra[i].d[k] << " vs " << rb[i].d[k];
          break;
        }
      return s.str();
    }
  // distinct positions as a set
  auto posSet = [](const M& g) {
    std::vector<std::array<double, 3>> p;
    for (size_t v = 0; v < g.vertProperties.size() / g.numProp; ++v)
      p.push_back({(double)g.vertProperties[v * g.numProp], (double)g.vertProperties[v * g.numProp + 1], (double)g.vertProperties[v * g.numProp + 2]});
    std::sort(p.begin(), p.end());
    p.erase(std::unique(p.begin(), p.end()), p.end());
    return p;
  };
  if (posSet(a) != posSet(b)) return "set of vertex positions differs";
  if ((double)b.tolerance < (double)a.tolerance) return "tolerance became smaller";
  return "";
}

struct Obj {
  std::string name;
  std::function<Manifold()> make;
  bool userFaceIDs = false;
};

static std::vector<Obj> pool(bool thorough) {
  auto S = seeds();
  std::vector<Obj> base;
  for (auto& s : S)
    if (!s.degenerate && s.name != "TwoComp") base.push_back({s.name, s.make});
  // an import that carries user face IDs, two runs with reserved IDs, a transform and a back-side flag
  base.push_back({"ImportRuns", [] {
                    MeshGL64 g = Manifold::Cube().GetMeshGL64();
                    uint32_t id = Manifold::ReserveIDs(2);
                    g.runIndex = {0, 18, 36};
                    g.runOriginalID = {id, id + 1};
                    g.runTransform.clear();
                    g.runFlags.clear();
                    g.faceID.resize(12);
                    for (int i = 0; i < 12; ++i) g.faceID[i] = 100 + i / 2;
                    return Manifold(g);
                  }, true});
  struct U {
    const char* n;
    std::function<Manifold(const Manifold&)> f;
  };
  std::vector<U> un = {
      {"id", [](const Manifold& m) { return m; }},
      {"CalculateNormals(0)", [](const Manifold& m) { return m.CalculateNormals(0); }},
      {"CalculateNormals(0,40)", [](const Manifold& m) { return m.CalculateNormals(0, 40); }},
      {"SetProperties(2)", [](const Manifold& m) {
         return m.SetProperties(2, [](double* o, vec3 p, const double*) {
           o[0] = p.x + 0.5 * p.y;
           o[1] = p.z;
         });
       }},
      {"SmoothOut()", [](const Manifold& m) { return m.SmoothOut(); }},
      {"SmoothOut(0,.5)", [](const Manifold& m) { return m.SmoothOut(0, 0.5); }},
      {"SmoothByNormals", [](const Manifold& m) { return m.CalculateNormals(0, 60).SmoothByNormals(0); }},
      {"Refine(2)", [](const Manifold& m) { return m.Refine(2); }},
      {"Mirror", [](const Manifold& m) { return m.Scale({-1, 1, 1}); }},
      {"Rotate", [](const Manifold& m) { return m.Rotate(17, 31, 47).Translate({0.1, 0.2, 0.3}); }},
      {"AsOriginal", [](const Manifold& m) { return m.AsOriginal(); }},
      // a tolerance above the rounding floor of either precision must survive the trip ("a tolerance that is not smaller")
      {"SetTolerance(.01)", [](const Manifold& m) { return m.SetTolerance(0.01); }},
  };
  std::vector<Obj> out;
  // depth 1: u(s)
  for (auto& b : base)
    for (auto& u : un) out.push_back({b.name + "|" + u.n, [b, u] { return u.f(b.make()); }, b.userFaceIDs && std::string(u.n) != "Refine(2)"});
  // Boolean results of pairs in general position (multiple runs, back sides, instances), then a unary op
  std::vector<int> bsel;
  for (int i = 0; i < (int)base.size(); ++i)
    if (thorough || i % 2 == 0) bsel.push_back(i);
  const char* opn[3] = {"+", "-", "^"};
  for (int i : bsel)
    for (int j : bsel)
      for (int op = 0; op < 3; ++op)
        for (auto& u : un) {
          if (!thorough && (std::string(u.n) == "Mirror" || std::string(u.n) == "Rotate" || std::string(u.n) == "SmoothByNormals")) continue;
          Obj a = base[i], b = base[j];
          out.push_back({"(" + a.name + " " + opn[op] + " " + b.name + ".T)|" + u.n, [a, b, op, u] {
                           Manifold x = a.make(), y = b.make().Translate({0.3, 0.2, 0.1}).Rotate(5, 7, 11);
                           return u.f(x.Boolean(y, (OpType)op));
                         }, false});
        }
  // instances of one original under different transforms, with properties and seams
  for (auto& b : base)
    out.push_back({"instances(" + b.name + ")", [b] {
                     Manifold m = b.make().CalculateNormals(0, 40);
                     return m + m.Translate({0.4, 0.3, 0.2}).Rotate(0, 0, 20);
                   }, false});
  return out;
}

int main(int argc, char** argv) {
  Runner R("C08", argc, argv);
  const bool thorough = R.a.thorough();
  auto P = pool(thorough);
  R.phase("trips", P.size(), 1, [&](uint64_t idx, Ctx& c) {
    const Obj& o = P[idx];
    c.describe(o.name);
    Manifold m = o.make();
    if (m.Status() != Manifold::Error::NoError || m.IsEmpty()) {
      c.count("skipped_empty_or_error");
      return;
    }
    MeshGL64 g = m.GetMeshGL64();
    const bool hasTang = !g.halfedgeTangent.empty();
    const bool multiRun = g.runOriginalID.size() > 1;
    uint64_t h = canonGeomHash(g);
    c.distinct(h);
    if (multiRun || hasTang || g.numProp > 3 || !g.mergeFromVert.empty()) c.nontrivial(h);
    c.count("objects");
    if (multiRun) c.count("multi_run");
    if (hasTang) c.count("with_tangents");
    if (!g.mergeFromVert.empty()) c.count("with_merge_vectors");
    if (idx % 37 == 0) c.sample(o.name);
    // ---- trip 1: MeshGL64
    {
      c.describe(o.name + " :: MeshGL64 trip");
      Manifold m2(g);
      c.count("trips");
      if (m2.Status() != Manifold::Error::NoError)
        c.viol("trip64:" + o.name + ":status", o.name, "re-import of the exported MeshGL64 has status " + std::to_string((int)m2.Status()));
      else {
        MeshGL64 g2 = m2.GetMeshGL64();
        Opts op;
        op.withFaceID = o.userFaceIDs;
        std::string bad = compareExports(g, g2, op);
        if (!bad.empty()) {
          // attribute the failure: structure without tangents first
          Opts noT = op;
          noT.withTangents = false;
          std::string bad2 = compareExports(g, g2, noT);
          c.viol(std::string("trip64:") + o.name + (bad2.empty() ? ":tangents" : ":mesh"), o.name, bad);
        } else if (hasTang) {
          // same surface after Refine
          Manifold r1 = m.Refine(2), r2 = m2.Refine(2);
          auto pos = [](const Manifold& x) {
            MeshGL64 q = x.GetMeshGL64();
            std::vector<std::array<double, 3>> p;
            for (size_t v = 0; v < q.vertProperties.size() / q.numProp; ++v)
              p.push_back({q.vertProperties[v * q.numProp], q.vertProperties[v * q.numProp + 1], q.vertProperties[v * q.numProp + 2]});
            std::sort(p.begin(), p.end());
            return p;
          };
          auto p1 = pos(r1), p2 = pos(r2);
          bool same = p1.size() == p2.size();
          for (size_t i = 0; same && i < p1.size(); ++i)
            for (int k = 0; k < 3; ++k)
              if (std::fabs(p1[i][k] - p2[i][k]) > 1e-9 * (1 + std::fabs(p1[i][k]))) same = false;
          if (!same) c.viol("trip64:" + o.name + ":refine", o.name, "Refine(2) of the re-imported mesh differs from Refine(2) of the original");
        }
      }
    }
    // ---- trip 2: MeshGL (32 bit)
    {
      c.describe(o.name + " :: MeshGL trip");
      MeshGL f = m.GetMeshGL();
      Manifold m2(f);
      c.count("trips");
      if (m2.Status() != Manifold::Error::NoError)
        c.viol("trip32:" + o.name + ":status", o.name, "re-import of the exported MeshGL has status " + std::to_string((int)m2.Status()));
      else {
        MeshGL f2 = m2.GetMeshGL();
        Opts op;
        op.withFaceID = o.userFaceIDs;
        std::string bad = compareExports(f, f2, op);
        if (!bad.empty()) {
          Opts noT = op;
          noT.withTangents = false;
          std::string bad2 = compareExports(f, f2, noT);
          c.viol(std::string("trip32:") + o.name + (bad2.empty() ? ":tangents" : ":mesh"), o.name, bad);
        }
      }
    }
    // ---- trip 3: OBJ text (the statement is about positions and triangles: compare at the MeshGL64 level,
    // WriteOBJ(stream, mesh) -> ReadOBJ(stream); vertex order is preserved, the writer sorts the triangles)
    {
      c.describe(o.name + " :: OBJ trip");
      std::stringstream ss;
      bool ok = WriteOBJ(ss, g);
      c.count("trips");
      if (!ok) c.viol("tripOBJ:" + o.name + ":write", o.name, "WriteOBJ returned false");
      else {
        MeshGL64 r = ReadOBJ(ss);
        std::string bad;
        size_t nv = g.vertProperties.size() / g.numProp;
        if (r.numProp != 3 || r.vertProperties.size() != 3 * nv) bad = "vertex count differs after the OBJ trip";
        for (size_t v = 0; bad.empty() && v < nv; ++v)
          for (int k = 0; k < 3; ++k)
            if (memcmp(&r.vertProperties[3 * v + k], &g.vertProperties[v * g.numProp + k], 8)) {
              std::ostringstream e;
              e.precision(17);
              e << "position of vertex " << v << " changed: " << g.vertProperties[v * g.numProp + k] << " -> " << r.vertProperties[3 * v + k];
              bad = e.str();
              break;
            }
        if (bad.empty()) {
          auto tris = [](const MeshGL64& q) {
            std::vector<std::array<uint64_t, 3>> t;
            for (size_t i = 0; i + 2 < q.triVerts.size(); i += 3) t.push_back({q.triVerts[i], q.triVerts[i + 1], q.triVerts[i + 2]});
            std::sort(t.begin(), t.end());
            return t;
          };
          if (tris(g) != tris(r)) bad = "triangle list differs after the OBJ trip";
        }
        if (!bad.empty()) c.viol("tripOBJ:" + o.name + ":mesh", o.name, bad);
      }
    }
    // ---- trip 4: merge vectors stripped, then Merge()
    if (!g.mergeFromVert.empty() || true) {
      c.describe(o.name + " :: strip+Merge trip");
      MeshGL64 s = g;
      s.mergeFromVert.clear();
      s.mergeToVert.clear();
      c.count("trips");
      // (a) the exported merge vectors alone restore manifoldness
      Topo t = checkTopo(g);
      if (!t.ok) c.viol("merge:" + o.name + ":export-not-manifold", o.name, "export with its merge vectors is not a closed 2-manifold: " + t.why);
      // (b) Merge() restores it when they are stripped
      s.Merge();
      Manifold m2(s);
      if (m2.Status() != Manifold::Error::NoError)
        c.viol("merge:" + o.name + ":status", o.name, "after stripping the merge vectors and calling Merge(), import gives status " + std::to_string((int)m2.Status()));
      else if (m2.NumTri() != m.NumTri())
        c.viol("merge:" + o.name + ":tris", o.name, "after strip+Merge() the triangle count changed: " + std::to_string(m.NumTri()) + " -> " + std::to_string(m2.NumTri()));
    }
  }, {"objects", "trips", "multi_run", "with_tangents", "with_merge_vectors", "skipped_empty_or_error"});
  return R.finish();
}
