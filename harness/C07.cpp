// C07 - every output triangle traces back to its source face and interpolated properties.
//
// Engine S: ALL programs up to the depth bound over an alphabet of information-carrying
// originals (own MeshGL64 inputs with reserved original IDs, user face IDs, affine and
// per-vertex property channels, mixed channel counts), general-position placements
// (rigid / mirrored / non-uniformly scaled / far = disjoint), Booleans in both operand
// orders, Split, BatchBoolean, Refine(2) and AsOriginal are executed on the real library,
// with lazily combined and with forced intermediates.  The oracle works on the exported
// MeshGL64 of the final result only and never looks inside the library:
//
//   runs      runIndex is one longer than runOriginalID, starts at 0, is non-decreasing,
//             divisible by 3, ends at 3*numTri; non-empty runs are sorted by original ID;
//             empty runs trail; runTransform / runFlags / faceID have the documented sizes
//   origin    every run names an original of the program (after AsOriginal: only the new
//             original) and its runTransform equals the transform the program applied to
//             one instance of that original (the oracle composes them in long double)
//   face      with T = runTransform (identity when absent), every vertex of a triangle is
//             within kPos*tolerance of the union of the T-images of the source triangles
//             that carry the triangle's faceID in that original
//   normal    the triangle's normal has a positive dot product with s * T^-T n, n the
//             outward normal of the source face, s = -1 iff runFlags bit 0 (back side).
//             Convention (mesh.h Backside(), impl.h Relation::GetNormalTransform): the
//             reference orientation is that of the *transformed solid*, i.e. the normal
//             covector T^-T n - a mirroring T (det < 0) does NOT set the back-side bit, the
//             library re-winds the triangles instead.  Triangles thinner than 8*tolerance
//             define no orientation and are not judged.
//   prop      every property value at a corner equals the source's field evaluated at the
//             pre-image T^-1(position): the field of a face is the least-squares affine
//             fit through all corners of the face's source triangles; it is only demanded
//             where that fit is exact (residual <= 1e-10 of the value scale, "affine across
//             the face" - always so when every source triangle has its own face ID), within
//             kProp * tolerance * |T^-1| * |gradient| (+ residual + 1e-13 value scale)
//   zero      channels the source original lacks are exactly 0
//   instances follow from origin+face: two instances of one original appear as runs with
//             the same runOriginalID and their own runTransform
#include <cmath>
#include <map>
#include <set>
#include <sstream>

#include "engine/runner.h"
#include "lib/canon.h"
#include "lib/solid.h"
#include "manifold/manifold.h"

using namespace manifold;
using namespace vf;
typedef long double LD;

static const LD kPos = 2;    // positional slack in units of the result's tolerance
static const LD kProp = 4;   // property slack in units of tolerance * |T^-1| * |gradient|
static const LD kThin = 8;   // triangles with an altitude below kThin*tolerance have no judged orientation

// ------------------------------------------------------------------ oracle affine maps
struct X34 {
  LD a[3][3];
  LD t[3];
};
static X34 xIdent() {
  X34 r{};
  for (int i = 0; i < 3; ++i) r.a[i][i] = 1;
  return r;
}
static X34 xMul(const X34& A, const X34& B) {  // x -> A(B(x))
  X34 r{};
  for (int i = 0; i < 3; ++i) {
    for (int j = 0; j < 3; ++j)
      for (int k = 0; k < 3; ++k) r.a[i][j] += A.a[i][k] * B.a[k][j];
    r.t[i] = A.t[i];
    for (int k = 0; k < 3; ++k) r.t[i] += A.a[i][k] * B.t[k];
  }
  return r;
}
static V3 xApp(const X34& A, V3 p) {
  LD v[3] = {p.x, p.y, p.z}, o[3];
  for (int i = 0; i < 3; ++i) o[i] = A.a[i][0] * v[0] + A.a[i][1] * v[1] + A.a[i][2] * v[2] + A.t[i];
  return {o[0], o[1], o[2]};
}
static LD xDet(const X34& A) {
  return A.a[0][0] * (A.a[1][1] * A.a[2][2] - A.a[1][2] * A.a[2][1]) - A.a[0][1] * (A.a[1][0] * A.a[2][2] - A.a[1][2] * A.a[2][0]) +
         A.a[0][2] * (A.a[1][0] * A.a[2][1] - A.a[1][1] * A.a[2][0]);
}
static bool xInv(const X34& A, X34& R) {
  LD d = xDet(A);
  if (d == 0 || !std::isfinite((double)d)) return false;
  for (int i = 0; i < 3; ++i)
    for (int j = 0; j < 3; ++j) {
      int i1 = (i + 1) % 3, i2 = (i + 2) % 3, j1 = (j + 1) % 3, j2 = (j + 2) % 3;
      R.a[j][i] = (A.a[i1][j1] * A.a[i2][j2] - A.a[i1][j2] * A.a[i2][j1]) / d;  // adjugate / det
    }
  for (int i = 0; i < 3; ++i) {
    R.t[i] = 0;
    for (int k = 0; k < 3; ++k) R.t[i] -= R.a[i][k] * A.t[k];
  }
  return true;
}
static LD xFrob(const X34& A) {
  LD s = 0;
  for (int i = 0; i < 3; ++i)
    for (int j = 0; j < 3; ++j) s += A.a[i][j] * A.a[i][j];
  return sqrtl(s);
}
// normal covector: (A^-1)^T n  (Ainv given)
static V3 xNormal(const X34& Ainv, V3 n) {
  return {Ainv.a[0][0] * n.x + Ainv.a[1][0] * n.y + Ainv.a[2][0] * n.z, Ainv.a[0][1] * n.x + Ainv.a[1][1] * n.y + Ainv.a[2][1] * n.z,
          Ainv.a[0][2] * n.x + Ainv.a[1][2] * n.y + Ainv.a[2][2] * n.z};
}
static mat3x4 toLib(const X34& A) {
  mat3x4 m;
  for (int c = 0; c < 3; ++c)
    for (int r = 0; r < 3; ++r) m[c][r] = (double)A.a[r][c];
  for (int r = 0; r < 3; ++r) m[3][r] = (double)A.t[r];
  return m;
}
static X34 roundD(X34 A) {  // entries exactly representable in double (what the library is given)
  for (int i = 0; i < 3; ++i) {
    for (int j = 0; j < 3; ++j) A.a[i][j] = (double)A.a[i][j];
    A.t[i] = (double)A.t[i];
  }
  return A;
}
static LD xDiff(const X34& A, const X34& B) {
  LD d = 0;
  for (int i = 0; i < 3; ++i) {
    for (int j = 0; j < 3; ++j) d = std::max(d, fabsl(A.a[i][j] - B.a[i][j]));
    d = std::max(d, fabsl(A.t[i] - B.t[i]));
  }
  return d;
}
static LD xMag(const X34& A) {
  LD d = 1;
  for (int i = 0; i < 3; ++i) {
    for (int j = 0; j < 3; ++j) d = std::max(d, fabsl(A.a[i][j]));
    d = std::max(d, fabsl(A.t[i]));
  }
  return d;
}

// general-position rigid family of harness/C02.cpp: Rotate(17t, 31(t+1), 47(t+2)) then Translate(...)
static X34 rigid(int t) {
  const LD D = 3.14159265358979323846264338327950288L / 180;
  LD ax = 17.0L * t * D, ay = 31.0L * (t + 1) * D, az = 47.0L * (t + 2) * D;
  X34 Rx = xIdent(), Ry = xIdent(), Rz = xIdent();
  Rx.a[1][1] = cosl(ax), Rx.a[1][2] = -sinl(ax), Rx.a[2][1] = sinl(ax), Rx.a[2][2] = cosl(ax);
  Ry.a[0][0] = cosl(ay), Ry.a[0][2] = sinl(ay), Ry.a[2][0] = -sinl(ay), Ry.a[2][2] = cosl(ay);
  Rz.a[0][0] = cosl(az), Rz.a[0][1] = -sinl(az), Rz.a[1][0] = sinl(az), Rz.a[1][1] = cosl(az);
  X34 R = xMul(Rz, xMul(Ry, Rx));
  R.t[0] = 0.31 * (t - 2), R.t[1] = 0.17 * ((t * 2) % 5 - 2), R.t[2] = 0.23 * ((t * 3) % 4 - 1);
  return roundD(R);
}

// ------------------------------------------------------------------ placements
struct Placement {
  std::string name;
  X34 M;                                        // what the oracle believes was applied
  std::function<Manifold(const Manifold&)> ap;  // how it is applied through the API
};
static std::vector<Placement> makePlacements() {
  std::vector<Placement> P;
  P.push_back({"I", xIdent(), [](const Manifold& m) { return m; }});
  for (int t : {1, 3, 4}) {
    X34 R = rigid(t);
    P.push_back({"rig" + std::to_string(t), R, [R](const Manifold& m) { return m.Transform(toLib(R)); }});
  }
  {  // mirror over the plane with normal (1,2,3) through the origin, then translate: det = -1
    LD n[3] = {1, 2, 3}, nn = 14;
    X34 M = xIdent();
    for (int i = 0; i < 3; ++i)
      for (int j = 0; j < 3; ++j) M.a[i][j] -= 2 * n[i] * n[j] / nn;
    M.t[0] = 0.12, M.t[1] = -0.08, M.t[2] = 0.05;
    M = roundD(M);
    P.push_back({"mir", M, [](const Manifold& m) { return m.Mirror({1, 2, 3}).Translate({0.12, -0.08, 0.05}); }});
  }
  {  // non-uniform scale, then rigid(2)
    X34 S = xIdent();
    S.a[0][0] = 1.25, S.a[1][1] = 0.8, S.a[2][2] = 1.1;
    X34 R = rigid(2);
    X34 M = xMul(R, roundD(S));
    P.push_back({"scl", M, [R](const Manifold& m) { return m.Scale({1.25, 0.8, 1.1}).Transform(toLib(R)); }});
  }
  {  // far away: bounding boxes disjoint from everything near the origin -> Compose path of Add
    X34 R = rigid(5);
    X34 Tr = xIdent();
    Tr.t[0] = 5.5, Tr.t[1] = 0.25, Tr.t[2] = -0.125;
    X34 M = xMul(Tr, R);
    P.push_back({"far", M, [R](const Manifold& m) { return m.Transform(toLib(R)).Translate({5.5, 0.25, -0.125}); }});
  }
  {  // negative non-uniform scale (det < 0) then rigid(0)
    X34 S = xIdent();
    S.a[0][0] = -0.9, S.a[1][1] = -1.1, S.a[2][2] = -1.2;
    X34 R = rigid(0);
    X34 M = xMul(R, roundD(S));
    P.push_back({"neg", M, [R](const Manifold& m) { return m.Scale({-0.9, -1.1, -1.2}).Transform(toLib(R)); }});
  }
  return P;
}
enum { P_I = 0, P_R1, P_R3, P_R4, P_MIR, P_SCL, P_FAR, P_NEG };

// ------------------------------------------------------------------ source originals
struct STri {
  V3 p[3];
  std::vector<LD> v[3];  // property values per corner
};
struct Face {
  std::vector<int> tris;
  std::vector<V3> normals;  // unit normals of the source triangles (all the same up to tolerance unless the library grouped
                            // coincident, oppositely oriented triangles of a zero-thickness sheet into one coplanar face)
  V3 n{0, 0, 0};  // unit outward normal of the largest source triangle of the face
  V3 c0{0, 0, 0};
  std::vector<char> affine;
  std::vector<V3> grad;
  std::vector<LD> v0, resid, gnorm, vscale;
};
struct Original {
  std::string name;
  uint32_t id = 0;
  int nprop = 0;
  bool libraryFaces = false;  // face IDs are the library's coplanar grouping (read off the leaf's own export)
  std::vector<STri> tris;
  std::map<uint64_t, Face> faces;
};

static V3 unit(V3 a) {
  LD l = norm(a);
  return l > 0 ? (1 / l) * a : a;
}

static void fitFaces(Original& o) {
  for (auto& kv : o.faces) {
    Face& f = kv.second;
    LD best = -1;
    V3 cen{0, 0, 0};
    for (int t : f.tris) {
      const STri& s = o.tris[t];
      V3 nn = cross(s.p[1] - s.p[0], s.p[2] - s.p[0]);
      if (norm(nn) > best) best = norm(nn), f.n = unit(nn);
      if (norm(nn) > 0) f.normals.push_back(unit(nn));
      for (int k = 0; k < 3; ++k) cen = cen + s.p[k];
    }
    f.c0 = (1.0L / (3 * f.tris.size())) * cen;
    V3 ax = fabsl(f.n.x) < 0.6 ? V3{1, 0, 0} : V3{0, 1, 0};
    V3 e1 = unit(cross(f.n, ax)), e2 = cross(f.n, e1);
    f.affine.assign(o.nprop, 0);
    f.grad.assign(o.nprop, V3{0, 0, 0});
    f.v0.assign(o.nprop, 0), f.resid.assign(o.nprop, 0), f.gnorm.assign(o.nprop, 0), f.vscale.assign(o.nprop, 0);
    for (int ch = 0; ch < o.nprop; ++ch) {
      // least squares v ~ v0 + gs*s + gt*t
      LD S[3][3] = {}, b[3] = {};
      LD vs = 0;
      for (int t : f.tris)
        for (int k = 0; k < 3; ++k) {
          V3 d = o.tris[t].p[k] - f.c0;
          LD r[3] = {1, dot(d, e1), dot(d, e2)}, v = o.tris[t].v[k][ch];
          vs = std::max(vs, fabsl(v));
          for (int i = 0; i < 3; ++i) {
            for (int j = 0; j < 3; ++j) S[i][j] += r[i] * r[j];
            b[i] += r[i] * v;
          }
        }
      f.vscale[ch] = vs;
      auto det3 = [](LD m[3][3]) {
        return m[0][0] * (m[1][1] * m[2][2] - m[1][2] * m[2][1]) - m[0][1] * (m[1][0] * m[2][2] - m[1][2] * m[2][0]) +
               m[0][2] * (m[1][0] * m[2][1] - m[1][1] * m[2][0]);
      };
      LD d = det3(S);
      LD tr = S[0][0] * S[1][1] * S[2][2];
      if (!(fabsl(d) > 1e-12L * fabsl(tr)) || best <= 0) continue;  // degenerate face: no field
      LD sol[3];
      for (int c = 0; c < 3; ++c) {
        LD m[3][3];
        for (int i = 0; i < 3; ++i)
          for (int j = 0; j < 3; ++j) m[i][j] = j == c ? b[i] : S[i][j];
        sol[c] = det3(m) / d;
      }
      LD res = 0;
      for (int t : f.tris)
        for (int k = 0; k < 3; ++k) {
          V3 dd = o.tris[t].p[k] - f.c0;
          res = std::max(res, fabsl(sol[0] + sol[1] * dot(dd, e1) + sol[2] * dot(dd, e2) - o.tris[t].v[k][ch]));
        }
      f.v0[ch] = sol[0];
      f.grad[ch] = sol[1] * e1 + sol[2] * e2;
      f.gnorm[ch] = norm(f.grad[ch]);
      f.resid[ch] = res;
      f.affine[ch] = res <= 1e-10L * std::max((LD)1, vs);
    }
  }
}

// triangles [t0,t1) of mesh g become an original
static Original originalFrom(const MeshGL64& g, size_t t0, size_t t1, uint32_t id, const std::string& name, bool libraryFaces) {
  Original o;
  o.name = name;
  o.id = id;
  o.nprop = (int)g.numProp - 3;
  o.libraryFaces = libraryFaces;
  for (size_t t = t0; t < t1; ++t) {
    STri s;
    for (int k = 0; k < 3; ++k) {
      size_t v = g.triVerts[3 * t + k];
      s.p[k] = {(LD)g.vertProperties[v * g.numProp], (LD)g.vertProperties[v * g.numProp + 1], (LD)g.vertProperties[v * g.numProp + 2]};
      for (int ch = 0; ch < o.nprop; ++ch) s.v[k].push_back((LD)g.vertProperties[v * g.numProp + 3 + ch]);
    }
    o.faces[g.faceID[t]].tris.push_back((int)o.tris.size());
    o.tris.push_back(s);
  }
  fitFaces(o);
  return o;
}

// ------------------------------------------------------------------ leaves
struct Leaf {
  std::string name;
  Manifold m;
  std::vector<int> orig;  // indices into the global original table
};
static std::vector<Original> G_orig;
static std::vector<Leaf> G_leaf;

static const double CUBE_V[8][3] = {{0, 0, 0}, {0, 0, 1}, {0, 1, 0}, {0, 1, 1}, {1, 0, 0}, {1, 0, 1}, {1, 1, 0}, {1, 1, 1}};
static const int CUBE_T[12][3] = {{1, 0, 4}, {2, 4, 0}, {1, 3, 0}, {3, 1, 5}, {3, 2, 0}, {3, 7, 2}, {5, 4, 6}, {5, 1, 4}, {6, 4, 2}, {7, 6, 2}, {7, 3, 5}, {7, 5, 6}};

static MeshGL64 cubeMesh(double sx, double sy, double sz, int nprop, int faceMode /*0 none,1 per tri,2 per side*/) {
  MeshGL64 g;
  g.numProp = 3 + nprop;
  // 3 affine channels a_i . x + b_i and one per-vertex channel that is NOT affine over the cube
  static const double A[3][4] = {{1.5, -0.75, 0.5, 2.0}, {-0.25, 2.0, 1.25, -1.0}, {0.625, 0.375, -3.0, 0.5}};
  static const double H[8] = {0.5, -1.25, 2.0, 0.75, -0.5, 1.5, -2.25, 3.0};
  for (int i = 0; i < 8; ++i) {
    double x = (CUBE_V[i][0] - 0.5) * sx, y = (CUBE_V[i][1] - 0.5) * sy, z = (CUBE_V[i][2] - 0.5) * sz;
    g.vertProperties.push_back(x), g.vertProperties.push_back(y), g.vertProperties.push_back(z);
    for (int ch = 0; ch < nprop; ++ch) {
      if (ch < 3) g.vertProperties.push_back(A[ch][0] * x + A[ch][1] * y + A[ch][2] * z + A[ch][3]);
      else g.vertProperties.push_back(H[i]);
    }
  }
  for (int t = 0; t < 12; ++t) {
    for (int k = 0; k < 3; ++k) g.triVerts.push_back(CUBE_T[t][k]);
    if (faceMode == 1) g.faceID.push_back(t);
    if (faceMode == 2) {
      // side = the coordinate that is constant over the triangle and its value
      int side = -1;
      for (int ax = 0; ax < 3; ++ax)
        if (CUBE_V[CUBE_T[t][0]][ax] == CUBE_V[CUBE_T[t][1]][ax] && CUBE_V[CUBE_T[t][1]][ax] == CUBE_V[CUBE_T[t][2]][ax])
          side = 2 * ax + (int)CUBE_V[CUBE_T[t][0]][ax];
      g.faceID.push_back(40 + side);
    }
  }
  return g;
}

static void die(const std::string& s) {
  fprintf(stderr, "C07 harness self-check failed: %s\n", s.c_str());
  printf("{\"t\":\"viol\",\"phase\":\"setup\",\"idx\":0,\"key\":\"setup:%s\",\"desc\":\"harness self-check\",\"detail\":\"\"}\n", jesc(s).c_str());
  exit(3);
}

static void addImported(const std::string& name, MeshGL64 g, int nRuns, bool userFaces) {
  // reserved IDs, one per run; runs split the triangle list evenly
  uint32_t id0 = Manifold::ReserveIDs(nRuns);
  size_t nt = g.triVerts.size() / 3;
  for (int r = 0; r < nRuns; ++r) {
    g.runOriginalID.push_back(id0 + r);
    g.runIndex.push_back(3 * (nt * r / nRuns));
  }
  g.runIndex.push_back(3 * nt);
  if (volumeOf(soupOf(g)) <= 0) die(name + ": input mesh is not outward oriented");
  Leaf L;
  L.name = name;
  L.m = Manifold(g);
  if (L.m.Status() != Manifold::Error::NoError) die(name + ": import status " + std::to_string((int)L.m.Status()));
  if (L.m.NumTri() != nt) die(name + ": import changed the triangle count");
  if (userFaces) {
    // the source mesh is the harness's own input
    for (int r = 0; r < nRuns; ++r) {
      L.orig.push_back((int)G_orig.size());
      G_orig.push_back(originalFrom(g, g.runIndex[r] / 3, g.runIndex[r + 1] / 3, id0 + r, name + (nRuns > 1 ? "#run" + std::to_string(r) : ""), false));
    }
  } else {
    // no user face IDs: the faces are the library's coplanar grouping, published by the leaf's own export.
    // The export must be the input triangle soup (positions and properties bit-equal), only re-ordered.
    MeshGL64 e = L.m.GetMeshGL64();
    if (e.runOriginalID.size() != (size_t)nRuns || e.faceID.size() != nt) die(name + ": leaf export lost its runs / face IDs");
    std::multiset<std::vector<double>> in, out;
    auto soup = [](const MeshGL64& m, std::multiset<std::vector<double>>& s) {
      for (size_t t = 0; t < m.triVerts.size() / 3; ++t) {
        std::vector<std::vector<double>> c(3);
        for (int k = 0; k < 3; ++k)
          for (size_t j = 0; j < m.numProp; ++j) c[k].push_back(m.vertProperties[m.triVerts[3 * t + k] * m.numProp + j]);
        int mn = 0;
        for (int k = 1; k < 3; ++k)
          if (c[k] < c[mn]) mn = k;
        std::vector<double> key;
        for (int k = 0; k < 3; ++k) key.insert(key.end(), c[(mn + k) % 3].begin(), c[(mn + k) % 3].end());
        s.insert(key);
      }
    };
    soup(g, in), soup(e, out);
    if (in != out) die(name + ": leaf export is not the input triangle soup");
    for (int r = 0; r < nRuns; ++r) {
      if (e.runOriginalID[r] != id0 + r) die(name + ": leaf export renamed the reserved original ID");
      L.orig.push_back((int)G_orig.size());
      G_orig.push_back(originalFrom(e, e.runIndex[r] / 3, e.runIndex[r + 1] / 3, id0 + r, name, true));
    }
  }
  G_leaf.push_back(L);
}

enum { L_CUBETRI = 0, L_CUBEQUAD, L_TET, L_OCTA, L_PLAIN, L_TWORUN, L_PYRAMID, NLEAF };

static void makeLeaves() {
  // (a) cube, 4 channels, every source triangle its own face ID
  addImported("cubeTri", cubeMesh(1.3, 1.1, 0.9, 4, 1), 1, true);
  // (b) the same cube, face IDs group the two triangles of each side (channel 3 is then not affine across a face)
  addImported("cubeQuad", cubeMesh(1.3, 1.1, 0.9, 4, 2), 1, true);
  // (c) tetrahedron, 1 channel, face IDs 5..8 (overlapping the label range of cubeTri on purpose)
  {
    MeshGL64 g;
    g.numProp = 4;
    static const double V[4][3] = {{-1, -1, 1}, {-1, 1, -1}, {1, -1, -1}, {1, 1, 1}};
    static const double H[4] = {1.0, -2.0, 0.25, 3.5};
    static const int T[4][3] = {{2, 0, 1}, {0, 3, 1}, {2, 3, 0}, {3, 2, 1}};
    for (int i = 0; i < 4; ++i) {
      for (int k = 0; k < 3; ++k) g.vertProperties.push_back(0.8 * V[i][k]);
      g.vertProperties.push_back(H[i]);
    }
    for (int t = 0; t < 4; ++t) {
      for (int k = 0; k < 3; ++k) g.triVerts.push_back(T[t][k]);
      g.faceID.push_back(5 + t);
    }
    addImported("tet", g, 1, true);
  }
  // (d) 4-segment sphere (octahedron), reserved ID, 2 per-vertex channels, NO face IDs
  {
    MeshGL64 g;
    g.numProp = 5;
    static const double V[6][3] = {{1, 0, 0}, {-1, 0, 0}, {0, 1, 0}, {0, -1, 0}, {0, 0, 1}, {0, 0, -1}};
    static const double H[6][2] = {{0.5, 4}, {1.5, -1}, {-2, 0.25}, {3, 2}, {-0.75, -3}, {2.5, 1}};
    static const int T[8][3] = {{0, 2, 4}, {1, 5, 3}, {2, 1, 4}, {3, 5, 0}, {1, 3, 4}, {0, 5, 2}, {3, 0, 4}, {2, 5, 1}};
    for (int i = 0; i < 6; ++i) {
      for (int k = 0; k < 3; ++k) g.vertProperties.push_back(0.9 * V[i][k]);
      g.vertProperties.push_back(H[i][0]), g.vertProperties.push_back(H[i][1]);
    }
    for (int t = 0; t < 8; ++t)
      for (int k = 0; k < 3; ++k) g.triVerts.push_back(T[t][k]);
    addImported("octa", g, 1, false);
  }
  // (e) property-less cube made by the library's own constructor: an original with its own ID
  {
    Leaf L;
    L.name = "plain";
    L.m = Manifold::Cube({1.0, 1.2, 0.8}, true);
    MeshGL64 e = L.m.GetMeshGL64();
    if (L.m.OriginalID() < 0 || e.runOriginalID.size() != 1 || (int)e.runOriginalID[0] != L.m.OriginalID() || e.faceID.size() != 12)
      die("plain: Cube() export does not name itself as the original");
    L.orig.push_back((int)G_orig.size());
    G_orig.push_back(originalFrom(e, 0, 12, e.runOriginalID[0], "plain", true));
    G_leaf.push_back(L);
  }
  // (f) one input MeshGL64 made of two runs with two reserved IDs (multi-material input), 1 affine channel, per-triangle face IDs
  addImported("twoRun", cubeMesh(0.9, 1.25, 1.15, 1, 1), 2, true);
  // (g) square pyramid whose property seams END at vertices: the rim vertices are shared by all their triangles, the
  //     apex has one property vertex per side face (merged by position through the merge vectors).  Each side edge
  //     apex-rim therefore shares its property vertex at the rim end and differs at the apex end.
  {
    MeshGL64 g;
    g.numProp = 5;
    static const double RIM[4][3] = {{-1, -1, 0}, {1, -1, 0}, {1, 1, 0}, {-1, 1, 0}};
    static const double RH[4][2] = {{0.5, 2.0}, {-1.0, 0.25}, {1.75, -0.5}, {0.25, 1.0}};
    static const double AH[4][2] = {{3.0, -2.0}, {-2.5, 1.5}, {0.75, 4.0}, {5.0, 0.5}};
    for (int i = 0; i < 4; ++i) {
      for (int k = 0; k < 3; ++k) g.vertProperties.push_back(0.8 * RIM[i][k]);
      g.vertProperties.push_back(RH[i][0]), g.vertProperties.push_back(RH[i][1]);
    }
    for (int i = 0; i < 4; ++i) {  // apex copies 4..7
      g.vertProperties.push_back(0), g.vertProperties.push_back(0), g.vertProperties.push_back(1.1);
      g.vertProperties.push_back(AH[i][0]), g.vertProperties.push_back(AH[i][1]);
    }
    for (int i = 0; i < 4; ++i) {  // side faces (outward): rim i, rim i+1, apex copy i
      g.triVerts.push_back(i), g.triVerts.push_back((i + 1) % 4), g.triVerts.push_back(4 + i);
      g.faceID.push_back(70 + i);
    }
    g.triVerts.insert(g.triVerts.end(), {0, 2, 1});
    g.faceID.push_back(74);
    g.triVerts.insert(g.triVerts.end(), {0, 3, 2});
    g.faceID.push_back(75);
    for (int i = 1; i < 4; ++i) g.mergeFromVert.push_back(4 + i), g.mergeToVert.push_back(4);
    addImported("pyramid", g, 1, true);
  }
}

// ------------------------------------------------------------------ programs
struct Operand {
  int leaf, place;
};
enum Kind { K_XF, K_REFINE, K_ASORIG, K_ADD, K_SUB, K_RSUB, K_INT, K_SPLIT0, K_SPLIT1, K_BATCH };
struct Step {
  Kind kind;
  int a = 0;       // XF: placement; batch: 0 Add, 1 Subtract, 2 Intersect
  Operand o1{0, 0}, o2{0, 0};  // binary: o1; batch: o1, o2
  std::string name;
};
struct Inst {
  int orig;  // index into table
  X34 M;
  int cls = -1;  // geometry class of the leaf (cubeTri and cubeQuad are the same solid)
  int use = -1;  // which operand occurrence of the program brought it in
};
struct Prog {
  Manifold m;
  std::vector<Inst> inst;
  std::vector<const Original*> table;          // originals of the program (leaf originals + AsOriginal results)
  std::vector<std::unique_ptr<Original>> own;  // AsOriginal results
  int steps = 0, uses = 0;
  bool coincident = false;  // two operand occurrences of the same solid under the same transform were combined:
                            // their surfaces coincide exactly (the symbolic-perturbation regime); part of the key only
  bool zeroTangentRefine = false;  // Refine(2) was applied to an object that exported a non-empty, all-zero halfedgeTangent
                                   // although no operand ever had tangents (diagnostic tag in the key only)
  std::vector<std::pair<int, X34>> geo;  // (geometry class, accumulated transform) of every operand occurrence so far; survives AsOriginal
};

static std::vector<Placement> PL;

static Manifold placed(const Operand& o) { return PL[o.place].ap(G_leaf[o.leaf].m); }
static std::string opndName(const Operand& o) { return G_leaf[o.leaf].name + "@" + PL[o.place].name; }

static void addInstances(Prog& p, const Operand& o) {
  const int cls = o.leaf == L_CUBEQUAD ? (int)L_CUBETRI : o.leaf, use = p.uses++;
  for (auto& gm : p.geo)
    if (gm.first == cls && xDiff(gm.second, PL[o.place].M) <= 1e-12L) p.coincident = true;
  p.geo.push_back({cls, PL[o.place].M});
  for (int gi : G_leaf[o.leaf].orig) {
    int ti = -1;
    for (size_t i = 0; i < p.table.size(); ++i)
      if (p.table[i] == &G_orig[gi]) ti = (int)i;
    if (ti < 0) ti = (int)p.table.size(), p.table.push_back(&G_orig[gi]);
    p.inst.push_back({ti, PL[o.place].M, cls, use});
  }
}

static void applyStep(Prog& p, const Step& s, bool forced) {
  ++p.steps;
  switch (s.kind) {
    case K_XF:
      p.m = PL[s.a].ap(p.m);
      for (auto& i : p.inst) i.M = xMul(PL[s.a].M, i.M);
      for (auto& gm : p.geo) gm.second = xMul(PL[s.a].M, gm.second);
      break;
    case K_REFINE: {
      MeshGL64 pre = p.m.GetMeshGL64();  // Refine evaluates its operand anyway
      bool allZero = !pre.halfedgeTangent.empty();
      for (double v : pre.halfedgeTangent)
        if (v != 0) allZero = false;
      if (allZero) p.zeroTangentRefine = true;
      p.m = p.m.Refine(2);
      break;
    }
    case K_ASORIG: {
      p.m = p.m.AsOriginal();
      MeshGL64 e = p.m.GetMeshGL64();
      p.inst.clear();
      p.table.clear();
      if (p.m.Status() == Manifold::Error::NoError && p.m.OriginalID() >= 0 && e.faceID.size() == e.triVerts.size() / 3) {
        p.own.emplace_back(new Original(originalFrom(e, 0, e.triVerts.size() / 3, (uint32_t)p.m.OriginalID(), "asOriginal", true)));
        p.table.push_back(p.own.back().get());
        p.inst.push_back({0, xIdent(), -1, p.uses++});
      }
      break;
    }
    case K_ADD:
    case K_SUB:
    case K_RSUB:
    case K_INT:
    case K_SPLIT0:
    case K_SPLIT1: {
      Manifold q = placed(s.o1);
      addInstances(p, s.o1);
      if (s.kind == K_ADD) p.m = p.m + q;
      else if (s.kind == K_SUB) p.m = p.m - q;
      else if (s.kind == K_RSUB) p.m = q - p.m;
      else if (s.kind == K_INT) p.m = p.m ^ q;
      else {
        auto pr = p.m.Split(q);
        p.m = s.kind == K_SPLIT0 ? pr.first : pr.second;
      }
      break;
    }
    case K_BATCH: {
      Manifold q1 = placed(s.o1), q2 = placed(s.o2);
      addInstances(p, s.o1);
      addInstances(p, s.o2);
      p.m = Manifold::BatchBoolean({p.m, q1, q2}, s.a == 0 ? OpType::Add : s.a == 1 ? OpType::Subtract : OpType::Intersect);
      break;
    }
  }
  if (forced) (void)p.m.NumTri();
}

// ------------------------------------------------------------------ the oracle
struct Verdict {
  std::map<std::string, std::string> viol;  // kind -> detail (first of its kind)
  long tris = 0, corners = 0, cornersAffine = 0, skippedNonAffine = 0, zeros = 0, normals = 0, thin = 0, runs = 0, emptyRuns = 0,
       backRuns = 0, mirrorRuns = 0, instancePairs = 0, near = 0, near2 = 0, propBad = 0, posHalf = 0, posOver = 0, posBad = 0, libFaces = 0;
  int nonEmptyRuns = 0;
  void add(const std::string& kind, const std::string& detail) {
    if (!viol.count(kind)) viol[kind] = detail;
  }
};

static std::string fmtV(V3 p) {
  std::ostringstream s;
  s.precision(17);
  s << "(" << (double)p.x << "," << (double)p.y << "," << (double)p.z << ")";
  return s.str();
}

static void judge(const Prog& p, Verdict& V) {
  const Manifold& r = p.m;
  MeshGL64 g = r.GetMeshGL64();
  const size_t nt = g.triVerts.size() / 3, nr = g.runOriginalID.size(), np = g.numProp;
  std::ostringstream d;
  d.precision(17);
  // ---- runs
  if (g.runIndex.size() != nr + 1) {
    d << "runIndex has " << g.runIndex.size() << " entries for " << nr << " runs";
    V.add("runs", d.str());
    return;
  }
  if (nr == 0) {
    if (nt != 0) V.add("runs", "triangles but no run");
    return;
  }
  if (g.runIndex[0] != 0 || g.runIndex[nr] != 3 * nt) {
    d << "runs cover [" << g.runIndex[0] << "," << g.runIndex[nr] << ") of " << 3 * nt << " triVerts";
    V.add("runs", d.str());
    return;
  }
  for (size_t i = 0; i < nr; ++i)
    if (g.runIndex[i] > g.runIndex[i + 1] || g.runIndex[i] % 3) {
      d << "runIndex[" << i << "]=" << g.runIndex[i] << " runIndex[" << i + 1 << "]=" << g.runIndex[i + 1];
      V.add("runs", d.str());
      return;
    }
  if (g.faceID.size() != nt) {
    V.add("runs", "faceID length != number of triangles");
    return;
  }
  if (!g.runTransform.empty() && g.runTransform.size() != 12 * nr) {
    V.add("runs", "runTransform length != 12 * runs");
    return;
  }
  if (!g.runFlags.empty() && g.runFlags.size() != nr) {
    V.add("runs", "runFlags length != runs");
    return;
  }
  if (g.runTransform.empty() && r.OriginalID() < 0) V.add("runs", "no runTransform on a result that is not an original");
  {
    bool seenEmpty = false;
    long lastID = -1;
    for (size_t i = 0; i < nr; ++i) {
      bool empty = g.runIndex[i] == g.runIndex[i + 1];
      if (empty) {
        seenEmpty = true;
        ++V.emptyRuns;
        continue;
      }
      ++V.nonEmptyRuns;
      if (seenEmpty) {
        d << "run " << i << " is non-empty after an empty run";
        V.add("runs-order", d.str());
        break;
      }
      if ((long)g.runOriginalID[i] < lastID) {
        d << "run " << i << " has original ID " << g.runOriginalID[i] << " after " << lastID;
        V.add("runs-order", d.str());
        break;
      }
      lastID = g.runOriginalID[i];
    }
  }
  const LD tol = g.tolerance;
  if (nt > 0 && !(tol > 0)) V.add("runs", "exported tolerance is not positive");
  // ---- per run
  std::vector<std::pair<int, X34>> seenInst;
  for (size_t run = 0; run < nr; ++run) {
    ++V.runs;
    X34 T = xIdent();
    if (!g.runTransform.empty()) {
      const double* m = &g.runTransform[12 * run];
      for (int c = 0; c < 3; ++c)
        for (int rr = 0; rr < 3; ++rr) T.a[rr][c] = m[3 * c + rr];
      for (int rr = 0; rr < 3; ++rr) T.t[rr] = m[9 + rr];
    }
    const bool back = !g.runFlags.empty() && (g.runFlags[run] & 1);
    const bool empty = g.runIndex[run] == g.runIndex[run + 1];
    // the original this run names
    int ti = -1;
    for (size_t i = 0; i < p.table.size(); ++i)
      if (p.table[i]->id == g.runOriginalID[run]) ti = (int)i;
    if (ti < 0) {
      d.str("");
      d << "run " << run << (empty ? " (empty)" : "") << " names original ID " << g.runOriginalID[run] << ", not an original of this program (";
      for (auto o : p.table) d << o->name << "=" << o->id << " ";
      d << ")";
      V.add("origin", d.str());
      continue;
    }
    const Original& O = *p.table[ti];
    // its transform is the one the program applied to an instance of that original
    {
      bool ok = false;
      for (auto& in : p.inst)
        if (in.orig == ti && xDiff(in.M, T) <= 1e-9L * xMag(in.M)) ok = true;
      if (!ok) {
        d.str("");
        d << "run " << run << " (" << O.name << ") has runTransform [";
        for (int i = 0; i < 3; ++i) d << (double)T.a[i][0] << " " << (double)T.a[i][1] << " " << (double)T.a[i][2] << " | " << (double)T.t[i] << "; ";
        d << "] which is not the transform of any instance of that original in the program";
        V.add("xform", d.str());
      }
    }
    if (empty) continue;
    if (back) ++V.backRuns;
    X34 Ti;
    if (!xInv(T, Ti)) {
      V.add("xform", "singular runTransform");
      continue;
    }
    if (xDet(T) < 0) ++V.mirrorRuns;
    for (auto& si : seenInst)
      if (si.first == ti && xDiff(si.second, T) > 1e-9L * xMag(T)) {
        ++V.instancePairs;
        break;
      }
    seenInst.push_back({ti, T});
    const LD invN = xFrob(Ti);
    const int outProp = (int)np - 3;
    if (outProp < O.nprop) {
      d.str("");
      d << "result has " << outProp << " channels, source " << O.name << " has " << O.nprop;
      V.add("channels", d.str());
    }
    std::map<uint64_t, std::vector<V3>> imgCache;  // faceID -> transformed source triangles
    for (size_t t = g.runIndex[run] / 3; t < g.runIndex[run + 1] / 3; ++t) {
      ++V.tris;
      auto fit = O.faces.find(g.faceID[t]);
      if (fit == O.faces.end()) {
        d.str("");
        d << "triangle " << t << " of run " << run << " (" << O.name << ") has faceID " << g.faceID[t] << " which no triangle of the source carries";
        V.add("faceid", d.str());
        continue;
      }
      const Face& F = fit->second;
      if (O.libraryFaces) ++V.libFaces;
      auto& img = imgCache[g.faceID[t]];
      if (img.empty())
        for (int st : F.tris)
          for (int k = 0; k < 3; ++k) img.push_back(xApp(T, O.tris[st].p[k]));
      V3 q[3];
      size_t vi[3];
      for (int k = 0; k < 3; ++k) {
        vi[k] = g.triVerts[3 * t + k];
        q[k] = {(LD)g.vertProperties[vi[k] * np], (LD)g.vertProperties[vi[k] * np + 1], (LD)g.vertProperties[vi[k] * np + 2]};
      }
      // (face) every vertex within tolerance of the transformed source face
      for (int k = 0; k < 3; ++k) {
        LD best = 1e300L;
        for (size_t s = 0; s + 2 < img.size(); s += 3) best = std::min(best, distPointTri(q[k], img[s], img[s + 1], img[s + 2]));
        if (best > 0.5L * tol) ++V.posHalf;
        if (best > tol) ++V.posOver;
        if (!(best <= kPos * tol)) {
          ++V.posBad;
          d.str("");
          d << "vertex " << fmtV(q[k]) << " of triangle " << t << " (run " << run << ", " << O.name << ", faceID " << g.faceID[t] << ", back=" << back
            << ") is " << (double)best << " from the transformed source face; tolerance " << (double)tol;
          V.add("face", d.str());
        }
      }
      // (normal)
      {
        V3 nn = cross(q[1] - q[0], q[2] - q[0]);
        LD a2 = norm(nn);
        LD longest = std::max(norm(q[1] - q[0]), std::max(norm(q[2] - q[1]), norm(q[0] - q[2])));
        if (longest > 0 && a2 / longest > kThin * tol) {
          V3 ex = xNormal(Ti, F.n);
          if (back) ex = (-1.0L) * ex;
          ++V.normals;
          LD c = dot(unit(nn), unit(ex));
          if (!(c > 0))  // a face whose source triangles do not share one orientation: any of them may be the one
            for (auto& sn : F.normals) c = std::max(c, (back ? -1.0L : 1.0L) * dot(unit(nn), unit(xNormal(Ti, sn))));
          if (!(c > 0)) {
            d.str("");
            d << "triangle " << t << " (run " << run << ", " << O.name << ", faceID " << g.faceID[t] << ", back=" << back << ", det(T)=" << (double)xDet(T)
              << ") has normal " << fmtV(unit(nn)) << " but the " << (back ? "back side of the " : "") << "transformed source face has " << fmtV(unit(ex));
            V.add("normal", d.str());
          }
        } else
          ++V.thin;
      }
      // (prop) / (zero)
      for (int k = 0; k < 3; ++k) {
        V3 y = xApp(Ti, q[k]);
        for (int ch = 0; ch < outProp; ++ch) {
          double val = g.vertProperties[vi[k] * np + 3 + ch];
          if (ch >= O.nprop) {
            ++V.zeros;
            if (val != 0) {
              d.str("");
              d << "channel " << ch << " at " << fmtV(q[k]) << " (triangle " << t << ", run " << run << ", " << O.name << " has only " << O.nprop
                << " channels) is " << val << ", not 0";
              V.add("zero", d.str());
            }
            continue;
          }
          ++V.corners;
          if (!F.affine[ch]) {
            ++V.skippedNonAffine;
            continue;
          }
          ++V.cornersAffine;
          LD want = F.v0[ch] + dot(F.grad[ch], y - F.c0);
          LD slack = kProp * tol * invN * F.gnorm[ch] + F.resid[ch] + 1e-13L * std::max((LD)1, F.vscale[ch]);
          LD err = fabsl((LD)val - want);
          if (err > 0.25L * slack) ++V.near;
          if (err > 0.5L * slack) ++V.near2;
          if (!(err <= slack)) {
            ++V.propBad;
            d.str("");
            d << "channel " << ch << " at " << fmtV(q[k]) << " (triangle " << t << ", run " << run << ", " << O.name << ", faceID " << g.faceID[t]
              << ") is " << val << " but the source field at the pre-image " << fmtV(y) << " is " << (double)want << " (error " << (double)err << ", allowed "
              << (double)slack << ", |gradient| " << (double)F.gnorm[ch] << ", tolerance " << (double)tol << ")";
            V.add("prop", d.str());
          }
        }
      }
    }
  }
}

// ------------------------------------------------------------------ main
int main(int argc, char** argv) {
  Runner R("C07", argc, argv);
  const bool thorough = R.a.thorough();
  bool small = false;  // --small: reduced alphabet (sanitizer run)
  for (int i = 1; i < argc; ++i)
    if (std::string(argv[i]) == "--small") small = true;
  PL = makePlacements();
  makeLeaves();

  // --- alphabets.  QUICK: depth <= 2 in the quick tier.  BIG: depth <= 2 in the thorough tier.  DEEP: depth 3 (thorough).
  // SMALL: depth <= 1 (sanitizer run).
  enum Alpha { SMALL, QUICK, BIG, DEEP };
  struct Alphabet {
    std::vector<Operand> seeds;
    std::vector<Step> steps;
  };
  static const char* BN[] = {"", "", "", "+", "-", "rsub", "^", "Split.first", "Split.second"};
  static const char* ON[] = {"Add", "Subtract", "Intersect"};
  auto xf = [&](Alphabet& A, int p) { A.steps.push_back({K_XF, p, {0, 0}, {0, 0}, "xf(" + PL[p].name + ")"}); };
  auto bin = [&](Alphabet& A, Kind k, int leaf, int place) {
    Operand o{leaf, place};
    A.steps.push_back({k, 0, o, {0, 0}, std::string(BN[k]) + "[" + opndName(o) + "]"});
  };
  auto batch = [&](Alphabet& A, int op, Operand o1, Operand o2) {
    A.steps.push_back({K_BATCH, op, o1, o2, std::string("Batch") + ON[op] + "[" + opndName(o1) + "," + opndName(o2) + "]"});
  };
  auto build = [&](Alpha al) {
    Alphabet A;
    const std::vector<int> all = {L_CUBETRI, L_CUBEQUAD, L_TET, L_OCTA, L_PLAIN, L_TWORUN, L_PYRAMID};
    const std::vector<Kind> four = {K_ADD, K_SUB, K_RSUB, K_INT}, six = {K_ADD, K_SUB, K_RSUB, K_INT, K_SPLIT0, K_SPLIT1};
    if (al == SMALL) {
      for (int l : {L_CUBETRI, L_TET, L_OCTA, L_PLAIN, L_TWORUN})
        for (int p : {P_I, P_MIR}) A.seeds.push_back({l, p});
      for (int p : {P_MIR, P_SCL}) xf(A, p);
      A.steps.push_back({K_REFINE, 0, {0, 0}, {0, 0}, "Refine(2)"});
      A.steps.push_back({K_ASORIG, 0, {0, 0}, {0, 0}, "AsOriginal"});
      for (Kind k : six)
        for (int l : {L_CUBETRI, L_TET, L_OCTA, L_PLAIN, L_TWORUN})
          for (int p : {P_R3, P_MIR}) bin(A, k, l, p);
      for (int l : {L_CUBETRI, L_OCTA}) bin(A, K_ADD, l, P_FAR);
      for (int op = 0; op < 3; ++op) batch(A, op, {L_CUBETRI, P_R3}, {L_TET, P_MIR});
    } else if (al == QUICK) {
      for (int l : all) A.seeds.push_back({l, P_I});
      for (int l : {L_CUBETRI, L_OCTA}) A.seeds.push_back({l, P_MIR});
      for (int p : {P_R4, P_MIR, P_SCL}) xf(A, p);
      A.steps.push_back({K_REFINE, 0, {0, 0}, {0, 0}, "Refine(2)"});
      A.steps.push_back({K_ASORIG, 0, {0, 0}, {0, 0}, "AsOriginal"});
      for (Kind k : four)
        for (int l : all)
          for (int p : {P_R3, P_MIR, P_SCL}) bin(A, k, l, p);
      for (Kind k : {K_SPLIT0, K_SPLIT1})
        for (int l : all) bin(A, k, l, P_MIR);
      for (int l : {L_CUBETRI, L_OCTA, L_PLAIN}) bin(A, K_ADD, l, P_FAR);  // disjoint operands: Compose path
      for (Kind k : {K_ADD, K_SUB, K_INT})
        for (int l : {L_CUBEQUAD, L_OCTA}) bin(A, k, l, P_I);  // operands coincident with an identity-placed seed
      for (int op = 0; op < 3; ++op) {
        batch(A, op, {L_CUBETRI, P_R3}, {L_TET, P_MIR});
        batch(A, op, {L_CUBETRI, P_MIR}, {L_CUBETRI, P_FAR});
      }
    } else if (al == BIG) {
      for (int l : all)
        for (int p : {P_I, P_R1, P_MIR}) A.seeds.push_back({l, p});
      for (int p : {P_R1, P_R4, P_MIR, P_SCL, P_NEG}) xf(A, p);
      A.steps.push_back({K_REFINE, 0, {0, 0}, {0, 0}, "Refine(2)"});
      A.steps.push_back({K_ASORIG, 0, {0, 0}, {0, 0}, "AsOriginal"});
      for (Kind k : six)
        for (int l : all)
          for (int p : {P_I, P_R3, P_MIR, P_SCL, P_NEG}) bin(A, k, l, p);
      for (Kind k : {K_ADD, K_SUB})
        for (int l : all) bin(A, k, l, P_FAR);
      for (int op = 0; op < 3; ++op) {
        batch(A, op, {L_CUBETRI, P_R3}, {L_TET, P_MIR});
        batch(A, op, {L_OCTA, P_SCL}, {L_PLAIN, P_I});
        batch(A, op, {L_CUBETRI, P_MIR}, {L_CUBETRI, P_FAR});
        batch(A, op, {L_TWORUN, P_R3}, {L_OCTA, P_FAR});
      }
    } else {  // DEEP
      for (int l : all) A.seeds.push_back({l, P_I});
      for (int l : {L_CUBETRI, L_OCTA}) A.seeds.push_back({l, P_MIR});
      for (int p : {P_MIR, P_SCL}) xf(A, p);
      A.steps.push_back({K_REFINE, 0, {0, 0}, {0, 0}, "Refine(2)"});
      A.steps.push_back({K_ASORIG, 0, {0, 0}, {0, 0}, "AsOriginal"});
      const Operand ops[] = {{L_CUBETRI, P_R3}, {L_CUBETRI, P_MIR}, {L_TET, P_SCL}, {L_OCTA, P_MIR}, {L_PLAIN, P_R3}, {L_TWORUN, P_SCL}, {L_CUBEQUAD, P_R3}};
      for (Kind k : four)
        for (auto& o : ops) bin(A, k, o.leaf, o.place);
      for (Kind k : {K_SPLIT0, K_SPLIT1}) {
        bin(A, k, L_TET, P_MIR);
        bin(A, k, L_CUBETRI, P_SCL);
      }
      bin(A, K_ADD, L_CUBETRI, P_FAR);
      bin(A, K_ADD, L_OCTA, P_FAR);
      for (Kind k : {K_ADD, K_SUB, K_INT}) bin(A, k, L_CUBEQUAD, P_I);
      for (int op = 0; op < 3; ++op) batch(A, op, {L_CUBETRI, P_R3}, {L_TET, P_MIR});
    }
    return A;
  };

  std::vector<const char*> CN = {"programs", "transitions", "errors", "empty_results", "runs", "empty_runs", "backside_runs", "mirrored_runs",
                                 "instance_pairs", "tris", "tris_library_faces", "normals_judged", "normals_thin_skipped", "prop_corners",
                                 "prop_corners_judged", "prop_skipped_nonaffine", "prop_over_quarter_slack", "prop_over_half_slack", "pos_over_half_tol", "pos_over_tol", "zero_channels_judged", "states", "programs_coincident_operands", "programs_refine_of_zero_tangents", "prop_over_slack", "pos_over_2tol",
                                 "violating_programs", "violating_programs_untagged"};

  // forcing masks per depth: all 2^(depth+1) up to depth 2; at depth 3 the two uniform histories and every single
  // deviation from each (18 masks would be all; 10 are used)
  auto modeList = [](int depth) {
    std::vector<unsigned> m;
    const unsigned full = (1u << (depth + 1)) - 1;
    if (depth <= 2) {
      m.push_back(0), m.push_back(full);  // keep "lazy" and "forced" as modes 0 and 1 (stable indices)
      for (unsigned x = 1; x < full; ++x) m.push_back(x);
    } else {
      m.push_back(0), m.push_back(full);
      for (int i = 0; i <= depth; ++i) m.push_back(1u << i), m.push_back(full & ~(1u << i));
    }
    return m;
  };
  auto modeMask = [&](int depth, int mode) { return modeList(depth)[mode]; };
  auto runProgram = [&](const Alphabet& A, const std::vector<int>& d, int depth, Ctx& c) {
    const auto& seeds = A.seeds;
    const auto& steps = A.steps;
    // d = seed, step_1..step_depth, mode.  mode is a bit mask: bit i set = the handle is forced (evaluated) right after
    // the seed (i = 0) / after step i.  Mask 0 is the fully lazy history, all ones the fully forced one; the mixed
    // ones bake some transforms into the mesh relation and leave later ones pending on the node.
    const unsigned mask = modeMask(depth, d[depth + 1]);
    std::string name = opndName(seeds[d[0]]);
    for (int i = 1; i <= depth; ++i) name += " | " + steps[d[i]].name;
    if (mask == 0) name += " ; lazy";
    else if (mask == (1u << (depth + 1)) - 1) name += " ; forced";
    else {
      name += " ; forced after";
      for (int i = 0; i <= depth; ++i)
        if (mask >> i & 1) name += i ? " step" + std::to_string(i) : " seed";
    }
    c.describe(name);
    Prog p;
    p.m = placed(seeds[d[0]]);
    addInstances(p, seeds[d[0]]);
    if (mask & 1) (void)p.m.NumTri();
    for (int i = 1; i <= depth; ++i) applyStep(p, steps[d[i]], (mask >> i & 1) != 0);
    c.count("programs");
    c.count("transitions", depth);
    if (p.m.Status() != Manifold::Error::NoError) {
      // no mesh, nothing to trace: counted, the property does not speak about it
      c.count("errors");
      return;
    }
    Verdict V;
    judge(p, V);
    c.count("runs", V.runs), c.count("empty_runs", V.emptyRuns), c.count("backside_runs", V.backRuns), c.count("mirrored_runs", V.mirrorRuns);
    c.count("instance_pairs", V.instancePairs), c.count("tris", V.tris), c.count("tris_library_faces", V.libFaces);
    c.count("normals_judged", V.normals), c.count("normals_thin_skipped", V.thin), c.count("prop_corners", V.corners);
    c.count("prop_corners_judged", V.cornersAffine), c.count("prop_skipped_nonaffine", V.skippedNonAffine);
    c.count("prop_over_quarter_slack", V.near), c.count("zero_channels_judged", V.zeros);
    c.count("prop_over_half_slack", V.near2), c.count("pos_over_half_tol", V.posHalf), c.count("pos_over_tol", V.posOver);
    if (V.tris == 0) c.count("empty_results");
    MeshGL64 g = p.m.GetMeshGL64();
    uint64_t h = byteHash(g, false);
    if (c.distinct(h)) c.count("states");
    if (V.nonEmptyRuns >= 2) c.nontrivial(h);
    for (auto& kv : V.viol)
      c.viol(kv.first + (p.coincident ? "[coincident-operands]" : "") + (p.zeroTangentRefine ? "[refine-of-zero-tangents]" : "") + ":" + name, name,
             kv.second);
    c.count("prop_over_slack", V.propBad), c.count("pos_over_2tol", V.posBad);
    if (!V.viol.empty()) {
      c.count("violating_programs");
      if (!p.coincident && !p.zeroTangentRefine) c.count("violating_programs_untagged");
    }
    if (p.coincident) c.count("programs_coincident_operands");
    if (p.zeroTangentRefine) c.count("programs_refine_of_zero_tangents");
  };

  auto runPhases = [&](const std::string& prefix, const Alphabet& A, int d0, int d1) {
    const int nSeeds = (int)A.seeds.size(), nSteps = (int)A.steps.size();
    for (int depth = d0; depth <= d1; ++depth) {
      std::vector<int> radix = {nSeeds};
      for (int i = 0; i < depth; ++i) radix.push_back(nSteps);
      radix.push_back((int)modeList(depth).size());
      uint64_t N = product(radix);
      R.phase(prefix + std::to_string(depth), N, depth >= 2 ? 2 * (uint64_t)nSteps : 2,
              [&, radix, depth, N](uint64_t idx, Ctx& c) {
                auto d = digits(idx, radix);
                runProgram(A, d, depth, c);
                if (idx % (N / 5 + 1) == 1) {
                  std::string s = opndName(A.seeds[d[0]]);
                  for (int i = 1; i <= depth; ++i) s += " | " + A.steps[d[i]].name;
                  c.sample(s);
                }
              },
              CN, depth >= 3 ? 24 : 22);
    }
  };
  if (small) {
    Alphabet A = build(SMALL);
    runPhases("depth", A, 0, 1);
  } else if (!thorough) {
    Alphabet A = build(QUICK);
    runPhases("depth", A, 0, 2);
  } else {
    Alphabet A = build(BIG);
    runPhases("depth", A, 0, 2);
    Alphabet D = build(DEEP);
    runPhases("deep", D, 3, 3);
  }
  return R.finish();
}
