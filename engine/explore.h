// Schedule explorer (engines C and T): stateless depth-first search over
// choice sequences with iterative deviation/preemption bounding.  Every
// execution runs in a forked child under the cooperative scheduler
// (engine/sched.h); the child replays the given prefix (a divergence is a hard
// error), takes option 0 at every later choice point (keep running the current
// thread; if it is blocked, the lowest enabled thread) and records every
// choice point it passes.  The parent then branches on every recorded point
// beyond the prefix whose cost fits the bound.
#pragma once
#include <errno.h>
#include <fcntl.h>
#include <signal.h>
#include <sys/mman.h>
#include <sys/time.h>
#include <sys/wait.h>
#include <unistd.h>

#include <cstring>
#include <functional>
#include <map>
#include <memory>
#include <string>
#include <vector>

#include "engine/runner.h"
#include "engine/sched.h"
#include "engine/tbbrt/tbbrt.h"

namespace vx {

struct Exec {
  std::vector<uint8_t> choices;  // full choice sequence actually taken
  std::vector<vs_choice_rec> trace;
  int status = 0;  // 1 finished, 2 deadlock, 3 divergence, 0 crashed/killed
  int sig = 0, exitCode = 0;
  bool timedOut = false, overflow = false;
  uint64_t points = 0, tasks = 0, spawns = 0, steals = 0, races = 0;
  std::string stderrText;
  std::string outcome, note;
  std::string scheduleStr() const {
    std::string s;
    for (size_t i = 0; i < choices.size(); ++i)
      if (choices[i]) s += std::to_string(i) + ":" + std::to_string((int)choices[i]) + " ";
    return s.empty() ? "(default schedule)" : s;
  }
};

struct Config {
  int bound = 1;          // max total cost of non-default choices in one execution
  int freeCost = 1;       // cost of a non-default choice at a point where the running thread was NOT enabled (1: deviation bounding, 0: CHESS preemption bounding)
  int workers = 2;        // modelled TBB threads (incl. the caller)
  int concurrency = 2;    // reported max_concurrency()
  double timeout = 20;    // per execution, seconds
  uint64_t maxExec = 0;   // 0 = no cap
  int rootStride = 1, rootOffset = 0;  // partition of the root's alternatives across cases
  bool useTbb = true;
  bool taskPoints = false;  // TBB task boundaries are scheduling points even when workers == 1 (clients of engine C whose loops run inline)
  bool captureStderr = false;
  // run executions inside the calling process (no fork): needed under TSan, whose fork is very slow.  State that
  // survives an execution (caches, ID counters) is brought to its steady state by one discarded warm-up run.
  bool inProcess = false;  // keep the child's stderr (sanitizer reports) in Exec::stderrText
};

struct Stats {
  uint64_t executions = 0, choicePoints = 0, maxTrace = 0, maxPoints = 0, withSteals = 0, tasks = 0, withRaces = 0;
  bool capped = false;
  std::map<std::string, uint64_t> outcomes;  // distinct outcomes -> count
};

using Body = std::function<std::string()>;

class Explorer {
 public:
  Explorer() {
    sh_ = (vs_shared*)mmap(nullptr, sizeof(vs_shared), PROT_READ | PROT_WRITE, MAP_SHARED | MAP_ANONYMOUS, -1, 0);
  }
  ~Explorer() { munmap(sh_, sizeof(vs_shared)); }

  Exec run(const std::vector<uint8_t>& prefix, const Config& cfg, const Body& body) {
    sh_->prefix_len = (int)prefix.size();
    if (!prefix.empty()) memcpy(sh_->prefix, prefix.data(), prefix.size());
    sh_->trace_len = 0;
    sh_->trace_overflow = 0;
    sh_->status = 0;
    sh_->points = 0;
    memset(sh_->user, 0, sizeof sh_->user);
    sh_->outcome[0] = 0;
    sh_->note[0] = 0;
    if (cfg.inProcess) {
      if (cfg.useTbb) {
        tbbrt_reset();
        tbbrt_config(cfg.workers, cfg.concurrency);
        tbbrt_task_points(cfg.taskPoints ? 1 : 0);
      }
      vs_begin(sh_);
      std::string out = body();
      if (cfg.useTbb) {
        tbbrt_shutdown();
        tbbrt_stats(&sh_->user[0], &sh_->user[1], &sh_->user[2]);
      }
      vs_end();
      snprintf(sh_->outcome, VS_OUT_LEN, "%s", out.c_str());
      Exec e;
      e.status = sh_->status;
      e.overflow = sh_->trace_overflow;
      e.points = sh_->points;
      e.tasks = sh_->user[0];
      e.spawns = sh_->user[1];
      e.steals = sh_->user[2];
      e.races = sh_->user[3];
      int n = sh_->trace_len;
      e.trace.assign(sh_->trace, sh_->trace + n);
      e.choices.resize(n);
      for (int i = 0; i < n; ++i) e.choices[i] = sh_->trace[i].chosen;
      e.outcome = sh_->outcome;
      e.note = sh_->note;
      return e;
    }
    fflush(stdout);
    fflush(stderr);
    std::string errPath;
    if (cfg.captureStderr) {
      const char* d = getenv("VERIF_RUN_DIR");
      errPath = std::string(d ? d : ".") + "/exec." + std::to_string((long)getpid()) + ".err";
    }
    pid_t p = fork();
    if (p == 0) {
      if (!errPath.empty()) {
        int fd = open(errPath.c_str(), O_WRONLY | O_CREAT | O_TRUNC, 0644);
        if (fd >= 0) {
          dup2(fd, 2);
          close(fd);
        }
      }
      // watchdog: CPU seconds (a frozen or overloaded machine is not a hang), wall only as a distant backstop
      {
        struct itimerval it;
        memset(&it, 0, sizeof it);
        it.it_value.tv_sec = (long)(cfg.timeout < 1 ? 1 : cfg.timeout);
        setitimer(ITIMER_PROF, &it, nullptr);
        alarm((unsigned)(30 * (cfg.timeout < 1 ? 1 : cfg.timeout)));
      }
      if (cfg.useTbb) tbbrt_config(cfg.workers, cfg.concurrency);
      if (cfg.useTbb) tbbrt_task_points(cfg.taskPoints ? 1 : 0);
      vs_begin(sh_);
      std::string out = body();
      if (cfg.useTbb) {
        tbbrt_shutdown();
        tbbrt_stats(&sh_->user[0], &sh_->user[1], &sh_->user[2]);
      }
      vs_end();
      snprintf(sh_->outcome, VS_OUT_LEN, "%s", out.c_str());
      _exit(0);
    }
    Exec e;
    int st = 0;
    // the child arms its own watchdog (SIGALRM), so the parent can block instead of polling
    while (waitpid(p, &st, 0) < 0 && errno == EINTR) {
    }
    if (WIFSIGNALED(st) && (WTERMSIG(st) == SIGALRM || WTERMSIG(st) == SIGPROF)) e.timedOut = true;
    if (!errPath.empty()) {
      FILE* f = fopen(errPath.c_str(), "r");
      if (f) {
        char buf[6000];
        size_t n = fread(buf, 1, sizeof buf - 1, f);
        buf[n] = 0;
        e.stderrText = buf;
        fclose(f);
      }
      unlink(errPath.c_str());
    }
    e.status = sh_->status;
    if (WIFSIGNALED(st)) e.sig = WTERMSIG(st);
    if (WIFEXITED(st)) e.exitCode = WEXITSTATUS(st);
    e.overflow = sh_->trace_overflow;
    e.points = sh_->points;
    e.tasks = sh_->user[0];
    e.spawns = sh_->user[1];
    e.steals = sh_->user[2];
    e.races = sh_->user[3];
    int n = sh_->trace_len;
    e.trace.assign(sh_->trace, sh_->trace + n);
    e.choices.resize(n);
    for (int i = 0; i < n; ++i) e.choices[i] = sh_->trace[i].chosen;
    e.outcome = sh_->outcome;
    e.note = sh_->note;
    if (e.timedOut) e.outcome = "HANG";
    else if (e.status == 2) e.outcome = std::string("DEADLOCK ") + e.note;
    else if (e.status == 3) e.outcome = std::string("DIVERGENCE ") + e.note;
    else if (e.status != 1) e.outcome = "CRASH signal " + std::to_string(e.sig) + " exit " + std::to_string(e.exitCode);
    return e;
  }

  // onExec is called for every execution; return false to stop the search.
  Stats explore(const Config& cfg, const Body& body, const std::function<bool(const Exec&)>& onExec) {
    Stats S;
    // A frame is "the first `len` choices of execution `base`, then alternative `alt`": all the alternatives of one
    // execution share its choice sequence (a frame costs 32 bytes, not a copy of a prefix that may be 10^5 long).
    struct PFrame {
      std::shared_ptr<const std::vector<uint8_t>> base;
      size_t len = 0;
      int alt = -1;  // -1: the empty prefix (root)
    };
    struct Frame {
      std::vector<uint8_t> prefix;
    };
    std::vector<PFrame> stack;
    stack.push_back(PFrame{});
    bool first = true;
    if (cfg.inProcess) (void)run({}, cfg, body);  // warm-up: caches and lazily built globals reach their steady state
    while (!stack.empty()) {
      PFrame pf = std::move(stack.back());
      stack.pop_back();
      Frame f;
      if (pf.alt >= 0) {
        f.prefix.assign(pf.base->begin(), pf.base->begin() + pf.len);
        f.prefix.push_back((uint8_t)pf.alt);
      }
      if (cfg.maxExec && S.executions >= cfg.maxExec) {
        S.capped = true;
        break;
      }
      Exec e = run(f.prefix, cfg, body);
      S.executions++;
      if (getenv("VERIF_EXPLORE_VERBOSE") && (S.executions == 1 || S.executions % 200 == 0))
        fprintf(stderr, "[explore] exec %llu: prefix %zu trace %zu points %llu status %d outcome %.60s stack %zu\n",
                (unsigned long long)S.executions, f.prefix.size(), e.trace.size(), (unsigned long long)e.points, e.status,
                e.outcome.c_str(), stack.size());
      if (getenv("VERIF_EXPLORE_VERBOSE") && S.executions == 1) {
        std::map<std::string, int> h;
        for (auto& r : e.trace) h[r.tag ? r.tag : "?"]++;
        for (auto& kv : h) fprintf(stderr, "[explore]   %d choice points at '%s'\n", kv.second, kv.first.c_str());
      }
      S.choicePoints += e.trace.size();
      S.maxTrace = std::max<uint64_t>(S.maxTrace, e.trace.size());
      S.maxPoints = std::max<uint64_t>(S.maxPoints, e.points);
      S.outcomes[e.outcome]++;
      if (e.steals) S.withSteals++;
      if (e.races) S.withRaces++;
      S.tasks += e.tasks;
      if (e.overflow) S.capped = true;
      if (!onExec(e)) break;
      // branch on every point beyond the prefix
      int cost = 0;
      std::vector<int> costBefore(e.trace.size() + 1, 0);
      for (size_t i = 0; i < e.trace.size(); ++i) {
        costBefore[i] = cost;
        if (e.trace[i].chosen) cost += e.trace[i].preempt ? 1 : cfg.freeCost;
      }
      // push in reverse so that the search order is position-ascending (shortest deviation first)
      auto shared = std::make_shared<const std::vector<uint8_t>>(e.choices);
      for (size_t ii = e.trace.size(); ii-- > f.prefix.size();) {
        size_t i = ii;
        if (first && cfg.rootStride > 1 && (int)(i % cfg.rootStride) != cfg.rootOffset) continue;
        int c = costBefore[i] + (e.trace[i].preempt ? 1 : cfg.freeCost);
        if (c > cfg.bound) continue;
        for (int alt = e.trace[i].n - 1; alt >= 1; --alt) {
          PFrame nf;
          nf.base = shared;
          nf.len = i;
          nf.alt = alt;
          stack.push_back(std::move(nf));
        }
      }
      first = false;
    }
    return S;
  }

 private:
  vs_shared* sh_;
};

}  // namespace vx
