// tbbrt: a replacement for the oneTBB *runtime* (the tbb::detail::r1 entry
// points the header algorithms call).  The header code - range splitting,
// reduce/scan body protocols, partitioners, task_group, parallel_invoke,
// combinable - is oneTBB's own; only "which thread takes which ready task
// next" lives here, and every such decision is a scheduling point of the
// cooperative scheduler (engine/sched.h), i.e. a choice the explorer
// enumerates.
//
// Model: every scheduler thread owns a deque of spawned tasks.  The owner
// takes its NEWEST task (LIFO), a thief takes the OLDEST task of a victim
// (FIFO), exactly as oneTBB's arena slots behave.  A thread inside
// this_task_arena::isolate only takes tasks carrying its isolation tag.
// Without an active scheduler everything runs on the calling thread (serial
// schedule).
#include <oneapi/tbb/detail/_task.h>
#include <oneapi/tbb/detail/_small_object_pool.h>
#include <oneapi/tbb/task_arena.h>
#include <oneapi/tbb/task_group.h>

#include <cstdio>
#include <cstdlib>
#include <cstring>
#include <deque>
#include <new>
#include <stdexcept>

#include "engine/sched.h"
#include "engine/tbbrt/tbbrt.h"

#if defined(TBBRT_TSAN)
#elif defined(__SANITIZE_THREAD__)
#define TBBRT_TSAN 1
#elif defined(__has_feature)
#if __has_feature(thread_sanitizer)
#define TBBRT_TSAN 1
#endif
#endif
#ifdef TBBRT_TSAN
extern "C" void __tsan_acquire(void* addr);
extern "C" void __tsan_release(void* addr);
#define TSAN_ACQUIRE(p) __tsan_acquire((void*)(p))
#define TSAN_RELEASE(p) __tsan_release((void*)(p))
#else
#define TSAN_ACQUIRE(p) ((void)0)
#define TSAN_RELEASE(p) ((void)0)
#endif

namespace tbb {
namespace detail {
namespace r1 {

using d1::task;
using d1::task_group_context;
using d1::wait_context;
using d1::execution_data;
using d1::slot_id;

namespace {

struct Slot {
  std::deque<task*> pool;
  std::intptr_t isolation = 0;
};
Slot slots[VS_MAX_THREADS];
int g_workers = 1;       // modelled threads that may execute tasks (incl. the caller)
int g_concurrency = 1;   // what max_concurrency() reports (drives partitioner divisors / block sizes)
bool g_started = false, g_shutdown = false;
int g_worker_tid[VS_MAX_THREADS];
int g_nworker_threads = 0;
uint64_t g_steals = 0, g_tasks = 0, g_spawns = 0;

// per-task bookkeeping lives in task::m_reserved (ours to use: we are the runtime)
task_group_context*& t_ctx(task* t) { return *reinterpret_cast<task_group_context**>(&t->m_reserved[0]); }
std::intptr_t& t_iso(task* t) { return *reinterpret_cast<std::intptr_t*>(&t->m_reserved[1]); }
std::uint64_t& t_orig(task* t) { return t->m_reserved[2]; }
std::uint64_t& t_aff(task* t) { return t->m_reserved[3]; }

int me() { return vs_active() ? vs_self() : 0; }

// Task-level scheduling points only matter when there is a thief that could take a task; with a
// single modelled TBB thread per client they would only multiply client interleavings at points
// that are free of inter-client synchronisation.
bool g_always_task_points = false;  // harness request: task boundaries are scheduling points even without a thief
void tpoint(const char* tag) {
  if (g_workers > 1 || g_always_task_points) vs_point(tag);
}

bool matches(task* t, std::intptr_t iso) { return iso == 0 || t_iso(t) == iso; }

task* pop_own(int s, std::intptr_t iso) {
  auto& p = slots[s].pool;
  for (size_t i = p.size(); i-- > 0;)
    if (matches(p[i], iso)) {
      task* t = p[i];
      p.erase(p.begin() + i);
      return t;
    }
  return nullptr;
}
int stealable_from(int v, std::intptr_t iso) {  // index of the oldest matching task or -1
  auto& p = slots[v].pool;
  for (size_t i = 0; i < p.size(); ++i)
    if (matches(p[i], iso)) return (int)i;
  return -1;
}
bool any_stealable(int s, std::intptr_t iso) {
  for (int v = 0; v < VS_MAX_THREADS; ++v)
    if (v != s && stealable_from(v, iso) >= 0) return true;
  return false;
}
task* steal(int s, std::intptr_t iso) {
  int victims[VS_MAX_THREADS], nv = 0;
  for (int v = 0; v < VS_MAX_THREADS; ++v)
    if (v != s && stealable_from(v, iso) >= 0) victims[nv++] = v;
  if (!nv) return nullptr;
  int v = victims[vs_choose(nv, "victim")];
  int i = stealable_from(v, iso);
  task* t = slots[v].pool[i];
  slots[v].pool.erase(slots[v].pool.begin() + i);
  ++g_steals;
  return t;
}

void run_task(task* t) {
  int s = me();
  std::intptr_t saved = slots[s].isolation;
  while (t) {
    TSAN_ACQUIRE(t);
    execution_data ed{t_ctx(t), (slot_id)t_orig(t), (slot_id)t_aff(t)};
    slots[s].isolation = t_iso(t);
    ++g_tasks;
    task* next = t->execute(ed);
    if (next) {
      // bypassed task: inherits the bookkeeping of a spawn by this thread
      if (!t_ctx(next)) t_ctx(next) = ed.context;
      t_iso(next) = slots[s].isolation;
      t_orig(next) = (std::uint64_t)s;
      t_aff(next) = d1::no_slot;
      TSAN_RELEASE(next);
    }
    t = next;
    slots[s].isolation = saved;
    tpoint("task-end");
  }
}

struct WaitArg {
  wait_context* w;
  int s;
  std::intptr_t iso;
};
int wait_pred(void* p) {
  WaitArg* a = (WaitArg*)p;
  if (a->w ? a->w->m_ref_count.load(std::memory_order_relaxed) == 0 : g_shutdown) return 1;
  if (stealable_from(a->s, a->iso) >= 0) return 1;  // something (re)appeared in the own pool
  return any_stealable(a->s, a->iso);
}

// run tasks until the wait context drains (w != null) or shutdown (worker)
void dispatch(wait_context* w) {
  int s = me();
  std::intptr_t iso = slots[s].isolation;
  for (;;) {
    if (w ? w->m_ref_count.load(std::memory_order_acquire) == 0 : g_shutdown) break;
    task* t = pop_own(s, iso);
    if (!t) {
      if (!vs_active()) {
        fprintf(stderr, "tbbrt: serial wait with an empty pool and pending references\n");
        abort();
      }
      WaitArg a{w, s, iso};
      vs_block(wait_pred, &a, w ? "wait" : "idle");
      if (w ? w->m_ref_count.load(std::memory_order_acquire) == 0 : g_shutdown) break;
      t = pop_own(s, iso);
      if (!t) t = steal(s, iso);
      if (!t) continue;
    }
    run_task(t);
  }
  if (w) TSAN_ACQUIRE(&w->m_ref_count);
}

void worker_main(void*) { dispatch(nullptr); }

void ensure_workers() {
  if (g_started || !vs_active()) return;
  g_started = true;
  for (int i = 1; i < g_workers; ++i) g_worker_tid[g_nworker_threads++] = vs_thread_create(worker_main, nullptr);
}

void prep(task& t, task_group_context& ctx, slot_id aff) {
  int s = me();
  t_ctx(&t) = &ctx;
  t_iso(&t) = slots[s].isolation;
  t_orig(&t) = (std::uint64_t)s;
  t_aff(&t) = aff;
}

}  // namespace

// ------------------------------------------------------------------ entry points
void spawn(task& t, task_group_context& ctx) {
  ensure_workers();
  prep(t, ctx, d1::no_slot);
  TSAN_RELEASE(&t);
  slots[me()].pool.push_back(&t);
  ++g_spawns;
  tpoint("spawn");
}
void spawn(task& t, task_group_context& ctx, slot_id id) {
  ensure_workers();
  prep(t, ctx, id);
  TSAN_RELEASE(&t);
  slots[me()].pool.push_back(&t);
  ++g_spawns;
  tpoint("spawn-affine");
}
void execute_and_wait(task& t, task_group_context& t_ctxt, wait_context& w, task_group_context&) {
  ensure_workers();
  prep(t, t_ctxt, d1::no_slot);
  TSAN_RELEASE(&t);
  tpoint("execute_and_wait");
  run_task(&t);
  dispatch(&w);
}
void wait(wait_context& w, task_group_context&) {
  ensure_workers();
  tpoint("wait");
  dispatch(&w);
}
slot_id execution_slot(const execution_data*) { return (slot_id)me(); }
void notify_waiters(std::uintptr_t) {}
task_group_context* current_context() { return nullptr; }

void* allocate(d1::small_object_pool*& pool, std::size_t bytes, const execution_data&) {
  pool = reinterpret_cast<d1::small_object_pool*>(std::uintptr_t(16));
  return std::malloc(bytes);
}
void* allocate(d1::small_object_pool*& pool, std::size_t bytes) {
  pool = reinterpret_cast<d1::small_object_pool*>(std::uintptr_t(16));
  return std::malloc(bytes);
}
void deallocate(d1::small_object_pool&, void* p, std::size_t, const execution_data&) { std::free(p); }
void deallocate(d1::small_object_pool&, void* p, std::size_t) { std::free(p); }
void* allocate_memory(std::size_t n) {
  void* p = std::malloc(n ? n : 1);
  if (!p) throw std::bad_alloc();
  return p;
}
void deallocate_memory(void* p) { std::free(p); }
void* cache_aligned_allocate(std::size_t n) {
  void* p = nullptr;
  if (posix_memalign(&p, 128, n ? n : 1)) throw std::bad_alloc();
  return p;
}
void cache_aligned_deallocate(void* p) { std::free(p); }
std::size_t cache_line_size() { return 128; }
bool is_tbbmalloc_used() { return false; }

int max_concurrency(const d1::task_arena_base*) { return g_concurrency; }
void isolate_within_arena(d1::delegate_base& d, std::intptr_t isolation) {
  int s = me();
  std::intptr_t saved = slots[s].isolation;
  slots[s].isolation = isolation ? isolation : reinterpret_cast<std::intptr_t>(&d);
  try {
    d();
  } catch (...) {
    slots[s].isolation = saved;
    throw;
  }
  slots[s].isolation = saved;
}

void initialize(task_group_context& ctx) {
  ctx.my_cancellation_requested.store(0, std::memory_order_relaxed);
  ctx.my_exception.store(nullptr, std::memory_order_relaxed);
}
void destroy(task_group_context&) {}
void reset(task_group_context& ctx) { ctx.my_cancellation_requested.store(0, std::memory_order_relaxed); }
bool cancel_group_execution(task_group_context& ctx) {
  return ctx.actual_context().my_cancellation_requested.exchange(1) == 0;
}
bool is_group_execution_cancelled(task_group_context& ctx) {
  return ctx.actual_context().my_cancellation_requested.load(std::memory_order_relaxed) != 0;
}
void capture_fp_settings(task_group_context&) {}

void initialize(d1::task_arena_base&) {}
void terminate(d1::task_arena_base&) {}
bool attach(d1::task_arena_base&) { return false; }
void execute(d1::task_arena_base&, d1::delegate_base& d) { d(); }
void wait(d1::task_arena_base&) {}
void enqueue(task&, d1::task_arena_base*) { abort(); }
void enqueue(task&, task_group_context&, d1::task_arena_base*) { abort(); }

void throw_exception(d0::exception_id id) {
  fprintf(stderr, "tbbrt: tbb exception id %d\n", (int)id);
  throw std::runtime_error("tbb exception");
}

}  // namespace r1
}  // namespace detail
}  // namespace tbb

// ------------------------------------------------------------------ harness side
extern "C" {
void tbbrt_config(int workers, int concurrency) {
  tbb::detail::r1::g_workers = workers < 1 ? 1 : workers;
  tbb::detail::r1::g_concurrency = concurrency < 1 ? 1 : concurrency;
}
void tbbrt_task_points(int always) { tbb::detail::r1::g_always_task_points = always != 0; }
// forget everything about the previous execution (in-process exploration)
void tbbrt_reset(void) {
  using namespace tbb::detail::r1;
  for (auto& s : slots) {
    s.pool.clear();
    s.isolation = 0;
  }
  g_started = g_shutdown = false;
  g_nworker_threads = 0;
  g_steals = g_tasks = g_spawns = 0;
}
// must be called by the main thread at the end of an execution under the scheduler
void tbbrt_shutdown(void) {
  using namespace tbb::detail::r1;
  if (!g_started) return;
  g_shutdown = true;
  for (int i = 0; i < g_nworker_threads; ++i) vs_thread_join(g_worker_tid[i]);
}
void tbbrt_stats(uint64_t* tasks, uint64_t* spawns, uint64_t* steals) {
  using namespace tbb::detail::r1;
  *tasks = g_tasks;
  *spawns = g_spawns;
  *steals = g_steals;
}
}
