CHECK = dict(
    level="model_checking", engine="S",
    technique=("explicit-state exploration of C API programs (depth 1 and 2 over a typed object pool) executed on the real binding and mirrored call for call in C++; "
               "results compared bit for bit through the C getters; every life-cycle order x storage mode enumerated under ASan/UBSan with a live-byte leak counter"),
    level_text=("A table holds one or more rows for each of the 245 value-producing functions exported by manifoldc.h (423 rows: the C call with a small asymmetric "
                "argument tuple, and the C++ call it names); the remaining 53 exported functions (13 x size/alloc/destruct/delete + manifold_manifold_pair_size) are "
                "driven for every object of every case.  The header is embedded at build time and parsed: an exported function that is neither a row nor listed as "
                "not-driven is a violation coverage:<function>.  A program runs twice: in the 'C world' only through the C API, on objects constructed into storage of "
                "exactly manifold_X_size() bytes (malloc) or into manifold_alloc_X() storage, and in the 'C++ world' on ordinary C++ objects; the two never share an "
                "object.  Oracle: returned scalars/structs bit-equal; every result object and, after the call, every input object observed through the C getters "
                "(status via by-name enum tables, all MeshGL64 arrays with run IDs up to order-preserving renaming, polygons point by point, boxes/rects field-wise, "
                "vectors element-wise, ray hits, execution contexts) equals the C++ object's members; constructors return exactly the caller storage; callbacks "
                "(warp, cross_section_warp_context, set_properties, level_set x4, write_obj x2) receive exactly the user pointer and are invoked equally often; "
                "manifold_X_size() == sizeof of the stored C++ type; conv.cpp's enum switch tables equal the by-name tables (white box).  Every object is destroyed "
                "exactly once (destruct_X + free, or delete_X); the life-cycle phase enumerates every destruction order x every storage-mode assignment x "
                "{inputs destroyed before / after the lazily evaluated result is first used} and requires ASan's live-byte counter to return to its start value."),
    level_note=("Trusted: compiler, ASan/UBSan, the ~300 lines of observation code in harness/C20.cpp, and that the C getters used for observation are themselves rows of the "
                "table (each is compared with the C++ member on every pool object). Bound: the argument tuples and the typed pool in harness/C20.cpp "
                "(8 manifolds incl. empty/invalid/lazy Boolean, 5 cross sections, 8+5 meshes incl. malformed ones, 4 simple polygons, 5 polygon sets, 4 boxes, 4 rects, "
                "3+3 vectors, 2 triangulations, 3 ray-hit vectors, 2 execution contexts); depth <= 2. Calls whose documented preconditions fail (normalIdx beyond "
                "numProp, inconsistent run vectors on import, out-of-range triangle indices for Merge/WriteOBJ, non-epsilon-valid polygons for Triangulate) are "
                "skipped in both worlds: what the C++ library does there is C09/C10's subject. A crash inside the C++ mirror is reported with the suffix "
                "'[in the C++ mirror]' and is a library defect, not a binding defect."),
    runs=[S("seq-asan", quick=600, thorough=2400, workers=8, case_timeout=120),
          S("seq-fast", quick=150, thorough=900, workers=8, case_timeout=60)],
    rule=("phases: coverage (one case per exported function), sizes (13 types + pair), enums (15+3+4 enumerators), pool (every seed object, both storage modes, leak-checked), "
          "d1 (every row x every combination of compatible pool objects), d2 (every pair of rows in which an input of the second has the type of a result of the first, "
          "over the first K pool entries for the first call's inputs), lifecycle (per function: k! destruction orders x 2^k storage modes x 2 evaluation orders for its "
          "k <= 4 live objects, C side executed twice, live bytes compared), empty-arrays (the 21 array getters on an object whose array is empty). "
          "distinct = distinct (function, observed result) pairs; non-trivial = the result is a scalar, or a non-empty object. "
          "The seq-fast run repeats the value comparison against the optimised library (no leak counter there)."),
    bounds=dict(quick="d1 all 423 rows; d2 pairs in which both calls (ASan) / at least one call (seq-fast) use the first argument tuple of their function, K=2; "
                      "lifecycle on the first argument tuple of each of the 245 functions",
                thorough="d2 all row pairs with every pool entry as input of the first call; lifecycle on all 423 rows"),
    assumptions=COMMON_ASSUME + [
        "mesh IDs are compared up to order-preserving renaming; manifold_original_id relative to a fresh manifold_reserve_ids(1)",
        "a client does not fetch an array whose advertised length is 0 (the getters' behaviour there is checked separately by the phase empty-arrays)",
        "merge_from_vert / merge_to_vert of the *_w_options constructors are given together or not at all (they share one length field and one length getter)",
        "without ASan (seq-fast) there is no exact live-byte counter: leaks are judged in the seq-asan run only",
    ],
)
