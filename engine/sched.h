// Cooperative scheduler (engine C): real OS threads, exactly one runnable at a
// time, every scheduling decision taken from a choice sequence supplied by the
// explorer.  C linkage so the (uninstrumented) scheduler TU and instrumented
// code can share it.
#pragma once
#include <stdint.h>

#ifdef __cplusplus
extern "C" {
#endif

typedef int (*vs_pred)(void* arg);

enum { VS_MAX_THREADS = 8, VS_MAX_TRACE = 1 << 16, VS_OUT_LEN = 8192 };

// One record per choice point with >= 2 options.
struct vs_choice_rec {
  uint16_t n;         // number of options
  uint8_t preempt;    // 1 if option 0 was "keep running the current thread" (so any other option is a preemption)
  uint8_t chosen;     // option taken
  const char* tag;    // static string naming the scheduling point (valid in the forking parent too)
};

// Shared between the explorer (parent) and one execution (forked child).
struct vs_shared {
  // input
  int32_t prefix_len;
  uint8_t prefix[VS_MAX_TRACE];
  // output
  int32_t trace_len;
  struct vs_choice_rec trace[VS_MAX_TRACE];
  int32_t trace_overflow;
  int32_t status;  // 0 running/crashed, 1 finished, 2 deadlock, 3 divergence while replaying the prefix
  uint64_t points;  // scheduling points passed (with or without a choice)
  uint64_t user[4];  // tasks, spawns, steals (filled by the explorer's child), spare
  char outcome[VS_OUT_LEN];
  char note[512];
};

void vs_begin(struct vs_shared* sh);   // call in the child, on the main thread, before anything else
void vs_end(void);                     // main thread: all other threads must have finished
int vs_active(void);                   // scheduler running and the calling thread is registered
int vs_self(void);
int vs_thread_create(void (*fn)(void*), void* arg);  // returns thread index; the new thread is runnable but does not run yet
void vs_thread_join(int tid);
void vs_point(const char* tag);                       // scheduling point
void vs_block(vs_pred p, void* arg, const char* tag); // disabled until p(arg) != 0; re-evaluated at every point
int vs_choose(int n, const char* tag);                // free (non-preemptive) n-way choice
uint64_t vs_points(void);
void vs_note_race(void);                              // called from __tsan_on_report: counted in vs_shared.user[3]

#ifdef __cplusplus
}
#endif
