CHECK = dict(
    level="fault_enumeration", engine="S/F",
    technique="structure-aware exhaustive input-fault enumeration: every listed value class written to every position of every field of small valid MeshGL seeds (singly; thorough: all pairs on the smallest seed), and numeric-argument alphabets on every scalar parameter, followed by a fixed program of consuming operations; ASan/UBSan, exception guard and CPU watchdog as oracles",
    level_text=("Seeds: tetrahedron; cube with 2 property channels, 2 runs with reserved IDs / transforms / back-side flag, face IDs, merge vectors, tolerance; smoothed tetrahedron with "
                "tangents - each as MeshGL64 and MeshGL. Mutations: per vector field pop/push/clear/halve/+-stride, and every entry := each of NaN, +-Inf, 1e308, denormal, -0 "
                "(floats) resp. 0, n-1, n, n+1, 2^31, 2^32, max (indices), run table values {0,1,3,end-3,end,end+3,2^31,max}, flags 0..3/255, numProp in {0,1,2,3,4,7,2^31,max}, "
                "tolerance in {NaN,Inf,-1,1e308}, plus structural ones. After import: Translate, +/-/^ Cube, Refine, Hull, Simplify, Split, SplitByPlane, MinkowskiSum, SmoothOut+Refine, "
                "CalculateNormals, AsOriginal, BatchBoolean, Decompose, the queries, and MeshGL::Merge() on the raw mutated mesh. Arguments: {NaN,+-Inf,0,-1,+-1e308,5e-324,1e-300} and "
                "{0,-1,1,2,-2,INT_MIN,INT_MAX,100000} on every scalar parameter of the constructors, transforms, refinement/smoothing/simplification, plane ops, queries, Quality, "
                "CrossSection and Triangulate; degenerate polygon and point sets; malformed OBJ text. Oracle: the call returns (20 s CPU), no sanitizer report, no exception escapes, "
                "every result is NoError + closed manifold (lib/topo.h) or a specific error + empty, and an error status survives every consuming operation."),
    level_note="Trusted: compiler, ASan/UBSan (allocations above 1 GB fail fast and surface as bad_alloc = 'throws'), lib/topo.h. This is enumeration of the listed value classes at every position, not 'all byte-level mutations'.",
    runs=[S("seq-asan", quick=900, thorough=3600, workers=8, case_timeout=20,
            env={"ASAN_OPTIONS": "detect_leaks=0:halt_on_error=1:allocator_may_return_null=1:max_allocation_size_mb=1024:quarantine_size_mb=8:malloc_context_size=0"})],
    rule="cases = (seed, precision, single mutation) resp. (mutation pair) resp. one argument value at one parameter; distinct = cases; all are non-trivial by construction (each differs from a valid input in exactly the named way).",
    bounds=dict(quick="all single mutations of 3 seeds x 2 precisions (about 7000 cases x 18 follow-ups), about 1100 argument cases",
                thorough="adds all ordered pairs of single mutations of the tetrahedron seed"),
    assumptions=COMMON_ASSUME,
)
