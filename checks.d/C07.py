CHECK = dict(
    level="model_checking", engine="S",
    technique=("explicit enumeration of ALL API programs up to the depth bound over information-carrying originals, executed on the real library "
               "(lazy and forced intermediates); every exported result is judged triangle by triangle and corner by corner against the harness's own "
               "source meshes by a long-double provenance oracle (run structure, run transform, source-face distance, orientation, affine property field)"),
    level_text=("Originals: a cube imported as MeshGL64 with a reserved original ID, 3 affine channels a_i.x+b_i plus one per-vertex channel and a face ID per "
                "triangle; the same cube with face IDs grouping the two triangles of each side; a tetrahedron with 1 channel and user face IDs; a 4-segment "
                "sphere (octahedron) with a reserved ID, 2 per-vertex channels and NO face IDs; a property-less Manifold::Cube; a two-run (two reserved IDs) "
                "cube with 1 channel. Steps: + - (both operand orders) ^ Split.first Split.second against every original under general-position rigid, "
                "mirrored (Mirror, negative Scale), non-uniformly scaled, identity (coincident) and far-away (disjoint: Compose path) placements, "
                "BatchBoolean with two further operands, whole-object transforms, Refine(2), AsOriginal. Every program of the alphabet up to the depth "
                "bound is run twice (lazily combined / every intermediate forced). Oracle on the final GetMeshGL64: runIndex one longer than runOriginalID, "
                "0-based, non-decreasing, multiples of 3, ending at 3*numTri; non-empty runs sorted by original ID, empty runs trailing; every run names an "
                "original of the program (after AsOriginal only the new one) and its runTransform equals, to 1e-9, the transform the program applied to one "
                "instance of that original (composed by the oracle in long double); with T that transform, every vertex of every triangle lies within "
                "2*tolerance of the union of the T-images of the source triangles carrying the triangle's faceID (user face IDs: the harness's input mesh; "
                "none given: the coplanar groups the library publishes in the leaf's own export), the triangle's normal has positive dot product with "
                "s*T^-T n (s=-1 iff runFlags bit 0; mirrored T does not flip: the reference is the orientation of the transformed solid), every property "
                "value equals the least-squares affine field of the source face at T^-1(position) within 4*tolerance*|T^-1|*|gradient| wherever that fit is "
                "exact (affine across the face), and channels the source lacks are exactly 0."),
    level_note=("Trusted: compiler, lib/solid.h point/triangle distance, ~250 lines of long-double affine algebra and least-squares fit in harness/C07.cpp. "
                "Bound: the alphabets and depths below; tolerance = the tolerance field of the exported MeshGL64; triangles with an altitude below "
                "8*tolerance have no judged orientation; results with an error Status have no mesh and are only counted (none occurred). "
                "Two genuine defect families are reached at depth 2 (see findings/C07.md): Booleans whose operands contain exactly coincident instances, and "
                "Refine after a disjoint union (Compose)."),
    runs=[S("seq-fast", quick=1800, thorough=7200, workers=16, case_timeout=120),
          S("seq-asan", quick=600, thorough=600, workers=8, case_timeout=300, args=["--small"])],
    rule=("program = seed operand, then <= depth steps, then mode (lazy | forced); phases depth0, depth1, depth2 (and deep3 in the thorough tier) each "
          "enumerate seeds x steps^depth x 2. transitions = steps executed; states/distinct = byte-distinct exported results (IDs up to order-preserving "
          "renaming); non-trivial = results with at least two non-empty runs (triangles of >= 2 original instances to attribute)."),
    bounds=dict(
        quick=("9 seeds (7 originals at identity incl. a pyramid whose property seams end at its apex, cubeTri and octa mirrored) x 118 steps, every per-step forcing mask (2 / 4 / 8 at depth 0 / 1 / 2: 18 + 4,248 + 1,002,528 programs; the numbers that follow describe the step alphabet before the pyramid was added) ( (3 transforms, Refine(2), AsOriginal, {+,-,rsub,^} x 6 originals x "
               "{rigid, mirror, scale}, Split.first/second x 6 originals mirrored, + with 3 far operands, {+,-,^} x 2 coincident operands, 6 BatchBoolean) "
               "to depth 2: 16 + 1,664 + 173,056 programs. ASan run: 10 seeds x 69 steps to depth 1"),
        thorough=("18 seeds x 211 steps (5 transforms incl. negative scale, Refine(2), AsOriginal, 6 binary kinds x 6 originals x 5 placements, +/- far, "
                  "12 BatchBoolean) to depth 2 (1.6M programs) and 8 seeds x 44 steps to depth 3 (1.36M programs)")),
    assumptions=COMMON_ASSUME + [
        "'within tolerance' is read as 2 x the tolerance of the exported result for positions and 4 x tolerance x |T^-1| x |gradient| (+1e-13 of the value scale) for property values; observed errors are bimodal (below a quarter of the slack or macroscopic), so the constants do not decide any verdict",
        "for originals without user face IDs the faces are the coplanar groups (faceID labels) of the leaf's own GetMeshGL64 export; the export is checked to be the input triangle soup",
        "a face whose source triangles are not consistently oriented (coplanar group of a zero-thickness sheet after AsOriginal) accepts the orientation of any of its triangles",
        "originals that contribute no triangle are allowed, not required, to appear as trailing empty runs",
    ],
)
