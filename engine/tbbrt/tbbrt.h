// Harness-side control of the replacement TBB runtime.
#pragma once
#include <stdint.h>
#ifdef __cplusplus
extern "C" {
#endif
void tbbrt_config(int workers, int concurrency);
void tbbrt_task_points(int always);  // 1: spawn/wait/task-end are scheduling points even with a single modelled TBB thread
void tbbrt_shutdown(void);
void tbbrt_reset(void);
void tbbrt_stats(uint64_t* tasks, uint64_t* spawns, uint64_t* steals);
#ifdef __cplusplus
}
#endif
