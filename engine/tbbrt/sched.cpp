// Cooperative scheduler, see engine/sched.h.  This TU is compiled WITHOUT
// -fsanitize=thread in the TSan variant and hands the baton over with raw
// futexes, so that the serialisation it imposes is invisible to the race
// detector (a race is judged by the program's own happens-before).
#include "engine/sched.h"

#include <errno.h>
#include <linux/futex.h>
#include <pthread.h>
#include <stdio.h>
#include <stdlib.h>
#include <string.h>
#include <sys/syscall.h>
#include <unistd.h>

namespace {

enum State { UNUSED = 0, RUNNABLE, BLOCKED, FINISHED };

struct Thread {
  bool joined;
  bool alive;       // an OS thread exists for this slot and is parked between executions (thread reuse)
  volatile int go;  // futex word
  State st;
  vs_pred pred;
  void* parg;
  const char* tag;
  pthread_t pt;
  void (*fn)(void*);
  void* farg;
};

Thread T[VS_MAX_THREADS];
int nthreads = 0;
volatile int cur = -1;
vs_shared* SH = nullptr;
bool active = false;
__thread int my_tid = -1;

long futex(volatile int* addr, int op, int val) { return syscall(SYS_futex, addr, op, val, nullptr, nullptr, 0); }

void wake(int t) {
  __atomic_store_n(&T[t].go, 1, __ATOMIC_SEQ_CST);
  futex(&T[t].go, FUTEX_WAKE, 1);
}
void park(int t) {
  while (__atomic_load_n(&T[t].go, __ATOMIC_SEQ_CST) == 0) futex(&T[t].go, FUTEX_WAIT, 0);
  __atomic_store_n(&T[t].go, 0, __ATOMIC_SEQ_CST);
}

[[noreturn]] void die(int status, const char* why) {
  if (SH) {
    SH->status = status;
    snprintf(SH->note, sizeof SH->note, "%s", why);
  }
  fprintf(stderr, "scheduler: %s\n", why);
  _exit(status == 2 ? 72 : 73);
}

int take_choice(int n, bool preempt, const char* tag) {
  int idx = SH->trace_len;
  int c = 0;
  if (idx < SH->prefix_len) {
    c = SH->prefix[idx];
    if (c >= n) die(3, "divergence: recorded choice out of range while replaying the prefix");
  }
  if (idx < VS_MAX_TRACE) {
    SH->trace[idx].n = (uint16_t)n;
    SH->trace[idx].preempt = preempt;
    SH->trace[idx].chosen = (uint8_t)c;
    SH->trace[idx].tag = tag;
    SH->trace_len = idx + 1;
  } else {
    SH->trace_overflow = 1;
  }
  return c;
}

// pick the next thread to run; the caller has already updated its own state
void reschedule(int self) {
  SH->points++;
  int en[VS_MAX_THREADS], ne = 0;
  bool selfEnabled = false;
  auto enabled = [&](int t) {
    if (T[t].st == RUNNABLE) return true;
    if (T[t].st == BLOCKED) return T[t].pred(T[t].parg) != 0;
    return false;
  };
  if (self >= 0 && enabled(self)) {
    en[ne++] = self;
    selfEnabled = true;
  }
  for (int t = 0; t < nthreads; ++t)
    if (t != self && enabled(t)) en[ne++] = t;
  if (ne == 0) {
    char buf[400];
    int o = snprintf(buf, sizeof buf, "deadlock: no enabled thread;");
    for (int t = 0; t < nthreads; ++t)
      if (T[t].st == BLOCKED) o += snprintf(buf + o, sizeof buf - o, " t%d blocked at %s;", t, T[t].tag ? T[t].tag : "?");
    die(2, buf);
  }
  int next = en[0];
  if (ne > 1) next = en[take_choice(ne, selfEnabled, self >= 0 ? T[self].tag : "exit")];
  if (T[next].st == BLOCKED) T[next].st = RUNNABLE;
  if (next == self) return;
  cur = next;
  // decide BEFORE handing over: once `next` runs it may start a new execution and recycle this slot
  const bool parkSelf = self >= 0 && T[self].st != FINISHED;
  wake(next);
  if (parkSelf) park(self);
}

#ifdef TBBRT_TSAN
extern "C" void __tsan_acquire(void* addr);
extern "C" void __tsan_release(void* addr);
#define SCHED_ACQUIRE(p) __tsan_acquire((void*)(p))
#define SCHED_RELEASE(p) __tsan_release((void*)(p))
#else
#define SCHED_ACQUIRE(p) ((void)0)
#define SCHED_RELEASE(p) ((void)0)
#endif

// OS threads are created once per slot and reused by later executions of the same process (clone()
// is expensive in this sandbox).  The start and join edges the program has are told to the race
// detector explicitly, since no pthread_create/pthread_join happens per execution.
void* trampoline(void* p) {
  int t = (int)(intptr_t)p;
  my_tid = t;
  for (;;) {
    park(t);  // woken when scheduled for the first time in an execution
    SCHED_ACQUIRE(&T[t].fn);
    T[t].fn(T[t].farg);
    SCHED_RELEASE(&T[t].st);
    T[t].st = FINISHED;
    reschedule(t);
  }
  return nullptr;
}

}  // namespace

extern "C" void vs_mutex_reset(void);  // engine/tbbrt/interpose.cpp (also forces that member to be linked)

extern "C" {

void vs_begin(vs_shared* sh) {
  vs_mutex_reset();
  SH = sh;
  for (int t = 0; t < VS_MAX_THREADS; ++t) {
    T[t].st = UNUSED;
    T[t].joined = false;
    T[t].pred = nullptr;
    T[t].go = 0;
  }
  nthreads = 1;
  T[0].st = RUNNABLE;
  my_tid = 0;
  cur = 0;
  SH->trace_len = 0;
  SH->status = 0;
  SH->points = 0;
  active = true;
}

void vs_end(void) {
  for (int t = 1; t < nthreads; ++t)
    if (T[t].st != FINISHED) die(3, "vs_end with unfinished threads");
  active = false;
  if (SH->trace_len < SH->prefix_len) die(3, "divergence: execution ended before the prefix was consumed");
  SH->status = 1;
}

int vs_active(void) { return active && my_tid >= 0; }
int vs_self(void) { return my_tid; }
uint64_t vs_points(void) { return SH ? SH->points : 0; }

int vs_thread_create(void (*fn)(void*), void* arg) {
  if (nthreads >= VS_MAX_THREADS) die(3, "too many threads");
  int t = nthreads++;
  T[t].st = RUNNABLE;
  T[t].fn = fn;
  T[t].farg = arg;
  T[t].go = 0;
  SCHED_RELEASE(&T[t].fn);
  if (!T[t].alive) {
    pthread_attr_t a;
    pthread_attr_init(&a);
    pthread_attr_setstacksize(&a, 8 << 20);
    pthread_attr_setdetachstate(&a, PTHREAD_CREATE_DETACHED);
    if (pthread_create(&T[t].pt, &a, trampoline, (void*)(intptr_t)t) != 0) die(3, "pthread_create failed");
    T[t].alive = true;
  }
  return t;
}

static int finished_pred(void* p) { return T[(int)(intptr_t)p].st == FINISHED; }

void vs_thread_join(int tid) {
  vs_block(finished_pred, (void*)(intptr_t)tid, "join");
  SCHED_ACQUIRE(&T[tid].st);  // the join edge of the program (threads are reused, there is no pthread_join)
}
void vs_note_race(void) {
  if (SH) SH->user[3]++;
}

void vs_point(const char* tag) {
  if (!vs_active()) return;
  T[my_tid].tag = tag;
  reschedule(my_tid);
}

void vs_block(vs_pred p, void* arg, const char* tag) {
  if (!vs_active()) return;
  int s = my_tid;
  T[s].pred = p;
  T[s].parg = arg;
  T[s].tag = tag;
  T[s].st = BLOCKED;
  reschedule(s);
  T[s].st = RUNNABLE;
}

int vs_choose(int n, const char* tag) {
  (void)tag;
  if (!vs_active() || n <= 1) return 0;
  return take_choice(n, false, tag);
}

}  // extern "C"
