// C18 - measurements and queries agree with their brute-force definitions.
//
// Engine S.  A pool of epsilon-valid objects in general position is built by
// exhaustive enumeration over a small operation alphabet (see buildPool); every
// measurement / query of the public API is then executed on every object (or on
// every member of a stated sub-family for the expensive ones) over a fixed query
// alphabet, and judged by brute-force code that only sees the GetMeshGL64
// export: long-double sums, all-triangle loops, all-triangle-pair loops.
//
// Phases (sizes: quick / thorough; see TIER and main)
//   measure   one case per object: Volume, SurfaceArea, BoundingBox, count
//             getters, Genus, WindingNumber (64+343 / 64+1331 points), Slice
//             (7 heights x 144 / 576 samples), Project (256 / 1024 samples),
//             Decompose
//   raycast   one case per object: every ordered pair of the 64 / 216 lattice
//             points (4032 / 46440 segments)
//   mingap    one case per ordered pair of the 48 / 144 placed objects, three
//             search lengths each
#include <cfloat>
#include <cmath>
#include <map>
#include <set>
#include <sstream>

#include "engine/runner.h"
#include "lib/alphabet.h"
#include "lib/canon.h"
#include "lib/geom2.h"
#include "lib/solid.h"
#include "lib/topo.h"
#include "manifold/cross_section.h"
#include "manifold/manifold.h"

using namespace manifold;
using namespace vf;
typedef long double LD;

// sizes of the query alphabets (set once in main from the tier)
static struct Tier {
  int nRay = 4;    // ray lattice: nRay^3 points, every ordered pair
  int nWind = 7;   // second (finer) WindingNumber lattice
  int nSlice = 12; // samples per slice: nSlice^2
  int nProj = 16;  // samples for Project: nProj^2
} TIER;

// ------------------------------------------------------------------ helpers
static V3 toV3(const vec3& p) { return {(LD)p.x, (LD)p.y, (LD)p.z}; }
static std::string fmt(double v) {
  char b[40];
  snprintf(b, sizeof b, "%.17g", v);
  return b;
}
static std::string fmt3(const vec3& p) { return "(" + fmt(p.x) + "," + fmt(p.y) + "," + fmt(p.z) + ")"; }
static LD clamp01(LD t) { return t < 0 ? 0 : (t > 1 ? 1 : t); }

// distance between the closed segments p1q1 and p2q2 (Ericson 5.1.9, long double; the four
// endpoint/segment distances are folded in so near-parallel pairs stay accurate)
static LD segSegDist(V3 p1, V3 q1, V3 p2, V3 q2) {
  V3 d1 = q1 - p1, d2 = q2 - p2, r = p1 - p2;
  LD a = dot(d1, d1), e = dot(d2, d2), f = dot(d2, r);
  LD best = std::min(std::min(distPointSeg(p1, p2, q2), distPointSeg(q1, p2, q2)),
                     std::min(distPointSeg(p2, p1, q1), distPointSeg(q2, p1, q1)));
  if (a > 0 && e > 0) {
    LD c = dot(d1, r), b = dot(d1, d2), den = a * e - b * b;
    if (den > 0) {
      LD s = clamp01((b * f - c * e) / den);
      LD t = (b * s + f) / e;
      if (t < 0) {
        t = 0;
        s = clamp01(-c / a);
      } else if (t > 1) {
        t = 1;
        s = clamp01((b - c) / a);
      }
      best = std::min(best, norm((p1 + s * d1) - (p2 + t * d2)));
    }
  }
  return best;
}

// Moeller-Trumbore, long double.  Returns true iff the open segment o->e crosses the open triangle abc
// transversally; *t is the parameter along the segment.  No tolerances: callers only use the answer for
// segments they have shown to stay `margin` away from every triangle edge and whose ends are off the surface.
static bool segTriProper(V3 o, V3 e, V3 a, V3 b, V3 c, LD* t, LD* uu = nullptr, LD* vv = nullptr) {
  V3 d = e - o, e1 = b - a, e2 = c - a;
  V3 pv = cross(d, e2);
  LD det = dot(e1, pv);
  if (det == 0) return false;
  V3 tv = o - a;
  LD u = dot(tv, pv) / det;
  V3 qv = cross(tv, e1);
  LD v = dot(d, qv) / det;
  LD tt = dot(e2, qv) / det;
  if (t) *t = tt;
  if (uu) *uu = u;
  if (vv) *vv = v;
  return u > 0 && v > 0 && u + v < 1 && tt > 0 && tt < 1;
}

// ------------------------------------------------------------------ objects
struct Obj {
  std::string name;
  Manifold m;
  MeshGL64 g;
  Soup soup;  // export order, 3 corners per triangle
  Topo topo;
  std::vector<int> triComp;  // brute-force component label per exported triangle
  int comps = 0, handles = 0;
  double scale = 1;  // largest |coordinate|
  vec3 lo, hi;       // tight box of the exported vertices
  std::vector<V3> cen;  // per triangle centroid / radius (pruning only)
  std::vector<LD> rad;
  size_t nTri() const { return soup.size(); }
};

// connected components of the exported surface: union-find over triangles that share a vertex after merging
static int labelComponents(const MeshGL64& g, const Topo& t, std::vector<int>& triComp) {
  size_t nv = t.rep.size(), nt = g.triVerts.size() / 3;
  std::vector<size_t> p(nv);
  for (size_t i = 0; i < nv; ++i) p[i] = i;
  auto find = [&](size_t x) {
    while (p[x] != x) {
      p[x] = p[p[x]];
      x = p[x];
    }
    return x;
  };
  for (size_t tr = 0; tr < nt; ++tr) {
    size_t a = find(t.rep[g.triVerts[3 * tr]]);
    for (int k = 1; k < 3; ++k) {
      size_t b = find(t.rep[g.triVerts[3 * tr + k]]);
      if (a != b) p[b] = a;
    }
  }
  std::map<size_t, int> id;
  triComp.resize(nt);
  for (size_t tr = 0; tr < nt; ++tr) {
    size_t r = find(t.rep[g.triVerts[3 * tr]]);
    auto it = id.find(r);
    if (it == id.end()) it = id.insert({r, (int)id.size()}).first;
    triComp[tr] = it->second;
  }
  return (int)id.size();
}

static bool fillObj(Obj& o) {
  o.g = o.m.GetMeshGL64();
  o.topo = checkTopo(o.g);
  if (!o.topo.ok) return false;
  o.soup = soupOf(o.g);
  o.comps = labelComponents(o.g, o.topo, o.triComp);
  // chi = 2*comps - 2*handles
  int chi = (int)o.topo.nVert - (int)o.topo.nEdge + (int)o.topo.nTri;
  o.handles = o.comps - chi / 2;
  size_t np = o.g.numProp, nv = o.g.vertProperties.size() / np;
  o.lo = vec3(INFINITY);
  o.hi = vec3(-INFINITY);
  for (size_t v = 0; v < nv; ++v)
    for (int k = 0; k < 3; ++k) {
      double x = o.g.vertProperties[v * np + k];
      o.lo[k] = std::min(o.lo[k], x);
      o.hi[k] = std::max(o.hi[k], x);
    }
  o.scale = 0;
  for (int k = 0; k < 3; ++k) o.scale = std::max(o.scale, std::max(std::fabs(o.lo[k]), std::fabs(o.hi[k])));
  o.cen.resize(o.nTri());
  o.rad.resize(o.nTri());
  for (size_t t = 0; t < o.nTri(); ++t) {
    V3 a = o.soup.tri[3 * t], b = o.soup.tri[3 * t + 1], c = o.soup.tri[3 * t + 2];
    V3 g = (1.0L / 3) * (a + b + c);
    o.cen[t] = g;
    o.rad[t] = std::max(norm(a - g), std::max(norm(b - g), norm(c - g)));
  }
  return true;
}

// the 6 generic rigid motions of harness/C02.cpp makeLeaves()
static Manifold rigid(const Manifold& m, int t) {
  return m.Rotate(17.0 * t, 31.0 * (t + 1), 47.0 * (t + 2))
      .Translate({0.31 * (t - 2), 0.17 * ((t * 2) % 5 - 2), 0.23 * ((t * 3) % 4 - 1)});
}

struct PoolStats {
  int candidates = 0, rejStatus = 0, rejEmpty = 0, rejC01 = 0, rejComps = 0, rejHandles = 0, rejSize = 0, rejDup = 0;
};
static const size_t kMaxTri = 1600;

static std::vector<Obj> buildPool(PoolStats& st, int level) {
  std::vector<Obj> pool;
  std::set<uint64_t> seen;
  auto admit = [&](const std::string& name, const Manifold& m) {
    ++st.candidates;
    if (m.Status() != Manifold::Error::NoError) {
      ++st.rejStatus;
      return;
    }
    if (m.IsEmpty()) {
      ++st.rejEmpty;
      return;
    }
    if (!checkManifoldC01(m).empty()) {
      ++st.rejC01;
      return;
    }
    Obj o;
    o.name = name;
    o.m = m;
    if (!fillObj(o)) {
      ++st.rejC01;
      return;
    }
    if (o.comps < 1 || o.comps > 3) {
      ++st.rejComps;
      return;
    }
    if (o.handles < 0 || o.handles > 3) {
      ++st.rejHandles;
      return;
    }
    if (o.nTri() > kMaxTri) {
      ++st.rejSize;
      return;
    }
    if (!seen.insert(byteHash(o.g, false)).second) {
      ++st.rejDup;
      return;
    }
    pool.push_back(std::move(o));
  };
  std::vector<Seed> S;
  for (auto& s : seeds())
    if (!s.degenerate) S.push_back(s);
  // (1) every non-degenerate seed under every rigid motion
  for (size_t i = 0; i < S.size(); ++i) {
    Manifold base = S[i].make();
    for (int t = 0; t < 6; ++t) admit(S[i].name + "#T" + std::to_string(t), rigid(base, t));
  }
  // (2) depth-1 Booleans: A = x#T1, B = y#T4 for all ordered (x,y) over 8 seeds, all three operations
  // level 0 (ASan subset): the first 8 seeds; level 1 (quick): the first 15; level 2 (thorough): all 21.  Names never depend on
  // the level, so a key of a smaller level is a key of every larger one.
  static const char* BIN[21] = {"Tet",       "Cube123c", "Octa",    "Prism3", "ExtLtwist", "ExtRing",    "RevTorus",
                                "TwoComp",   "Cube",     "Sphere8", "Cone4",  "Pyramid",   "RevWedge90", "HullPts",
                                "CubeProps", "LsSphere", "ExtSq",   "RevCross", "LsTwo",   "SmoothTet",  "ImportProps"};
  std::vector<const Seed*> bs;
  for (auto n : std::vector<const char*>(BIN, BIN + (level == 0 ? 8 : level == 1 ? 15 : 21)))
    for (auto& s : S)
      if (s.name == n) bs.push_back(&s);
  static const char* OPN[3] = {"+", "-", "^"};
  static const OpType OPS[3] = {OpType::Add, OpType::Subtract, OpType::Intersect};
  for (auto x : bs)
    for (auto y : bs) {
      Manifold a = rigid(x->make(), 1), b = rigid(y->make(), 4);
      for (int o = 0; o < 3; ++o)
        admit("(" + x->name + "#T1 " + OPN[o] + " " + y->name + "#T4)", a.Boolean(b, OPS[o]));
    }
  // (2b) unions of bounding-box-disjoint parts that still carry an unapplied rotation: evaluated by Compose, which starts
  // from conservative boxes of the lazily transformed children - the measured box must be the tight one all the same
  for (auto x : bs)
    for (auto y : bs) {
      if ((x - bs.front() + y - bs.front()) % 3 != 0 && level < 2) continue;  // quick: a third of the ordered pairs
      admit("(" + x->name + "#T1 + " + y->name + "#T4.far)", rigid(x->make(), 1) + rigid(y->make(), 4).Translate({9, 0.5, -0.25}));
    }
  // (3) depth-1 unary results of every seed, then one rigid motion
  struct U {
    const char* name;
    std::function<Manifold(const Manifold&)> f;
  };
  std::vector<U> un = {
      {"Refine(2)", [](const Manifold& m) { return m.Refine(2); }},
      {"Scale(-1,1,1)", [](const Manifold& m) { return m.Scale({-1, 1, 1}); }},
      {"Scale(.7,-1.3,1.1)", [](const Manifold& m) { return m.Scale({0.7, -1.3, 1.1}); }},
      {"Mirror(1,1,0)", [](const Manifold& m) { return m.Mirror({1, 1, 0}); }},
  };
  for (size_t i = 0; i < S.size(); ++i) {
    Manifold base = S[i].make();
    for (size_t u = 0; u < un.size(); ++u) {
      int t = (int)((i + 2 * u) % 6);
      admit(S[i].name + "." + un[u].name + "#T" + std::to_string(t), rigid(un[u].f(base), t));
    }
  }
  return pool;
}

// n^3 lattice with irrational offsets, scaled by k about the centre of the tight box
static void latticeIdx(int idx, int n, int ijk[3]) {
  ijk[0] = idx / (n * n);
  ijk[1] = (idx / n) % n;
  ijk[2] = idx % n;
}
static vec3 latticePt(const Obj& o, int n, double k, int idx) {
  static const double OFF[3] = {0.41421356237, 0.73205080757, 0.23606797750};
  int ijk[3];
  latticeIdx(idx, n, ijk);
  vec3 p;
  for (int a = 0; a < 3; ++a) {
    double c = 0.5 * (o.lo[a] + o.hi[a]), h = 0.5 * (o.hi[a] - o.lo[a]);
    double u = -1 + 2 * (ijk[a] + OFF[a]) / n;
    p[a] = c + k * h * u;
  }
  return p;
}
static std::string latticeName(int idx, int n) {
  int ijk[3];
  latticeIdx(idx, n, ijk);
  return "(" + std::to_string(ijk[0]) + "," + std::to_string(ijk[1]) + "," + std::to_string(ijk[2]) + ")";
}

// one violation per (class, object): the key names the first failing query, the detail how many failed
struct Alarm {
  std::string key, detail;
  long n = 0;
  void hit(const std::string& k, const std::string& d) {
    if (n++ == 0) {
      key = k;
      detail = d;
    }
  }
  void flush(Ctx& c, const std::string& desc) {
    if (n) c.viol(key, desc, detail + " [" + std::to_string(n) + " failing queries of this kind on this object]");
  }
};

// ================================================================== measure
static void caseMeasure(const Obj& o, Ctx& c) {
  const Manifold& m = o.m;
  const std::string& N = o.name;
  c.describe("measure " + N);
  const size_t nt = o.nTri();
  const double margin = 1e-6 * std::max(1.0, o.scale);

  // ---- Volume / SurfaceArea
  {
    LD vol = 0, area = 0, vmag = 0, amag = 0;
    for (size_t t = 0; t < nt; ++t) {
      V3 a = o.soup.tri[3 * t], b = o.soup.tri[3 * t + 1], cc = o.soup.tri[3 * t + 2];
      vol += dot(a, cross(b, cc)) / 6;
      area += norm(cross(b - a, cc - a)) / 2;
      LD M = std::max(norm(a), std::max(norm(b), norm(cc)));
      vmag += M * M * M;
      amag += M * M;
    }
    double V = m.Volume(), A = m.SurfaceArea();
    LD tv = 1e-12L * fabsl(vol) + 16 * DBL_EPSILON * vmag, ta = 1e-12L * area + 16 * DBL_EPSILON * amag;
    if (!(fabsl(V - vol) <= tv))
      c.viol("volume:" + N, N, "Volume()=" + fmt(V) + " signed-tetrahedron sum of the export=" + fmt((double)vol) + " tol " + fmt((double)tv));
    if (!(fabsl(A - area) <= ta))
      c.viol("area:" + N, N, "SurfaceArea()=" + fmt(A) + " triangle-area sum of the export=" + fmt((double)area) + " tol " + fmt((double)ta));
    c.count("scalars", 2);
  }
  // ---- BoundingBox: bit-equal tight box
  {
    Box b = m.BoundingBox();
    bool eq = true;
    for (int k = 0; k < 3; ++k) eq = eq && b.min[k] == o.lo[k] && b.max[k] == o.hi[k];
    if (!eq) c.viol("bbox:" + N, N, "BoundingBox()=" + fmt3(b.min) + ".." + fmt3(b.max) + " tight box of the export=" + fmt3(o.lo) + ".." + fmt3(o.hi));
    c.count("scalars");
  }
  // ---- counts
  {
    std::ostringstream s;
    if (m.NumTri() != o.topo.nTri) s << "NumTri()=" << m.NumTri() << " export " << o.topo.nTri << "; ";
    if (m.NumVert() != o.topo.nVert) s << "NumVert()=" << m.NumVert() << " merged export vertices " << o.topo.nVert << "; ";
    if (m.NumEdge() != o.topo.nEdge) s << "NumEdge()=" << m.NumEdge() << " export " << o.topo.nEdge << "; ";
    if (m.NumProp() + 3 != (size_t)o.g.numProp) s << "NumProp()=" << m.NumProp() << " export numProp " << o.g.numProp << "; ";
    if (m.IsEmpty() != (nt == 0)) s << "IsEmpty()=" << m.IsEmpty() << "; ";
    int chi = (int)o.topo.nVert - (int)o.topo.nEdge + (int)o.topo.nTri;
    if (m.Genus() != 1 - chi / 2) s << "Genus()=" << m.Genus() << " export " << 1 - chi / 2 << "; ";
    if (!s.str().empty()) c.viol("counts:" + N, N, s.str());
    // NumPropVert is not named in the property sentence; it is a count getter with a documented meaning ("the number of property
    // vertices ... always >= NumVert") whose brute-force definition is the vertex count of the export.  Its own key class.
    // (coordinator) not a verdict: the statement names IsEmpty/NumVert/NumTri/NumProp only, so a NumPropVert() that differs from the
    // export's vertex count is recorded as information (findings/C18.md D2), not as a violation of C18.
    if (m.NumPropVert() != o.topo.nPropVert) c.count("info_numpropvert_differs_from_export");
    c.count("scalars", 7);
  }
  // ---- WindingNumber at 64 + 343 lattice points (one batch call, then the first 64 one by one)
  {
    std::vector<vec3> pts;
    std::vector<std::string> nm;
    for (int i = 0; i < 64; ++i) {
      pts.push_back(latticePt(o, 4, 1.3, i));
      nm.push_back("L4" + latticeName(i, 4));
    }
    for (int i = 0; i < TIER.nWind * TIER.nWind * TIER.nWind; ++i) {
      pts.push_back(latticePt(o, TIER.nWind, 1.15, i));
      nm.push_back("L" + std::to_string(TIER.nWind) + latticeName(i, TIER.nWind));
    }
    std::vector<int> w = m.WindingNumber(pts);
    Alarm al;
    if (w.size() != pts.size()) al.hit("winding-size:" + N, "result has " + std::to_string(w.size()) + " entries for " + std::to_string(pts.size()) + " points");
    long judged = 0, inside = 0, other = 0;
    for (size_t i = 0; i < pts.size() && i < w.size(); ++i) {
      LD tw = winding(o.soup, toV3(pts[i]));
      int wi = (int)lroundl(tw);
      int single = w[i];
      if (i < 64) single = m.WindingNumber({pts[i]}).at(0);
      bool bad = w[i] != wi || single != wi || fabsl(tw - wi) > 1e-6;
      if (bad && distToSoup(o.soup, toV3(pts[i])) <= margin) continue;  // not a generic point
      ++judged;
      if (wi != 0) ++inside;
      if (wi != 0 && wi != 1) ++other;
      if (bad)
        al.hit("winding:" + N + ":p=" + nm[i], "at " + fmt3(pts[i]) + " WindingNumber(batch)=" + std::to_string(w[i]) + " (single call " +
                                                    std::to_string(single) + ") solid-angle winding=" + fmt((double)tw));
    }
    al.flush(c, N);
    c.count("winding_pts", judged);
    c.count("winding_inside", inside);
    c.count("winding_not01", other);
  }
  // ---- Slice at 7 generic heights x 12x12 samples
  {
    Alarm al;
    long judged = 0, inside = 0;
    for (int k = 0; k < 7; ++k) {
      double z = o.lo.z + (k + 0.61803398875) / 7 * (o.hi.z - o.lo.z);
      Polygons ps = m.Slice(z);
      const int ns = TIER.nSlice;
      for (int i = 0; i < ns * ns; ++i) {
        vec3 q = latticePt(o, ns, 1.1, (i / ns) * ns * ns + (i % ns) * ns);
        q.z = z;
        int w2 = g2::windingOf(ps, q.x, q.y);
        LD tw = winding(o.soup, toV3(q));
        int w3 = (int)lroundl(tw);
        bool bad = w2 != w3 || fabsl(tw - w3) > 1e-6;
        if (bad && distToSoup(o.soup, toV3(q)) <= margin) continue;
        ++judged;
        if (w3) ++inside;
        if (bad)
          al.hit("slice:" + N + ":k=" + std::to_string(k) + ",xy=(" + std::to_string(i / ns) + "," + std::to_string(i % ns) + ")/" + std::to_string(ns),
                 "Slice(" + fmt(z) + "): 2-D winding of the polygons at (" + fmt(q.x) + "," + fmt(q.y) + ")=" + std::to_string(w2) +
                     " solid-angle winding of the mesh there=" + fmt((double)tw));
      }
      c.count("slices");
    }
    al.flush(c, N);
    c.count("slice_pts", judged);
    c.count("slice_inside", inside);
  }
  // ---- Project: positive fill covers (x,y) iff the vertical line hits the surface
  {
    Polygons raw = m.Project();
    Polygons reg = CrossSection(raw).ToPolygons();
    Alarm al, al2;
    long judged = 0, covered = 0;
    const int npj = TIER.nProj;
    for (int i = 0; i < npj * npj; ++i) {
      vec3 q = latticePt(o, npj, 1.1, (i / npj) * npj * npj + (i % npj) * npj);
      LD px = q.x, py = q.y;
      int cover = 0;
      bool nearEdge = false;
      for (size_t t = 0; t < nt && !nearEdge; ++t) {
        const V3* T = &o.soup.tri[3 * t];
        LD x0 = std::min(T[0].x, std::min(T[1].x, T[2].x)), x1 = std::max(T[0].x, std::max(T[1].x, T[2].x));
        LD y0 = std::min(T[0].y, std::min(T[1].y, T[2].y)), y1 = std::max(T[0].y, std::max(T[1].y, T[2].y));
        if (px < x0 - margin || px > x1 + margin || py < y0 - margin || py > y1 + margin) continue;
        LD s[3];
        for (int e = 0; e < 3; ++e) {
          const V3 &a = T[e], &b = T[(e + 1) % 3];
          if (g2::distPointSeg(px, py, a, b) <= margin) nearEdge = true;
          s[e] = (b.x - a.x) * (py - a.y) - (px - a.x) * (b.y - a.y);
        }
        if ((s[0] > 0 && s[1] > 0 && s[2] > 0) || (s[0] < 0 && s[1] < 0 && s[2] < 0)) ++cover;
      }
      if (nearEdge) continue;  // on (the projection of) an edge: may be a silhouette
      ++judged;
      if (cover) ++covered;
      bool libRaw = g2::windingOf(raw, q.x, q.y) > 0, libReg = g2::windingOf(reg, q.x, q.y) != 0;
      std::string at = "xy=(" + std::to_string(i / npj) + "," + std::to_string(i % npj) + ")/" + std::to_string(npj);
      if (libRaw != (cover > 0))
        al.hit("project:" + N + ":" + at, "at (" + fmt(q.x) + "," + fmt(q.y) + ") the vertical line crosses " + std::to_string(cover) +
                                              " triangles but winding of Project() there is " + std::to_string(g2::windingOf(raw, q.x, q.y)));
      if (libReg != (cover > 0) && g2::distToRings(raw, px, py) > margin)
        al2.hit("project-regularized:" + N + ":" + at, "at (" + fmt(q.x) + "," + fmt(q.y) + ") the vertical line crosses " + std::to_string(cover) +
                                                           " triangles but CrossSection(Project()) " + (libReg ? "covers" : "does not cover") + " it");
    }
    al.flush(c, N);
    al2.flush(c, N);
    c.count("project_pts", judged);
    c.count("project_covered", covered);
  }
  // ---- Decompose
  {
    std::vector<Manifold> parts = m.Decompose();
    std::ostringstream why;
    why.precision(17);
    // brute-force components: volume, triangle count, canonical geometry
    std::vector<LD> bv(o.comps, 0), bmag(o.comps, 0);
    std::vector<MeshGL64> sub(o.comps);
    for (auto& s : sub) s.numProp = 3;
    {
      size_t np = o.g.numProp;
      std::vector<std::map<uint64_t, uint64_t>> remap(o.comps);
      for (size_t t = 0; t < nt; ++t) {
        int k = o.triComp[t];
        V3 a = o.soup.tri[3 * t], b = o.soup.tri[3 * t + 1], cc = o.soup.tri[3 * t + 2];
        bv[k] += dot(a, cross(b, cc)) / 6;
        LD M = std::max(norm(a), std::max(norm(b), norm(cc)));
        bmag[k] += M * M * M;
        for (int j = 0; j < 3; ++j) {
          uint64_t v = o.g.triVerts[3 * t + j];
          auto it = remap[k].find(v);
          if (it == remap[k].end()) {
            it = remap[k].insert({v, sub[k].vertProperties.size() / 3}).first;
            for (int d = 0; d < 3; ++d) sub[k].vertProperties.push_back(o.g.vertProperties[v * np + d]);
          }
          sub[k].triVerts.push_back(it->second);
        }
      }
    }
    if ((int)parts.size() != o.comps) why << "Decompose() returned " << parts.size() << " parts, the export has " << o.comps << " connected components; ";
    else {
      // parts are matched to brute-force components by their exact triangle sets (Decompose keeps coordinates bit for bit)
      std::multimap<uint64_t, int> want;
      for (int k = 0; k < o.comps; ++k) want.insert({canonGeomHash(sub[k]), k});
      LD sumParts = 0, magAll = 0;
      for (int k = 0; k < o.comps; ++k) magAll += bmag[k];
      for (size_t i = 0; i < parts.size(); ++i) {
        const Manifold& p = parts[i];
        if (p.Status() != Manifold::Error::NoError) {
          why << "part " << i << " has status " << (int)p.Status() << "; ";
          continue;
        }
        MeshGL64 pg = p.GetMeshGL64();
        Topo pt = checkTopo(pg);
        if (!pt.ok) {
          why << "part " << i << " is not a closed manifold: " << pt.why << "; ";
          continue;
        }
        std::vector<int> lab;
        int pc = labelComponents(pg, pt, lab);
        if (pc != 1) why << "part " << i << " has " << pc << " connected components; ";
        MeshGL64 pos;
        pos.numProp = 3;
        for (size_t v = 0; v < pg.vertProperties.size() / pg.numProp; ++v)
          for (int d = 0; d < 3; ++d) pos.vertProperties.push_back(pg.vertProperties[v * pg.numProp + d]);
        pos.triVerts = pg.triVerts;
        double V = p.Volume();
        sumParts += V;
        auto it = want.find(canonGeomHash(pos));
        if (it == want.end()) {
          why << "part " << i << " (" << pg.triVerts.size() / 3 << " triangles, Volume()=" << V << ") is not a connected component of the export (no component has its triangle set); ";
          continue;
        }
        int k = it->second;
        want.erase(it);
        LD tol = 1e-12L * fabsl(bv[k]) + 16 * DBL_EPSILON * bmag[k];
        if (fabsl(V - bv[k]) > tol) why << "part " << i << " has Volume()=" << V << ", the component of the export with the same triangles has " << (double)bv[k] << "; ";
      }
      if (why.str().empty()) {
        LD whole = m.Volume();
        if (fabsl(sumParts - whole) > 1e-12L * fabsl(whole) + 32 * DBL_EPSILON * magAll)
          why << "volumes of the parts sum to " << (double)sumParts << ", Volume() of the whole is " << (double)whole << "; ";
        if (!want.empty()) why << want.size() << " connected components of the export have no part; ";
      }
    }
    if (!why.str().empty()) c.viol("decompose:" + N, N, why.str());
    c.count("decompose_parts", (int64_t)parts.size());
  }
  uint64_t h = byteHash(o.g, false);
  c.distinct(h);
  if (o.comps > 1 || o.handles > 0) c.nontrivial(h);
  c.count("objects");
  if (c.idx % 37 == 0) c.sample(N + " tris=" + std::to_string(nt) + " comps=" + std::to_string(o.comps) + " handles=" + std::to_string(o.handles));
}

// ================================================================== raycast
static void caseRay(const Obj& o, Ctx& c) {
  const Manifold& m = o.m;
  const std::string& N = o.name;
  c.describe("raycast " + N);
  const size_t nt = o.nTri();
  const LD S = std::max(1.0, o.scale);
  const LD edgeMargin = 1e-7L * S, ptMargin = 1e-6L * S, posTol = 1e-9L * S;
  const int nr = TIER.nRay, NP = nr * nr * nr;
  std::vector<vec3> P(NP);
  std::vector<V3> PL(NP);
  std::vector<char> ok(NP);
  std::vector<int> w(NP);
  for (int i = 0; i < NP; ++i) {
    P[i] = latticePt(o, nr, 1.3, i);
    PL[i] = toV3(P[i]);
    ok[i] = distToSoup(o.soup, PL[i]) > ptMargin;
    LD tw = winding(o.soup, PL[i]);
    w[i] = (int)lroundl(tw);
    if (fabsl(tw - w[i]) > 1e-6) ok[i] = false;
  }
  Alarm aSort, aRange, aPos, aFace, aCount, aParity, aNormal, aSet;
  long segs = 0, skipped = 0, hitsTot = 0, withHits = 0, parityOdd = 0;
  for (int i = 0; i < NP; ++i)
    for (int j = 0; j < NP; ++j) {
      if (i == j) continue;
      if (!ok[i] || !ok[j]) {
        ++skipped;
        continue;
      }
      const V3 O = PL[i], E = PL[j], D = E - O;
      const LD len = norm(D);
      // brute force: every triangle; general-position filter: the segment stays edgeMargin away from every edge
      bool degenerate = false;
      std::vector<std::pair<LD, size_t>> bf;  // (t, triangle)
      for (size_t t = 0; t < nt && !degenerate; ++t) {
        // cheap rejection: the triangle's bounding sphere is clear of the segment
        LD s = clamp01(dot(o.cen[t] - O, D) / (len * len));
        if (norm(o.cen[t] - (O + s * D)) > o.rad[t] + edgeMargin) continue;
        const V3 &a = o.soup.tri[3 * t], &b = o.soup.tri[3 * t + 1], &cc = o.soup.tri[3 * t + 2];
        if (segSegDist(O, E, a, b) <= edgeMargin || segSegDist(O, E, b, cc) <= edgeMargin || segSegDist(O, E, cc, a) <= edgeMargin) {
          degenerate = true;
          break;
        }
        LD tt;
        if (segTriProper(O, E, a, b, cc, &tt)) bf.push_back({tt, t});
      }
      if (degenerate) {
        ++skipped;
        continue;
      }
      std::sort(bf.begin(), bf.end());
      ++segs;
      std::vector<RayHit> hits = m.RayCast(P[i], P[j]);
      hitsTot += (long)hits.size();
      if (!hits.empty()) ++withHits;
      const std::string seg = "o=" + latticeName(i, nr) + ",e=" + latticeName(j, nr) + "/" + std::to_string(nr);
      const std::string where = "RayCast(" + fmt3(P[i]) + ", " + fmt3(P[j]) + "): ";
      // sorted, in range
      for (size_t h = 0; h < hits.size(); ++h) {
        if (h && hits[h].distance < hits[h - 1].distance)
          aSort.hit("raycast-sorted:" + N + ":" + seg, where + "hit " + std::to_string(h) + " distance " + fmt(hits[h].distance) + " < previous " + fmt(hits[h - 1].distance));
        if (!(hits[h].distance >= 0 && hits[h].distance <= 1))
          aRange.hit("raycast-range:" + N + ":" + seg, where + "hit " + std::to_string(h) + " distance " + fmt(hits[h].distance) + " outside [0,1]");
        V3 pos = toV3(hits[h].position);
        V3 onSeg = O + (LD)hits[h].distance * D;
        if (!(norm(pos - onSeg) <= posTol))
          aPos.hit("raycast-position:" + N + ":" + seg, where + "hit " + std::to_string(h) + " position " + fmt3(hits[h].position) + " is " +
                                                            fmt((double)norm(pos - onSeg)) + " from origin+distance*(endpoint-origin), distance=" + fmt(hits[h].distance));
      }
      // count and crossing parameters
      if (hits.size() != bf.size()) {
        std::ostringstream s;
        s.precision(17);
        s << where << hits.size() << " hits, brute force finds " << bf.size() << " proper crossings; library t:";
        for (auto& h : hits) s << " " << h.distance << "(tri " << h.faceID << ")";
        s << "; brute force t:";
        for (auto& b : bf) s << " " << (double)b.first << "(tri " << b.second << ")";
        aCount.hit("raycast-count:" + N + ":" + seg, s.str());
      } else {
        for (size_t h = 0; h < hits.size(); ++h)
          if (!(fabsl(hits[h].distance - bf[h].first) * len <= posTol))
            aPos.hit("raycast-position:" + N + ":" + seg, where + "hit " + std::to_string(h) + " distance " + fmt(hits[h].distance) + " but the crossing is at " + fmt((double)bf[h].first));
      }
      // parity == change of insideness
      if (((hits.size() & 1) != 0) != (((w[i] - w[j]) & 1) != 0))
        aParity.hit("raycast-parity:" + N + ":" + seg, where + std::to_string(hits.size()) + " hits but winding(origin)=" + std::to_string(w[i]) + " winding(endpoint)=" + std::to_string(w[j]));
      if ((w[i] - w[j]) & 1) ++parityOdd;
      // faceID names the exported triangle the position lies on; normal is that triangle's unit normal
      if (hits.size() == bf.size()) {
        std::multiset<size_t> sa, sb;
        for (auto& h : hits) sa.insert((size_t)h.faceID);
        for (auto& b : bf) sb.insert(b.second);
        bool faceBad = false;
        for (size_t h = 0; h < hits.size(); ++h) {
          uint64_t f = hits[h].faceID;
          V3 pos = toV3(hits[h].position);
          if (f >= nt || distPointTri(pos, o.soup.tri[3 * f], o.soup.tri[3 * f + 1], o.soup.tri[3 * f + 2]) > posTol) {
            faceBad = true;
            std::ostringstream s;
            s.precision(17);
            s << where << "hit " << h << " faceID=" << f;
            if (f < nt) s << ": position is " << (double)distPointTri(pos, o.soup.tri[3 * f], o.soup.tri[3 * f + 1], o.soup.tri[3 * f + 2]) << " from triangle " << f << " of GetMeshGL64()";
            else s << " >= NumTri()=" << nt;
            s << "; it lies on exported triangle " << bf[h].second;
            aFace.hit("raycast-faceid:" + N + ":" + seg, s.str());
          }
          // the normal of the triangle that is actually crossed (bf[h]), conditioned on its shape
          size_t bt = bf[h].second;
          V3 a = o.soup.tri[3 * bt], b = o.soup.tri[3 * bt + 1], cc = o.soup.tri[3 * bt + 2];
          V3 n = cross(b - a, cc - a);
          LD nn = norm(n);
          LD longest = std::max(norm(b - a), std::max(norm(cc - b), norm(a - cc)));
          LD alt = nn / longest;  // smallest altitude
          V3 un = (1 / nn) * n;
          LD tolN = 1e-6L + 1e-12L * S / alt;
          V3 ln = toV3(hits[h].normal);
          if (!(norm(ln - un) <= tolN))
            aNormal.hit("raycast-normal:" + N + ":" + seg, where + "hit " + std::to_string(h) + " normal " + fmt3(hits[h].normal) + " but the crossed triangle has unit normal (" +
                                                               fmt((double)un.x) + "," + fmt((double)un.y) + "," + fmt((double)un.z) + ")");
        }
        if (!faceBad && sa != sb) aSet.hit("raycast-faceid:" + N + ":" + seg, where + "the faceIDs are not the crossed triangles of the export");
      }
    }
  aSort.flush(c, N);
  aRange.flush(c, N);
  aPos.flush(c, N);
  aCount.flush(c, N);
  aParity.flush(c, N);
  // (coordinator) RayHit::faceID is not part of the C18 statement (crossings, order, positions, parity): that it names an internal
  // triangle index rather than the exported one (findings/C18.md D1) is recorded as information, not as a violation.
  if (aFace.n || aSet.n) c.count("info_objects_whose_faceid_is_not_the_export_index");
  aNormal.flush(c, N);
  c.count("segments", segs);
  c.count("segments_skipped", skipped);
  c.count("segments_with_hits", withHits);
  c.count("segments_parity_odd", parityOdd);
  c.count("hits", hitsTot);
  c.count("objects");
  uint64_t h = byteHash(o.g, false);
  c.distinct(h);
  if (withHits) c.nontrivial(h);
  if (c.idx % 29 == 0) c.sample(N + ": " + std::to_string(segs) + " segments, " + std::to_string(hitsTot) + " hits");
}

// ================================================================== mingap
struct Placed {
  std::string name;
  Obj o;
};
static const double SEARCH[3] = {0.1, 1, 10};

static void caseGap(const Placed& A, const Placed& B, Ctx& c) {
  const std::string pr = A.name + " , " + B.name;
  c.describe("MinGap " + pr);
  const Obj &a = A.o, &b = B.o;
  const size_t na = a.nTri(), nb = b.nTri();
  const LD S = std::max(1.0, std::max(a.scale, b.scale));
  // --- do the surfaces cross?  (an edge of one transversally through a triangle of the other)
  bool crossing = false;
  LD dmin = INFINITY;
  // bounding boxes per triangle
  struct BB {
    LD lo[3], hi[3];
  };
  auto boxes = [](const Obj& o) {
    std::vector<BB> r(o.nTri());
    for (size_t t = 0; t < o.nTri(); ++t)
      for (int k = 0; k < 3; ++k) {
        auto g = [&](int j) { const V3& p = o.soup.tri[3 * t + j]; return k == 0 ? p.x : k == 1 ? p.y : p.z; };
        r[t].lo[k] = std::min(g(0), std::min(g(1), g(2)));
        r[t].hi[k] = std::max(g(0), std::max(g(1), g(2)));
      }
    return r;
  };
  std::vector<BB> ba = boxes(a), bb = boxes(b);
  auto boxDist = [](const BB& x, const BB& y) {
    LD s = 0;
    for (int k = 0; k < 3; ++k) {
      LD d = std::max((LD)0, std::max(x.lo[k] - y.hi[k], y.lo[k] - x.hi[k]));
      s += d * d;
    }
    return sqrtl(s);
  };
  const LD crossMargin = 1e-9L;
  long pairsDone = 0;
  for (size_t i = 0; i < na; ++i)
    for (size_t j = 0; j < nb; ++j) {
      LD bd = boxDist(ba[i], bb[j]);
      if (bd >= dmin && (crossing || bd > 0)) continue;  // cannot lower the minimum (and no crossing is being looked for)
      ++pairsDone;
      const V3* T = &a.soup.tri[3 * i];
      const V3* U = &b.soup.tri[3 * j];
      if (bd == 0 && !crossing) {
        for (int e = 0; e < 3 && !crossing; ++e) {
          LD t, u, v;
          if (segTriProper(T[e], T[(e + 1) % 3], U[0], U[1], U[2], &t, &u, &v) && u > crossMargin && v > crossMargin && u + v < 1 - crossMargin &&
              t > crossMargin && t < 1 - crossMargin)
            crossing = true;
          if (segTriProper(U[e], U[(e + 1) % 3], T[0], T[1], T[2], &t, &u, &v) && u > crossMargin && v > crossMargin && u + v < 1 - crossMargin &&
              t > crossMargin && t < 1 - crossMargin)
            crossing = true;
        }
      }
      // distance of two triangles that do not cross: min over 6 vertex/triangle and 9 edge/edge distances
      LD d = INFINITY;
      for (int k = 0; k < 3; ++k) {
        d = std::min(d, distPointTri(T[k], U[0], U[1], U[2]));
        d = std::min(d, distPointTri(U[k], T[0], T[1], T[2]));
        for (int l = 0; l < 3; ++l) d = std::min(d, segSegDist(T[k], T[(k + 1) % 3], U[l], U[(l + 1) % 3]));
      }
      dmin = std::min(dmin, d);
    }
  c.count("tri_pairs", pairsDone);
  bool intersect = crossing;
  if (!crossing) {
    if (dmin <= 1e-6L * S) {  // touching or nearly touching surfaces: not in general position
      c.count("pairs_skipped");
      return;
    }
    // disjoint surfaces: a whole component of one lies inside the other iff one of its vertices does
    auto inside = [&](const Obj& x, const Obj& y, bool& ambiguous) {
      std::vector<char> seenComp(x.comps, 0);
      for (size_t t = 0; t < x.nTri(); ++t) {
        if (seenComp[x.triComp[t]]) continue;
        seenComp[x.triComp[t]] = 1;
        LD tw = winding(y.soup, x.soup.tri[3 * t]);
        LD r = roundl(tw);
        if (fabsl(tw - r) > 1e-6) ambiguous = true;
        if (r != 0) return true;
      }
      return false;
    };
    bool amb = false;
    intersect = inside(a, b, amb) || inside(b, a, amb);
    if (amb) {
      c.count("pairs_skipped");
      return;
    }
  }
  int cls = 0;
  for (int k = 0; k < 3; ++k) {
    double L = SEARCH[k];
    LD expect = intersect ? 0 : std::min(dmin, (LD)L);
    double got = A.o.m.MinGap(B.o.m, L);
    // judged on the squared distance (what the library computes before the final sqrt): 1e-9 relative plus double rounding of
    // coordinates of size S
    LD tol = 2e-9L * expect * expect + 64 * DBL_EPSILON * S * S;
    if (!(fabsl((LD)got * got - expect * expect) <= tol) || !(got >= 0 && got <= L)) {
      std::ostringstream s;
      s.precision(17);
      s << "MinGap(searchLength=" << L << ")=" << got << " expected " << (double)expect << " (";
      if (crossing) s << "surfaces cross";
      else if (intersect) s << "surfaces disjoint, one solid contains a component of the other";
      else s << "solids disjoint, minimum triangle-triangle distance " << (double)dmin;
      s << ")";
      c.viol("mingap:" + pr + ":L=" + fmt(L), pr, s.str());
    }
    c.count("queries");
    if (intersect) c.count(crossing ? "q_zero_crossing" : "q_zero_contained");
    else if (dmin < L) {
      c.count(k == 0 ? "q_gap_below_0.1" : k == 1 ? "q_gap_below_1" : "q_gap_below_10");
      cls |= 1;
    } else c.count("q_clamped");
  }
  uint64_t h = hash_str(pr);
  c.distinct(h);
  if (cls) c.nontrivial(h);
  if (c.idx % 211 == 0) c.sample("MinGap " + pr + (intersect ? " intersect" : " d=" + fmt((double)dmin)));
}

static std::string shortNum(double v) {
  char b[32];
  snprintf(b, sizeof b, "%g", v);
  return b;
}

int main(int argc, char** argv) {
  Runner R("C18", argc, argv);
  const bool thorough = R.a.thorough();
  bool asanSubset = false;
  for (int i = 1; i < argc; ++i)
    if (std::string(argv[i]) == "--asan-subset") asanSubset = true;
  if (thorough && !asanSubset) {
    TIER.nRay = 6;
    TIER.nWind = 11;
    TIER.nSlice = 24;
    TIER.nProj = 32;
  }

  PoolStats st;
  std::vector<Obj> pool = buildPool(st, asanSubset ? 0 : (thorough ? 2 : 1));
  if (R.a.onlyCase.empty()) {
    std::map<std::string, int> hist;
    size_t maxTri = 0, sumTri = 0;
    for (auto& o : pool) {
      hist["comps" + std::to_string(o.comps) + "/handles" + std::to_string(o.handles)]++;
      maxTri = std::max(maxTri, o.nTri());
      sumTri += o.nTri();
    }
    std::string s = "pool: " + std::to_string(pool.size()) + " objects of " + std::to_string(st.candidates) + " candidates (rejected: status " +
                    std::to_string(st.rejStatus) + ", empty " + std::to_string(st.rejEmpty) + ", C01 " + std::to_string(st.rejC01) + ", components " +
                    std::to_string(st.rejComps) + ", handles " + std::to_string(st.rejHandles) + ", size " + std::to_string(st.rejSize) + ", duplicate " +
                    std::to_string(st.rejDup) + "); triangles max " + std::to_string(maxTri) + " total " + std::to_string(sumTri) + "; ";
    for (auto& kv : hist) s += kv.first + "=" + std::to_string(kv.second) + " ";
    fprintf(stderr, "%s\n", s.c_str());
  }
  const uint64_t np = pool.size();

  // ---------- measure: every object (every 3rd under ASan)
  {
    std::vector<int> sel;
    for (int i = 0; i < (int)np; ++i)
      if (!asanSubset || i % 3 == 0) sel.push_back(i);
    R.phase("measure", sel.size(), 1, [&](uint64_t idx, Ctx& c) { caseMeasure(pool[sel[idx]], c); },
            {"objects", "info_numpropvert_differs_from_export", "scalars", "winding_pts", "winding_inside", "winding_not01", "slices", "slice_pts", "slice_inside", "project_pts",
             "project_covered", "decompose_parts"});
  }
  // ---------- raycast: every object (every 6th under ASan)
  {
    std::vector<int> sel;
    for (int i = 0; i < (int)np; ++i)
      if (!asanSubset || i % 6 == 0) sel.push_back(i);
    R.phase("raycast", sel.size(), 1, [&](uint64_t idx, Ctx& c) { caseRay(pool[sel[idx]], c); },
            {"objects", "info_objects_whose_faceid_is_not_the_export_index", "segments", "segments_skipped", "segments_with_hits", "segments_parity_odd", "hits"});
  }
  // ---------- mingap: all ordered pairs of the placed family
  {
    // Regular members: pool objects (<= 400 triangles, evenly spread over the pool order) translated by one of 8 placements, two of which
    // are "where it is" so that such pairs overlap.  Tiny members: a pool object shrunk about the centre of its bounding box and moved to
    // the deepest interior lattice point of a host member, so that (tiny, host) is a containment without crossing surfaces.
    static const double PLC[8][3] = {{0, 0, 0},        {1.7, 0.3, -0.2}, {0, 0, 0},        {-0.4, 2.1, 0.9},
                                     {0.6, -0.5, 2.9}, {-3.3, 0.2, 0.4}, {0.9, 5.2, -1.1}, {7, 8, 9}};
    const int want = asanSubset ? 16 : (thorough ? 144 : 48);
    const int nTiny = want / 8, nReg = want - nTiny;
    std::vector<int> cand;
    for (int i = 0; i < (int)np; ++i)
      if (pool[i].nTri() <= 400) cand.push_back(i);
    std::vector<Placed> fam;
    for (int k = 0; k < nReg && !cand.empty(); ++k) {
      int i = cand[(size_t)k * cand.size() / nReg];
      const double* d = PLC[k % 8];
      Placed p;
      p.o.m = pool[i].m.Translate({d[0], d[1], d[2]});
      p.name = pool[i].name + "@(" + shortNum(d[0]) + "," + shortNum(d[1]) + "," + shortNum(d[2]) + ")";
      p.o.name = p.name;
      fillObj(p.o);
      fam.push_back(std::move(p));
    }
    for (int k = 0; k < nTiny && !cand.empty(); ++k) {
      const Placed& host = fam[(size_t)(8 * k) % nReg];  // a member placed where it is
      const Obj& src = pool[cand[((size_t)k * 37 + 5) % cand.size()]];
      // deepest interior point of the host among its 7^3 lattice points
      vec3 best(0.0);
      LD bestD = -1;
      for (int i = 0; i < 343; ++i) {
        vec3 q = latticePt(host.o, 7, 1.0, i);
        if (windingInt(host.o.soup, toV3(q)) != 1) continue;
        LD d = distToSoup(host.o.soup, toV3(q));
        if (d > bestD) {
          bestD = d;
          best = q;
        }
      }
      if (bestD <= 0) continue;
      vec3 cen = 0.5 * (src.lo + src.hi);
      double rad = 0.5 * la::length(src.hi - src.lo);
      double f = 0.5 * (double)bestD / rad;
      Placed p;
      p.o.m = src.m.Translate(-cen).Scale(vec3(f)).Translate(best);
      p.name = "tiny(" + src.name + ")in(" + host.name + ")";
      p.o.name = p.name;
      fillObj(p.o);
      fam.push_back(std::move(p));
    }
    const uint64_t nf = fam.size();
    R.phase("mingap", nf * nf, 1,
            [&](uint64_t idx, Ctx& c) {
              if (idx / nf == idx % nf) return;  // a solid against itself: coincident surfaces, not general position
              caseGap(fam[idx / nf], fam[idx % nf], c);
            },
            {"queries", "tri_pairs", "pairs_skipped", "q_zero_crossing", "q_zero_contained", "q_gap_below_0.1", "q_gap_below_1", "q_gap_below_10",
             "q_clamped"});
  }
  return R.finish();
}
