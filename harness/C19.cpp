// C19 - refinement keeps the surface; simplification only removes redundancy.
//
// Three exhaustive spaces (DESIGN.md section 3, "### C19"):
//  1. PATTERNS  every edge-division triple of [1,N]^3 and quadruple of [1,M]^4 is handed to the
//               file-local Partition::GetPartition (src/subdivision.cpp is #included below, so this TU owns
//               that translation unit; the archive's copy is not linked).  The pattern must be a
//               triangulation of the triangle / quad: all vertices used once, CCW, exact boundary, paired
//               interior edges, area 1; Reindex (all edge-direction combinations) must map it injectively
//               onto the expected global indices with the expected boundary cycle.
//  2. MESHES    non-degenerate seeds of lib/alphabet.h x {as is, +2 property channels} (phase refine) and Boolean
//               results of small solids (phase refine-bool) x 9 tangent variants x
//               {Refine(1..4), RefineToLength(2,.7,.3), RefineToTolerance(.1,.01)}.
//  3. SIMPLIFY  redundantly tessellated lattice solids (Refine(2|3|4|8).AsOriginal(), unions of face-adjacent
//               boxes) x {Simplify, SetTolerance} x t in {0,1e-9,.01,.1}.
// Oracles: lib/topo.h (closed oriented manifold, every vertex referenced), lib/solid.h (long double
// winding number, point-triangle distance, volume, area).
#include <array>
#include <map>
#include <set>
#include <sstream>

#include "subdivision.cpp"  // /repo/src/subdivision.cpp: file-local class Partition

#include "engine/runner.h"
#include "lib/alphabet.h"
#include "lib/canon.h"
#include "lib/solid.h"
#include "lib/topo.h"
#include "lib/voxel.h"

using namespace vf;

// ------------------------------------------------------------------------------------------------
// Part 1: subdivision patterns
// ------------------------------------------------------------------------------------------------
namespace {

struct PatOut {
  std::string kind, why;  // empty kind: fine
  size_t nVert = 0, nInterior = 0, nTri = 0;
  uint64_t hash = 0;
};

std::string divStr(ivec4 d) {
  char b[80];
  if (d[3] > 0)
    snprintf(b, sizeof b, "(%d,%d,%d,%d)", d[0], d[1], d[2], d[3]);
  else
    snprintf(b, sizeof b, "(%d,%d,%d)", d[0], d[1], d[2]);
  return b;
}

// directed edge multiset of a triangle list; returns "" or a complaint.  `open` receives the directed
// edges that have no opposite.
std::string edgePairing(const std::vector<std::array<int, 3>>& tris, std::set<std::pair<int, int>>& open) {
  std::map<std::pair<int, int>, int> e;
  for (auto& t : tris)
    for (int k = 0; k < 3; ++k) {
      int& c = e[{t[k], t[(k + 1) % 3]}];
      if (++c > 1) {
        return "directed edge " + std::to_string(t[k]) + "->" + std::to_string(t[(k + 1) % 3]) + " occurs twice";
      }
    }
  for (auto& kv : e)
    if (!e.count({kv.first.second, kv.first.first})) open.insert(kv.first);
  return "";
}

PatOut checkPattern(const ivec4 div) {
  PatOut o;
  auto fail = [&](const char* k, const std::string& w) {
    if (o.kind.empty()) {
      o.kind = k;
      o.why = w;
    }
  };
  const int K = div[3] > 0 ? 4 : 3;
  const Partition P = Partition::GetPartition(div);
  const ivec4 sd = P.sortedDivisions;
  o.nVert = P.vertBary.size();
  o.nTri = P.triVert.size();

  // --- idx is a permutation of the edges and sortedDivisions is div in that order
  {
    int seen = 0;
    for (int i = 0; i < K; ++i) {
      if (P.idx[i] < 0 || P.idx[i] >= K) {
        fail("idx", "idx out of range");
        return o;
      }
      seen |= 1 << P.idx[i];
      if (sd[i] != div[P.idx[i]]) fail("idx", "sortedDivisions[i] != divisions[idx[i]]");
    }
    if (seen != (1 << K) - 1) fail("idx", "idx is not a permutation");
    if (K == 3 && sd[3] != 0) fail("idx", "triangle pattern with sortedDivisions[3] != 0");
    if (!o.kind.empty()) return o;
  }

  // --- boundary vertices: corners, then the requested divisions of each edge in order
  const int nB = sd[0] + sd[1] + sd[2] + sd[3];
  if (P.InteriorOffset() != nB || (int)P.vertBary.size() < nB) {
    fail("boundary", "fewer vertices than boundary points");
    return o;
  }
  o.nInterior = P.vertBary.size() - nB;
  std::vector<int> cyc;  // boundary cycle of the pattern, CCW, in pattern vertex indices
  {
    auto unit = [](int i) {
      vec4 v(0.0);
      v[i] = 1;
      return v;
    };
    for (int i = 0; i < K; ++i)
      if (!(P.vertBary[i] == unit(i))) fail("boundary", "corner " + std::to_string(i) + " is not a unit barycentric vector");
    int at = K;
    for (int i = 0; i < K; ++i) {
      cyc.push_back(i);
      for (int j = 1; j < sd[i]; ++j, ++at) {
        cyc.push_back(at);
        const long double f = (long double)j / sd[i];
        for (int k = 0; k < 4; ++k) {
          long double want = (k == i ? 1 - f : 0) + (k == (i + 1) % K ? f : 0);
          if (fabsl((long double)P.vertBary[at][k] - want) > 1e-12L)
            fail("boundary", "vertex " + std::to_string(at) + " is not division " + std::to_string(j) + "/" +
                                 std::to_string(sd[i]) + " of edge " + std::to_string(i));
        }
      }
    }
  }
  // --- all vertices: affine weights, inside the face
  for (size_t v = 0; v < P.vertBary.size(); ++v) {
    long double s = 0;
    for (int k = 0; k < 4; ++k) {
      s += P.vertBary[v][k];
      if (!(P.vertBary[v][k] >= -1e-12)) fail("bary", "negative / NaN weight at vertex " + std::to_string(v));
    }
    if (fabsl(s - 1) > 1e-12L) fail("bary", "weights of vertex " + std::to_string(v) + " do not sum to 1");
    if (K == 3 && P.vertBary[v][3] != 0) fail("bary", "triangle pattern vertex with 4th weight");
  }
  if (!o.kind.empty()) return o;

  // --- triangles
  const int nV = P.vertBary.size();
  std::vector<char> used(nV, 0);
  std::vector<std::array<int, 3>> tris;
  auto pos2 = [&](int v, long double& x, long double& y) {
    const vec4 b = P.vertBary[v];
    if (K == 3) {
      x = b[1];
      y = b[2];
    } else {
      x = (long double)b[1] + b[2];
      y = (long double)b[2] + b[3];
    }
  };
  long double area2 = 0;
  for (size_t t = 0; t < P.triVert.size(); ++t) {
    const ivec3 tv = P.triVert[t];
    for (int k = 0; k < 3; ++k)
      if (tv[k] < 0 || tv[k] >= nV) {
        fail("index", "triangle " + std::to_string(t) + " has vertex index " + std::to_string(tv[k]) + " of " + std::to_string(nV));
        return o;
      }
    if (tv[0] == tv[1] || tv[1] == tv[2] || tv[0] == tv[2]) fail("repeat", "triangle " + std::to_string(t) + " repeats a vertex");
    long double x[3], y[3];
    for (int k = 0; k < 3; ++k) {
      used[tv[k]] = 1;
      pos2(tv[k], x[k], y[k]);
    }
    long double a2 = (x[1] - x[0]) * (y[2] - y[0]) - (x[2] - x[0]) * (y[1] - y[0]);
    if (!(a2 > 1e-9L)) fail("ccw", "triangle " + std::to_string(t) + " is not counter-clockwise (2*area = " + std::to_string((double)a2) + ")");
    area2 += a2;
    tris.push_back({tv[0], tv[1], tv[2]});
  }
  for (int v = 0; v < nV; ++v)
    if (!used[v]) fail("unused", "pattern vertex " + std::to_string(v) + " of " + std::to_string(nV) + " is used by no triangle");
  const long double whole2 = K == 3 ? 1.0L : 2.0L;
  if (fabsl(area2 - whole2) > 1e-12L) fail("area", "triangle areas sum to " + std::to_string((double)(area2 / whole2)) + " of the face");
  // --- edges
  {
    std::set<std::pair<int, int>> open, want;
    std::string w = edgePairing(tris, open);
    if (!w.empty()) fail("edges", w);
    for (size_t i = 0; i < cyc.size(); ++i) want.insert({cyc[i], cyc[(i + 1) % cyc.size()]});
    if (w.empty() && open != want) fail("edges", "unpaired directed edges are not exactly the boundary cycle");
    // disk: V - E + F = 1
    if (w.empty() && open == want) {
      long E = (3 * (long)tris.size() + (long)want.size()) / 2;
      if ((long)nV - E + (long)tris.size() != 1) fail("edges", "Euler characteristic of the pattern is not 1");
    }
  }
  if (!o.kind.empty()) return o;

  // --- Reindex: every combination of edge directions
  const ivec4 gv = {1000, 1001, 1002, K == 4 ? 1003 : -1};
  const ivec4 eo = {2000, 3000, 4000, 5000};
  const int io = 9000;
  for (int mask = 0; mask < (1 << K) && o.kind.empty(); ++mask) {
    bvec4 fwd(false);
    for (int i = 0; i < K; ++i) fwd[i] = (mask >> i) & 1;
    Vec<ivec3> nt = P.Reindex(gv, eo, fwd, io);
    const std::string tag = " [Reindex edgeFwd mask " + std::to_string(mask) + "]";
    if (nt.size() != P.triVert.size()) {
      fail("reindex", "triangle count changed" + tag);
      break;
    }
    std::vector<int> gc;  // expected boundary cycle in global indices, input frame
    std::set<int> wantIdx;
    for (int e = 0; e < K; ++e) {
      gc.push_back(gv[e]);
      const int n = div[e];
      for (int j = 1; j < n; ++j) gc.push_back(fwd[e] ? eo[e] + j - 1 : eo[e] + (n - 1) - j);
    }
    for (int g : gc) wantIdx.insert(g);
    for (size_t i = 0; i < o.nInterior; ++i) wantIdx.insert(io + (int)i);
    std::set<int> gotIdx;
    std::vector<std::array<int, 3>> gt;
    for (size_t t = 0; t < nt.size(); ++t) {
      gt.push_back({nt[t][0], nt[t][1], nt[t][2]});
      for (int k = 0; k < 3; ++k) gotIdx.insert(nt[t][k]);
      if (nt[t][0] == nt[t][1] || nt[t][1] == nt[t][2] || nt[t][0] == nt[t][2])
        fail("reindex", "re-indexed triangle " + std::to_string(t) + " repeats a vertex" + tag);
    }
    if (gotIdx != wantIdx) {
      fail("reindex", "global index set differs from corners + edge ranges + interior range (" + std::to_string(gotIdx.size()) + " vs " +
                          std::to_string(wantIdx.size()) + ")" + tag);
      break;
    }
    if ((int)gotIdx.size() != nV) fail("reindex", "Reindex is not injective" + tag);
    std::set<std::pair<int, int>> open, want;
    std::string w = edgePairing(gt, open);
    if (!w.empty()) fail("reindex", w + tag);
    for (size_t i = 0; i < gc.size(); ++i) want.insert({gc[i], gc[(i + 1) % gc.size()]});
    if (w.empty() && open != want) fail("reindex", "boundary of the re-indexed pattern is not the CCW cycle of the input corners and edge vertices" + tag);
  }
  // hash of the cached pattern (distinct patterns)
  uint64_t h = hash_bytes(&sd, sizeof sd);
  for (size_t t = 0; t < P.triVert.size(); ++t) h = hash_bytes(&P.triVert[t], sizeof(ivec3), h);
  o.hash = h;
  return o;
}

}  // namespace

// ------------------------------------------------------------------------------------------------
// Part 2/3 helpers
// ------------------------------------------------------------------------------------------------
struct Named {
  std::string name;
  std::function<Manifold(const Manifold&)> f;
};

static std::vector<V3> vertsOf(const MeshGL64& g, bool referencedOnly) {
  const size_t nv = g.vertProperties.size() / g.numProp;
  std::vector<char> used(nv, referencedOnly ? 0 : 1);
  if (referencedOnly)
    for (auto i : g.triVerts) used[i] = 1;
  std::vector<V3> v;
  for (size_t i = 0; i < nv; ++i)
    if (used[i])
      v.push_back({(long double)g.vertProperties[i * g.numProp], (long double)g.vertProperties[i * g.numProp + 1],
                   (long double)g.vertProperties[i * g.numProp + 2]});
  return v;
}
static bool lessV(const V3& a, const V3& b) {
  if (a.x != b.x) return a.x < b.x;
  if (a.y != b.y) return a.y < b.y;
  return a.z < b.z;
}
// every point of `want` equals (==, component-wise) some point of `have`; returns index of first missing or -1
static long firstMissingExact(std::vector<V3> have, const std::vector<V3>& want) {
  std::sort(have.begin(), have.end(), lessV);
  for (size_t i = 0; i < want.size(); ++i) {
    auto it = std::lower_bound(have.begin(), have.end(), want[i], lessV);
    if (it == have.end() || it->x != want[i].x || it->y != want[i].y || it->z != want[i].z) return (long)i;
  }
  return -1;
}
// every point of `want` within tol (max-norm) of some point of `have`
static long firstMissingNear(std::vector<V3> have, const std::vector<V3>& want, long double tol, long double* worst) {
  std::sort(have.begin(), have.end(), lessV);
  long miss = -1;
  *worst = 0;
  for (size_t i = 0; i < want.size(); ++i) {
    V3 lo = {want[i].x - tol, -1e300L, -1e300L};
    long double best = 1e300L;
    for (auto it = std::lower_bound(have.begin(), have.end(), lo, lessV); it != have.end() && it->x <= want[i].x + tol; ++it) {
      long double d = std::max(fabsl(it->x - want[i].x), std::max(fabsl(it->y - want[i].y), fabsl(it->z - want[i].z)));
      best = std::min(best, d);
    }
    if (best > tol && miss < 0) miss = (long)i;
    if (best < 1e299L) *worst = std::max(*worst, best);
  }
  return miss;
}
static std::string p3(const V3& p) {
  char b[120];
  snprintf(b, sizeof b, "(%.17g,%.17g,%.17g)", (double)p.x, (double)p.y, (double)p.z);
  return b;
}
struct BBox {
  V3 lo, hi;
  long double scale;
};
static BBox bboxOf(const std::vector<V3>& v) {
  BBox b{{1e300L, 1e300L, 1e300L}, {-1e300L, -1e300L, -1e300L}, 0};
  for (auto& p : v) {
    b.lo = {std::min(b.lo.x, p.x), std::min(b.lo.y, p.y), std::min(b.lo.z, p.z)};
    b.hi = {std::max(b.hi.x, p.x), std::max(b.hi.y, p.y), std::max(b.hi.z, p.z)};
  }
  for (auto& p : {b.lo, b.hi}) b.scale = std::max(b.scale, std::max(fabsl(p.x), std::max(fabsl(p.y), fabsl(p.z))));
  return b;
}
// G^3 sample points of the slightly enlarged bounding box, off every "round" coordinate
static std::vector<V3> samplesOf(const BBox& b, int G) {
  std::vector<V3> s;
  V3 d = b.hi - b.lo;
  V3 lo = {b.lo.x - 0.13L * d.x - 0.05L, b.lo.y - 0.13L * d.y - 0.05L, b.lo.z - 0.13L * d.z - 0.05L};
  V3 e = {d.x * 1.26L + 0.1L, d.y * 1.26L + 0.1L, d.z * 1.26L + 0.1L};
  for (int i = 0; i < G; ++i)
    for (int j = 0; j < G; ++j)
      for (int k = 0; k < G; ++k)
        s.push_back({lo.x + (i + 0.37L) / G * e.x, lo.y + (j + 0.43L) / G * e.y, lo.z + (k + 0.29L) / G * e.z});
  return s;
}

// ------------------------------------------------------------------------------------------------
int main(int argc, char** argv) {
  Runner R("C19", argc, argv);
  const bool thorough = R.a.thorough();

  // ============================================================ 1. patterns
  {
    const int N = thorough ? 20 : 10, M = thorough ? 8 : 5;
    std::vector<const char*> CN = {"patterns", "pattern_tris", "pattern_interior_verts", "reindex_calls"};
    auto body = [&](ivec4 div, Ctx& c) {
      const std::string name = "pattern" + divStr(div);
      c.describe(name);
      PatOut o = checkPattern(div);
      c.count("patterns");
      c.count("pattern_tris", (int64_t)o.nTri);
      c.count("pattern_interior_verts", (int64_t)o.nInterior);
      c.count("reindex_calls", div[3] > 0 ? 16 : 8);
      if (!o.kind.empty()) c.viol(name + ":" + o.kind, name, o.why);
      if (o.hash) {
        c.distinct(o.hash);
        if (o.nInterior > 0) c.nontrivial(o.hash);
      }
    };
    R.phase("tri-patterns", (uint64_t)N * N * N, 64, [&](uint64_t idx, Ctx& c) {
      auto d = digits(idx, {N, N, N});
      body({d[0] + 1, d[1] + 1, d[2] + 1, 0}, c);
      if (idx % 333 == 0) c.sample("pattern" + divStr({d[0] + 1, d[1] + 1, d[2] + 1, 0}));
    }, CN);
    R.phase("quad-patterns", (uint64_t)M * M * M * M, 32, [&](uint64_t idx, Ctx& c) {
      auto d = digits(idx, {M, M, M, M});
      body({d[0] + 1, d[1] + 1, d[2] + 1, d[3] + 1}, c);
      if (idx % 211 == 0) c.sample("pattern" + divStr({d[0] + 1, d[1] + 1, d[2] + 1, d[3] + 1}));
    }, CN);
  }

  // ============================================================ 2. meshes
  {
    std::vector<Seed> S0;
    for (auto& s : seeds())
      if (!s.degenerate) S0.push_back(s);
    // Boolean results (the property's motivation names them): every ordered pair of 4 (quick: Tet, Cube, Octa,
    // Cone4) / 8 (thorough) small solids, the second one shifted into general position, under + - ^
    std::vector<Seed> S1;
    {
      std::vector<Seed> small;
      for (auto& s : S0)
        for (const char* n : {"Tet", "Cube", "Octa", "Cone4", "Sphere8", "Prism3", "Pyramid", "RevWedge90"})
          if (s.name == n && (thorough || small.size() < 4)) small.push_back(s);
      const char* opn[3] = {"+", "-", "^"};
      for (auto& a : small)
        for (auto& b : small)
          for (int o = 0; o < 3; ++o) {
            auto ma = a.make, mb = b.make;
            S1.push_back({"(" + a.name + opn[o] + b.name + "@.3,.2,.1)", [ma, mb, o] {
                            Manifold x = ma(), y = mb().Translate({0.3, 0.2, 0.1});
                            return o == 0 ? x + y : o == 1 ? x - y : x ^ y;
                          }});
          }
      S1.push_back({"(Cube+Sphere(.6,8)@.9,.8,.7)", [] { return Manifold::Cube() + Manifold::Sphere(0.6, 8).Translate({0.9, 0.8, 0.7}); }});
    }

    std::vector<Named> PV = {
        {"asis", [](const Manifold& m) { return m; }},
        {"props2", [](const Manifold& m) {
           return m.SetProperties(2, [](double* o, vec3 p, const double*) {
             o[0] = p.x + p.y;
             o[1] = 3 * p.z;
           });
         }},
    };
    std::vector<Named> TV = {{"flat", [](const Manifold& m) { return m; }}};
    for (double ang : {0.0, 52.5, 180.0})
      for (double sm : {0.0, 0.5}) {
        char b[64];
        snprintf(b, sizeof b, "SmoothOut(%g,%g)", ang, sm);
        TV.push_back({b, [ang, sm](const Manifold& m) { return m.SmoothOut(ang, sm); }});
      }
    TV.push_back({"Smooth()", [](const Manifold& m) {
                    MeshGL64 g = m.GetMeshGL64();
                    g.halfedgeTangent.clear();
                    return Manifold::Smooth(g);
                  }});
    TV.push_back({"SmoothByNormals", [](const Manifold& m) { return m.CalculateNormals(0).SmoothByNormals(0); }});
    struct Op {
      std::string name;
      int n;  // Refine(n) or 0
      std::function<Manifold(const Manifold&)> f;
    };
    std::vector<Op> OP;
    for (int n = 1; n <= 4; ++n) OP.push_back({"Refine(" + std::to_string(n) + ")", n, [n](const Manifold& m) { return m.Refine(n); }});
    for (double l : {2.0, 0.7, 0.3}) {
      char b[64];
      snprintf(b, sizeof b, "RefineToLength(%g)", l);
      OP.push_back({b, 0, [l](const Manifold& m) { return m.RefineToLength(l); }});
    }
    for (double t : {0.1, 0.01}) {
      char b[64];
      snprintf(b, sizeof b, "RefineToTolerance(%g)", t);
      OP.push_back({b, 0, [t](const Manifold& m) { return m.RefineToTolerance(t); }});
    }
    const int nT = TV.size(), nO = OP.size();
    const int G = thorough ? 9 : 6;
    std::vector<const char*> CN = {"cases", "flat_cases", "tangent_cases", "winding_samples", "orig_verts_checked", "refine2n_verts_matched",
                                   "result_tris", "input_not_valid"};
    auto refinePhase = [&](const std::string& phaseName, const std::vector<Seed>& S, int nP) {
    std::vector<int> radix = {(int)S.size(), nP, nT, nO};
    R.phase(phaseName, product(radix), nO, [&, radix](uint64_t idx, Ctx& c) {
      auto d = digits(idx, radix);
      // the input (prefix) is shared by the nO consecutive cases of a chunk
      static uint64_t cachedPrefix = UINT64_MAX;
      static Manifold in;
      static bool inOk = false;
      static std::string inName;
      static MeshGL64 gin;
      static Soup sin;
      static std::vector<V3> vin, samples;
      static BBox bb;
      static bool hasTangents = false;
      static long double volIn = 0, areaIn = 0;
      if (cachedPrefix != idx / nO) {
        cachedPrefix = idx / nO;
        inName = S[d[0]].name + "|" + PV[d[1]].name + "|" + TV[d[2]].name;
        c.describe("input " + inName);
        in = TV[d[2]].f(PV[d[1]].f(S[d[0]].make()));
        inOk = in.Status() == Manifold::Error::NoError && !in.IsEmpty() && checkManifoldC01(in).empty();
        if (inOk) {
          gin = in.GetMeshGL64();
          // tangents are present if any exported component is non-zero (a composition of tangent-free parts
          // exports an all-zero array, which interpolates to the flat surface)
          hasTangents = false;
          for (double x : gin.halfedgeTangent)
            if (x != 0) hasTangents = true;
          sin = soupOf(gin);
          vin = vertsOf(gin, false);
          bb = bboxOf(vin);
          volIn = volumeOf(sin);
          areaIn = areaOf(sin);
          samples.clear();
          if (!hasTangents)
            for (auto& p : samplesOf(bb, G))
              if (distToSoup(sin, p) > 1e-6L * (bb.scale + 1)) samples.push_back(p);
        }
      }
      c.count("cases");
      if (!inOk) {
        c.count("input_not_valid");
        return;
      }
      if (d[1] == 0 && d[2] == 0 && d[3] == 0 && !(in.GetTolerance() >= in.GetEpsilon())) {
        // the pool member itself (reported once per seed): tolerance never drops below epsilon
        char b[200];
        snprintf(b, sizeof b, "GetTolerance() %.17g < GetEpsilon() %.17g", in.GetTolerance(), in.GetEpsilon());
        c.viol("refine-input:" + S[d[0]].name + ":tol-below-eps", S[d[0]].name, b);
      }
      const Op& op = OP[d[3]];
      const std::string prog = inName + "|" + op.name;
      const std::string key = "refine:" + prog;
      c.describe(prog);
      Manifold r = op.f(in);
      if (r.Status() != Manifold::Error::NoError) {
        c.viol(key + ":status", prog, "status " + std::to_string((int)r.Status()));
        return;
      }
      MeshGL64 gr = r.GetMeshGL64();
      c.count("result_tris", (int64_t)gr.triVerts.size() / 3);
      uint64_t h = canonGeomHash(gr);
      c.distinct(h);
      if (gr.triVerts.size() > gin.triVerts.size()) c.nontrivial(h);
      if (idx % 397 == 0) c.sample(prog);

      // every vertex referenced, closed oriented manifold, counts consistent
      std::string why = checkManifoldC01(r);
      if (!why.empty()) c.viol(key + ":topo", prog, why);
      if (in.GetTolerance() >= in.GetEpsilon() && !(r.GetTolerance() >= r.GetEpsilon())) {
        char b[200];
        snprintf(b, sizeof b, "GetTolerance() %.17g < GetEpsilon() %.17g", r.GetTolerance(), r.GetEpsilon());
        c.viol(key + ":tol-below-eps", prog, b);
      }
      // original vertices retained / not moved: present among the vertices the surface uses
      {
        std::vector<V3> vr = vertsOf(gr, true);
        long miss = firstMissingExact(vr, vin);
        c.count("orig_verts_checked", (int64_t)vin.size());
        if (miss >= 0)
          c.viol(key + ":origvert", prog,
                 "original vertex " + p3(vin[miss]) + " is not a vertex of any triangle of the result (" + std::to_string(vr.size()) +
                     " referenced vertices)");
      }
      if (!hasTangents) {
        c.count("flat_cases");
        const size_t ntIn = gin.triVerts.size() / 3, ntOut = gr.triVerts.size() / 3;
        if (op.n && ntOut != (size_t)op.n * op.n * ntIn)
          c.viol(key + ":numtri", prog, std::to_string(ntOut) + " triangles, expected " + std::to_string((size_t)op.n * op.n * ntIn));
        Soup sr = soupOf(gr);
        const long double S1 = bb.scale + 1, eps = std::max(in.GetEpsilon(), r.GetEpsilon());
        const long double tolV = 100 * eps * S1 * S1, tolA = 100 * eps * S1;
        long double vo = volumeOf(sr), ao = areaOf(sr);
        char b[400];
        if (fabsl(vo - volIn) > tolV || fabsl((long double)r.Volume() - (long double)in.Volume()) > tolV) {
          snprintf(b, sizeof b, "volume %.17g -> %.17g (oracle %.17Lg -> %.17Lg), tolerance %.3Lg", in.Volume(), r.Volume(), volIn, vo, tolV);
          c.viol(key + ":volume", prog, b);
        }
        if (fabsl(ao - areaIn) > tolA || fabsl((long double)r.SurfaceArea() - (long double)in.SurfaceArea()) > tolA) {
          snprintf(b, sizeof b, "area %.17g -> %.17g (oracle %.17Lg -> %.17Lg), tolerance %.3Lg", in.SurfaceArea(), r.SurfaceArea(), areaIn, ao, tolA);
          c.viol(key + ":area", prog, b);
        }
        for (auto& p : samples) {
          int wi = windingInt(sin, p), wo = windingInt(sr, p);
          if (wi != wo) {
            c.viol(key + ":winding", prog, "winding number at " + p3(p) + " is " + std::to_string(wi) + " before and " + std::to_string(wo) + " after");
            break;
          }
        }
        c.count("winding_samples", (int64_t)samples.size());
      } else {
        c.count("tangent_cases");
        if (op.n) {
          // differential: the vertices of Refine(n) lie on the interpolated surface <=> they are vertices of Refine(2n) too
          c.describe(prog + " vs Refine(" + std::to_string(2 * op.n) + ")");
          Manifold r2 = in.Refine(2 * op.n);
          if (r2.Status() != Manifold::Error::NoError) {
            c.viol(key + ":status2n", prog, "Refine(2n) status " + std::to_string((int)r2.Status()));
            return;
          }
          std::vector<V3> v1 = vertsOf(gr, true), v2 = vertsOf(r2.GetMeshGL64(), true);
          long double worst = 0, tol = 1e-9L * (bb.scale + 1);
          long miss = firstMissingNear(v2, v1, tol, &worst);
          c.count("refine2n_verts_matched", (int64_t)v1.size());
          if (miss >= 0)
            c.viol(key + ":onsurface", prog,
                   "vertex " + p3(v1[miss]) + " of Refine(n) is not within 1e-9 (relative) of any vertex of Refine(2n)");
        }
      }
    }, CN);
    };
    refinePhase("refine", S0, (int)PV.size());
    refinePhase("refine-bool", S1, 1);
  }

  // ============================================================ 3. simplify
  {
    struct In {
      std::string name;
      std::function<Manifold()> make;
    };
    std::vector<In> IN;
    Polygons Lp = {{{0, 0}, {2, 0}, {2, 1}, {1, 1}, {1, 2}, {0, 2}}};
    Polygons Up = {{{0, 0}, {3, 0}, {3, 2}, {2, 2}, {2, 1}, {1, 1}, {1, 2}, {0, 2}}};
    std::vector<In> base;
    auto boxes = allBoxes(thorough ? 3 : 2);
    for (auto& b : boxes) base.push_back({b.str(), [b] { return boxManifold(b); }});
    base.push_back({"L", [Lp] { return Manifold::Extrude(Lp, 1); }});
    base.push_back({"L2", [Lp] { return Manifold::Extrude(Lp, 2); }});
    base.push_back({"U", [Up] { return Manifold::Extrude(Up, 1); }});
    base.push_back({"U2", [Up] { return Manifold::Extrude(Up, 2); }});
    for (auto& b : base)
      for (int n : {2, 3, 4, 8}) {
        // n = 8 (facets of 1/8, just above t = 0.1) only on the unit box, the 2x1x1 box, L and U
        if (n == 8 && b.name != "B000-111" && b.name != "B000-211" && b.name != "L" && b.name != "U") continue;
        auto mk = b.make;
        IN.push_back({b.name + "|Refine(" + std::to_string(n) + ")|AsOriginal", [mk, n] { return mk().Refine(n).AsOriginal(); }});
      }
    // unions of two face-adjacent lattice boxes (disjoint interiors, contact of positive area)
    for (size_t i = 0; i < boxes.size(); ++i)
      for (size_t j = i + 1; j < boxes.size(); ++j) {
        const LBox &a = boxes[i], &b = boxes[j];
        int touchAxis = -1, overlapAxes = 0;
        bool disjoint = false;
        for (int k = 0; k < 3; ++k) {
          int lo = std::max(a.lo[k], b.lo[k]), hi = std::min(a.hi[k], b.hi[k]);
          if (hi > lo) ++overlapAxes;
          else if (hi == lo) touchAxis = k;
          else disjoint = true;
        }
        if (disjoint || overlapAxes != 2 || touchAxis < 0) continue;
        IN.push_back({"(" + a.str() + "+" + b.str() + ")", [a, b] { return boxManifold(a) + boxManifold(b); }});
        IN.push_back({"(" + a.str() + "+" + b.str() + ")|AsOriginal", [a, b] { return (boxManifold(a) + boxManifold(b)).AsOriginal(); }});
      }
    const std::vector<double> T = {0, 1e-9, 0.01, 0.1};
    const int nI = IN.size(), nT = T.size();
    std::vector<int> radix = {nI, 2, nT};
    std::vector<const char*> CN = {"cases", "tris_in", "tris_out", "reduced", "minimal_result", "winding_samples", "verts_dist_checked", "input_not_valid"};
    R.phase("simplify", product(radix), 2 * nT, [&, radix](uint64_t idx, Ctx& c) {
      auto d = digits(idx, radix);
      static uint64_t cachedPrefix = UINT64_MAX;
      static Manifold in;
      static bool inOk = false;
      static MeshGL64 gin;
      static Soup sin;
      static std::vector<V3> vin, samples;
      static std::vector<int> wIn;
      if (cachedPrefix != idx / (2 * nT)) {
        cachedPrefix = idx / (2 * nT);
        c.describe("input " + IN[d[0]].name);
        in = IN[d[0]].make();
        inOk = in.Status() == Manifold::Error::NoError && !in.IsEmpty() && checkManifoldC01(in).empty();
        if (inOk) {
          gin = in.GetMeshGL64();
          sin = soupOf(gin);
          vin = vertsOf(gin, true);
          // quarter-offset lattice: every sample is 0.25 from every lattice plane (> every t used)
          samples.clear();
          wIn.clear();
          // (covers [-.25,3.25] x [-.25,2.25]^2, thorough [-.25,3.25]^3: all inputs lie in [0,3] x [0,2]^2 / [0,3]^3)
          const int ny = thorough ? 7 : 5;
          for (int i = -1; i < 7; ++i)
            for (int j = -1; j < ny; ++j)
              for (int k = -1; k < ny; ++k) samples.push_back({0.25L + 0.5L * i, 0.25L + 0.5L * j, 0.25L + 0.5L * k});
          for (auto& p : samples) wIn.push_back(windingInt(sin, p));
        }
      }
      c.count("cases");
      if (!inOk) {
        c.count("input_not_valid");
        return;
      }
      const bool setTol = d[1] == 1;
      const double t = T[d[2]];
      char tb[32];
      snprintf(tb, sizeof tb, "%g", t);
      const std::string prog = IN[d[0]].name + "|" + (setTol ? "SetTolerance(" : "Simplify(") + tb + ")";
      const std::string key = "simplify:" + prog;
      c.describe(prog);
      Manifold r = setTol ? in.SetTolerance(t) : in.Simplify(t);
      if (r.Status() != Manifold::Error::NoError) {
        c.viol(key + ":status", prog, "status " + std::to_string((int)r.Status()));
        return;
      }
      std::string why = checkManifoldC01(r);
      if (!why.empty()) c.viol(key + ":topo", prog, why);
      MeshGL64 gr = r.GetMeshGL64();
      const size_t ntIn = gin.triVerts.size() / 3, ntOut = gr.triVerts.size() / 3;
      c.count("tris_in", (int64_t)ntIn);
      c.count("tris_out", (int64_t)ntOut);
      uint64_t h = canonGeomHash(gr);
      c.distinct(h);
      if (ntOut < ntIn) {
        c.count("reduced");
        c.nontrivial(h);
      }
      if (idx % 251 == 0) c.sample(prog);
      if (ntOut > ntIn) c.viol(key + ":numtri", prog, "triangle count grew from " + std::to_string(ntIn) + " to " + std::to_string(ntOut));
      // tolerance bookkeeping
      {
        char b[300];
        const double tolIn = in.GetTolerance(), tolOut = r.GetTolerance(), epsOut = r.GetEpsilon();
        if (!(tolOut >= epsOut)) {
          snprintf(b, sizeof b, "GetTolerance() %.17g < GetEpsilon() %.17g", tolOut, epsOut);
          c.viol(key + ":tol-below-eps", prog, b);
        }
        if (setTol && tolOut != std::max(t, epsOut)) {
          snprintf(b, sizeof b, "GetTolerance() %.17g after SetTolerance(%g), epsilon %.17g", tolOut, t, epsOut);
          c.viol(key + ":tolerance", prog, b);
        }
        if (!setTol && tolOut != tolIn) {
          snprintf(b, sizeof b, "GetTolerance() %.17g -> %.17g across Simplify", tolIn, tolOut);
          c.viol(key + ":tolerance", prog, b);
        }
      }
      // the surface moved by at most max(t, tolerance of the input, rounding)
      Soup sr = soupOf(gr);
      {
        const long double lim = std::max<long double>(std::max<long double>(t, in.GetTolerance()), 1e-12L);
        std::vector<V3> vr = vertsOf(gr, true);
        c.count("verts_dist_checked", (int64_t)(vr.size() + vin.size()));
        bool bad = false;
        for (auto& p : vr) {
          long double dd = distToSoup(sin, p);
          if (dd > lim) {
            c.viol(key + ":moved", prog, "result vertex " + p3(p) + " is " + std::to_string((double)dd) + " from the input surface");
            bad = true;
            break;
          }
        }
        if (!bad)
          for (auto& p : vin) {
            long double dd = distToSoup(sr, p);
            if (dd > lim) {
              c.viol(key + ":moved", prog, "input vertex " + p3(p) + " is " + std::to_string((double)dd) + " from the result surface");
              break;
            }
          }
        // "removes only": the result's vertices are input vertices (up to rounding: the quadric solve of
        // SimplifyTopology2 re-computes the kept end point, so 1e-17-size differences are legitimate)
        long double worst = 0;
        long miss = firstMissingNear(vin, vr, 1e-12L, &worst);
        if (miss >= 0) c.viol(key + ":newvert", prog, "result vertex " + p3(vr[miss]) + " is not (within 1e-12 of) an input vertex");
      }
      for (size_t i = 0; i < samples.size(); ++i) {
        int wo = windingInt(sr, samples[i]);
        if (wo != wIn[i]) {
          c.viol(key + ":winding", prog,
                 "winding number at " + p3(samples[i]) + " is " + std::to_string(wIn[i]) + " before and " + std::to_string(wo) + " after");
          break;
        }
      }
      c.count("winding_samples", (int64_t)samples.size());
      // how often all redundancy is gone (information, not a requirement): boxes 12, L 20, U 28 triangles
      {
        const std::string& n = IN[d[0]].name;
        size_t minimal = n[0] == 'L' ? 20 : n[0] == 'U' ? 28 : 12;
        if (n[0] != '(' && ntOut == minimal) c.count("minimal_result");
      }
    }, CN);
  }
  return R.finish();
}
