// C03 - a CSG expression denotes one solid however it is built, shared or evaluated.
// Engine S: all expression DAGs of the size bound over a general-position leaf
// family (with sharing: one sub-expression under two parents / two transforms),
// each evaluated under the default history (build lazily, force the root) and
// under EVERY history with at most `bound` deviations (force a node at
// creation, force it one step later, hold an extra copy of its handle, drop
// its handle right after its last use).  Oracle: differential against the
// fully eager history of the same DAG - same Status, same point
// classification at admissible grid points, volume within tolerance - plus
// the evaluator's rewrites as separate expression pairs.
#include <cmath>
#include <optional>
#include <sstream>

#include "engine/runner.h"
#include "lib/canon.h"
#include "lib/solid.h"
#include "manifold/manifold.h"

using namespace manifold;
using namespace vf;

static const OpType OPS[3] = {OpType::Add, OpType::Subtract, OpType::Intersect};
static const char* OPN[3] = {"+", "-", "^"};

struct Leaf {
  std::string name;
  Manifold m;     // evaluated (forced) leaf
  Soup soup;
  std::function<Manifold()> lazy;  // the same solid as a fresh handle whose transform is still pending
};
static std::vector<Leaf> makeLeaves() {
  std::vector<std::pair<std::string, Manifold>> shapes;
  std::vector<std::function<Manifold()>> lazies;
  {
    Manifold t = Manifold::Tetrahedron(), cb = Manifold::Cube({1.3, 1.1, 0.9}, true), oc = Manifold::Sphere(0.9, 4);
    (void)t.NumTri();
    (void)cb.NumTri();
    (void)oc.NumTri();
    lazies.push_back([t] { return t.Rotate(17, 31, 47).Translate({0.1, 0.05, -0.1}); });
    lazies.push_back([cb] { return cb.Rotate(34, 62, 94).Translate({0.31, 0.17, 0.23}); });
    lazies.push_back([oc] { return oc.Rotate(51, 93, 141).Translate({-0.2, 0.25, 0.1}); });
  }
  shapes.push_back({"tet", lazies[0]()});
  shapes.push_back({"cube", lazies[1]()});
  shapes.push_back({"octa", lazies[2]()});
  Polygons L = {{{-0.8, -0.8}, {0.8, -0.8}, {0.8, -0.1}, {0.1, -0.1}, {0.1, 0.8}, {-0.8, 0.8}}};
  shapes.push_back({"L", Manifold::Extrude(L, 1.2).Translate({0, 0, -0.6}).Rotate(68, 124, 188).Translate({0.15, -0.2, 0.3})});
  Polygons ring = {{{-0.9, -0.9}, {0.9, -0.9}, {0.9, 0.9}, {-0.9, 0.9}}, {{-0.4, -0.35}, {-0.4, 0.45}, {0.35, 0.45}, {0.35, -0.35}}};
  shapes.push_back({"ring", Manifold::Extrude(ring, 0.8).Translate({0, 0, -0.4}).Rotate(85, 155, 235).Translate({-0.1, -0.15, -0.2})});
  shapes.push_back({"far", Manifold::Cube({0.8, 0.7, 0.6}).Rotate(10, 20, 30).Translate({6, 0.3, 0.2})});  // bbox-disjoint: Compose fast path
  std::vector<Leaf> out;
  for (size_t i = 0; i < shapes.size(); ++i) {
    auto& s = shapes[i];
    (void)s.second.NumTri();
    Manifold forced = s.second;
    std::function<Manifold()> lz = i < lazies.size() ? lazies[i] : std::function<Manifold()>([forced] { return forced.Translate({0, 0, 0}); });
    out.push_back({s.first, s.second, soupOf(s.second), lz});
  }
  return out;
}
static Manifold XF(const Manifold& m, int t) {
  return t == 1 ? m.Rotate(11, 7, 3).Translate({0.2, 0.1, 0.05}) : m.Scale({1.1, 0.9, 1.0}).Translate({-0.1, 0.15, 0.0});
}

// ---- expression DAG
struct Node {
  int kind;  // 0 leaf, 1 op, 2 transform, 3 batch
  int a = -1, b = -1, c = -1;  // children (indices of earlier nodes) / leaf index in a
  int op = 0;                   // OPS index or transform id
};
struct Expr {
  std::vector<Node> n;  // topological order, root last
  std::string str(const std::vector<Leaf>& L, int i = -1) const {
    if (i < 0) i = (int)n.size() - 1;
    const Node& x = n[i];
    switch (x.kind) {
      case 0:
        return L[x.a].name;
      case 1:
        return "(" + str(L, x.a) + OPN[x.op] + str(L, x.b) + ")";
      case 2:
        return str(L, x.a) + ".T" + std::to_string(x.op);
      default:
        return std::string("Batch") + OPN[x.op] + "[" + str(L, x.a) + "," + str(L, x.b) + "," + str(L, x.c) + "]";
    }
  }
  std::vector<int> internal() const {  // non-leaf, non-root nodes
    std::vector<int> v;
    for (int i = 0; i + 1 < (int)n.size(); ++i)
      if (n[i].kind != 0) v.push_back(i);
    return v;
  }
};

// deviations: per internal node one of
enum Dev { NONE = 0, FORCE_NOW = 1, FORCE_LATER = 2, EXTRA_COPY = 3, DROP_EARLY = 4 };
static const char* DEVN[5] = {"", "force@creation", "force@next", "extra-copy", "drop-early"};

static Manifold evaluate(const Expr& e, const std::vector<Leaf>& L, const std::vector<int>& dev /* per node */, bool eager,
                         bool lazyLeaves = false, std::vector<std::optional<Manifold>>* nodesOut = nullptr) {
  std::vector<std::optional<Manifold>> h(e.n.size());
  std::vector<Manifold> copies;
  std::vector<int> lastUse(e.n.size(), -1);
  for (int i = 0; i < (int)e.n.size(); ++i)
    for (int ch : {e.n[i].a, e.n[i].b, e.n[i].c})
      if (e.n[i].kind != 0 && ch >= 0) lastUse[ch] = i;
  int pendingForce = -1;
  for (int i = 0; i < (int)e.n.size(); ++i) {
    const Node& x = e.n[i];
    switch (x.kind) {
      case 0:
        h[i] = (lazyLeaves && !eager) ? L[x.a].lazy() : L[x.a].m;
        break;
      case 1:
        h[i] = h[x.a]->Boolean(*h[x.b], OPS[x.op]);
        break;
      case 2:
        h[i] = XF(*h[x.a], x.op);
        break;
      default:
        h[i] = Manifold::BatchBoolean({*h[x.a], *h[x.b], *h[x.c]}, OPS[x.op]);
    }
    if (pendingForce >= 0 && h[pendingForce]) {
      (void)h[pendingForce]->NumTri();
      pendingForce = -1;
    }
    int d = eager ? (x.kind != 0 ? FORCE_NOW : NONE) : dev[i];
    if (d == FORCE_NOW) (void)h[i]->NumTri();
    if (d == FORCE_LATER) pendingForce = i;
    if (d == EXTRA_COPY) copies.push_back(*h[i]);
    // drop handles whose deviation says so, after their last use
    for (int ch : {x.a, x.b, x.c})
      if (x.kind != 0 && ch >= 0 && !eager && dev[ch] == DROP_EARLY && lastUse[ch] == i) h[ch].reset();
  }
  Manifold root = *h.back();
  (void)root.Status();
  if (nodesOut) *nodesOut = h;  // handles still alive, to be forced AFTER the root by the caller
  return root;
}

struct Grid {
  std::vector<V3> pts;
};
static Grid gridOver(Box u, int n) {
  vec3 sz = u.Size();
  Grid g;
  for (int i = 0; i < n; ++i)
    for (int j = 0; j < n; ++j)
      for (int k = 0; k < n; ++k) {
        double fx = (i + 0.4142135) / n * 1.1 - 0.05, fy = (j + 0.7320508) / n * 1.1 - 0.05, fz = (k + 0.2360679) / n * 1.1 - 0.05;
        g.pts.push_back({u.min.x + fx * sz.x, u.min.y + fy * sz.y, u.min.z + fz * sz.z});
      }
  return g;
}

// same solid? (status, classification at admissible points, volume)
static std::string sameSolid(const Manifold& ref, const Manifold& got, const std::vector<const Soup*>& leafSoups, int G, long& judged) {
  if (ref.Status() != got.Status()) return "Status differs: " + std::to_string((int)ref.Status()) + " vs " + std::to_string((int)got.Status());
  if (ref.Status() != Manifold::Error::NoError) return "";
  MeshGL64 a = ref.GetMeshGL64(), b = got.GetMeshGL64();
  if (canonGeomHash(a) == canonGeomHash(b)) return "";  // identical meshes denote identical solids
  double tol = std::max(ref.GetTolerance(), got.GetTolerance());
  double slack = 20 * tol * (ref.SurfaceArea() + got.SurfaceArea()) + 1e-9;
  if (std::fabs(ref.Volume() - got.Volume()) > slack) {
    std::ostringstream s;
    s.precision(17);
    s << "Volume differs: " << ref.Volume() << " vs " << got.Volume() << " (slack " << slack << ")";
    return s.str();
  }
  if (ref.IsEmpty() && got.IsEmpty()) return "";
  Box bb = ref.BoundingBox().Union(got.BoundingBox());
  Grid g = gridOver(bb, G);
  Soup sa = soupOf(a), sb = soupOf(b);
  double margin = std::max(tol, 1e-6);
  for (auto& p : g.pts) {
    bool ia = windingInt(sa, p) > 0, ib = windingInt(sb, p) > 0;
    if (ia == ib) {
      ++judged;
      continue;
    }
    bool adm = true;
    for (auto s : leafSoups)
      if (distToSoup(*s, p) <= margin) adm = false;
    if (distToSoup(sa, p) <= margin || distToSoup(sb, p) <= margin) adm = false;
    if (!adm) continue;
    std::ostringstream s;
    s.precision(17);
    s << "point (" << (double)p.x << "," << (double)p.y << "," << (double)p.z << ") is " << (ia ? "inside" : "outside") << " the eager result but "
      << (ib ? "inside" : "outside") << " this one";
    return s.str();
  }
  return "";
}

int main(int argc, char** argv) {
  Runner R("C03", argc, argv);
  const bool thorough = R.a.thorough();
  auto L = makeLeaves();
  const int nl = thorough ? 6 : 4;  // leaves used as operands (thorough includes the bbox-disjoint one)
  const int G = thorough ? 9 : 7;
  const int devBound = thorough ? 2 : 1;

  // ---- build the DAG family
  std::vector<Expr> E;
  std::vector<size_t> famStart;  // first index of each family in construction order
  auto leafNode = [](int i) {
    Node n;
    n.kind = 0;
    n.a = i;
    return n;
  };
  auto opNode = [](int op, int a, int b) {
    Node n;
    n.kind = 1;
    n.op = op;
    n.a = a;
    n.b = b;
    return n;
  };
  auto xfNode = [](int t, int a) {
    Node n;
    n.kind = 2;
    n.op = t;
    n.a = a;
    return n;
  };
  auto batchNode = [](int op, int a, int b, int c) {
    Node n;
    n.kind = 3;
    n.op = op;
    n.a = a;
    n.b = b;
    n.c = c;
    return n;
  };
  const int leafSet[6] = {0, 1, 2, 3, 5, 4};  // quick uses tet,cube,octa,L ; thorough adds far and ring
  auto LF = [&](int k) { return leafSet[k]; };
  famStart.push_back(E.size());
  // trees with 2 ops: (a o b) o c ; a o (b o c)
  for (int a = 0; a < nl; ++a)
    for (int b = 0; b < nl; ++b)
      for (int c = 0; c < nl; ++c)
        for (int o1 = 0; o1 < 3; ++o1)
          for (int o2 = 0; o2 < 3; ++o2) {
            if (a == b) continue;
            Expr e;
            e.n = {leafNode(LF(a)), leafNode(LF(b)), leafNode(LF(c)), opNode(o1, 0, 1), opNode(o2, 3, 2)};
            E.push_back(e);
            e.n = {leafNode(LF(a)), leafNode(LF(b)), leafNode(LF(c)), opNode(o1, 0, 1), opNode(o2, 2, 3)};
            E.push_back(e);
          }
  famStart.push_back(E.size());
  // trees with 3 ops: ((a o b) o c) o d ; (a o b) o (c o d)
  for (int a = 0; a < nl; ++a)
    for (int b = a + 1; b < nl; ++b)
      for (int c = 0; c < nl; ++c)
        for (int d = 0; d < nl; ++d)
          for (int o = 0; o < 27; ++o) {
            if (!thorough && (c == d)) continue;
            int o1 = o % 3, o2 = (o / 3) % 3, o3 = o / 9;
            Expr e;
            e.n = {leafNode(LF(a)), leafNode(LF(b)), leafNode(LF(c)), leafNode(LF(d)), opNode(o1, 0, 1), opNode(o2, 4, 2), opNode(o3, 5, 3)};
            E.push_back(e);
            e.n = {leafNode(LF(a)), leafNode(LF(b)), leafNode(LF(c)), leafNode(LF(d)), opNode(o1, 0, 1), opNode(o2, 2, 3), opNode(o3, 4, 5)};
            E.push_back(e);
          }
  famStart.push_back(E.size());
  // sharing: S = a o1 b used twice (once transformed; under two different transforms; under two parents)
  for (int a = 0; a < nl; ++a)
    for (int b = 0; b < nl; ++b)
      for (int c = 0; c < nl; ++c)
        for (int o = 0; o < 27; ++o) {
          if (a == b) continue;
          int o1 = o % 3, o2 = (o / 3) % 3, o3 = o / 9;
          Expr e;
          // S o2 S.T1
          if (c == 0 && o3 == 0) {
            e.n = {leafNode(LF(a)), leafNode(LF(b)), opNode(o1, 0, 1), xfNode(1, 2), opNode(o2, 2, 3)};
            E.push_back(e);
            // S.T1 o2 S.T2   (same impl_ children under two transforms)
            e.n = {leafNode(LF(a)), leafNode(LF(b)), opNode(o1, 0, 1), xfNode(1, 2), xfNode(2, 2), opNode(o2, 3, 4)};
            E.push_back(e);
          }
          // (S o2 c) o3 S.T1   (shared node under two parents)
          e.n = {leafNode(LF(a)), leafNode(LF(b)), leafNode(LF(c)), opNode(o1, 0, 1), opNode(o2, 3, 2), xfNode(1, 3), opNode(o3, 4, 5)};
          E.push_back(e);
          // Batch o3 [S, c, S.T2]
          if (o2 == 0) {
            e.n = {leafNode(LF(a)), leafNode(LF(b)), leafNode(LF(c)), opNode(o1, 0, 1), xfNode(2, 3), batchNode(o3, 3, 2, 4)};
            E.push_back(e);
          }
        }
  famStart.push_back(E.size());
  // transformed op nodes nested inside op nodes (collapsing must compose the transforms in the right order):
  // ((a o1 b).T1 o2 c).T2 o3 d   and   d o3 (c o2 (a o1 b).T2).T1
  for (int a = 0; a < nl; ++a)
    for (int b = 0; b < nl; ++b)
      for (int c = 0; c < nl; ++c)
        for (int d = 0; d < nl; ++d)
          for (int o = 0; o < 27; ++o) {
            if (a == b) continue;
            if (!thorough && c != d && (a + b + c + d) % 2) continue;  // quick: half of the leaf assignments
            int o1 = o % 3, o2 = (o / 3) % 3, o3 = o / 9;
            Expr e;
            e.n = {leafNode(LF(a)), leafNode(LF(b)), leafNode(LF(c)), leafNode(LF(d)), opNode(o1, 0, 1), xfNode(1, 4), opNode(o2, 5, 2), xfNode(2, 6), opNode(o3, 7, 3)};
            E.push_back(e);
            e.n = {leafNode(LF(a)), leafNode(LF(b)), leafNode(LF(c)), leafNode(LF(d)), opNode(o1, 0, 1), xfNode(2, 4), opNode(o2, 2, 5), xfNode(1, 6), opNode(o3, 3, 7)};
            E.push_back(e);
          }
  famStart.push_back(E.size());
  // batches of three leaves / with a nested op, and transform chains
  for (int a = 0; a < nl; ++a)
    for (int b = 0; b < nl; ++b)
      for (int c = 0; c < nl; ++c)
        for (int o = 0; o < 9; ++o) {
          if (a == b || b == c || a == c) continue;
          int o1 = o % 3, o2 = o / 3;
          Expr e;
          e.n = {leafNode(LF(a)), leafNode(LF(b)), leafNode(LF(c)), batchNode(o1, 0, 1, 2)};
          if (o2 == 0) E.push_back(e);
          e.n = {leafNode(LF(a)), leafNode(LF(b)), leafNode(LF(c)), opNode(o2, 0, 1), xfNode(1, 3), xfNode(2, 4), opNode(o1, 5, 2)};
          E.push_back(e);
        }

  // interleave the families round-robin: a run that is cut short by its time budget still covers every family
  {
    famStart.push_back(E.size());
    std::vector<Expr> mixed;
    mixed.reserve(E.size());
    for (size_t k = 0; mixed.size() < E.size(); ++k)
      for (size_t f = 0; f + 1 < famStart.size(); ++f)
        if (famStart[f] + k < famStart[f + 1]) mixed.push_back(E[famStart[f] + k]);
    E.swap(mixed);
  }
  R.phase("histories", E.size(), 1, [&](uint64_t idx, Ctx& c) {
    const Expr& e = E[idx];
    std::string name = e.str(L);
    c.describe(name + " [eager]");
    std::vector<int> none(e.n.size(), NONE);
    std::vector<std::optional<Manifold>> refNodes;
    Manifold ref = evaluate(e, L, none, true, false, &refNodes);
    std::vector<const Soup*> soups;
    for (auto& nd : e.n)
      if (nd.kind == 0) soups.push_back(&L[nd.a].soup);
    long judged = 0;
    auto runHist = [&](const std::vector<int>& dev, const std::string& hn0, bool lazyLeaves = false) {
      std::string hn = hn0 + (lazyLeaves ? ",lazy-leaves" : "");
      c.describe(name + " [" + hn + "]");
      std::vector<std::optional<Manifold>> nodes;
      Manifold got = evaluate(e, L, dev, false, lazyLeaves, &nodes);
      c.count("transitions");
      std::string why = sameSolid(ref, got, soups, G, judged);
      if (!why.empty()) c.viol("lazy:" + name + " [" + hn + "]", name + " [" + hn + "]", why);
      // every intermediate handle that is still alive is forced now, AFTER its parent(s): it must denote what
      // the eager evaluation of that sub-expression denotes
      for (size_t i = 0; i + 1 < nodes.size() && why.empty(); ++i) {
        if (!nodes[i] || e.n[i].kind == 0 || !refNodes[i]) continue;
        c.describe(name + " [" + hn + "] node#" + std::to_string(i) + " forced after the root");
        std::string w2 = sameSolid(*refNodes[i], *nodes[i], soups, G, judged);
        c.count("transitions");
        if (!w2.empty()) {
          c.viol("lazy:" + name + " [" + hn + "] node#" + std::to_string(i), name + " [" + hn + "]", "sub-expression " + e.str(L, (int)i) + " forced after its parent: " + w2);
          break;
        }
      }
      uint64_t h = canonGeomHash(got.GetMeshGL64());
      if (c.distinct(h) && !got.IsEmpty()) c.nontrivial(h);
    };
    auto in = e.internal();
    // two base histories: every intermediate handle kept alive (named variables), and every intermediate dropped right
    // after its last use (temporaries of a one-line expression - only then may the evaluator collapse nested nodes);
    // deviations are applied to each base
    for (int base = 0; base < 2; ++base) {
      std::vector<int> b0 = none;
      if (base == 1)
        for (int i : in) b0[i] = DROP_EARLY;
      const std::string bn = base ? "temporaries" : "named";
      runHist(b0, bn);
      runHist(b0, bn, true);
      for (int i : in)
        for (int d = 1; d <= 4; ++d) {
          std::vector<int> dev = b0;
          int nd = d;
          if (base == 1 && d == DROP_EARLY) nd = NONE;  // in the drop-all base the 4th deviation KEEPS this handle
          if (dev[i] == nd) continue;
          dev[i] = nd;
          runHist(dev, bn + "," + (base == 1 && d == DROP_EARLY ? "keep" : DEVN[nd]) + "#" + std::to_string(i));
          if (base == 1 && d == DROP_EARLY) runHist(dev, bn + ",keep#" + std::to_string(i), true);
        }
      if (devBound >= 2)
        for (size_t x = 0; x < in.size(); ++x)
          for (size_t y = x + 1; y < in.size(); ++y)
            for (int d1 = 1; d1 <= 4; ++d1)
              for (int d2 = 1; d2 <= 4; ++d2) {
                std::vector<int> dev = b0;
                dev[in[x]] = (base == 1 && d1 == DROP_EARLY) ? NONE : d1;
                dev[in[y]] = (base == 1 && d2 == DROP_EARLY) ? NONE : d2;
                runHist(dev, bn + "," + std::to_string(d1) + "#" + std::to_string(in[x]) + "," + std::to_string(d2) + "#" + std::to_string(in[y]));
              }
    }
    // evaluating the same handle twice and from a copy gives the same object
    {
      Manifold again = evaluate(e, L, none, false);
      Manifold cp = again;
      if (fingerprint(cp, false) != fingerprint(again, false)) c.viol("lazy:" + name + " [copy]", name, "a copy of the evaluated root differs from it");
    }
    c.count("points_judged", judged);
    if (idx % 499 == 0) c.sample(name);
  }, {"transitions", "points_judged"});

  // ---- the evaluator's rewrites as expression pairs
  {
    struct RW {
      std::string name;
      std::function<Manifold(const Manifold&, const Manifold&, const Manifold&)> lhs, rhs;
    };
    std::vector<RW> W;
    W.push_back({"(a-b)-c == a-(b+c)", [](auto& a, auto& b, auto& c) { return (a - b) - c; }, [](auto& a, auto& b, auto& c) { return a - (b + c); }});
    W.push_back({"(a+b)+c == Batch+[a,b,c]", [](auto& a, auto& b, auto& c) { return (a + b) + c; },
                 [](auto& a, auto& b, auto& c) { return Manifold::BatchBoolean({a, b, c}, OpType::Add); }});
    W.push_back({"a+(b+c) == Batch+[c,a,b]", [](auto& a, auto& b, auto& c) { return a + (b + c); },
                 [](auto& a, auto& b, auto& c) { return Manifold::BatchBoolean({c, a, b}, OpType::Add); }});
    W.push_back({"(a^b)^c == Batch^[a,b,c]", [](auto& a, auto& b, auto& c) { return (a ^ b) ^ c; },
                 [](auto& a, auto& b, auto& c) { return Manifold::BatchBoolean({a, b, c}, OpType::Intersect); }});
    W.push_back({"(a-b)-c == Batch-[a,b,c]", [](auto& a, auto& b, auto& c) { return (a - b) - c; },
                 [](auto& a, auto& b, auto& c) { return Manifold::BatchBoolean({a, b, c}, OpType::Subtract); }});
    W.push_back({"a+far(b) composed == forced union", [](auto& a, auto& b, auto&) { return a + b.Translate({7, 0, 0}); },
                 [](auto& a, auto& b, auto&) {
                   Manifold t = b.Translate({7, 0, 0});
                   (void)t.NumTri();
                   Manifold u = a + t;
                   (void)u.NumTri();
                   return u;
                 }});
    W.push_back({"transform chain == matrix product", [](auto& a, auto&, auto&) { return a.Rotate(11, 7, 3).Translate({0.2, 0.1, 0.05}).Scale({1.1, 0.9, 1.0}).Rotate(0, 0, 33); },
                 [](auto& a, auto&, auto&) {
                   Manifold t = a.Rotate(11, 7, 3);
                   (void)t.NumTri();
                   t = t.Translate({0.2, 0.1, 0.05});
                   (void)t.NumTri();
                   t = t.Scale({1.1, 0.9, 1.0});
                   (void)t.NumTri();
                   t = t.Rotate(0, 0, 33);
                   (void)t.NumTri();
                   return t;
                 }});
    W.push_back({"(a+b).T1 - c == (a.T1+b.T1) - c", [](auto& a, auto& b, auto& c) { return XF(a + b, 1) - c; }, [](auto& a, auto& b, auto& c) { return (XF(a, 1) + XF(b, 1)) - c; }});
    const uint64_t n3 = 6 * 6 * 6;
    R.phase("rewrites", W.size() * n3, 1, [&](uint64_t idx, Ctx& c) {
      const RW& w = W[idx / n3];
      int a = (idx % n3) / 36, b = (idx / 6) % 6, cc = idx % 6;
      if (a == b || b == cc || a == cc) return;
      std::string name = w.name + " with a=" + L[a].name + " b=" + L[b].name + " c=" + L[cc].name;
      c.describe(name);
      Manifold l = w.lhs(L[a].m, L[b].m, L[cc].m), r = w.rhs(L[a].m, L[b].m, L[cc].m);
      long judged = 0;
      std::string why = sameSolid(l, r, {&L[a].soup, &L[b].soup, &L[cc].soup}, G + 1, judged);
      c.count("transitions", 2);
      c.count("points_judged", judged);
      uint64_t h = canonGeomHash(l.GetMeshGL64());
      if (c.distinct(h) && !l.IsEmpty()) c.nontrivial(h);
      if (!why.empty()) c.viol("rewrite:" + name, name, why);
      if (idx % 211 == 0) c.sample(name);
    }, {"transitions", "points_judged"});
  }

  // ---- operands with a PENDING rotation (lazy bounding box drives the compose-instead-of-union shortcut):
  // elongated, off-centre bars whose rotated box differs strongly from the box of the inverse rotation
  {
    struct Bar {
      std::string name;
      std::function<Manifold()> lazy;
    };
    std::vector<Bar> bars;
    Manifold base = Manifold::Cube({4, 0.6, 0.5});
    (void)base.NumTri();
    Manifold base2 = Manifold::Cube({0.5, 3.5, 0.6}).Translate({0.2, 0.4, -0.1});
    (void)base2.NumTri();
    for (int ang : {30, 60, 90, 135})
      for (int ax = 0; ax < 3; ++ax)
        for (int which = 0; which < 2; ++which) {
          Manifold b = which ? base2 : base;
          bars.push_back({std::string(which ? "barY" : "barX") + ".Rot" + "xyz"[ax] + std::to_string(ang), [b, ang, ax] {
                            return b.Rotate(ax == 0 ? ang : 0, ax == 1 ? ang : 0, ax == 2 ? ang : 0).Translate({0.1, -0.2, 0.15});
                          }});
        }
    const uint64_t nbars = bars.size();
    // siblings: each general-position leaf (shrunk) moved to the FAR END of the rotated bar, where the true solids overlap
    // but a wrongly rotated bounding box does not reach; plus the leaf at its own place
    R.phase("lazy-bbox", 6 * nbars * 3 * 2, 1, [&](uint64_t idx, Ctx& c) {
      int farEnd = idx % 2;
      int op = (idx / 2) % 3;
      const Bar& b = bars[(idx / 6) % nbars];
      const Leaf& a0 = L[idx / 6 / nbars];
      Manifold forcedB = b.lazy();
      (void)forcedB.NumTri();
      Manifold am = a0.m;
      if (farEnd) {
        // centre of the bar's far third, read off the evaluated bar itself
        Box bb = forcedB.BoundingBox();
        MeshGL64 g = forcedB.GetMeshGL64();
        vec3 far(0.0);
        double best = -1;
        for (size_t v = 0; v < g.vertProperties.size() / g.numProp; ++v) {
          vec3 p(g.vertProperties[v * g.numProp], g.vertProperties[v * g.numProp + 1], g.vertProperties[v * g.numProp + 2]);
          double d = la::length(p - vec3(0.1, -0.2, 0.15));
          if (d > best) {
            best = d;
            far = p;
          }
        }
        vec3 dir = la::normalize(far - vec3(0.1, -0.2, 0.15));
        am = a0.m.Scale({0.5, 0.5, 0.5}).Translate(far - 0.6 * dir);
        (void)am.NumTri();
        (void)bb;
      }
      std::string name = a0.name + (farEnd ? "@far-end" : "") + OPN[op] + b.name;
      c.describe(name);
      Manifold l = am.Boolean(b.lazy(), OPS[op]), r = am.Boolean(forcedB, OPS[op]);
      Manifold l2 = b.lazy().Boolean(am, OPS[op]), r2 = forcedB.Boolean(am, OPS[op]);
      Manifold third = L[(idx / 6 / nbars + 1) % 4].m;
      Manifold l3 = Manifold::BatchBoolean({am, b.lazy(), third}, OPS[op]);
      Manifold r3 = Manifold::BatchBoolean({am, forcedB, third}, OPS[op]);
      long judged = 0;
      std::string why = sameSolid(r, l, {}, G + 1, judged);
      if (!why.empty()) c.viol("lazybox:" + name, name, why);
      std::string why2 = sameSolid(r2, l2, {}, G + 1, judged);
      if (!why2.empty()) c.viol("lazybox-swapped:" + name, name, why2);
      std::string why3 = sameSolid(r3, l3, {}, G + 1, judged);
      if (!why3.empty()) c.viol("lazybox3:" + name, name, why3);
      c.count("transitions", 6);
      c.count("points_judged", judged);
      if (!l.IsEmpty() && !(am ^ forcedB).IsEmpty()) c.count("overlapping_pairs");
      uint64_t h = canonGeomHash(l.GetMeshGL64());
      if (c.distinct(h) && !l.IsEmpty()) c.nontrivial(h);
      if (idx % 37 == 0) c.sample(name);
    }, {"transitions", "points_judged", "overlapping_pairs"});
  }
  return R.finish();
}
