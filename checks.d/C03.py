CHECK = dict(
    level="model_checking", engine="S",
    technique="explicit enumeration of expression DAGs x evaluation histories with bounded deviations from the default (lazy) history, differential oracle against the fully eager history of the same DAG; rewrite pairs",
    level_text=("All expression DAGs of the size bound over a general-position leaf family - trees with 2 and 3 Boolean operators, a shared sub-expression used under "
                "a transform / under two transforms / by two parents / inside a BatchBoolean, batches, transform chains - are evaluated (a) eagerly (every node forced "
                "at creation: the reference), (b) lazily (only the root forced), and (c) under EVERY history with at most `bound` deviations, a deviation being: force an "
                "intermediate node at creation, force it one construction step later, hold an extra copy of its handle (changes use_count-based collapsing), or drop "
                "its handle right after its last use. Each result must have the reference's Status, classify all admissible grid points like the reference (solid-angle "
                "winding) and have its volume within tolerance x area. The evaluator's rewrites ((a-b)-c = a-(b+c), nested vs flat batch for all three ops, composed "
                "vs forced union of bbox-disjoint parts, transform chain vs stepwise application, transform of a union vs union of transforms) are checked as "
                "expression pairs over all ordered leaf triples."),
    level_note="Trusted: compiler, lib/solid.h. Bound: <= 3 operator nodes, 4 (quick) / 6 (thorough) leaves, deviation bound 1 / 2, 7^3 / 9^3 grid; points within max(tolerance,1e-6) of either result surface are not judged.",
    runs=[S("seq-fast", quick=1200, thorough=5000, workers=16)],
    rule="cases = DAGs; per DAG 1 + 4k (+ 16 k(k-1)/2) histories for k intermediate nodes. distinct = canonical result meshes; non-trivial = non-empty results. transitions = history evaluations.",
    bounds=dict(quick="13896 DAGs in 5 families (interleaved round-robin, so a budget cut still covers every family), two base histories x deviation bound 1, rewrite pairs, lazy-bbox siblings", thorough="6 leaves incl. a bbox-disjoint one, deviation bound 2"),
    assumptions=COMMON_ASSUME + ["single thread; concurrent forcing of shared nodes is C06's"],
)
