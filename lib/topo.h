// Oracle: "closed oriented 2-manifold after applying merge vectors" (C01),
// written against the public MeshGL64 only.
#pragma once
#include <algorithm>
#include <cmath>
#include <cstdint>
#include <numeric>
#include <string>
#include <unordered_map>
#include <vector>

#include "manifold/manifold.h"

namespace vf {

struct Topo {
  bool ok = true;
  std::string why;
  size_t nPropVert = 0, nVert = 0, nTri = 0, nEdge = 0;
  int genus = 0;
  std::vector<uint64_t> rep;  // representative (merged) vertex per exported vertex
  void fail(const std::string& w) {
    if (ok) {
      ok = false;
      why = w;
    }
  }
};

template <typename M>
inline Topo checkTopo(const M& m) {
  Topo t;
  const size_t np = m.numProp;
  if (np < 3) {
    t.fail("numProp<3");
    return t;
  }
  if (m.vertProperties.size() % np) {
    t.fail("vertProperties length not a multiple of numProp");
    return t;
  }
  if (m.triVerts.size() % 3) {
    t.fail("triVerts length not a multiple of 3");
    return t;
  }
  const size_t nv = m.vertProperties.size() / np;
  const size_t nt = m.triVerts.size() / 3;
  t.nPropVert = nv;
  t.nTri = nt;
  for (auto x : m.vertProperties)
    if (!std::isfinite((double)x)) {
      t.fail("non-finite vertProperties value");
      return t;
    }
  for (auto x : m.runTransform)
    if (!std::isfinite((double)x)) {
      t.fail("non-finite runTransform value");
      return t;
    }
  for (auto x : m.halfedgeTangent)
    if (!std::isfinite((double)x)) {
      t.fail("non-finite halfedgeTangent value");
      return t;
    }
  if (!std::isfinite((double)m.tolerance)) {
    t.fail("non-finite tolerance");
    return t;
  }
  for (auto i : m.triVerts)
    if ((size_t)i >= nv) {
      t.fail("triVerts index out of range");
      return t;
    }
  if (m.mergeFromVert.size() != m.mergeToVert.size()) {
    t.fail("merge vectors differ in length");
    return t;
  }
  for (size_t i = 0; i < m.mergeFromVert.size(); ++i)
    if ((size_t)m.mergeFromVert[i] >= nv || (size_t)m.mergeToVert[i] >= nv) {
      t.fail("merge index out of range");
      return t;
    }
  // run table sanity (part of "every index is in range")
  if (!m.runIndex.empty()) {
    if (m.runIndex.size() != m.runOriginalID.size() + 1 && !m.runOriginalID.empty())
      t.fail("runIndex length != runOriginalID length + 1");
    for (size_t i = 0; i < m.runIndex.size(); ++i) {
      if ((size_t)m.runIndex[i] > m.triVerts.size()) t.fail("runIndex entry out of range");
      if (i && m.runIndex[i] < m.runIndex[i - 1]) t.fail("runIndex decreasing");
      if (m.runIndex[i] % 3) t.fail("runIndex not a multiple of 3");
    }
  }
  if (!m.faceID.empty() && m.faceID.size() != nt) t.fail("faceID length != numTri");
  if (!m.runTransform.empty() && m.runTransform.size() != 12 * m.runOriginalID.size())
    t.fail("runTransform length != 12*runs");
  if (!m.halfedgeTangent.empty() && m.halfedgeTangent.size() != 12 * nt)
    t.fail("halfedgeTangent length != 12*numTri");
  if (!t.ok) return t;

  // union-find over merge vectors
  std::vector<uint64_t> p(nv);
  std::iota(p.begin(), p.end(), 0);
  auto find = [&](uint64_t x) {
    while (p[x] != x) {
      p[x] = p[p[x]];
      x = p[x];
    }
    return x;
  };
  for (size_t i = 0; i < m.mergeFromVert.size(); ++i) {
    uint64_t a = find(m.mergeFromVert[i]), b = find(m.mergeToVert[i]);
    if (a != b) p[a] = b;
  }
  t.rep.resize(nv);
  for (size_t i = 0; i < nv; ++i) t.rep[i] = find(i);
  std::vector<char> used(nv, 0);
  std::unordered_map<uint64_t, int> edges;
  edges.reserve(nt * 4);
  auto key = [&](uint64_t a, uint64_t b) { return a * (uint64_t)nv + b; };
  for (size_t tr = 0; tr < nt; ++tr) {
    uint64_t v[3];
    for (int k = 0; k < 3; ++k) {
      used[m.triVerts[3 * tr + k]] = 1;
      v[k] = t.rep[m.triVerts[3 * tr + k]];
    }
    if (v[0] == v[1] || v[1] == v[2] || v[0] == v[2]) {
      t.fail("triangle " + std::to_string(tr) + " repeats a vertex");
      return t;
    }
    for (int k = 0; k < 3; ++k) {
      int& c = edges[key(v[k], v[(k + 1) % 3])];
      if (++c > 1) {
        t.fail("directed edge occurs more than once");
        return t;
      }
    }
  }
  for (auto& e : edges) {
    uint64_t a = e.first / nv, b = e.first % nv;
    if (!edges.count(key(b, a))) {
      t.fail("directed edge without opposite");
      return t;
    }
  }
  for (size_t i = 0; i < nv; ++i)
    if (!used[i]) {
      t.fail("vertex " + std::to_string(i) + " is not referenced by any triangle");
      return t;
    }
  size_t classes = 0;
  for (size_t i = 0; i < nv; ++i)
    if (t.rep[i] == i) ++classes;
  t.nVert = classes;
  t.nEdge = edges.size() / 2;
  int chi = (int)t.nVert - (int)t.nEdge + (int)t.nTri;
  t.genus = 1 - chi / 2;
  return t;
}

// The whole C01 predicate for one Manifold.  Returns "" if it holds.
inline std::string checkManifoldC01(const manifold::Manifold& m) {
  using manifold::Manifold;
  auto st = m.Status();
  if (st != Manifold::Error::NoError) {
    if (!m.IsEmpty() || m.NumTri() != 0 || m.NumVert() != 0)
      return "status " + std::to_string((int)st) + " but not empty";
    return "";
  }
  manifold::MeshGL64 g = m.GetMeshGL64();
  Topo t = checkTopo(g);
  if (!t.ok) return t.why;
  if (m.NumTri() != t.nTri) return "NumTri() != exported triangle count";
  if (m.NumVert() != t.nVert)
    return "NumVert()=" + std::to_string(m.NumVert()) + " != merged vertex count " + std::to_string(t.nVert);
  if (m.NumEdge() != t.nEdge) return "NumEdge() != edge count of export";
  if (m.Genus() != t.genus) return "Genus() disagrees with export";
  if ((size_t)m.NumProp() + 3 != (size_t)g.numProp) return "NumProp()+3 != numProp of export";
  if (m.IsEmpty() != (t.nTri == 0)) return "IsEmpty() disagrees with export";
  manifold::Box b = m.BoundingBox();
  if (t.nTri > 0 && !b.IsFinite()) return "non-finite bounding box";
  if (!std::isfinite(m.GetTolerance()) || !std::isfinite(m.GetEpsilon())) return "non-finite tolerance";
  return "";
}

}  // namespace vf
