// C10 - Triangulate returns a correct triangulation of epsilon-valid polygons.
// Engine S: exhaustive enumeration of lattice polygon sets, executed on the real
// triangulator (public TriangulateIdx/Triangulate and the internal reusable
// PolygonTriangulator), judged by an exact integer oracle.
//
// Coordinates: all inputs live on an integer grid in which one step of the 4x4
// "outer" lattice is 4 units (so half- and quarter-lattice points for holes and
// islands are integers as well).  The library sees  (units * 0.25) * scale.
//
// Only inputs that the exact classifier below calls VALID are judged against
// the full property; every other input (self-intersecting, clockwise,
// overlapping, degenerate, tiny) is checked for termination (runner watchdog),
// absence of crashes and index validity only.
#include <array>
#include <cmath>
#include <algorithm>
#include <cstring>
#include <map>
#include <sstream>

#include "engine/runner.h"
#include "manifold/polygon.h"
#include "polygon_internal.h"

using namespace manifold;
using namespace vf;

typedef long long i64;

struct P {
  int x, y;
};
static inline bool operator==(P a, P b) { return a.x == b.x && a.y == b.y; }
static inline bool operator!=(P a, P b) { return !(a == b); }

static const int kMaxRing = 10;
struct Ring {
  int n = 0;
  P v[kMaxRing];
  void push(P p) { v[n++] = p; }
};
typedef std::vector<Ring> PSet;

// ------------------------------------------------------------------ exact geometry
static inline i64 orient(P a, P b, P c) {
  return (i64)(b.x - a.x) * (c.y - a.y) - (i64)(b.y - a.y) * (c.x - a.x);
}
static inline bool inBox(P a, P b, P p) {
  return std::min(a.x, b.x) <= p.x && p.x <= std::max(a.x, b.x) && std::min(a.y, b.y) <= p.y &&
         p.y <= std::max(a.y, b.y);
}
// do the CLOSED segments ab and cd share a point?
static bool segsTouch(P a, P b, P c, P d) {
  i64 o1 = orient(a, b, c), o2 = orient(a, b, d), o3 = orient(c, d, a), o4 = orient(c, d, b);
  if (((o1 > 0 && o2 < 0) || (o1 < 0 && o2 > 0)) && ((o3 > 0 && o4 < 0) || (o3 < 0 && o4 > 0))) return true;
  if (o1 == 0 && inBox(a, b, c)) return true;
  if (o2 == 0 && inBox(a, b, d)) return true;
  if (o3 == 0 && inBox(c, d, a)) return true;
  if (o4 == 0 && inBox(c, d, b)) return true;
  return false;
}

struct RingInfo {
  bool simple = false;     // strictly simple after removing consecutive duplicates
  bool hasDup = false;     // consecutive duplicate vertices (zero-length edges)
  bool hasCollinear = false;  // a straight (180 degree) vertex
  bool strictlyConvex = false;
  i64 area2 = 0;  // twice the signed area
  Ring red;       // without consecutive duplicates
};

static void analyseRing(const Ring& r, RingInfo& o) {
  o = RingInfo();
  const int n = r.n;
  for (int i = 0; i < n; ++i) {
    if (r.v[i] != r.v[(i + 1) % n])
      o.red.push(r.v[i]);
    else
      o.hasDup = true;
  }
  const Ring& q = o.red;
  const int m = q.n;
  if (m < 3) return;
  for (int i = 0; i < m; ++i)
    for (int j = i + 1; j < m; ++j)
      if (q.v[i] == q.v[j]) return;  // the contour touches itself
  bool allLeft = true;
  for (int i = 0; i < m; ++i) {
    P a = q.v[(i + m - 1) % m], b = q.v[i], c = q.v[(i + 1) % m];
    i64 w = orient(a, b, c);
    if (w == 0) {
      i64 dot = (i64)(a.x - b.x) * (c.x - b.x) + (i64)(a.y - b.y) * (c.y - b.y);
      if (dot > 0) return;  // fold-back spike: adjacent edges overlap
      o.hasCollinear = true;
    }
    if (w <= 0) allLeft = false;
  }
  for (int i = 0; i < m; ++i)
    for (int j = i + 2; j < m; ++j) {
      if (i == 0 && j == m - 1) continue;  // adjacent through the closing edge
      if (segsTouch(q.v[i], q.v[i + 1], q.v[j], q.v[(j + 1) % m])) return;
    }
  i64 A = 0;
  for (int i = 0; i < m; ++i) {
    P a = q.v[i], b = q.v[(i + 1) % m];
    A += (i64)a.x * b.y - (i64)a.y * b.x;
  }
  o.area2 = A;
  o.simple = true;  // a strictly simple polygon has non-zero area
  o.strictlyConvex = allLeft && !o.hasDup;
}

// q is known not to lie on the boundary
static bool strictlyInside(const Ring& poly, P q) {
  int wn = 0;
  for (int i = 0; i < poly.n; ++i) {
    P a = poly.v[i], b = poly.v[(i + 1) % poly.n];
    if (a.y <= q.y) {
      if (b.y > q.y && orient(a, b, q) > 0) ++wn;
    } else {
      if (b.y <= q.y && orient(a, b, q) < 0) --wn;
    }
  }
  return wn != 0;
}

static bool boundariesDisjoint(const Ring& a, const Ring& b) {
  for (int i = 0; i < a.n; ++i)
    for (int j = 0; j < b.n; ++j)
      if (segsTouch(a.v[i], a.v[(i + 1) % a.n], b.v[j], b.v[(j + 1) % b.n])) return false;
  return true;
}

// contact between two strictly simple rings: 0 = boundaries disjoint, 1 = they share exactly one point
// (returned in p), 2 = anything else (proper crossing, shared segment, several contact points).
// Two simple closed curves with a single common point cannot cross there (a transversal crossing forces a
// second intersection), so 1 means "touching": separable by moving one vertex by an arbitrarily small amount.
static int contact(const Ring& A, const Ring& B, P& p) {
  bool have = false;
  for (int i = 0; i < A.n; ++i)
    for (int j = 0; j < B.n; ++j) {
      P a = A.v[i], b = A.v[(i + 1) % A.n], c = B.v[j], d = B.v[(j + 1) % B.n];
      i64 o1 = orient(a, b, c), o2 = orient(a, b, d), o3 = orient(c, d, a), o4 = orient(c, d, b);
      if (((o1 > 0 && o2 < 0) || (o1 < 0 && o2 > 0)) && ((o3 > 0 && o4 < 0) || (o3 < 0 && o4 > 0))) return 2;
      P q[4];
      int nq = 0;
      if (o1 == 0 && inBox(a, b, c)) q[nq++] = c;
      if (o2 == 0 && inBox(a, b, d)) q[nq++] = d;
      if (o3 == 0 && inBox(c, d, a)) q[nq++] = a;
      if (o4 == 0 && inBox(c, d, b)) q[nq++] = b;
      for (int k = 0; k < nq; ++k) {
        if (!have) {
          p = q[k];
          have = true;
        } else if (q[k] != p)
          return 2;
      }
    }
  return have ? 1 : 0;
}

struct SetInfo {
  bool valid = false;
  bool touching = false;  // exactly one pair of contours touches in exactly one point (valid only for epsilon > 0)
  int V = 0, h = 0, o = 0;
  i64 area2 = 0;
  bool hasDup = false, hasCollinear = false, convexOnly = false;
};

// VALID := every contour strictly simple (consecutive duplicates and straight
// vertices allowed), boundaries pairwise disjoint - except that at most ONE pair
// of contours may touch in exactly one point (flag `touching`; such a set is
// epsilon-valid for every epsilon > 0 and is judged only in configurations
// with epsilon != 0) - and every contour at even nesting depth
// counter-clockwise, at odd depth clockwise.
static SetInfo analyseSet(const PSet& s) {
  SetInfo si;
  const int k = (int)s.size();
  if (k == 0) return si;
  std::vector<RingInfo> ri(k);
  si.convexOnly = true;
  for (int i = 0; i < k; ++i) {
    si.V += s[i].n;
    analyseRing(s[i], ri[i]);
    if (!ri[i].simple) return si;
    si.hasDup |= ri[i].hasDup;
    si.hasCollinear |= ri[i].hasCollinear;
    si.convexOnly &= ri[i].strictlyConvex;
    si.area2 += ri[i].area2;
  }
  int ti = -1, tj = -1;
  P tp = {0, 0};
  for (int i = 0; i < k; ++i)
    for (int j = i + 1; j < k; ++j) {
      P p;
      int ct = contact(ri[i].red, ri[j].red, p);
      if (ct == 0) continue;
      if (ct == 2 || ti >= 0) return si;
      ti = i;
      tj = j;
      tp = p;
      si.touching = true;
    }
  for (int i = 0; i < k; ++i) {
    int depth = 0;
    for (int j = 0; j < k; ++j) {
      if (j == i) continue;
      // a vertex of contour i that does not lie on contour j
      P probe = ri[i].red.v[0];
      if (((i == ti && j == tj) || (i == tj && j == ti)) && probe == tp) probe = ri[i].red.v[1];
      if (strictlyInside(ri[j].red, probe)) ++depth;
    }
    bool ccw = ri[i].area2 > 0;
    if ((depth % 2 == 0) != ccw) return si;
    if (ccw)
      ++si.o;
    else
      ++si.h;
  }
  si.valid = true;
  return si;
}

// ------------------------------------------------------------------ text
static void fmtCoord(std::string& s, int u) {
  // units -> lattice coordinates (quarters)
  if (u < 0) {
    s += '-';
    u = -u;
  }
  s += std::to_string(u / 4);
  int f = u % 4;
  if (f == 1) s += ".25";
  if (f == 2) s += ".5";
  if (f == 3) s += ".75";
}
static std::string setStr(const PSet& s) {
  std::string o = "[";
  for (size_t i = 0; i < s.size(); ++i) {
    if (i) o += ",";
    o += "[";
    for (int j = 0; j < s[i].n; ++j) {
      if (j) o += ",";
      o += "(";
      fmtCoord(o, s[i].v[j].x);
      o += ",";
      fmtCoord(o, s[i].v[j].y);
      o += ")";
    }
    o += "]";
  }
  return o + "]";
}
static uint64_t setHash(const PSet& s, bool canonRot) {
  uint64_t h = 0x9e3779b97f4a7c15ULL;
  for (const Ring& r : s) {
    int st = 0;
    if (canonRot) {
      // rotation with the lexicographically smallest start vertex sequence
      for (int c = 1; c < r.n; ++c) {
        for (int k = 0; k < r.n; ++k) {
          P a = r.v[(c + k) % r.n], b = r.v[(st + k) % r.n];
          int ka = a.x * 64 + a.y, kb = b.x * 64 + b.y;
          if (ka != kb) {
            if (ka < kb) st = c;
            break;
          }
        }
      }
    }
    h = mix64(h ^ (uint64_t)r.n);
    for (int k = 0; k < r.n; ++k) {
      P a = r.v[(st + k) % r.n];
      h = mix64(h ^ (uint64_t)(a.x * 64 + a.y + 7)) * 0x9e3779b97f4a7c15ULL + 1;
    }
  }
  return h;
}

// ------------------------------------------------------------------ library input / oracle
static const int kMaxV = 40;
struct Flat {
  int V = 0;
  P pos[kMaxV];
  int ea[kMaxV], eb[kMaxV];  // input edge k: ea -> eb (running indices)
};
static void flatten(const PSet& s, Flat& f) {
  int k = 0;
  for (const Ring& r : s) {
    int base = k;
    for (int i = 0; i < r.n; ++i) {
      f.pos[k] = r.v[i];
      f.ea[k] = k;
      f.eb[k] = base + (i + 1) % r.n;
      ++k;
    }
  }
  f.V = k;
}
// the index handed to the library for running vertex k (not the identity, so
// that "over the input vertex indices" is a real check)
static inline int idxOf(int k) { return 2 * k + 1; }

static PolygonsIdx buildIdx(const PSet& s, double scale) {
  PolygonsIdx out;
  out.reserve(s.size());
  int k = 0;
  for (const Ring& r : s) {
    SimplePolygonIdx c;
    c.reserve(r.n);
    for (int i = 0; i < r.n; ++i) {
      c.push_back({vec2((r.v[i].x * 0.25) * scale, (r.v[i].y * 0.25) * scale), idxOf(k)});
      ++k;
    }
    out.push_back(std::move(c));
  }
  return out;
}

static std::string trisStr(const std::vector<ivec3>& t) {
  std::string o = " tris(idx=2k+1)=[";
  for (size_t i = 0; i < t.size() && i < 40; ++i) {
    if (i) o += ",";
    o += "(" + std::to_string(t[i][0]) + "," + std::to_string(t[i][1]) + "," + std::to_string(t[i][2]) + ")";
  }
  return o + "]";
}

// returns "" when fine.  full=false: index validity only.
static std::string judge(const std::vector<ivec3>& t, const Flat& f, const SetInfo& si, bool full) {
  const int V = f.V;
  for (const ivec3& tri : t)
    for (int j = 0; j < 3; ++j) {
      int x = tri[j];
      if (x < 1 || (x & 1) == 0 || (x - 1) / 2 >= V)
        return "index " + std::to_string(x) + " is not an input vertex index";
    }
  if (!full) return "";
  const long want = (long)V - 2 + 2 * si.h - 2 * (si.o - 1);
  if ((long)t.size() != want)
    return "triangle count " + std::to_string(t.size()) + " != V-2+2h-2(o-1) = " + std::to_string(want) +
           " (V=" + std::to_string(V) + ",h=" + std::to_string(si.h) + ",o=" + std::to_string(si.o) + ")";
  static thread_local int cnt[kMaxV][kMaxV];
  for (int i = 0; i < V; ++i) memset(cnt[i], 0, sizeof(int) * V);
  i64 sum = 0;
  for (const ivec3& tri : t) {
    int a = (tri[0] - 1) / 2, b = (tri[1] - 1) / 2, c = (tri[2] - 1) / 2;
    if (a == b || b == c || c == a)
      return "triangle (" + std::to_string(tri[0]) + "," + std::to_string(tri[1]) + "," + std::to_string(tri[2]) +
             ") repeats a vertex index";
    i64 w = orient(f.pos[a], f.pos[b], f.pos[c]);
    if (w < 0)
      return "triangle (" + std::to_string(tri[0]) + "," + std::to_string(tri[1]) + "," + std::to_string(tri[2]) +
             ") is clockwise: exact twice-area " + std::to_string(w) + " (1/16 lattice cells)";
    sum += w;
    cnt[a][b]++;
    cnt[b][c]++;
    cnt[c][a]++;
  }
  if (sum != si.area2)
    return "triangle areas sum to " + std::to_string(sum) + "/32 lattice cells, polygon area is " +
           std::to_string(si.area2) + "/32";
  for (int e = 0; e < V; ++e) {
    int a = f.ea[e], b = f.eb[e];
    if (cnt[a][b] != 1)
      return "input edge " + std::to_string(idxOf(a)) + "->" + std::to_string(idxOf(b)) + " occurs " +
             std::to_string(cnt[a][b]) + " times in its direction";
    cnt[a][b] = 0;
  }
  for (int a = 0; a < V; ++a)
    for (int b = a + 1; b < V; ++b)
      if (cnt[a][b] != cnt[b][a])
        return "edge " + std::to_string(idxOf(a)) + "->" + std::to_string(idxOf(b)) + " occurs " +
               std::to_string(cnt[a][b]) + "x but its reverse " + std::to_string(cnt[b][a]) + "x";
  return "";
}

// is the output at least a manifold pairing that follows the input edges (what the
// doc comment promises even for invalid input)?  informational only.
static bool pairsUp(const std::vector<ivec3>& t, const Flat& f) {
  const int V = f.V;
  static thread_local int cnt[kMaxV][kMaxV];
  for (int i = 0; i < V; ++i) memset(cnt[i], 0, sizeof(int) * V);
  for (const ivec3& tri : t) {
    int a = (tri[0] - 1) / 2, b = (tri[1] - 1) / 2, c = (tri[2] - 1) / 2;
    cnt[a][b]++;
    cnt[b][c]++;
    cnt[c][a]++;
  }
  for (int e = 0; e < V; ++e) cnt[f.ea[e]][f.eb[e]]--;
  for (int a = 0; a < V; ++a)
    for (int b = a; b < V; ++b)
      if (cnt[a][b] != cnt[b][a]) return false;
  return true;
}

struct Cfg {
  double scale, eps;
  int scaleSlot;  // which prebuilt PolygonsIdx
  const char* txt;
};
// judged configurations.  scale 1e-6 is not exact in binary (3e-6 != 3*fl(1e-6)),
// so a lattice-collinear triple is collinear only to 1 ulp there; with eps = 0
// the exact scale 2^-20 (9.5e-7) is used instead so that the integer oracle is
// exact for the coordinates the library really sees.
static const double kScales[4] = {1.0, 1e-6, 0x1p-20, 1e6};
static const Cfg JCFG[9] = {
    {1.0, -1, 0, "scale=1;eps=-1"},          {1.0, 0, 0, "scale=1;eps=0"},
    {1.0, 1e-9, 0, "scale=1;eps=1e-9"},      {1e-6, -1, 1, "scale=1e-6;eps=-1"},
    {0x1p-20, 0, 2, "scale=2^-20;eps=0"},    {1e-6, 1e-15, 1, "scale=1e-6;eps=1e-15"},
    {1e6, -1, 3, "scale=1e6;eps=-1"},        {1e6, 0, 3, "scale=1e6;eps=0"},
    {1e6, 1e-3, 3, "scale=1e6;eps=1e-3"},
};
// termination / index-validity only (any input)
struct TCfg {
  double eps;
  bool convex;
  const char* txt;
};
static const TCfg TCFG[4] = {
    {-1, true, "scale=1;eps=-1;convex=1"},
    {-1, false, "scale=1;eps=-1;convex=0"},
    {0, false, "scale=1;eps=0;convex=0"},
    {1.01, false, "scale=1;eps=1.01;convex=0"},  // epsilon larger than the lattice step: stresses the epsilon walks
};

static void violCount(Ctx& c, const std::string& why, double eps, const SetInfo& si) {
  c.count(eps == 0 ? "viol_eps_zero" : eps < 0 ? "viol_eps_default" : "viol_eps_positive");
  const char* k = "viol_other";
  if (why.rfind("index", 0) == 0) k = "viol_index";
  else if (why.rfind("triangle count", 0) == 0) k = "viol_count";
  else if (why.find("is clockwise") != std::string::npos) k = "viol_clockwise";
  else if (why.find("repeats") != std::string::npos) k = "viol_repeated_index";
  else if (why.rfind("triangle areas", 0) == 0) k = "viol_area";
  else if (why.rfind("input edge", 0) == 0) k = "viol_input_edge";
  else if (why.rfind("edge", 0) == 0) k = "viol_unpaired_edge";
  else if (why.rfind("exception", 0) == 0) k = "viol_exception";
  c.count(k);
  if (si.valid && si.touching) c.count("viol_in_touching");
  if (si.valid) c.count(si.h >= 2 ? "viol_in_2holes" : si.o >= 2 && si.h == 1 ? "viol_in_hole_island" : "viol_in_other_valid");
}

static bool callLib(const PolygonsIdx& polys, double eps, bool convex, std::vector<ivec3>& out, std::string& err) {
  try {
    out = TriangulateIdx(polys, eps, convex);
    return true;
  } catch (const std::exception& e) {
    err = std::string("exception: ") + e.what();
    return false;
  }
}

// Run one polygon set through the library.  tMask: which of the TCFG
// configurations an invalid input is run under.
static void runSet(Ctx& c, const PSet& s, const SetInfo& si, unsigned tMask = 0xF) {
  const std::string ps = "tri:polys=" + setStr(s) + ";";
  Flat f;
  flatten(s, f);
  std::vector<ivec3> t;
  std::string err;
  bool any = false;
  auto V = [&](const std::string& key, const std::string& why, double eps, bool withTris) {
    c.viol(key, key, withTris ? why + trisStr(t) : why);
    violCount(c, why, eps, si);
    any = true;
  };
  if (!si.valid) {
    PolygonsIdx in = buildIdx(s, 1.0);
    for (int k = 0; k < 4; ++k) {
      if (!(tMask >> k & 1)) continue;
      std::string key = ps + TCFG[k].txt;
      c.describe(key);
      c.count("lib_calls");
      if (!callLib(in, TCFG[k].eps, TCFG[k].convex, t, err)) {
        V(key, err, TCFG[k].eps, false);
        continue;
      }
      std::string why = judge(t, f, si, false);
      if (!why.empty()) V(key, why, TCFG[k].eps, true);
      if (!pairsUp(t, f)) c.count("info_invalid_input_not_paired");
    }
    if (any) c.count("inputs_with_viol");
    return;
  }
  PolygonsIdx in[4];
  for (int k = 0; k < 4; ++k) in[k] = buildIdx(s, kScales[k]);
  for (int k = 0; k < 9; ++k) {
    const Cfg& g = JCFG[k];
    // a zero-length edge is "duplicate within epsilon" only for epsilon > 0
    const bool full = !(g.eps == 0 && (si.hasDup || si.touching));
    for (int convex = 1; convex >= 0; --convex) {
      std::string key = ps + g.txt + (convex ? ";convex=1" : ";convex=0");
      c.describe(key);
      c.count("lib_calls");
      if (!callLib(in[g.scaleSlot], g.eps, convex, t, err)) {
        V(key, err, g.eps, false);
        continue;
      }
      std::string why = judge(t, f, si, full);
      if (full) c.count("judged_calls");
      if (!why.empty()) V(key, why, g.eps, true);
      if (!full) {
        std::string w2 = judge(t, f, si, true);
        if (si.touching)
          c.count(w2.empty() ? "info_touch_eps0_ok" : "info_touch_eps0_bad");
        else
          c.count(w2.empty() ? "info_dup_eps0_ok" : "info_dup_eps0_bad");
      }
      if (k == 0 && convex == 1) {
        // Triangulate(Polygons) numbers the vertices itself: same triangles up to idx = 2k+1
        Polygons pl;
        for (const auto& ring : in[0]) {
          SimplePolygon sp;
          for (const auto& pv : ring) sp.push_back(pv.pos);
          pl.push_back(sp);
        }
        std::string key2 = ps + g.txt + ";convex=1;api=Triangulate";
        c.describe(key2);
        c.count("lib_calls");
        try {
          std::vector<ivec3> t2 = Triangulate(pl, g.eps, true);
          bool same = t2.size() == t.size();
          for (size_t i = 0; same && i < t.size(); ++i)
            for (int j = 0; j < 3; ++j)
              if (idxOf(t2[i][j]) != t[i][j]) same = false;
          if (!same) V(key2, "Triangulate(Polygons) and TriangulateIdx disagree", g.eps, true);
        } catch (const std::exception& e) {
          V(key2, std::string("exception: ") + e.what(), g.eps, false);
        }
      }
    }
  }
  // big epsilon: termination and index validity only
  {
    std::string key = ps + TCFG[3].txt;
    c.describe(key);
    c.count("lib_calls");
    if (!callLib(in[0], TCFG[3].eps, false, t, err))
      V(key, err, TCFG[3].eps, false);
    else {
      std::string why = judge(t, f, si, false);
      if (!why.empty()) V(key, why, TCFG[3].eps, true);
    }
  }
  if (any) c.count("inputs_with_viol");
}

// ------------------------------------------------------------------ enumerators
static std::vector<P> latticePts(int lo, int hi, int step) {
  std::vector<P> v;
  for (int x = lo; x <= hi; x += step)
    for (int y = lo; y <= hi; y += step) v.push_back({x, y});
  return v;
}
// all strictly simple rings with n in [lo,hi] vertices over pts with the given
// orientation sign, enumerated in sequence order
static std::vector<Ring> enumRings(const std::vector<P>& pts, int lo, int hi, int sign, bool allowDup) {
  std::vector<Ring> out;
  const int np = (int)pts.size();
  RingInfo ri;
  for (int n = lo; n <= hi; ++n) {
    uint64_t N = 1;
    for (int i = 0; i < n; ++i) N *= np;
    for (uint64_t idx = 0; idx < N; ++idx) {
      Ring r;
      r.n = n;
      uint64_t x = idx;
      for (int i = n - 1; i >= 0; --i) {
        r.v[i] = pts[x % np];
        x /= np;
      }
      analyseRing(r, ri);
      if (!ri.simple) continue;
      if ((ri.area2 > 0 ? 1 : -1) != sign) continue;
      if (ri.hasDup && !allowDup) continue;
      out.push_back(r);
    }
  }
  return out;
}

static bool sameTri(const HalfedgeTriangulation& a, const HalfedgeTriangulation& b, std::string& why) {
  if (a.contourEnd != b.contourEnd) {
    why = "contourEnd differs";
    return false;
  }
  if (a.halfedges.size() != b.halfedges.size()) {
    why = "halfedge count " + std::to_string(a.halfedges.size()) + " vs " + std::to_string(b.halfedges.size());
    return false;
  }
  for (size_t i = 0; i < a.halfedges.size(); ++i) {
    const Halfedge &x = a.halfedges[i], &y = b.halfedges[i];
    if (x.startVert != y.startVert || x.endVert != y.endVert || x.pairedHalfedge != y.pairedHalfedge) {
      why = "halfedge " + std::to_string(i) + ": (" + std::to_string(x.startVert) + "->" +
            std::to_string(x.endVert) + " pair " + std::to_string(x.pairedHalfedge) + ") vs (" +
            std::to_string(y.startVert) + "->" + std::to_string(y.endVert) + " pair " +
            std::to_string(y.pairedHalfedge) + ")";
      return false;
    }
  }
  return true;
}

int main(int argc, char** argv) {
  Runner R("C10", argc, argv);
  // size level: 2 = thorough, 1 = quick, 0 = small.  With --asan-subset (the seq-asan run) every tier drops
  // one level for `seq` and `reuse` (ASan quick = small bound, ASan thorough = the quick bound) and the
  // hole / pair phases always run at the small bound (lvH).
  bool asanSubset = false;
  for (int i = 1; i < argc; ++i)
    if (std::string(argv[i]) == "--asan-subset") asanSubset = true;
  const int level = (R.a.thorough() ? 2 : 1) - (asanSubset ? 1 : 0);
  const int lvH = asanSubset ? 0 : level;
  const bool thorough = lvH >= 2;  // used by the hole / pair phases only
  auto want = [&](const std::string& name) {
    if (!R.a.onlyPhase.empty() && R.a.onlyPhase != name) return false;
    if (!R.a.onlyCase.empty() && R.a.onlyCase.substr(0, R.a.onlyCase.find(':')) != name) return false;
    return true;
  };
  std::vector<const char*> CN = {"inputs",          "valid",       "valid_collinear",
                                 "valid_dup",       "valid_convex", "invalid",
                                 "lib_calls",       "judged_calls", "info_dup_eps0_ok",
                                 "info_dup_eps0_bad", "info_invalid_input_not_paired",
                                 "viol_eps_zero",   "viol_eps_default", "viol_eps_positive",
                                 "viol_index",      "viol_count",   "viol_clockwise",
                                 "viol_repeated_index", "viol_area", "viol_input_edge",
                                 "viol_unpaired_edge", "viol_exception", "viol_other",
                                 "viol_in_2holes",  "viol_in_hole_island", "viol_in_other_valid",
                                 "inputs_with_viol", "valid_touching", "info_touch_eps0_ok",
                                 "info_touch_eps0_bad", "viol_in_touching"};
  auto account = [&](Ctx& c, const PSet& s, const SetInfo& si) {
    c.count("inputs");
    if (si.valid) {
      c.count("valid");
      if (si.hasCollinear) c.count("valid_collinear");
      if (si.hasDup) c.count("valid_dup");
      if (si.convexOnly) c.count("valid_convex");
      if (si.touching) c.count("valid_touching");
      uint64_t h = setHash(s, true);
      c.distinct(h);
      if (!si.convexOnly || s.size() > 1) c.nontrivial(h);
    } else
      c.count("invalid");
  };

  const std::vector<P> full16 = latticePts(0, 12, 4);
  std::vector<P> bound12;
  for (P p : full16)
    if (p.x == 0 || p.x == 12 || p.y == 0 || p.y == 12) bound12.push_back(p);
  const std::vector<P> half9 = latticePts(4, 8, 2);
  const std::vector<P> quart9 = latticePts(5, 7, 1);
  const std::vector<P> sub9 = latticePts(0, 8, 4);

  // ---------- phase seq: ALL vertex sequences of length 3..L over the 16 lattice points
  const int L = 5 + level;
  std::vector<uint64_t> seqOff(L + 2, 0);
  {
    uint64_t acc = 0;
    for (int n = 3; n <= L; ++n) {
      seqOff[n] = acc;
      uint64_t N = 1;
      for (int i = 0; i < n; ++i) N *= 16;
      acc += N;
    }
    seqOff[L + 1] = acc;
  }
  auto genSeq = [&](uint64_t idx) {
    int n = 3;
    while (idx >= seqOff[n + 1]) ++n;
    uint64_t x = idx - seqOff[n];
    Ring r;
    r.n = n;
    for (int i = n - 1; i >= 0; --i) {
      r.v[i] = full16[x & 15];
      x >>= 4;
    }
    return PSet{r};
  };
  if (want("seq")) {
    R.phase(
        "seq", seqOff[L + 1], 4096,
        [&](uint64_t idx, Ctx& c) {
          PSet s = genSeq(idx);
          RingInfo ri;
          analyseRing(s[0], ri);
          SetInfo si;
          si.V = s[0].n;
          if (ri.simple && ri.area2 > 0) {
            si.valid = true;
            si.o = 1;
            si.area2 = ri.area2;
            si.hasDup = ri.hasDup;
            si.hasCollinear = ri.hasCollinear;
            si.convexOnly = ri.strictlyConvex;
          }
          if (s[0].n <= 5) {
            // the general set classifier must agree with the single-ring shortcut
            SetInfo g = analyseSet(s);
            if (g.valid != si.valid || (g.valid && (g.area2 != si.area2 || g.o != 1 || g.h != 0)))
              c.viol("harness:classifier-mismatch:" + setStr(s), setStr(s), "analyseSet and analyseRing disagree");
          }
          account(c, s, si);
          // invalid sequences run under all four termination configurations; length 7 (268M sequences): epsilon -1
          // and epsilon 1.01, both without the fast path
          runSet(c, s, si, s[0].n >= 7 ? 0xA : 0xF);
          if (si.valid && idx % 100003 == 0) c.sample(setStr(s));
        },
        CN, level >= 2 ? 25 : 23);
  }

  // ---------- phases hole1 / holes2: contours with holes (and islands inside holes)
  // holes: simple CW rings of 3..4 vertices over the half lattice {1,1.5,2}^2 (796 of them)
  // islands: CCW triangles over the quarter lattice {1.25,1.5,1.75}^2 (228)
  // hole1 : EVERY (outer, hole) combination, outer contour first; outer = simple CCW ring without duplicates
  //         over the 12 boundary lattice points with 3 (level 0) / <= 4 (level 1) vertices, over all 16
  //         points with <= 5 vertices at level 2.  A hole that is not strictly inside gives an overlapping
  //         input: termination + index validity only.
  // holes2: outer x {two disjoint holes | hole + island inside it}, only the combinations that are valid
  //         (every hole strictly inside the outer contour); the index space is the concatenation of the
  //         per-outer lists of admissible inner configurations.
  struct Inner {
    int a, b;   // indices into holes1 (b = -1: none)
    int isl;    // index into islands or -1
    int order;  // 0: outer contour first; 1: outer contour last (and island before its hole)
  };
  std::vector<Ring> outers1, outers2, holes1, islands;
  std::vector<Inner> inners2;
  std::vector<std::vector<int>> innerLists;  // distinct admissible-inner lists
  std::vector<int> outerList;                // outers2[i] uses innerLists[outerList[i]]
  std::vector<uint64_t> outerOff;            // prefix sums over outers2
  bool holeListsBuilt = false;
  auto buildHoleLists = [&]() {
    if (holeListsBuilt) return;
    holeListsBuilt = true;
    holes1 = enumRings(half9, 3, 4, -1, false);
    islands = enumRings(quart9, 3, 3, +1, false);
    outers1 = lvH >= 2   ? enumRings(full16, 3, 5, +1, false)
              : lvH == 1 ? enumRings(bound12, 3, 4, +1, false)
                         : enumRings(bound12, 3, 3, +1, false);
    // holes2 outer contours: <= 4 vertices over the 12 boundary points; level 1 keeps those that strictly
    // contain the whole hole lattice [1,2]^2, level 0 only the four rotations of the full square
    std::vector<Ring> cand2;
    for (const Ring& o : enumRings(bound12, 3, 4, +1, false)) {
      if (lvH <= 1) {
        bool all = true;
        for (P p : half9) {
          for (int i = 0; i < o.n; ++i)
            if (orient(o.v[i], o.v[(i + 1) % o.n], p) == 0 && inBox(o.v[i], o.v[(i + 1) % o.n], p)) all = false;
          if (all && !strictlyInside(o, p)) all = false;
        }
        if (!all) continue;
      }
      if (lvH == 0) {
        bool corners = true;
        for (int i = 0; i < o.n; ++i)
          if ((o.v[i].x != 0 && o.v[i].x != 12) || (o.v[i].y != 0 && o.v[i].y != 12)) corners = false;
        if (!corners) continue;
      }
      cand2.push_back(o);
    }
    const int nh = (int)holes1.size();
    // two holes: strictly disjoint (thorough: or touching in one point) and not nested.
    // quick: both triangles, unordered; thorough: all ordered pairs
    for (int a = 0; a < nh; ++a)
      for (int b = 0; b < nh; ++b) {
        if (a == b) continue;
        if (!thorough && (holes1[a].n > 3 || holes1[b].n > 3 || a > b)) continue;
        P tp;
        int ct = contact(holes1[a], holes1[b], tp);
        // thorough: two triangular holes touching in one point as well
        if (ct == 2 || (ct == 1 && (!thorough || holes1[a].n > 3 || holes1[b].n > 3))) continue;
        P pa = holes1[a].v[0] == tp && ct ? holes1[a].v[1] : holes1[a].v[0];
        P pb = holes1[b].v[0] == tp && ct ? holes1[b].v[1] : holes1[b].v[0];
        if (strictlyInside(holes1[a], pb) || strictlyInside(holes1[b], pa)) continue;
        if (ct == 1 && a > b) continue;  // touching pairs: unordered, outer contour first
        inners2.push_back({a, b, -1, 0});
        if (thorough && ct == 0) inners2.push_back({a, b, -1, 1});
      }
    // hole + island strictly inside it.  quick: every 6th island (one rotation of every other triangle)
    for (int a = 0; a < nh; ++a)
      for (int i = 0; i < (int)islands.size(); ++i) {
        if (!thorough && i % 6 != 0) continue;
        if (!boundariesDisjoint(holes1[a], islands[i])) continue;
        if (!strictlyInside(holes1[a], islands[i].v[0])) continue;
        inners2.push_back({a, -1, i, 1});
        if (thorough) inners2.push_back({a, -1, i, 0});
      }
    std::map<std::vector<bool>, int> seen;
    uint64_t acc = 0;
    for (const Ring& o : cand2) {
      std::vector<bool> in(nh);
      for (int h = 0; h < nh; ++h)
        in[h] = boundariesDisjoint(o, holes1[h]) && strictlyInside(o, holes1[h].v[0]);
      auto it = seen.find(in);
      int li;
      if (it != seen.end())
        li = it->second;
      else {
        std::vector<int> lst;
        for (int k = 0; k < (int)inners2.size(); ++k)
          if (in[inners2[k].a] && (inners2[k].b < 0 || in[inners2[k].b])) lst.push_back(k);
        li = (int)innerLists.size();
        innerLists.push_back(std::move(lst));
        seen[in] = li;
      }
      if (innerLists[li].empty()) continue;
      outers2.push_back(o);
      outerList.push_back(li);
      outerOff.push_back(acc);
      acc += innerLists[li].size();
    }
    outerOff.push_back(acc);
    if (getenv("C10_SIZES"))
      fprintf(stderr, "outers1=%zu holes1=%zu islands=%zu inners2=%zu outers2=%zu lists=%zu holes2 cases=%llu\n",
              outers1.size(), holes1.size(), islands.size(), inners2.size(), outers2.size(), innerLists.size(),
              (unsigned long long)acc);
  };
  const int orders1 = 1;  // outer contour first (both contour orders are covered in holes2 and two)
  auto genHole1 = [&](uint64_t idx) {
    int order = (int)(idx % orders1);
    uint64_t r = idx / orders1;
    const Ring& h = holes1[r % holes1.size()];
    const Ring& o = outers1[r / holes1.size()];
    return order == 0 ? PSet{o, h} : PSet{h, o};
  };
  auto genHoles2 = [&](uint64_t idx) {
    size_t oi = std::upper_bound(outerOff.begin(), outerOff.end(), idx) - outerOff.begin() - 1;
    const Inner& in = inners2[innerLists[outerList[oi]][idx - outerOff[oi]]];
    const Ring& o = outers2[oi];
    PSet s;
    if (in.order == 0) s.push_back(o);
    if (in.isl >= 0 && in.order == 1) s.push_back(islands[in.isl]);
    s.push_back(holes1[in.a]);
    if (in.b >= 0) s.push_back(holes1[in.b]);
    if (in.isl >= 0 && in.order == 0) s.push_back(islands[in.isl]);
    if (in.order == 1) s.push_back(o);
    return s;
  };
  if (want("hole1")) {
    buildHoleLists();
    R.phase(
        "hole1", (uint64_t)outers1.size() * holes1.size() * orders1, 512,
        [&](uint64_t idx, Ctx& c) {
          PSet s = genHole1(idx);
          SetInfo si = analyseSet(s);
          account(c, s, si);
          runSet(c, s, si, 0x6);
          if (si.valid && idx % 50021 == 0) c.sample(setStr(s));
        },
        CN, thorough ? 24 : 23);
  }
  if (want("holes2")) {
    buildHoleLists();
    R.phase(
        "holes2", outerOff.back(), 512,
        [&](uint64_t idx, Ctx& c) {
          PSet s = genHoles2(idx);
          SetInfo si = analyseSet(s);
          if (!si.valid) c.viol("harness:holes2-not-valid:" + setStr(s), setStr(s), "constructed set is not valid");
          account(c, s, si);
          runSet(c, s, si, 0x6);
          if (idx % 50021 == 0) c.sample(setStr(s));
        },
        CN, thorough ? 24 : 23);
  }

  // ---------- phase two: ordered pairs of CCW contours (o = 2 when disjoint)
  std::vector<Ring> tri3, quad4;
  struct Block {
    const std::vector<Ring>*a, *b;
    uint64_t off;
  };
  std::vector<Block> blocks;
  uint64_t twoN = 0;
  auto buildTwo = [&]() {
    if (!tri3.empty()) return;
    tri3 = enumRings(lvH == 0 ? sub9 : full16, 3, 3, +1, false);
    blocks.push_back({&tri3, &tri3, 0});
    twoN = (uint64_t)tri3.size() * tri3.size();
    if (thorough) {
      quad4 = enumRings(full16, 4, 4, +1, false);
      blocks.push_back({&tri3, &quad4, twoN});
      twoN += (uint64_t)tri3.size() * quad4.size();
      blocks.push_back({&quad4, &tri3, twoN});
      twoN += (uint64_t)tri3.size() * quad4.size();
    }
  };
  auto genTwo = [&](uint64_t idx) {
    size_t b = blocks.size() - 1;
    while (blocks[b].off > idx) --b;
    uint64_t x = idx - blocks[b].off;
    const auto& A = *blocks[b].a;
    const auto& B = *blocks[b].b;
    return PSet{A[x / B.size()], B[x % B.size()]};
  };
  if (want("two")) {
    buildTwo();
    R.phase(
        "two", twoN, 1024,
        [&](uint64_t idx, Ctx& c) {
          PSet s = genTwo(idx);
          SetInfo si = analyseSet(s);
          account(c, s, si);
          runSet(c, s, si, 0x6);
          if (si.valid && idx % 70001 == 0) c.sample(setStr(s));
        },
        CN, thorough ? 24 : 22);
  }

  // ---------- phase tiny: contours with 0, 1 or 2 vertices, alone or next to a real polygon.
  // Termination, no crash, index validity.
  {
    std::vector<Ring> tinyC;
    tinyC.push_back(Ring());
    const P ip[4] = {{4, 4}, {8, 4}, {4, 8}, {8, 8}};
    for (int i = 0; i < 4; ++i) {
      Ring r;
      r.push(ip[i]);
      tinyC.push_back(r);
    }
    for (int i = 0; i < 4; ++i)
      for (int j = 0; j < 4; ++j) {
        Ring r;
        r.push(ip[i]);
        r.push(ip[j]);
        tinyC.push_back(r);
      }
    Ring triR, sqR;
    triR.push({0, 0});
    triR.push({12, 0});
    triR.push({0, 12});
    sqR.push({0, 0});
    sqR.push({12, 0});
    sqR.push({12, 12});
    sqR.push({0, 12});
    const int NT = (int)tinyC.size();
    // companion: 0 none, 1 triangle before, 2 triangle after, 3 square before, 4 square after; plus the empty set
    if (want("tiny"))
      R.phase(
          "tiny", ((uint64_t)NT * 5 + 1) * 4, 1,
          [&](uint64_t idx4, Ctx& c) {
            // one case = one input under ONE configuration, so that a crash in one does not hide the others
            const uint64_t idx = idx4 / 4;
            const int cfg = (int)(idx4 % 4);
            PSet s;
            if (idx < (uint64_t)NT * 5) {
              const Ring& tr = tinyC[idx / 5];
              int comp = (int)(idx % 5);
              if (comp == 1) s.push_back(triR);
              if (comp == 3) s.push_back(sqR);
              s.push_back(tr);
              if (comp == 2) s.push_back(triR);
              if (comp == 4) s.push_back(sqR);
            }
            SetInfo si;  // never judged
            for (auto& r : s) si.V += r.n;
            c.count("inputs");
            c.count("invalid");
            c.distinct(setHash(s, false));
            runSet(c, s, si, 1u << cfg);
            if (cfg == 0) c.sample(setStr(s));
          },
          CN);
  }

  // ---------- phase reuse: T.Triangulate(P); T.Triangulate(Q) on one PolygonTriangulator
  // equals a fresh triangulator on Q, halfedge for halfedge; all ordered pairs of a pool.
  if (want("reuse")) {
    buildHoleLists();
    buildTwo();
    std::vector<PSet> pool;
    // deterministic pool: walk each generator with a fixed stride and take the next input of the wanted kind
    auto take = [&](std::function<PSet(uint64_t)> gen, uint64_t N, int quota, bool wantValid) {
      for (int j = 0; j < quota; ++j) {
        uint64_t idx = (uint64_t)((long double)N * j / quota);
        for (uint64_t k = 0; k < 200000 && idx + k < N; ++k) {
          PSet s = gen(idx + k);
          bool ok = true;
          for (auto& r : s)
            if (r.n < 3) ok = false;
          if (!ok) continue;
          if (analyseSet(s).valid == wantValid) {
            pool.push_back(s);
            break;
          }
        }
      }
    };
    const int M = level >= 2 ? 6 : level == 1 ? 2 : 1;  // pool of 200 (ASan quick) / 400 / 1200 inputs
    const uint64_t seqN6 = seqOff[std::min(L, 6) + 1];  // sequences of length 3..6
    take(genSeq, seqN6, 75 * M, true);
    take(genSeq, seqN6, 35 * M, false);
    take(genHole1, (uint64_t)outers1.size() * holes1.size() * orders1, 25 * M, true);
    take(genHole1, (uint64_t)outers1.size() * holes1.size() * orders1, 10 * M, false);
    take(genHoles2, outerOff.back(), 30 * M, true);
    take(genTwo, twoN, 17 * M, true);
    take(genTwo, twoN, 8 * M, false);
    const uint64_t K = pool.size();
    const double epsList[2] = {-1, 0};
    std::vector<const char*> RN = {"pairs", "transitions", "pool", "differs_from_first"};
    R.phase(
        "reuse", K * K, K,
        [&](uint64_t idx, Ctx& c) {
          const PSet &Pp = pool[idx / K], &Q = pool[idx % K];
          if (idx == 0) c.count("pool", (int64_t)K);
          PolygonsIdx pi = buildIdx(Pp, 1.0), qi = buildIdx(Q, 1.0);
          for (int e = 0; e < 2; ++e) {
            const double eps = epsList[e];
            std::string key = "reuse:P=" + setStr(Pp) + ";Q=" + setStr(Q) + ";eps=" + (e ? "0" : "-1");
            c.describe(key);
            c.count("pairs");
            c.count("transitions", 2);
            try {
              PolygonTriangulator T;
              HalfedgeTriangulation a = T.Triangulate(pi, eps);
              HalfedgeTriangulation b = T.Triangulate(qi, eps);
              double precT = T.GetPrecision();
              PolygonTriangulator F;
              HalfedgeTriangulation f = F.Triangulate(qi, eps);
              std::string why;
              if (!sameTri(b, f, why))
                c.viol(key, key, "second call on a reused PolygonTriangulator differs from a fresh one: " + why);
              else if (precT != F.GetPrecision())
                c.viol(key, key, "GetPrecision() after reuse differs from a fresh triangulator");
              // the public one-shot path (its own EarClip with the default allocator)
              HalfedgeTriangulation g = TriangulateIdxHalfedges(qi, eps, false);
              if (!sameTri(b, g, why))
                c.viol(key + ";vs=oneshot", key, "reused PolygonTriangulator differs from TriangulateIdxHalfedges(convex=0): " + why);
              // the overload that borrows a used triangulator, fast path allowed
              HalfedgeTriangulation x = TriangulateIdxHalfedges(qi, eps, true, T);
              HalfedgeTriangulation y = TriangulateIdxHalfedges(qi, eps, true);
              if (!sameTri(x, y, why) || x.epsilon != y.epsilon)
                c.viol(key + ";vs=borrowed", key, "TriangulateIdxHalfedges with a used triangulator differs from the one-shot call: " + why);
              // and the used triangulator is still good for P afterwards
              HalfedgeTriangulation a2 = T.Triangulate(pi, eps);
              if (!sameTri(a, a2, why))
                c.viol(key + ";vs=P-again", key, "third call (P again) differs from the first call: " + why);
              uint64_t h = hash_bytes(b.halfedges.data(), b.halfedges.size() * sizeof(Halfedge));
              c.distinct(h ^ mix64(setHash(Q, false)));
              if (a.halfedges.size() != b.halfedges.size() ||
                  memcmp(a.halfedges.data(), b.halfedges.data(), a.halfedges.size() * sizeof(Halfedge)))
                c.count("differs_from_first");
            } catch (const std::exception& ex) {
              c.viol(key, key, std::string("exception: ") + ex.what());
            }
          }
          if (idx % 9973 == 0) c.sample("P=" + setStr(Pp) + " Q=" + setStr(Q));
        },
        RN);
  }
  return R.finish();
}
