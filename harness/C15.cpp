// C15 - cancellation is all-or-nothing at every point; progress is monotone and ends at 1.
// Engine F: for each program, count the IsCancelled checks of an uncancelled
// run (N), then re-run it N times with the cancel flag raised exactly at the
// k-th check, for EVERY k.  The flag is only ever read inside IsCancelled, so
// "Cancel() from another thread at any moment" is exactly "the k-th check is
// the first to see it".
// Two build variants: seq-fast (serial library) and par-model (MANIFOLD_PAR=1 on the replacement TBB runtime, two
// modelled workers, default schedule, every gated loop sent down its parallel branch): in the parallel build every
// chunk of a cancellable parallel loop is a check site of its own, so the set of injection points is a different one.
// VBUILD: variants=seq-fast,par-model
#include <sstream>

#include "engine/runner.h"
#include "lib/canon.h"
#include "manifold/manifold.h"
#include "verif_hooks.h"
#ifdef VERIF_TBBRT
#include "parallel.h"
#include "engine/explore.h"
#endif

using namespace manifold;
using namespace vf;

// Runs f either directly (serial build) or as ONE execution of the modelled runtime under its default schedule.
// Returns "" or a description of why the execution did not finish.
template <typename F>
static std::string inModel(F f) {
#ifdef VERIF_TBBRT
  static vx::Explorer ex;
  vx::Config cfg;
  cfg.workers = 2;
  cfg.concurrency = 2;
  cfg.inProcess = true;
  cfg.timeout = 600;
  vx::Exec e = ex.run({}, cfg, [&] {
    kSeqThreshold = 4;
    verif::par_threshold = 0;
    verif::gate_override = 0;
    f();
    kSeqThreshold = 10000;
    verif::par_threshold = -1;
    verif::gate_override = -1;
    return std::string("ok");
  });
  if (e.status != 1) return "the execution on the modelled runtime did not finish: status " + std::to_string(e.status) + " " + e.outcome;
  return "";
#else
  f();
  return "";
#endif
}

// ---- the probe (hook H2)
static long g_count = 0, g_fire = 0;
static bool g_armed = false;
static void* g_ctx = nullptr;  // only the context under test is counted
static std::vector<std::pair<int, int>> g_progress;
static int g_firedDone = -1, g_firedTotal = -1;
static bool probe(void* ctx, int done, int total) {
  if (!g_armed || ctx != g_ctx) return false;
  ++g_count;
  g_progress.push_back({done, total});
  if (g_count == g_fire) {
    g_firedDone = done;
    g_firedTotal = total;
    return true;
  }
  return false;
}

// handles a program's build() wants re-checked after the (possibly cancelled) evaluation: other handles that share
// already evaluated nodes with the expression ("already evaluated operands are untouched")
static std::vector<Manifold> g_extra;

struct Program {
  std::string name;
  std::function<std::vector<Manifold>()> operands;                          // evaluated leaves
  std::function<Manifold(const std::vector<Manifold>&)> build;              // deferred expression
  std::function<Manifold(const Manifold&, ExecutionContext&)> eval;         // the ctx-observed eager call
  bool finalProgressOne = true;
};

static Manifold forced(Manifold m) {
  (void)m.NumTri();
  return m;
}

static std::vector<Program> programs(bool thorough) {
  using M = Manifold;
  std::vector<Program> P;
  auto statusEval = [](const M& e, ExecutionContext& ctx) {
    M r = e.WithContext(ctx);
    (void)r.Status();
    return r;
  };
  auto leaves = [] {
    std::vector<M> v;
    v.push_back(forced(M::Cube({1, 1, 1}, true)));
    v.push_back(forced(M::Sphere(0.7, 8).Translate({0.4, 0.3, 0.2})));
    v.push_back(forced(M::Cylinder(1.5, 0.3, 0.3, 6, true).Rotate(20, 30, 0)));
    v.push_back(forced(M::Tetrahedron().Scale({0.8, 0.8, 0.8}).Translate({-0.2, 0.1, 0})));
    v.push_back(forced(M::Cube({0.6, 1.4, 0.5}, true).Rotate(0, 0, 33)));
    v.push_back(forced(M::Sphere(0.5, 6).Translate({-0.5, -0.4, 0.3})));
    return v;
  };
  P.push_back({"chain (A+B)-C", leaves, [](const std::vector<M>& o) { return (o[0] + o[1]) - o[2]; }, statusEval});
  P.push_back({"balanced (A+B)^(C+D)", leaves, [](const std::vector<M>& o) { return (o[0] + o[1]) ^ (o[2] + o[3]); }, statusEval});
  P.push_back({"shared S=(A+B); S^S.Translate", leaves, [](const std::vector<M>& o) {
                 M s = o[0] + o[1];
                 return s ^ s.Translate({0.3, 0, 0});
               }, statusEval});
  P.push_back({"shared impl T=(A-B); T.Translate+T.Rotate", leaves, [](const std::vector<M>& o) {
                 M t = o[0] - o[1];
                 return t.Translate({0.6, 0, 0}) + t.Rotate(0, 0, 90);
               }, statusEval});
  P.push_back({"Batch+ of 6", leaves, [](const std::vector<M>& o) { return M::BatchBoolean(o, OpType::Add); }, statusEval});
  P.push_back({"Batch- of 5", leaves, [](const std::vector<M>& o) {
                 return M::BatchBoolean({o[0], o[1], o[2], o[3], o[5]}, OpType::Subtract);
               }, statusEval});
  P.push_back({"Batch^ of 4", leaves, [](const std::vector<M>& o) {
                 return M::BatchBoolean({o[0], o[1], o[4], o[2]}, OpType::Intersect);
               }, statusEval});
  P.push_back({"disjoint union (compose path)", leaves, [](const std::vector<M>& o) {
                 return o[0] + o[1].Translate({5, 0, 0}) + o[3].Translate({0, 6, 0});
               }, statusEval});
  P.push_back({"deep chain with transforms", leaves, [](const std::vector<M>& o) {
                 return ((((o[0] + o[1]).Translate({0.1, 0, 0}) - o[2]).Rotate(10, 0, 0) ^ (o[4] + o[0])) + o[5]).Scale({1, 1.2, 1});
               }, statusEval});
  // a shared sub-expression that was ALREADY evaluated through another tree (its op node carries a cached result),
  // then used in a new expression whose evaluation is cancelled: the other handles must keep their value
  P.push_back({"pre-evaluated shared s=(A+B) via t=s-C; u=s^(D+E)", leaves, [](const std::vector<M>& o) {
                 M s = o[0] + o[1];
                 M t = s - o[2];
                 (void)t.Status();
                 g_extra = {s, t};
                 return s ^ (o[3] + o[4]);
               }, statusEval});
  P.push_back({"pre-evaluated shared s=(A-B) via t=s.T+C; u=Batch+[D,s,E]", leaves, [](const std::vector<M>& o) {
                 M s = o[0] - o[1];
                 M t = s.Translate({0.2, 0, 0}) + o[2];
                 (void)t.NumTri();
                 g_extra = {s, t};
                 return M::BatchBoolean({o[3], s, o[4]}, OpType::Add);
               }, statusEval});
  P.push_back({"leaf Status (no work)", leaves, [](const std::vector<M>& o) { return o[1]; }, statusEval});
  // eager geometry ops
  P.push_back({"Cube.SmoothOut.Refine(3)", [] { return std::vector<M>{forced(M::Cube().SmoothOut())}; },
               [](const std::vector<M>& o) { return o[0]; },
               [](const M& e, ExecutionContext& ctx) { return e.WithContext(ctx).Refine(3); }});
  P.push_back({"Sphere8.RefineToLength(.3)", [] { return std::vector<M>{forced(M::Sphere(1, 8))}; },
               [](const std::vector<M>& o) { return o[0]; },
               [](const M& e, ExecutionContext& ctx) { return e.WithContext(ctx).RefineToLength(0.3); }});
  P.push_back({"Octa.SmoothOut(60).RefineToTolerance(.01)", [] { return std::vector<M>{forced(M::Sphere(1, 4).SmoothOut(60))}; },
               [](const std::vector<M>& o) { return o[0]; },
               [](const M& e, ExecutionContext& ctx) { return e.WithContext(ctx).RefineToTolerance(0.01); }});
  P.push_back({"(A+B).Refine(2) deferred operand", leaves, [](const std::vector<M>& o) { return o[0] + o[1]; },
               [](const M& e, ExecutionContext& ctx) { return e.WithContext(ctx).Refine(2); }});
  P.push_back({"(A+B).Hull()", leaves, [](const std::vector<M>& o) { return o[0] + o[1]; },
               [](const M& e, ExecutionContext& ctx) { return e.WithContext(ctx).Hull(); }});
  P.push_back({"Sphere12.Hull()", [] { return std::vector<M>{forced(M::Sphere(1, 12))}; },
               [](const std::vector<M>& o) { return o[0]; },
               [](const M& e, ExecutionContext& ctx) { return e.WithContext(ctx).Hull(); }});
  auto mk = [thorough] {
    std::vector<M> v;
    v.push_back(forced(M::Cube({1, 1, 1}, true)));
    v.push_back(forced(M::Sphere(0.3, 4)));
    // quick: a 4-triangle-cap wedge with one reflex edge keeps the per-face loop short
    v.push_back(forced(thorough ? M::Extrude({{{0, 0}, {1, 0}, {1, 0.4}, {0.4, 0.4}, {0.4, 1}, {0, 1}}}, 0.5)
                                : M::Extrude({{{0, 0}, {1, 0}, {0.3, 0.3}, {0, 1}}}, 0.5)));
    v.push_back(forced(M::Cube({0.3, 0.2, 0.25}, true)));
    return v;
  };
  P.push_back({"MinkowskiSum convex x convex", mk, [](const std::vector<M>& o) { return o[0]; },
               [mk](const M& e, ExecutionContext& ctx) { return e.WithContext(ctx).MinkowskiSum(forced(M::Sphere(0.3, 4))); }});
  P.push_back({"MinkowskiSum nonconvex x convex", mk, [](const std::vector<M>& o) { return o[2]; },
               [](const M& e, ExecutionContext& ctx) { return e.WithContext(ctx).MinkowskiSum(forced(M::Cube({0.3, 0.2, 0.25}, true))); }});
  P.push_back({"MinkowskiDifference convex x convex", mk, [](const std::vector<M>& o) { return o[0]; },
               [](const M& e, ExecutionContext& ctx) { return e.WithContext(ctx).MinkowskiDifference(forced(M::Sphere(0.3, 4))); }});
  P.push_back({"MinkowskiDifference nonconvex x convex", mk, [](const std::vector<M>& o) { return o[2]; },
               [](const M& e, ExecutionContext& ctx) { return e.WithContext(ctx).MinkowskiDifference(forced(M::Cube({0.2, 0.2, 0.2}, true))); }});
  // static factories through the context
  P.push_back({"ctx.FromMeshGL64(boolean result with props)", [] {
                 M a = M::Cube().SetProperties(1, [](double* o, vec3 p, const double*) { o[0] = p.x; });
                 return std::vector<M>{forced(a - M::Sphere(0.6, 8))};
               },
               [](const std::vector<M>& o) { return o[0]; },
               [](const M& e, ExecutionContext& ctx) { return ctx.FromMeshGL(e.GetMeshGL64()); }});
  P.push_back({"ctx.FromMeshGL32(sphere)", [] { return std::vector<M>{forced(M::Sphere(1, 8))}; },
               [](const std::vector<M>& o) { return o[0]; },
               [](const M& e, ExecutionContext& ctx) { return ctx.FromMeshGL(e.GetMeshGL()); }});
  P.push_back({"ctx.Smooth(tet, sharpened)", [] { return std::vector<M>{forced(M::Tetrahedron())}; },
               [](const std::vector<M>& o) { return o[0]; },
               [](const M& e, ExecutionContext& ctx) { return ctx.Smooth(e.GetMeshGL64(), {{0, 0.3}, {4, 0.0}}); }});
  P.push_back({"ctx.LevelSet(sphere)", [] { return std::vector<M>{}; }, [](const std::vector<M>&) { return M(); },
               [](const M&, ExecutionContext& ctx) {
                 return ctx.LevelSet([](vec3 p) { return 1.0 - la::length(p); }, Box(vec3(-1.2, -1.2, -1.2), vec3(1.2, 1.2, 1.2)), 0.3);
               }});
  return P;
}

struct RunResult {
  std::vector<Manifold> extra;
  Manifold r, expr;
  std::vector<Manifold> ops;
  std::vector<uint64_t> opFp;
  long checks = 0;
  std::vector<std::pair<int, int>> progress;
  double finalProgress = 0;
  bool ctxCancelled = false;
  ExecutionContext ctx;
};

static RunResult runOnce(const Program& p, long fireAt) {
  RunResult R;
  R.ops = p.operands();
  for (auto& o : R.ops) R.opFp.push_back(fingerprint(o, true));
  g_extra.clear();
  R.expr = p.build(R.ops);
  R.extra = g_extra;
  g_count = 0;
  g_fire = fireAt;
  g_progress.clear();
  g_firedDone = g_firedTotal = -1;
  g_ctx = R.ctx.impl_.get();
  g_armed = true;
  R.r = p.eval(R.expr, R.ctx);
  g_armed = false;
  R.checks = g_count;
  R.progress = g_progress;
  R.finalProgress = R.ctx.Progress();
  R.ctxCancelled = R.ctx.Cancelled();
  return R;
}

static std::string progressProblem(const std::vector<std::pair<int, int>>& s) {
  double last = -1;
  // the first sample may follow a counter reset of a re-used context; within the evaluation it must not decrease
  for (size_t i = 0; i < s.size(); ++i) {
    double pr = s[i].second == 0 ? 1.0 : double(s[i].first) / s[i].second;
    if (pr > 1.0) {
      std::ostringstream o;
      o << "progress " << s[i].first << "/" << s[i].second << " > 1 at check " << i + 1;
      return o.str();
    }
    if (s[i].second != 0) {  // 'no work scheduled' reads as 1.0 by definition; judge scheduled work only
      if (pr < last) {
        std::ostringstream o;
        o << "progress decreased from " << last << " to " << s[i].first << "/" << s[i].second << " at check " << i + 1;
        return o.str();
      }
      last = pr;
    }
  }
  return "";
}

int main(int argc, char** argv) {
  Runner R("C15", argc, argv);
  verif::cancel_probe = probe;
  auto P = programs(R.a.thorough());
  const int np = (int)P.size();

  // calibration (deterministic): number of checks, fingerprint of the complete result, fingerprints of the extra
  // handles.  Computed by the reference phase in a worker process (the modelled runtime keeps parked OS threads, which
  // do not survive the fork into workers, so nothing runs on it in the parent) and handed back as emitted lines.
  std::vector<long> N(np, 0);
  std::vector<uint64_t> ref(np, 0);
  std::vector<uint64_t> offs(np + 1, 0);
  std::vector<char> refProgressBad(np, 0);
  std::vector<std::vector<uint64_t>> refExtra(np);
  auto calibrate = [&](int i) {
    std::ostringstream o;
    std::string why = inModel([&] {
      RunResult r = runOnce(P[i], 0);
      o << i << " " << r.checks << " " << fingerprint(r.r, false) << " " << (progressProblem(r.progress).empty() ? 0 : 1) << " " << r.extra.size();
      for (auto& x : r.extra) o << " " << fingerprint(x, false);
    });
    return why.empty() ? o.str() : std::string();
  };
  auto absorb = [&](const std::string& line) {
    std::istringstream in(line);
    int i;
    size_t ne;
    int bad;
    if (!(in >> i) || i < 0 || i >= np) return;
    in >> N[i] >> ref[i] >> bad >> ne;
    refProgressBad[i] = (char)bad;
    refExtra[i].assign(ne, 0);
    for (auto& x : refExtra[i]) in >> x;
  };
  if (!R.a.onlyCase.empty())
    for (int i = 0; i < np; ++i) absorb(calibrate(i));  // stand-alone replay: no workers are forked, calibrate in place

  auto calLines = R.phase("reference", np, 1, [&](uint64_t idx, Ctx& c) {
    const Program& p = P[idx];
    c.describe(p.name + " (uncancelled)");
    std::string cal = calibrate((int)idx);
    if (cal.empty()) {
      c.viol("ref:" + p.name + ":did-not-finish", p.name, "the uncancelled evaluation did not finish on the modelled runtime");
      return;
    }
    c.emit(cal);
    std::string modelWhy = inModel([&] {
    RunResult a = runOnce(p, 0), b = runOnce(p, 0);
    c.count("executions", 2);
    c.count("cancel_checks", a.checks);
    std::ostringstream s;
    s << p.name << ": " << a.checks << " cancellation checks";
    c.sample(s.str());
    c.distinct(hash_str(p.name));
    if (a.checks > 0) c.nontrivial(hash_str(p.name));
    if (a.r.Status() != Manifold::Error::NoError)
      c.viol("ref:" + p.name + ":status", p.name, "uncancelled run has status " + std::to_string((int)a.r.Status()));
    if (fingerprint(a.r, false) != fingerprint(b.r, false) || a.checks != b.checks)
      c.viol("ref:" + p.name + ":nondeterministic", p.name, "two uncancelled runs differ (replay would be meaningless)");
    std::string pp = progressProblem(a.progress);
    if (!pp.empty()) c.viol("progress:" + p.name + ":monotone", p.name, pp);
    if (a.finalProgress != 1.0) {
      std::ostringstream o;
      o << "Progress() == " << a.finalProgress << " after an uncancelled completion";
      c.viol("progress:" + p.name + ":final", p.name, o.str());
    }
    if (a.ctxCancelled) c.viol("ref:" + p.name + ":ctx", p.name, "context reports Cancelled without Cancel()");
    for (size_t i = 0; i < a.ops.size(); ++i)
      if (fingerprint(a.ops[i], true) != a.opFp[i]) c.viol("ref:" + p.name + ":operand", p.name, "operand changed by evaluation");
    });
    if (!modelWhy.empty()) c.viol("ref:" + p.name + ":did-not-finish", p.name, modelWhy);
  }, {"executions", "cancel_checks"});
  if (R.a.onlyCase.empty())
    for (auto& l : calLines) absorb(l);
  for (int i = 0; i < np; ++i) offs[i + 1] = offs[i] + N[i];

  R.phase("inject", offs[np], 8, [&](uint64_t idx, Ctx& c) {
    int pi = 0;
    while (offs[pi + 1] <= idx) ++pi;
    const Program& p = P[pi];
    long k = (long)(idx - offs[pi]) + 1;
    std::ostringstream d;
    d << p.name << " cancel at check " << k << "/" << N[pi];
    c.describe(d.str());
    std::string modelWhy = inModel([&] {
    RunResult a = runOnce(p, k);
    c.count("executions");
    std::ostringstream at;
    at << "@progress=" << g_firedDone << "/" << g_firedTotal;
    int fd = g_firedDone, ft = g_firedTotal;
    (void)fd;
    (void)ft;
    std::string site = at.str();
    auto V = [&](const std::string& what, const std::string& detail) {
      c.viol("cancel:" + p.name + ":" + what + site, d.str(), detail);
    };
    if (a.checks < k) {
      V("fewer-checks", "run performed fewer checks than the uncancelled run before finishing");
      return;
    }
    auto st = a.r.Status();
    uint64_t fp = fingerprint(a.r, false);
    bool complete = st == Manifold::Error::NoError && fp == ref[pi];
    bool cancelled = st == Manifold::Error::Cancelled && a.r.IsEmpty() && a.r.NumVert() == 0 && a.r.NumTri() == 0;
    c.distinct(mix64(pi * 1000003ULL + k));
    if (cancelled) c.count("cancelled_outcomes");
    if (complete) c.count("complete_outcomes");
    if (cancelled) c.nontrivial(mix64(pi * 1000003ULL + k));
    if (!complete && !cancelled) {
      std::ostringstream o;
      o << "result is neither the complete result nor an empty Cancelled manifold: status " << (int)st << ", " << a.r.NumTri()
        << " triangles, fingerprint " << (fp == ref[pi] ? "equal" : "differs");
      V("partial", o.str());
    }
    if (cancelled) {
      if (a.r.Translate({1, 0, 0}).Status() != Manifold::Error::Cancelled) V("not-sticky:Translate", "Cancelled did not survive Translate");
      if ((a.r + Manifold::Cube()).Status() != Manifold::Error::Cancelled) V("not-sticky:Boolean", "Cancelled did not survive a Boolean");
      if (a.r.Refine(2).Status() != Manifold::Error::Cancelled) V("not-sticky:Refine", "Cancelled did not survive Refine");
    }
    // (a progress defect of the uncancelled run is reported once by the reference phase, not once per k)
    std::string pp = refProgressBad[pi] ? "" : progressProblem(a.progress);
    if (!pp.empty()) V("progress", pp);
    for (size_t i = 0; i < a.ops.size(); ++i)
      if (fingerprint(a.ops[i], true) != a.opFp[i]) V("operand-changed", "operand " + std::to_string(i) + " changed by the cancelled evaluation");
    // other handles sharing already evaluated nodes with the expression keep their value
    for (size_t i = 0; i < a.extra.size() && i < refExtra[pi].size(); ++i)
      if (fingerprint(a.extra[i], false) != refExtra[pi][i])
        V("shared-handle-changed", "handle #" + std::to_string(i) + " sharing an evaluated sub-expression changed: status " +
                                       std::to_string((int)a.extra[i].Status()) + ", " + std::to_string(a.extra[i].NumTri()) + " triangles");
    // the expression handle itself, queried again without a context
    {
      auto st2 = a.expr.Status();
      bool ok = (st2 == Manifold::Error::NoError) || (st2 == Manifold::Error::Cancelled && a.expr.IsEmpty());
      if (!ok) V("expr-requery", "re-querying the expression handle gives status " + std::to_string((int)st2));
    }
    // a cancelled context short-circuits every later evaluation through it
    if (a.ctxCancelled) {
      Manifold later = (Manifold::Cube() + Manifold::Cube().Translate({0.5, 0.5, 0.5})).WithContext(a.ctx);
      if (later.Status() != Manifold::Error::Cancelled) V("ctx-not-sticky", "a later evaluation through the cancelled context returned status " + std::to_string((int)later.Status()));
      Manifold later2 = a.ctx.FromMeshGL(Manifold::Cube().GetMeshGL64());
      if (later2.Status() != Manifold::Error::Cancelled) V("ctx-not-sticky:FromMeshGL", "FromMeshGL through the cancelled context returned status " + std::to_string((int)later2.Status()));
    }
    // rebuilding the expression from the same operands with a fresh context gives the correct result
    {
      ExecutionContext ctx2;
      Manifold again = p.eval(p.build(a.ops), ctx2);
      if (again.Status() != Manifold::Error::NoError || fingerprint(again, false) != ref[pi])
        V("rebuild", "rebuilding from the operands with a fresh context gives status " + std::to_string((int)again.Status()) +
                         (fingerprint(again, false) != ref[pi] ? " and a different mesh" : ""));
      if (ctx2.Progress() != 1.0 && p.finalProgressOne) {
        // reported by the reference phase for the uncancelled program already; nothing new here
      }
    }
    if (k == 1 || k == N[pi]) c.sample(d.str() + (cancelled ? " -> Cancelled" : " -> complete"));
    });
    if (!modelWhy.empty()) c.viol("cancel:" + p.name + ":did-not-finish", d.str(), modelWhy);
  }, {"executions", "cancelled_outcomes", "complete_outcomes"});
  return R.finish();
}
