// Reference model for lattice CSG: a solid made of unit voxels of [0,N]^3 is
// a bit set; Add/Subtract/Intersect are | &~ &.  Boring on purpose.
#pragma once
#include <cstdint>
#include <string>
#include <vector>

#include "manifold/manifold.h"

namespace vf {

struct LBox {
  int lo[3], hi[3];
  std::string str() const {
    char b[64];
    snprintf(b, sizeof b, "B%d%d%d-%d%d%d", lo[0], lo[1], lo[2], hi[0], hi[1], hi[2]);
    return b;
  }
};

// all boxes with integer corners 0<=lo<hi<=N
inline std::vector<LBox> allBoxes(int N) {
  std::vector<LBox> v;
  for (int x0 = 0; x0 < N; ++x0)
    for (int x1 = x0 + 1; x1 <= N; ++x1)
      for (int y0 = 0; y0 < N; ++y0)
        for (int y1 = y0 + 1; y1 <= N; ++y1)
          for (int z0 = 0; z0 < N; ++z0)
            for (int z1 = z0 + 1; z1 <= N; ++z1) v.push_back({{x0, y0, z0}, {x1, y1, z1}});
  return v;
}

inline uint64_t voxMask(const LBox& b, int N) {
  uint64_t m = 0;
  for (int x = b.lo[0]; x < b.hi[0]; ++x)
    for (int y = b.lo[1]; y < b.hi[1]; ++y)
      for (int z = b.lo[2]; z < b.hi[2]; ++z) m |= 1ULL << ((x * N + y) * N + z);
  return m;
}
inline uint64_t voxOp(uint64_t a, uint64_t b, manifold::OpType op) {
  switch (op) {
    case manifold::OpType::Add:
      return a | b;
    case manifold::OpType::Subtract:
      return a & ~b;
    default:
      return a & b;
  }
}
inline manifold::Manifold boxManifold(const LBox& b) {
  return manifold::Manifold::Cube({double(b.hi[0] - b.lo[0]), double(b.hi[1] - b.lo[1]), double(b.hi[2] - b.lo[2])})
      .Translate({double(b.lo[0]), double(b.lo[1]), double(b.lo[2])});
}
inline const char* opName(manifold::OpType op) {
  return op == manifold::OpType::Add ? "+" : op == manifold::OpType::Subtract ? "-" : "^";
}

}  // namespace vf
