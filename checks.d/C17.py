CHECK = dict(
    level="exploration", engine="S",
    technique=("exhaustive enumeration of argument cross products per constructor / transform / Quality setting, executed on the real library and "
               "judged by a solid-angle winding oracle against the analytic solid documented for those arguments"),
    level_text=("Every combination of the stated small argument lists of Cube, Tetrahedron, Sphere, Cylinder, Extrude, Revolve, LevelSet, of "
                "Translate/Rotate/Scale/Mirror/Transform/Warp (singly and in chains of two, lazily combined or forced) and of the Quality setters is "
                "executed. Constructors: the long-double winding number of the exported mesh at lattice sample points must equal the analytic "
                "predicate written from the API documentation, at every point outside the faceting band (between the inscribed and circumscribed "
                "shape; for LevelSet one grid-cell diagonal around the level set; for Extrude the two thin triangles per side quad). Invalid "
                "arguments must give an empty InvalidConstruction. Transforms: winding(T(M),p) == winding(M,T^-1 p) with T^-1 computed by the "
                "oracle from the documented semantics, Volume == |det| Volume(M), signed volume of the export positive, and for rotations by "
                "multiples of 90 degrees the vertex set is bit-for-bit the signed permutation of the original. Quality: segment counts read off "
                "the meshes of Cylinder/Sphere/Revolve/CrossSection::Circle equal GetCircularSegments(radius) and the documented rule."),
    level_note=("Trusted: compiler, lib/solid.h winding number, the ~150 lines of analytic predicates in harness/C17.cpp. Bound: the argument lists in "
                "harness/C17.cpp (DESIGN.md C17) and an 11^3 (quick) / 19^3 (thorough) sample lattice per case (8^3 / 12^3 for transforms); points inside the faceting band or within 1e-6 of an "
                "analytic surface are not judged. Where the documentation is ambiguous (truncation before rounding segment counts up to a multiple "
                "of four) both readings are accepted."),
    runs=[S("seq-fast", quick=150, thorough=1500, workers=8, case_timeout=120),
          S("seq-asan", quick=300, thorough=1500, workers=8, case_timeout=300, tiers=("quick",), args=["--lattice", "6"])],
    rule=("phases cube(+tetrahedron), sphere, cylinder, extrude, revolve, levelset, transform1 (every single transform of the alphabet x 5 base solids), "
          "mirror-zero, transform2 (all ordered pairs of 20 transforms x forced/lazy intermediate x 5 base solids), quality (5 segment settings x 2 angles x "
          "2 lengths x 3 radii x 4 constructors). Every phase enumerates its whole cross product. distinct = distinct canonical result meshes; "
          "non-trivial = cases in which at least one sample was required inside and at least one required outside (constructors), the transformed "
          "solid had judged samples on both sides (transforms), or a segment count was read off a non-empty result (quality)."),
    bounds=dict(
        quick=("Cube 9 sizes x centre; Sphere 5 radii x 7 segment counts; Cylinder 4 heights x 5 rLow x 5 rHigh x 5 segs x centre; Extrude 6 polygons x 4 heights x "
               "3 nDivisions x 5 twists x 4 scaleTop; Revolve 11 polygons x 6 angles x 5 segs; LevelSet 4 sdf x 2 edge x 3 level x 2 tolerance; Rotate over "
               "{0,30,90,180,270,360,-90}^3, 10 mirrors, 8 scales, 4 translations, 8 matrices, 4 warps on 5 bases; 20x20x2x5 chains; 14x14x3 transforms of unevaluated nested unions / intersections / differences; 240 Quality cases; "
               "default Quality for the constructor phases; 11^3-13^3 samples per case (8^3 for transforms); the ASan run uses 6^3"
               " samples"),
        thorough=("the same cross products, with Sphere/Cylinder/Revolve additionally run under Quality (segments,angle,length) = (0,30,0.1), (7,10,1), (0,10,0.1), (16,10,1), and 19^3-21^3 samples per case "
                  "(12^3 for transforms)")),
    assumptions=COMMON_ASSUME + [
        "samples inside the faceting band (inscribed..circumscribed analytic shape), within one grid-cell diagonal of a LevelSet surface, or within 1e-6 of an analytic surface are not judged",
        "Rotate uses right-handed rotations and a partial Revolve starts at the +X half plane turning counter-clockwise (the documentation fixes the axis order but not the handedness)",
        "LevelSet is judged on unit-gradient SDFs whose level sets lie strictly inside the bounds",
    ],
)
