CHECK = dict(
    level="model_checking", engine="S",
    technique=("exhaustive enumeration of the topological subdivision patterns (file-local Partition of src/subdivision.cpp reached by #include) "
               "for all edge-division triples / quadruples up to a bound, and of Refine / RefineToLength / RefineToTolerance / Simplify / SetTolerance "
               "calls over a finite pool of solids x property x tangent variants, executed on the real library and judged by a topological and a "
               "long-double geometric oracle"),
    level_text=("Patterns: every (n0,n1,n2) in [1,N]^3 and (n0,n1,n2,n3) in [1,M]^4 is passed to Partition::GetPartition; the pattern must use every "
                "vertex, repeat none in a triangle, be counter-clockwise with barycentric areas summing to the face within 1e-12, have as boundary exactly "
                "the requested divisions of each edge in order (corners first), pair every interior directed edge once (Euler characteristic 1), and "
                "Reindex under all 2^3 / 2^4 edge directions must map it injectively onto corners + edge ranges + interior range with the CCW boundary "
                "cycle of the *input* frame. Meshes: 21 non-degenerate seeds of lib/alphabet.h x {as is, +2 property channels} and 49 (quick) / 193 "
                "(thorough) Boolean results, x {no tangents, SmoothOut(angle in 0,52.5,180; smoothness in 0,.5), Smooth(), SmoothByNormals} x {Refine(1..4), "
                "RefineToLength(2,.7,.3), RefineToTolerance(.1,.01)}: always lib/topo.h (closed oriented manifold, every vertex referenced, NumVert/NumEdge/"
                "Genus consistent), every input vertex position == some vertex used by a result triangle, tolerance >= epsilon; without tangents also "
                "NumTri == n^2 NumTri, Volume/SurfaceArea (library getters and oracle sums) within 100*epsilon*scale^k, equal integer winding number at "
                "all sample points farther than 1e-6*scale from the input; with tangents every used vertex of Refine(n) is within 1e-9*scale of a vertex "
                "of Refine(2n). Simplify: lattice boxes, L- and U-solids after Refine(2|3|4).AsOriginal() (Refine(8) on four of them) and all unions of two face-adjacent lattice boxes "
                "(with and without AsOriginal) x {Simplify(t), SetTolerance(t)} x t in {0,1e-9,.01,.1}: C01 topology, triangle count does not grow, result "
                "vertices are input vertices (1e-12), every result vertex within max(t, input tolerance, 1e-12) of the input surface and vice versa (exact "
                "point-triangle distance), equal winding number on a quarter-offset lattice, GetTolerance()==max(t,GetEpsilon()) after SetTolerance, "
                "unchanged after Simplify, never below GetEpsilon()."),
    level_note=("Trusted: compiler, ASan/UBSan, lib/topo.h, lib/solid.h, ~120 lines of pattern oracle in harness/C19.cpp. Bound: N=10, M=5 (quick), N=20, M=8 "
                "(thorough); the mesh pools, operation arguments and sample lattices named above. 'Lies on the interpolated surface' is checked "
                "differentially (Refine(n) against Refine(2n)), not against a second implementation of the patch; RefineToLength/RefineToTolerance with "
                "tangents are judged on topology and retained original vertices only."),
    runs=[S("seq-fast", quick=240, thorough=1500, workers=8, case_timeout=120),
          S("seq-asan", quick=600, thorough=600, workers=8, case_timeout=300, tiers=("quick",))],
    rule=("phases tri-patterns, quad-patterns (one case = one division tuple, 8/16 Reindex calls), refine and refine-bool (one case = input x one refine "
          "call, plus Refine(2n) for the differential statement), simplify (one case = input x one Simplify/SetTolerance call). Every phase enumerates its "
          "whole cross product. distinct = distinct cached patterns / canonical result meshes; non-trivial = patterns with interior vertices, refine results "
          "with more triangles than the input, simplify results with fewer triangles than the input."),
    bounds=dict(
        quick=("1000 triples, 625 quadruples; 21 seeds x 2 x 9 x 9 = 3402 refine cases, 49 Boolean inputs x 9 x 9 = 3969; 6^3 winding samples; simplify: 27 "
               "boxes of [0,2]^3 + L,L2,U,U2 x Refine(2|3|4), Refine(8) on 4 of them, 147 adjacent pairs x 2 -> 391 inputs x 2 x 4 = 3128 cases"),
        thorough=("8000 triples, 4096 quadruples; the same refine pool with 9^3 samples, 193 Boolean inputs (15633 cases); simplify: 216 boxes of [0,3]^3 + L,L2,U,U2 "
                  "x Refine(2|3|4), Refine(8) on 4 of them, and all face-adjacent pairs of those boxes x 2 (135k cases)")),
    assumptions=COMMON_ASSUME + [
        "sample points closer than 1e-6*scale to the input surface are not judged (refine); simplify samples are 0.25 from every lattice plane",
        "'within epsilon' for Volume/SurfaceArea is read as 100*max(GetEpsilon)*scale^2 resp. *scale",
        "'original vertex retained / does not move' is read as: its position compares equal (==) to a vertex referenced by a result triangle",
        "tangents count as present when any exported halfedgeTangent component is non-zero",
    ],
)
