CHECK = dict(
    level="model_checking", engine="T+C",
    technique="stateless model checking: preemption-bounded exhaustive schedule exploration (CHESS-style DFS) of the real parallel.h primitives on oneTBB's header algorithms over a replacement runtime, and of the lock-free containers at hooked atomic operations; all inputs over a 3-letter alphabet up to the length bound",
    level_text=("Every primitive of src/parallel.h is run with ExecutionPolicy::Par on every sequence over {0,1,2} up to the length bound; oneTBB's own "
                "parallel_for/reduce/scan/invoke, partitioners and body split/join protocols execute on engine/tbbrt, where the choice of which modelled "
                "worker takes which ready task (own newest / steal oldest, isolation respected) is enumerated by DFS up to the preemption bound; each "
                "execution's result is compared with the std:: algorithm. DisjointSets and HashTableD are driven by 2-3 real threads whose every "
                "interleaving at the library's atomic operations (hook H5) is enumerated within the bound and compared with a sequential structure."),
    level_note=("Trusted: the scheduler/runtime model in engine/tbbrt (owner LIFO, thief FIFO, task-boundary scheduling points, isolation tags), sequential "
                "consistency (relaxed/acquire-release reorderings are not enumerated), spurious compare_exchange_weak failures are not modelled. "
                "kSeqThreshold is lowered (hook H3) so merge/radix/scan split at tiny sizes; the production constant is exercised by C04's scale-L programs."),
    runs=[S("par-model", quick=600, thorough=3000, workers=16, case_timeout=600)],
    rule=("cases = (primitive, input sequence, reported concurrency); per case ALL schedules within the bound are executed. distinct = cases; non-trivial = "
          "cases in which at least one explored schedule had a task stolen by another worker (primitives) / more than one interleaving (containers). "
          "executions = total schedules run."),
    bounds=dict(quick="26 primitives x all 364 sequences of length <= 5 x C in {2,4}, W=2 workers, preemption bound 2 (len<=4) / 1 (len 5); DisjointSets: 625 programs "
                      "of 2 threads x 2 unites on 4 elements, bound 2; HashTableD: 2592 programs of 2 threads x 2 inserts (sizes 8 and 4), bound 2",
                thorough="sequences of length <= 7, C in {1,2,4}, W=3, bound 3 (len<=5) / 2; containers: + 3-thread programs, bound 3"),
    assumptions=COMMON_ASSUME + ["sequentially consistent interleavings only", "scheduling points at task boundaries / spawn / wait and at hooked atomics only"],
)
