// C05 - Manifolds and CrossSections are values: deriving new ones never changes old ones.
// Engine S: all histories of handle/derivation transitions up to the depth
// bound on a pool of live handles; after EVERY transition the fingerprint of
// every still-live older object is recomputed and must equal the one recorded
// when it was created (bit-identical export, counts, bbox, tolerance, status,
// original ID); a copy must fingerprint like its source.
#include <memory>
#include <sstream>

#include "engine/runner.h"
#include "lib/canon.h"
#include "manifold/cross_section.h"
#include "manifold/manifold.h"

using namespace manifold;
using namespace vf;

// ------------------------------------------------------------------ Manifold pool
struct Slot {
  std::unique_ptr<Manifold> m;  // null = destroyed
  bool movedFrom = false;
  uint64_t fp = 0;
};
struct Pool {
  std::vector<Slot> s;
  std::string log;
};

static uint64_t FP(const Manifold& m) { return fingerprint(m, true); }

struct Trans {
  std::string name;
  int arity;  // number of slot operands
  // returns "" or a violation text; may add slots
  std::function<std::string(Pool&, int, int)> f;
  bool needsLive0 = true, needsLive1 = true;  // operands must be live & not moved-from
};

static void addSlot(Pool& p, Manifold m) {
  Slot sl;
  sl.m = std::make_unique<Manifold>(std::move(m));
  sl.fp = FP(*sl.m);
  p.s.push_back(std::move(sl));
}

static std::vector<Trans> manifoldTransitions() {
  using M = Manifold;
  std::vector<Trans> T;
  auto un = [&](const char* n, std::function<M(const M&)> g) {
    T.push_back({n, 1, [g](Pool& p, int i, int) {
                   addSlot(p, g(*p.s[i].m));
                   return std::string();
                 }});
  };
  auto bin = [&](const char* n, std::function<M(const M&, const M&)> g) {
    T.push_back({n, 2, [g](Pool& p, int i, int j) {
                   addSlot(p, g(*p.s[i].m, *p.s[j].m));
                   return std::string();
                 }});
  };
  un("Translate", [](const M& m) { return m.Translate({0.3, 0.2, 0.1}); });
  un("Rotate", [](const M& m) { return m.Rotate(17, 31, 47); });
  un("Scale(-1,1,1)", [](const M& m) { return m.Scale({-1, 1, 1}); });
  un("Transform", [](const M& m) { return m.Transform(mat3x4({1, 0.2, 0}, {0.3, 1, 0.1}, {0, -0.4, 1}, {0.5, 0, -0.25})); });
  un("Warp", [](const M& m) { return m.Warp([](vec3& p) { p.x += 0.1 * p.y * p.y; }); });
  un("SetProperties", [](const M& m) { return m.SetProperties(1, [](double* o, vec3 p, const double*) { o[0] = p.z; }); });
  un("CalculateNormals", [](const M& m) { return m.CalculateNormals(0, 40); });
  un("CalculateCurvature", [](const M& m) { return m.CalculateCurvature(0, 1); });
  un("Refine(2)", [](const M& m) { return m.Refine(2); });
  un("RefineToLength", [](const M& m) { return m.RefineToLength(0.7); });
  un("SmoothOut", [](const M& m) { return m.SmoothOut(); });
  un("SmoothByNormals", [](const M& m) { return m.NumProp() >= 3 ? m.SmoothByNormals(0) : m.CalculateNormals(0).SmoothByNormals(0); });
  un("Simplify", [](const M& m) { return m.Simplify(0.05); });
  un("SetTolerance", [](const M& m) { return m.SetTolerance(0.05); });
  un("AsOriginal", [](const M& m) { return m.AsOriginal(); });
  un("Hull", [](const M& m) { return m.Hull(); });
  un("Decompose[0]", [](const M& m) {
    auto d = m.Decompose();
    return d.empty() ? M() : d[0];
  });
  un("SplitByPlane.first", [](const M& m) { return m.SplitByPlane({0.2, 0.1, 1}, 0.1).first; });
  un("TrimByPlane", [](const M& m) { return m.TrimByPlane({1, 0, 0}, 0.2); });
  un("RoundTrip", [](const M& m) { return M(m.GetMeshGL64()); });
  un("Force(NumTri)", [](const M& m) {
    (void)m.NumTri();
    return m;
  });
  bin("+", [](const M& a, const M& b) { return a + b; });
  bin("-", [](const M& a, const M& b) { return a - b; });
  bin("^", [](const M& a, const M& b) { return a ^ b; });
  bin("Split.second", [](const M& a, const M& b) { return a.Split(b).second; });
  bin("Batch3", [](const M& a, const M& b) { return M::BatchBoolean({a, b, a.Translate({0.2, 0.2, 0.2})}, OpType::Add); });
  bin("MinkowskiSum", [](const M& a, const M& b) {
    if (a.NumTri() * b.NumTri() > 300) return M();
    return a.MinkowskiSum(b);
  });
  // ---- handle operations
  T.push_back({"copy-construct", 1, [](Pool& p, int i, int) {
                 Manifold c(*p.s[i].m);
                 uint64_t f = FP(c);
                 std::string bad = f != p.s[i].fp ? "a copy fingerprints differently from its source" : "";
                 addSlot(p, std::move(c));
                 return bad;
               }});
  T.push_back({"copy-assign", 2, [](Pool& p, int i, int j) {
                 *p.s[i].m = *p.s[j].m;  // i <- j ; i may be moved-from
                 p.s[i].movedFrom = p.s[j].movedFrom;
                 if (!p.s[i].movedFrom) {
                   uint64_t f = FP(*p.s[i].m);
                   p.s[i].fp = f;
                   if (f != p.s[j].fp) return std::string("assigned copy fingerprints differently from its source");
                 }
                 return std::string();
               }, false, false});
  T.push_back({"move-construct", 1, [](Pool& p, int i, int) {
                 Manifold c(std::move(*p.s[i].m));
                 uint64_t want = p.s[i].fp;
                 p.s[i].movedFrom = true;
                 std::string bad = FP(c) != want ? "move-constructed object differs from the source's value" : "";
                 addSlot(p, std::move(c));
                 return bad;
               }});
  T.push_back({"move-assign", 2, [](Pool& p, int i, int j) {
                 if (i == j) return std::string();
                 uint64_t want = p.s[j].fp;
                 bool srcMoved = p.s[j].movedFrom;
                 *p.s[i].m = std::move(*p.s[j].m);
                 p.s[j].movedFrom = true;
                 p.s[i].movedFrom = srcMoved;
                 if (!srcMoved) {
                   uint64_t f = FP(*p.s[i].m);
                   p.s[i].fp = f;
                   if (f != want) return std::string("move-assigned object differs from the source's value");
                 }
                 return std::string();
               }, false, false});
  T.push_back({"copy-of-moved-from-then-assign", 2, [](Pool& p, int i, int j) {
                 // legal on a valid-but-unspecified object: copy it, then give the copy a value
                 if (!p.s[i].movedFrom || p.s[j].movedFrom) return std::string();
                 Manifold c(*p.s[i].m);
                 c = *p.s[j].m;
                 return FP(c) != p.s[j].fp ? std::string("assignment into a copy of a moved-from handle gives a different value") : std::string();
               }, false, true});
  T.push_back({"+=", 2, [](Pool& p, int i, int j) {
                 Manifold expect = *p.s[i].m + *p.s[j].m;
                 *p.s[i].m += *p.s[j].m;
                 p.s[i].fp = FP(*p.s[i].m);
                 return fingerprint(expect, false) != fingerprint(*p.s[i].m, false) ? std::string("a += b differs from a + b") : std::string();
               }});
  T.push_back({"-=", 2, [](Pool& p, int i, int j) {
                 *p.s[i].m -= *p.s[j].m;
                 p.s[i].fp = FP(*p.s[i].m);
                 return std::string();
               }});
  T.push_back({"^=", 2, [](Pool& p, int i, int j) {
                 *p.s[i].m ^= *p.s[j].m;
                 p.s[i].fp = FP(*p.s[i].m);
                 return std::string();
               }});
  T.push_back({"destroy", 1, [](Pool& p, int i, int) {
                 p.s[i].m.reset();
                 return std::string();
               }, false, false});
  return T;
}

static std::vector<std::pair<std::string, std::function<void(Pool&)>>> manifoldSeeds() {
  using M = Manifold;
  std::vector<std::pair<std::string, std::function<void(Pool&)>>> S;
  S.push_back({"primitive", [](Pool& p) { addSlot(p, M::Cube()); }});
  S.push_back({"lazy-transformed-leaf+sphere", [](Pool& p) {
                 addSlot(p, M::Sphere(1, 6).Translate({0.4, 0, 0}).Rotate(10, 0, 0));
                 addSlot(p, M::Tetrahedron());
               }});
  S.push_back({"unevaluated-op-node", [](Pool& p) { addSlot(p, M::Cube() - M::Sphere(0.6, 6)); }});
  S.push_back({"impl-sharing-halfedges", [](Pool& p) {
                 M a = M::Sphere(1, 6);
                 (void)a.NumTri();
                 addSlot(p, a);
                 addSlot(p, a.Translate({0.5, 0, 0}));  // shares halfedge storage copy-on-write once evaluated
                 (void)p.s.back().m->NumTri();
                 p.s.back().fp = FP(*p.s.back().m);
               }});
  S.push_back({"boolean-result-with-props", [](Pool& p) {
                 M a = M::Cube().SetProperties(2, [](double* o, vec3 q, const double*) {
                   o[0] = q.x;
                   o[1] = q.y + q.z;
                 });
                 addSlot(p, a - M::Cube().Translate({0.5, 0.5, 0.5}));
               }});
  S.push_back({"smoothed", [](Pool& p) { addSlot(p, M::Sphere(1, 4).SmoothOut(60)); }});
  return S;
}

// check all live, not-moved-from slots against their recorded fingerprints
static std::string verifyPool(const Pool& p) {
  for (size_t i = 0; i < p.s.size(); ++i) {
    if (!p.s[i].m || p.s[i].movedFrom) continue;
    if (FP(*p.s[i].m) != p.s[i].fp) return "object #" + std::to_string(i) + " changed";
  }
  return "";
}

// ------------------------------------------------------------------ CrossSection pool
struct CSlot {
  std::unique_ptr<CrossSection> c;
  bool movedFrom = false;
  uint64_t fp = 0;
};
struct CPool {
  std::vector<CSlot> s;
};
static void addC(CPool& p, CrossSection c) {
  CSlot sl;
  sl.c = std::make_unique<CrossSection>(std::move(c));
  sl.fp = fingerprint(*sl.c);
  p.s.push_back(std::move(sl));
}
struct CTrans {
  std::string name;
  int arity;
  std::function<std::string(CPool&, int, int)> f;
  bool live0 = true, live1 = true;
};
static std::vector<CTrans> csTransitions() {
  using C = CrossSection;
  std::vector<CTrans> T;
  auto un = [&](const char* n, std::function<C(const C&)> g) {
    T.push_back({n, 1, [g](CPool& p, int i, int) {
                   addC(p, g(*p.s[i].c));
                   return std::string();
                 }});
  };
  auto bin = [&](const char* n, std::function<C(const C&, const C&)> g) {
    T.push_back({n, 2, [g](CPool& p, int i, int j) {
                   addC(p, g(*p.s[i].c, *p.s[j].c));
                   return std::string();
                 }});
  };
  un("Translate", [](const C& c) { return c.Translate({0.3, 0.1}); });
  un("Rotate", [](const C& c) { return c.Rotate(33); });
  un("Scale", [](const C& c) { return c.Scale({1.5, -0.5}); });
  un("Mirror", [](const C& c) { return c.Mirror({1, 1}); });
  un("Transform", [](const C& c) { return c.Transform(mat2x3({1, 0.2}, {0.3, 1}, {0.5, -0.25})); });
  un("Warp", [](const C& c) { return c.Warp([](vec2& p) { p.x += 0.1 * p.y * p.y; }); });
  un("Simplify", [](const C& c) { return c.Simplify(0.05); });
  un("Offset", [](const C& c) { return c.Offset(0.1, C::JoinType::Round, 2, 8); });
  un("Offset-", [](const C& c) { return c.Offset(-0.05, C::JoinType::Miter); });
  un("Hull", [](const C& c) { return c.Hull(); });
  un("SetTolerance", [](const C& c) { return c.SetTolerance(0.01); });
  un("Decompose[0]", [](const C& c) {
    auto d = c.Decompose();
    return d.empty() ? C() : d[0];
  });
  un("Force(Area)", [](const C& c) {
    (void)c.Area();
    return c;
  });
  bin("+", [](const C& a, const C& b) { return a + b; });
  bin("-", [](const C& a, const C& b) { return a - b; });
  bin("^", [](const C& a, const C& b) { return a ^ b; });
  T.push_back({"copy-construct", 1, [](CPool& p, int i, int) {
                 C c(*p.s[i].c);
                 std::string bad = fingerprint(c) != p.s[i].fp ? "a copy fingerprints differently from its source" : "";
                 addC(p, std::move(c));
                 return bad;
               }});
  T.push_back({"copy-assign", 2, [](CPool& p, int i, int j) {
                 if (p.s[j].movedFrom) return std::string();
                 *p.s[i].c = *p.s[j].c;
                 p.s[i].movedFrom = false;
                 uint64_t f = fingerprint(*p.s[i].c);
                 p.s[i].fp = f;
                 return f != p.s[j].fp ? std::string("assigned copy differs from source") : std::string();
               }, false, true});
  T.push_back({"move-construct", 1, [](CPool& p, int i, int) {
                 uint64_t want = p.s[i].fp;
                 C c(std::move(*p.s[i].c));
                 p.s[i].movedFrom = true;
                 std::string bad = fingerprint(c) != want ? "move-constructed object differs" : "";
                 addC(p, std::move(c));
                 return bad;
               }});
  T.push_back({"move-assign", 2, [](CPool& p, int i, int j) {
                 if (i == j || p.s[j].movedFrom) return std::string();
                 uint64_t want = p.s[j].fp;
                 *p.s[i].c = std::move(*p.s[j].c);
                 p.s[j].movedFrom = true;
                 p.s[i].movedFrom = false;
                 uint64_t f = fingerprint(*p.s[i].c);
                 p.s[i].fp = f;
                 return f != want ? std::string("move-assigned object differs") : std::string();
               }, false, true});
  T.push_back({"+=", 2, [](CPool& p, int i, int j) {
                 *p.s[i].c += *p.s[j].c;
                 p.s[i].fp = fingerprint(*p.s[i].c);
                 return std::string();
               }});
  T.push_back({"destroy", 1, [](CPool& p, int i, int) {
                 p.s[i].c.reset();
                 return std::string();
               }, false, false});
  return T;
}

int main(int argc, char** argv) {
  Runner R("C05", argc, argv);
  const bool thorough = R.a.thorough();
  const int depth = thorough ? 3 : 2;
  const int MAXSLOT = 4;

  {
    auto T = manifoldTransitions();
    auto S = manifoldSeeds();
    const int nt = (int)T.size();
    const int perStep = nt * MAXSLOT * MAXSLOT;  // (transition, i, j); infeasible combinations are skipped, not sampled
    std::vector<int> radix = {(int)S.size()};
    for (int d = 0; d < depth; ++d) radix.push_back(perStep);
    R.phase("manifold-histories", product(radix), perStep, [&, radix](uint64_t idx, Ctx& c) {
      auto d = digits(idx, radix);
      // seed pools are built once per process and cloned by copying the handles (they are values)
      static std::vector<std::unique_ptr<Pool>> proto;
      if (proto.empty()) proto.resize(S.size());
      std::string hist = S[d[0]].first;
      c.describe(hist);
      if (!proto[d[0]]) {
        proto[d[0]] = std::make_unique<Pool>();
        S[d[0]].second(*proto[d[0]]);
      }
      Pool p;
      for (auto& sl : proto[d[0]]->s) {
        Slot n;
        n.m = std::make_unique<Manifold>(*sl.m);
        n.fp = sl.fp;
        p.s.push_back(std::move(n));
      }
      bool feasible = true;
      for (int step = 1; step <= depth && feasible; ++step) {
        int code = d[step];
        int ti = code / (MAXSLOT * MAXSLOT), i = (code / MAXSLOT) % MAXSLOT, j = code % MAXSLOT;
        const Trans& t = T[ti];
        if (i >= (int)p.s.size() || !p.s[i].m) feasible = false;
        if (t.arity == 2 && (j >= (int)p.s.size() || !p.s[j].m)) feasible = false;
        if (t.arity == 1 && j != 0) feasible = false;  // canonical encoding of unary transitions
        if (!feasible) break;
        if (t.needsLive0 && p.s[i].movedFrom) feasible = false;
        if (t.arity == 2 && t.needsLive1 && p.s[j].movedFrom) feasible = false;
        if ((int)p.s.size() >= MAXSLOT + 2) feasible = false;
        if (!feasible) break;
        hist += " | " + t.name + "(" + std::to_string(i) + (t.arity == 2 ? "," + std::to_string(j) : "") + ")";
        c.describe(hist);
        std::string bad = t.f(p, i, j);
        c.count("transitions");
        if (bad.empty()) bad = verifyPool(p);
        if (!bad.empty()) {
          // a failure at an earlier step is shared by all extensions: report it from the canonical one only
          bool canonical = true;
          for (int s2 = step + 1; s2 <= depth; ++s2) canonical = canonical && d[s2] == 0;
          if (canonical) c.viol("value:" + hist, hist, bad);
          return;
        }
      }
      if (!feasible) {
        c.count("infeasible");
        return;
      }
      c.count("histories");
      uint64_t h = hash_str(hist);
      c.distinct(h);
      // non-trivial: a history in which at least two live objects exist at the end (something could have aliased)
      int live = 0;
      for (auto& s : p.s) live += (s.m && !s.movedFrom);
      if (live >= 2) c.nontrivial(h);
      if (idx % 20011 == 0) c.sample(hist);
    }, {"transitions", "histories", "infeasible"});
  }
  {
    auto T = csTransitions();
    const int nt = (int)T.size();
    const int perStep = nt * MAXSLOT * MAXSLOT;
    std::vector<std::pair<std::string, std::function<void(CPool&)>>> S;
    S.push_back({"square", [](CPool& p) { addC(p, CrossSection::Square({1, 1})); }});
    S.push_back({"pending-transform+circle", [](CPool& p) {
                   addC(p, CrossSection::Circle(1, 8).Translate({0.3, 0}).Rotate(10));
                   addC(p, CrossSection::Square({1, 2}, true));
                 }});
    S.push_back({"boolean-result", [](CPool& p) { addC(p, CrossSection::Square({2, 2}, true) - CrossSection::Circle(0.5, 6)); }});
    std::vector<int> radix = {(int)S.size()};
    for (int d = 0; d < depth; ++d) radix.push_back(perStep);
    R.phase("crosssection-histories", product(radix), perStep, [&, radix](uint64_t idx, Ctx& c) {
      auto d = digits(idx, radix);
      static std::vector<std::unique_ptr<CPool>> proto;
      if (proto.empty()) proto.resize(S.size());
      std::string hist = "CS:" + S[d[0]].first;
      c.describe(hist);
      if (!proto[d[0]]) {
        proto[d[0]] = std::make_unique<CPool>();
        S[d[0]].second(*proto[d[0]]);
      }
      CPool p;
      for (auto& sl : proto[d[0]]->s) {
        CSlot n;
        n.c = std::make_unique<CrossSection>(*sl.c);
        n.fp = sl.fp;
        p.s.push_back(std::move(n));
      }
      for (int step = 1; step <= depth; ++step) {
        int code = d[step];
        int ti = code / (MAXSLOT * MAXSLOT), i = (code / MAXSLOT) % MAXSLOT, j = code % MAXSLOT;
        const CTrans& t = T[ti];
        bool ok = i < (int)p.s.size() && p.s[i].c && (t.arity == 1 ? j == 0 : (j < (int)p.s.size() && p.s[j].c != nullptr));
        if (ok && t.live0 && p.s[i].movedFrom) ok = false;
        if (ok && t.arity == 2 && t.live1 && p.s[j].movedFrom) ok = false;
        if (!ok) {
          c.count("infeasible");
          return;
        }
        hist += " | " + t.name + "(" + std::to_string(i) + (t.arity == 2 ? "," + std::to_string(j) : "") + ")";
        c.describe(hist);
        std::string bad = t.f(p, i, j);
        c.count("transitions");
        if (bad.empty())
          for (size_t k = 0; k < p.s.size(); ++k)
            if (p.s[k].c && !p.s[k].movedFrom && fingerprint(*p.s[k].c) != p.s[k].fp) bad = "cross-section #" + std::to_string(k) + " changed";
        if (!bad.empty()) {
          bool canonical = true;
          for (int s2 = step + 1; s2 <= depth; ++s2) canonical = canonical && d[s2] == 0;
          if (canonical) c.viol("value:" + hist, hist, bad);
          return;
        }
      }
      c.count("histories");
      uint64_t h = hash_str(hist);
      c.distinct(h);
      int live = 0;
      for (auto& s : p.s) live += (s.c && !s.movedFrom);
      if (live >= 2) c.nontrivial(h);
      if (idx % 20011 == 0) c.sample(hist);
    }, {"transitions", "histories", "infeasible"});
  }
  return R.finish();
}
