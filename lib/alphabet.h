// The shared operation alphabet of the program-space explorers (C01, C05, C08,
// C18, C19): seed constructors (including deliberately degenerate ones), unary
// derivations and binary operations, each with a stable name used in replay
// keys.  Everything is deterministic.
#pragma once
#include <cmath>
#include <functional>
#include <string>
#include <vector>

#include "manifold/manifold.h"

namespace vf {
using manifold::Manifold;
using manifold::MeshGL;
using manifold::MeshGL64;
using manifold::OpType;
using manifold::Polygons;
using manifold::vec3;
namespace la = linalg;

struct Seed {
  std::string name;
  std::function<Manifold()> make;
  bool degenerate = false;  // epsilon-invalid / coincident on purpose
};
struct UnOp {
  std::string name;
  std::function<Manifold(const Manifold&)> f;
};
struct BinOp {
  std::string name;
  std::function<Manifold(const Manifold&, const Manifold&)> f;
};

inline MeshGL64 cubeWithProps() {
  // unit cube, 2 extra channels (u = x + 2y, v = z), split along the x=1 face:
  // that face's 4 corners are duplicated and stitched back by merge vectors.
  Manifold c = Manifold::Cube();
  MeshGL64 g = c.GetMeshGL64();
  MeshGL64 o;
  o.numProp = 5;
  size_t nv = g.vertProperties.size() / 3;
  for (size_t v = 0; v < nv; ++v) {
    double x = g.vertProperties[3 * v], y = g.vertProperties[3 * v + 1], z = g.vertProperties[3 * v + 2];
    o.vertProperties.insert(o.vertProperties.end(), {x, y, z, x + 2 * y, z});
  }
  o.triVerts = g.triVerts;
  // duplicate verts of triangles whose all verts have x==1 with different props
  std::vector<int64_t> dup(nv, -1);
  for (size_t t = 0; t < o.triVerts.size() / 3; ++t) {
    bool face = true;
    for (int k = 0; k < 3; ++k)
      if (g.vertProperties[3 * g.triVerts[3 * t + k]] != 1.0) face = false;
    if (!face) continue;
    for (int k = 0; k < 3; ++k) {
      uint64_t v = g.triVerts[3 * t + k];
      if (dup[v] < 0) {
        dup[v] = o.vertProperties.size() / 5;
        double x = g.vertProperties[3 * v], y = g.vertProperties[3 * v + 1], z = g.vertProperties[3 * v + 2];
        o.vertProperties.insert(o.vertProperties.end(), {x, y, z, 7.0 + y, 9.0 - z});
        o.mergeFromVert.push_back(dup[v]);
        o.mergeToVert.push_back(v);
      }
      o.triVerts[3 * t + k] = dup[v];
    }
  }
  return o;
}

// Two solid wedges (double pyramids over a 120 degree sector with n arc vertices) that touch along their
// common spine A-B, as ONE mesh with shared indices: the edge A-B is used by four triangles and both end
// points have 2n+1 neighbours (n = 40 crosses the 32-neighbour switch of the duplicate-edge clean-up).
inline MeshGL twoWedges(int n) {
  const double kPi = 3.14159265358979323846;
  MeshGL mesh;
  mesh.numProp = 3;
  auto addVert = [&](double x, double y, double z) {
    mesh.vertProperties.insert(mesh.vertProperties.end(), {(float)x, (float)y, (float)z});
    return (uint32_t)(mesh.vertProperties.size() / 3 - 1);
  };
  const uint32_t A = addVert(0, 0, 1), B = addVert(0, 0, -1);
  std::vector<uint32_t> arc[2];
  for (int w = 0; w < 2; ++w) {
    const double sign = w == 0 ? 1.0 : -1.0;
    for (int i = 0; i < n; ++i) {
      const double phi = (-60.0 + 120.0 * i / (n - 1)) * kPi / 180.0;
      arc[w].push_back(addVert(sign * 2 * std::cos(phi), sign * 2 * std::sin(phi), 0));
    }
  }
  auto tri = [&](uint32_t a, uint32_t b, uint32_t c) { mesh.triVerts.insert(mesh.triVerts.end(), {a, b, c}); };
  tri(B, A, arc[0][n - 1]);
  tri(A, B, arc[1][0]);
  for (int w = 0; w < 2; ++w)
    for (int i = 0; i + 1 < n; ++i) {
      tri(A, arc[w][i], arc[w][i + 1]);
      tri(B, arc[w][i + 1], arc[w][i]);
    }
  tri(B, A, arc[1][n - 1]);
  tri(A, B, arc[0][0]);
  return mesh;
}

inline std::vector<Seed> seeds() {
  using M = Manifold;
  std::vector<Seed> s;
  auto add = [&](const char* n, std::function<Manifold()> f, bool deg = false) { s.push_back({n, f, deg}); };
  Polygons sq = {{{0, 0}, {1, 0}, {1, 1}, {0, 1}}};
  Polygons L = {{{0, 0}, {2, 0}, {2, 1}, {1, 1}, {1, 2}, {0, 2}}};
  Polygons ring = {{{0, 0}, {3, 0}, {3, 3}, {0, 3}}, {{1, 1}, {1, 2}, {2, 2}, {2, 1}}};
  add("Tet", [] { return M::Tetrahedron(); });
  add("Cube", [] { return M::Cube(); });
  add("Cube123c", [] { return M::Cube({1, 2, 3}, true); });
  add("Octa", [] { return M::Sphere(1, 4); });
  add("Sphere8", [] { return M::Sphere(1, 8); });
  add("Prism3", [] { return M::Cylinder(2, 1, 1, 3); });
  add("Cone4", [] { return M::Cylinder(2, 1, 0, 4); });
  add("ExtSq", [=] { return M::Extrude(sq, 1); });
  add("ExtLtwist", [=] { return M::Extrude(L, 1, 1, 30); });
  add("ExtRing", [=] { return M::Extrude(ring, 1); });
  add("Pyramid", [=] { return M::Extrude(sq, 1, 0, 0, {0, 0}); });
  add("RevTorus", [] { return M::Revolve({{{1, 0}, {2, 0}, {2, 1}, {1, 1}}}, 4); });
  add("RevWedge90", [] { return M::Revolve({{{0, 0}, {1, 0}, {0, 1}}}, 4, 90); });
  add("RevCross", [] { return M::Revolve({{{-1, 0}, {1, 0}, {1, 1}, {-1, 1}}}, 4); });
  add("LsSphere", [] {
    return M::LevelSet([](vec3 p) { return 1.0 - la::length(p); }, manifold::Box(vec3(-1.3, -1.3, -1.3), vec3(1.3, 1.3, 1.3)), 0.65);
  });
  add("LsTwo", [] {
    return M::LevelSet(
        [](vec3 p) { return std::max(0.7 - la::length(p - vec3(0.5, 0, 0)), 0.7 - la::length(p + vec3(0.5, 0, 0))); },
        manifold::Box(vec3(-1.5, -1, -1), vec3(1.5, 1, 1)), 0.5);
  });
  add("HullPts", [] {
    return M::Hull(std::vector<vec3>{{0, 0, 0}, {2, 0, 0}, {0, 2, 0}, {0, 0, 2}, {1, 1, 1}, {2, 2, 0}, {1, 0, 0}});
  });
  add("ImportProps", [] { return M(cubeWithProps()); });
  add("SmoothTet", [] { return M::Smooth(M::Tetrahedron().GetMeshGL64()); });
  add("CubeProps", [] {
    return M::Cube().SetProperties(2, [](double* o, vec3 p, const double*) {
      o[0] = p.x + p.y;
      o[1] = p.z * 3;
    });
  });
  add("TwoComp", [] { return M::Cube() + M::Cube().Translate({3, 0, 0}); });
  // ---- degenerate on purpose
  add("SameCubes", [] { return M::Cube() + M::Cube(); }, true);
  add("FaceTouch", [] { return M::Cube() + M::Cube().Translate({1, 0, 0}); }, true);
  add("EdgeTouch", [] { return M::Cube() + M::Cube().Translate({1, 1, 0}); }, true);
  add("VertTouch", [] { return M::Cube() + M::Cube().Translate({1, 1, 1}); }, true);
  add("CornerCut", [] { return M::Cube({2, 2, 2}) - M::Cube(); }, true);
  add("CoplanarOverlap", [] { return M::Cube() + M::Cube().Translate({0.5, 0, 0}); }, true);
  add("FaceTouchIsect", [] { return M::Cube() ^ M::Cube().Translate({1, 0, 0}); }, true);
  add("FoldedSphere", [] {
    return M::Sphere(1, 8).Warp([](vec3& p) {
      if (p.x > 0.3) p.x = 0.6 - p.x;  // folds the cap back through the body
    });
  }, true);
  add("FlatCube", [] { return M::Cube().Scale({1, 1, 0}); }, true);
  add("TwoWedges8", [] { return M(twoWedges(8)); }, true);
  add("TwoWedges40", [] { return M(twoWedges(40)); }, true);
  add("ConeRing", [=] { return M::Extrude(ring, 1, 0, 0, {0, 0}); }, true);
  add("ConeTwoTri", [] { return M::Extrude({{{0, 0}, {1, 0}, {0, 1}}, {{2, 0}, {3, 0}, {2, 1}}}, 1, 1, 15, {0, 0}); }, true);
  add("Empty", [] { return M(); }, true);
  add("Invalid", [] { return M::Cylinder(-1, 1); }, true);
  return s;
}

inline std::vector<UnOp> unops() {
  using M = Manifold;
  std::vector<UnOp> u;
  auto add = [&](const char* n, std::function<Manifold(const Manifold&)> f) { u.push_back({n, f}); };
  add("Translate(.3,.2,.1)", [](const M& m) { return m.Translate({0.3, 0.2, 0.1}); });
  add("Rotate(90,0,0)", [](const M& m) { return m.Rotate(90, 0, 0); });
  add("Rotate(17,31,47)", [](const M& m) { return m.Rotate(17, 31, 47); });
  add("Scale(1,2,.5)", [](const M& m) { return m.Scale({1, 2, 0.5}); });
  add("Scale(-1,1,1)", [](const M& m) { return m.Scale({-1, 1, 1}); });
  add("Scale(0,1,1)", [](const M& m) { return m.Scale({0, 1, 1}); });
  add("Mirror(1,1,0)", [](const M& m) { return m.Mirror({1, 1, 0}); });
  add("Transform(shear)", [](const M& m) {
    return m.Transform(manifold::mat3x4({1, 0.2, 0}, {0.3, 1, 0.1}, {0, -0.4, 1}, {0.5, 0, -0.25}));
  });
  add("Warp(affine)", [](const M& m) {
    return m.Warp([](vec3& p) { p = vec3(p.x + 0.5 * p.y, p.y, p.z - 0.25 * p.x); });
  });
  add("Warp(square)", [](const M& m) {
    return m.Warp([](vec3& p) { p.x = p.x * p.x; });
  });
  add("SetProperties(1,x)", [](const M& m) {
    return m.SetProperties(1, [](double* o, vec3 p, const double*) { o[0] = p.x; });
  });
  add("SetProperties(0)", [](const M& m) { return m.SetProperties(0, nullptr); });
  add("CalculateNormals(0)", [](const M& m) { return m.CalculateNormals(0); });
  add("CalculateNormals(0,40)", [](const M& m) { return m.CalculateNormals(0, 40); });
  add("CalculateCurvature(0,1)", [](const M& m) { return m.CalculateCurvature(0, 1); });
  add("Refine(2)", [](const M& m) { return m.Refine(2); });
  add("Refine(3)", [](const M& m) { return m.Refine(3); });
  add("RefineToLength(.6)", [](const M& m) { return m.RefineToLength(0.6); });
  add("RefineToTolerance(.02)", [](const M& m) { return m.RefineToTolerance(0.02); });
  add("SmoothOut()", [](const M& m) { return m.SmoothOut(); });
  add("SmoothOut(0,.5)", [](const M& m) { return m.SmoothOut(0, 0.5); });
  add("SmoothByNormals(0)", [](const M& m) { return m.NumProp() >= 3 ? m.SmoothByNormals(0) : m.CalculateNormals(0).SmoothByNormals(0); });
  add("Simplify()", [](const M& m) { return m.Simplify(); });
  add("Simplify(.2)", [](const M& m) { return m.Simplify(0.2); });
  add("SetTolerance(.1)", [](const M& m) { return m.SetTolerance(0.1); });
  add("AsOriginal", [](const M& m) { return m.AsOriginal(); });
  add("Hull", [](const M& m) { return m.Hull(); });
  add("Decompose[0]", [](const M& m) {
    auto d = m.Decompose();
    return d.empty() ? M() : d.front();
  });
  add("Decompose[last]", [](const M& m) {
    auto d = m.Decompose();
    return d.empty() ? M() : d.back();
  });
  add("SplitByPlane(z=.4).first", [](const M& m) { return m.SplitByPlane({0, 0, 1}, 0.4).first; });
  add("SplitByPlane(z=.4).second", [](const M& m) { return m.SplitByPlane({0, 0, 1}, 0.4).second; });
  add("TrimByPlane(n,.1)", [](const M& m) { return m.TrimByPlane({0.3, 0.5, 0.81}, 0.1); });
  add("TrimByPlane(x=1)", [](const M& m) { return m.TrimByPlane({1, 0, 0}, 1); });
  add("RoundTrip64", [](const M& m) { return M(m.GetMeshGL64()); });
  add("RoundTrip32", [](const M& m) { return M(m.GetMeshGL()); });
  add("SelfUnionShift", [](const M& m) { return m + m.Translate({0.5, 0, 0}); });
  add("SelfMinusRot", [](const M& m) { return m - m.Rotate(0, 0, 90); });
  add("SelfIsectSelf", [](const M& m) { return m ^ m; });
  return u;
}

inline std::vector<BinOp> binops() {
  using M = Manifold;
  std::vector<BinOp> b;
  auto add = [&](const char* n, std::function<Manifold(const Manifold&, const Manifold&)> f) { b.push_back({n, f}); };
  add("+", [](const M& a, const M& c) { return a + c; });
  add("-", [](const M& a, const M& c) { return a - c; });
  add("^", [](const M& a, const M& c) { return a ^ c; });
  add("Split.first", [](const M& a, const M& c) { return a.Split(c).first; });
  add("Split.second", [](const M& a, const M& c) { return a.Split(c).second; });
  add("Batch+3", [](const M& a, const M& c) { return M::BatchBoolean({a, c, a.Translate({0.25, 0.5, 0.75})}, OpType::Add); });
  add("Batch-3", [](const M& a, const M& c) { return M::BatchBoolean({a, c, c.Translate({0.25, 0.5, 0.75})}, OpType::Subtract); });
  add("HullPair", [](const M& a, const M& c) { return M::Hull({a, c}); });
  add("MinkowskiSum", [](const M& a, const M& c) {
    if (a.NumTri() * c.NumTri() > 400) return M();  // bound: product of face counts
    return a.MinkowskiSum(c);
  });
  add("MinkowskiDifference", [](const M& a, const M& c) {
    if (a.NumTri() * c.NumTri() > 400) return M();
    return a.MinkowskiDifference(c);
  });
  return b;
}

}  // namespace vf
