// C02 - Booleans compute the regularized set operation.
// Engine S: exhaustive enumeration of CSG programs over (a) integer-lattice
// boxes against the voxel-set model and (b) a 30-leaf general-position family
// against the solid-angle winding oracle.
#include <cmath>
#include <map>
#include <sstream>

#include "engine/runner.h"
#include "lib/canon.h"
#include "lib/solid.h"
#include "lib/voxel.h"
#include "manifold/manifold.h"

using namespace manifold;
using namespace vf;

static const OpType OPS[3] = {OpType::Add, OpType::Subtract, OpType::Intersect};

// ---- lattice oracle: result must be exactly the voxel set `want` of [0,N]^3
static std::string judgeLattice(const Manifold& r, uint64_t want, int N) {
  if (r.Status() != Manifold::Error::NoError) return "status " + std::to_string((int)r.Status());
  double vol = r.Volume();
  int pc = __builtin_popcountll(want);
  if (std::fabs(vol - pc) > 1e-9) {
    std::ostringstream s;
    s << "Volume()=" << vol << " but voxel model has " << pc;
    return s.str();
  }
  // (a zero-volume sheet of coincident opposite faces is the empty solid: it is
  //  judged by volume and winding like everything else, not by IsEmpty)
  if (want == 0 && r.IsEmpty()) return "";
  Soup sp = soupOf(r);
  if (fabsl(volumeOf(sp) - pc) > 1e-9) return "exported mesh volume differs from voxel count";
  for (int x = 0; x < N; ++x)
    for (int y = 0; y < N; ++y)
      for (int z = 0; z < N; ++z) {
        int bit = (want >> ((x * N + y) * N + z)) & 1;
        long double w = winding(sp, {x + 0.5L, y + 0.5L, z + 0.5L});
        if (fabsl(w - bit) > 1e-6) {
          std::ostringstream s;
          s << "winding " << (double)w << " at voxel (" << x << "," << y << "," << z << ") but model bit " << bit;
          return s.str();
        }
      }
  // nothing outside [0,N]^3
  Box b = r.BoundingBox();
  if (b.min.x < 0 || b.min.y < 0 || b.min.z < 0 || b.max.x > N || b.max.y > N || b.max.z > N)
    return "result leaves the lattice cube";
  return "";
}

// ---- classification of a failing lattice case: does a result mesh that served as OPERAND carry a zero-volume sheet?
// The boundary of a voxel set has an exact area (number of exposed unit faces); a result mesh whose surface area
// exceeds it has triangles that bound nothing - two coincident opposite sheets left over from coplanar faces of an
// earlier operation.  Volume and winding of such a mesh are still right (it denotes the correct solid), but it is
// not an ordinary input for the next Boolean.  Failing cases with such an operand are one known finding; failing
// cases whose operands are clean meshes stay individually reported.
static int voxBoundaryFaces(uint64_t m, int N) {
  auto bit = [&](int x, int y, int z) { return (x < 0 || y < 0 || z < 0 || x >= N || y >= N || z >= N) ? 0 : int((m >> ((x * N + y) * N + z)) & 1); };
  int f = 0;
  for (int x = 0; x < N; ++x)
    for (int y = 0; y < N; ++y)
      for (int z = 0; z < N; ++z)
        if (bit(x, y, z)) f += !bit(x - 1, y, z) + !bit(x + 1, y, z) + !bit(x, y - 1, z) + !bit(x, y + 1, z) + !bit(x, y, z - 1) + !bit(x, y, z + 1);
  return f;
}
static bool carriesSheet(const Manifold& operand, uint64_t mask, int N) {
  if (operand.Status() != Manifold::Error::NoError) return false;
  return operand.SurfaceArea() > voxBoundaryFaces(mask, N) + 1e-9;
}
// A vertex of a result mesh that is not a corner of the voxel solid (it lies inside a flat face, inside a straight
// edge, or off the lattice): the mesh is a non-minimal triangulation of its solid.
static bool hasNonCornerVertex(const Manifold& operand, uint64_t m, int N) {
  if (operand.Status() != Manifold::Error::NoError) return false;
  auto bit = [&](int x, int y, int z) { return (x < 0 || y < 0 || z < 0 || x >= N || y >= N || z >= N) ? 0 : int((m >> ((x * N + y) * N + z)) & 1); };
  MeshGL64 g = operand.GetMeshGL64();
  for (size_t v = 0; v < (size_t)g.NumVert(); ++v) {
    double px = g.vertProperties[v * g.numProp], py = g.vertProperties[v * g.numProp + 1], pz = g.vertProperties[v * g.numProp + 2];
    int x = (int)std::lround(px), y = (int)std::lround(py), z = (int)std::lround(pz);
    if (px != x || py != y || pz != z) return true;  // off the lattice
    // occupancy of the 8 voxels around (x,y,z): o[dx][dy][dz], d = 0 -> the voxel on the negative side
    int o[2][2][2];
    for (int a = 0; a < 2; ++a)
      for (int b = 0; b < 2; ++b)
        for (int c2 = 0; c2 < 2; ++c2) o[a][b][c2] = bit(x - 1 + a, y - 1 + b, z - 1 + c2);
    bool symX = true, symY = true, symZ = true;
    for (int a = 0; a < 2; ++a)
      for (int b = 0; b < 2; ++b) {
        symX = symX && o[0][a][b] == o[1][a][b];
        symY = symY && o[a][0][b] == o[a][1][b];
        symZ = symZ && o[a][b][0] == o[a][b][1];
      }
    if (symX || symY || symZ) return true;  // the solid looks the same on both sides along an axis: not a corner
  }
  return false;
}
// A voxel solid that is pinched: two of its parts touch only along a lattice edge (the four voxels around the edge are
// filled diagonally) or only at a lattice vertex (two diagonally opposite voxels of the eight around it, nothing else).
// Such a solid is a legitimate operand for the regularized set semantics, but it is not a 2-manifold point set.
static bool isPinched(uint64_t m, int N) {
  auto bit = [&](int x, int y, int z) { return (x < 0 || y < 0 || z < 0 || x >= N || y >= N || z >= N) ? 0 : int((m >> ((x * N + y) * N + z)) & 1); };
  for (int x = -1; x < N; ++x)
    for (int y = -1; y < N; ++y)
      for (int z = -1; z < N; ++z) {
        // edges through the lattice point (x+1,y+1,z+1): the 2x2 blocks of the 2x2x2 neighbourhood, per axis and side
        int o[2][2][2], cnt = 0;
        for (int a = 0; a < 2; ++a)
          for (int b = 0; b < 2; ++b)
            for (int c2 = 0; c2 < 2; ++c2) cnt += o[a][b][c2] = bit(x + a, y + b, z + c2);
        for (int s = 0; s < 2; ++s) {
          if ((o[s][0][0] && o[s][1][1] && !o[s][0][1] && !o[s][1][0]) || (!o[s][0][0] && !o[s][1][1] && o[s][0][1] && o[s][1][0])) return true;  // edge along x
          if ((o[0][s][0] && o[1][s][1] && !o[0][s][1] && !o[1][s][0]) || (!o[0][s][0] && !o[1][s][1] && o[0][s][1] && o[1][s][0])) return true;  // along y
          if ((o[0][0][s] && o[1][1][s] && !o[0][1][s] && !o[1][0][s]) || (!o[0][0][s] && !o[1][1][s] && o[0][1][s] && o[1][0][s])) return true;  // along z
        }
        if (cnt == 2)
          for (int a = 0; a < 2; ++a)
            for (int b = 0; b < 2; ++b)
              if (o[a][b][0] && o[1 - a][1 - b][1]) return true;  // vertex pinch
      }
  return false;
}
// key class of a failing lattice case, from its result-mesh operands (pairs of mesh and voxel mask)
static std::string latticeKeyFor(const std::vector<std::pair<Manifold, uint64_t>>& resultOperands, int N, const std::string& prog, std::string& note) {
  for (auto& o : resultOperands)
    if (carriesSheet(o.first, o.second, N)) {
      note = " [a result mesh used as operand carries a zero-volume sheet]";
      return "lattice-sheet-operand:" + prog;
    }
  for (auto& o : resultOperands)
    if (hasNonCornerVertex(o.first, o.second, N)) {
      note = " [a result mesh used as operand has a vertex that is not a corner of its solid]";
      return "lattice-nonminimal-operand:" + prog;
    }
  for (auto& o : resultOperands)
    if (isPinched(o.second, N)) {
      note = " [an operand formed during evaluation is a solid pinched along an edge or at a vertex]";
      return "lattice-pinched-operand:" + prog;
    }
  note = "";
  return "lattice:" + prog;
}

// ---- general position family
struct Leaf {
  std::string name;
  Manifold m;
  Soup soup;
  double vol;
};
static std::vector<Leaf> makeLeaves() {
  std::vector<std::pair<std::string, Manifold>> shapes;
  shapes.push_back({"tet", Manifold::Tetrahedron()});
  shapes.push_back({"cube", Manifold::Cube({1.3, 1.1, 0.9}, true)});
  shapes.push_back({"octa", Manifold::Sphere(0.9, 4)});
  Polygons L = {{{-0.8, -0.8}, {0.8, -0.8}, {0.8, -0.1}, {0.1, -0.1}, {0.1, 0.8}, {-0.8, 0.8}}};
  shapes.push_back({"L", Manifold::Extrude(L, 1.2).Translate({0, 0, -0.6})});
  Polygons ring = {{{-0.9, -0.9}, {0.9, -0.9}, {0.9, 0.9}, {-0.9, 0.9}},
                   {{-0.4, -0.35}, {-0.4, 0.45}, {0.35, 0.45}, {0.35, -0.35}}};
  shapes.push_back({"ring", Manifold::Extrude(ring, 0.8).Translate({0, 0, -0.4})});
  std::vector<Leaf> out;
  for (int t = 0; t < 6; ++t)
    for (auto& s : shapes) {
      Manifold m = s.second.Rotate(17.0 * t, 31.0 * (t + 1), 47.0 * (t + 2))
                       .Translate({0.31 * (t - 2), 0.17 * ((t * 2) % 5 - 2), 0.23 * ((t * 3) % 4 - 1)});
      Leaf l;
      l.name = s.first + "#T" + std::to_string(t);
      l.m = m;
      l.soup = soupOf(m);
      l.vol = m.Volume();
      out.push_back(l);
    }
  return out;
}

struct Grid {
  std::vector<V3> pts;
};
static Grid gridOver(const Box& a, const Box& b, int n) {
  Box u = a.Union(b);
  vec3 sz = u.Size();
  Grid g;
  for (int i = 0; i < n; ++i)
    for (int j = 0; j < n; ++j)
      for (int k = 0; k < n; ++k) {
        // irrational-ish offsets keep nodes off the surfaces
        double fx = (i + 0.4142135) / n * 1.1 - 0.05, fy = (j + 0.7320508) / n * 1.1 - 0.05,
               fz = (k + 0.2360679) / n * 1.1 - 0.05;
        g.pts.push_back({u.min.x + fx * sz.x, u.min.y + fy * sz.y, u.min.z + fz * sz.z});
      }
  return g;
}
static bool formula(OpType op, bool a, bool b) {
  return op == OpType::Add ? (a || b) : op == OpType::Subtract ? (a && !b) : (a && b);
}

// classify result at grid points against a per-point expected value; points
// closer than `margin` to any input surface are not judged (lazily: the
// distance is only computed when a mismatch needs adjudication).
static std::string judgeSamples(const Manifold& r, const std::vector<V3>& pts, const std::vector<char>& expect,
                                const std::vector<const Soup*>& inputs, long& judged) {
  if (r.Status() != Manifold::Error::NoError) return "status " + std::to_string((int)r.Status());
  Soup sr = soupOf(r);
  double margin = std::max(r.GetTolerance(), 1e-6);
  for (size_t i = 0; i < pts.size(); ++i) {
    long double w = winding(sr, pts[i]);
    int wi = (int)lroundl(w);
    bool in = wi > 0;
    bool clean = fabsl(w - wi) < 1e-6 && (wi == 0 || wi == 1);
    if (clean && in == (bool)expect[i]) {
      ++judged;
      continue;
    }
    bool admissible = true;
    for (auto s : inputs)
      if (distToSoup(*s, pts[i]) <= margin) admissible = false;
    if (!admissible) continue;
    ++judged;
    std::ostringstream s;
    s.precision(17);
    s << "at (" << (double)pts[i].x << "," << (double)pts[i].y << "," << (double)pts[i].z << ") winding of result = "
      << (double)w << ", set formula says " << (expect[i] ? "inside" : "outside");
    return s.str();
  }
  return "";
}

int main(int argc, char** argv) {
  Runner R("C02", argc, argv);
  const bool thorough = R.a.thorough();

  // ---------- phase lattice-d1: all ordered pairs of boxes of [0,3]^3, all ops + Split
  {
    const int N = 3;
    auto boxes = allBoxes(N);
    const uint64_t nb = boxes.size();
    R.phase("lattice-d1", nb * nb, nb,
            [&](uint64_t idx, Ctx& c) {
              const LBox &A = boxes[idx / nb], &B = boxes[idx % nb];
              Manifold a = boxManifold(A), b = boxManifold(B);
              uint64_t ma = voxMask(A, N), mb = voxMask(B, N);
              for (OpType op : OPS) {
                std::string prog = A.str() + " " + opName(op) + " " + B.str();
                c.describe(prog);
                Manifold r = a.Boolean(b, op);
                uint64_t want = voxOp(ma, mb, op);
                std::string why = judgeLattice(r, want, N);
                c.count("transitions");
                c.distinct(mix64(want) ^ canonGeomHash(r.GetMeshGL64()));
                if (want != 0 && want != ma && want != mb) c.nontrivial(mix64(want) ^ canonGeomHash(r.GetMeshGL64()));
                if (!why.empty()) c.viol("lattice:" + prog, prog, why);
              }
              std::string prog = "Split(" + A.str() + "," + B.str() + ")";
              c.describe(prog);
              auto sp = a.Split(b);
              std::string w1 = judgeLattice(sp.first, ma & mb, N), w2 = judgeLattice(sp.second, ma & ~mb, N);
              c.count("transitions");
              if (!w1.empty()) c.viol("lattice:" + prog + ".first", prog, w1);
              if (!w2.empty()) c.viol("lattice:" + prog + ".second", prog, w2);
              if (idx % 7919 == 0) c.sample(A.str() + " {+,-,^,Split} " + B.str());
            },
            {"transitions"});
  }

  // ---------- phase lattice-variants: the same boxes built six different ways (different
  // triangulations / vertex orders of the same solid), all ordered pairs, all ops
  {
    const int N = 2;
    auto boxes = allBoxes(N);
    const int nb = (int)boxes.size(), NV = 6;
    auto variant = [&](const LBox& b, int v) -> Manifold {
      vec3 sz(b.hi[0] - b.lo[0], b.hi[1] - b.lo[1], b.hi[2] - b.lo[2]);
      vec3 lo(b.lo[0], b.lo[1], b.lo[2]), hi(b.hi[0], b.hi[1], b.hi[2]);
      switch (v) {
        case 0:
          return Manifold::Cube(sz).Translate(lo);
        case 1:
          return Manifold::Cube(sz).Scale({-1, -1, -1}).Translate(hi);
        case 2:
          return Manifold::Extrude({{{lo.x, lo.y}, {hi.x, lo.y}, {hi.x, hi.y}, {lo.x, hi.y}}}, sz.z).Translate({0, 0, lo.z});
        case 3: {
          std::vector<vec3> pts;
          for (int i = 0; i < 8; ++i) pts.push_back({i & 1 ? hi.x : lo.x, i & 2 ? hi.y : lo.y, i & 4 ? hi.z : lo.z});
          return Manifold::Hull(pts);
        }
        case 4:
          return Manifold::Cube(sz).Refine(2).Translate(lo);
        default:
          return Manifold::Cube({sz.y, sz.x, sz.z}).Rotate(0, 0, 90).Translate({hi.x, lo.y, lo.z});
      }
    };
    std::vector<int> radix = {nb, NV, nb, NV};
    R.phase("lattice-variants", product(radix), NV,
            [&](uint64_t idx, Ctx& c) {
              auto d = digits(idx, radix);
              const LBox &A = boxes[d[0]], &B = boxes[d[2]];
              std::string an = A.str() + "/v" + std::to_string(d[1]), bn = B.str() + "/v" + std::to_string(d[3]);
              c.describe(an + " ? " + bn);
              Manifold a = variant(A, d[1]), b = variant(B, d[3]);
              uint64_t ma = voxMask(A, N), mb = voxMask(B, N);
              std::string w0 = judgeLattice(a, ma, N);
              if (!w0.empty()) {
                c.viol("lattice:construct " + an, an, w0);
                return;
              }
              for (OpType op : OPS) {
                std::string prog = an + " " + opName(op) + " " + bn;
                c.describe(prog);
                Manifold r = a.Boolean(b, op);
                uint64_t want = voxOp(ma, mb, op);
                std::string why = judgeLattice(r, want, N);
                c.count("transitions");
                uint64_t h = mix64(want) ^ canonGeomHash(r.GetMeshGL64());
                c.distinct(h);
                if (want != 0 && want != ma && want != mb) c.nontrivial(h);
                if (!why.empty()) c.viol("lattice:" + prog, prog, why);
              }
              if (idx % 3001 == 0) c.sample(an + " {+,-,^} " + bn);
            },
            {"transitions"});
  }

  // ---------- phase lattice-d2: (A o B) o C and C o (A o B), forced and lazy, boxes of [0,2]^3
  {
    const int N = 2;
    auto boxes = allBoxes(N);
    const int nb = (int)boxes.size();
    std::vector<int> radix = {nb, nb, nb, 3, 3, 2, 2};
    R.phase("lattice-d2", product(radix), 36,
            [&](uint64_t idx, Ctx& c) {
              auto d = digits(idx, radix);
              const LBox &A = boxes[d[0]], &B = boxes[d[1]], &C = boxes[d[2]];
              OpType o1 = OPS[d[3]], o2 = OPS[d[4]];
              bool right = d[5], forced = d[6];
              std::string inner = "(" + A.str() + " " + opName(o1) + " " + B.str() + ")" + (forced ? "!" : "");
              std::string prog = right ? C.str() + " " + opName(o2) + " " + inner : inner + " " + opName(o2) + " " + C.str();
              c.describe(prog);
              Manifold cm = boxManifold(C);
              Manifold r;
              if (forced) {
                Manifold ab = boxManifold(A).Boolean(boxManifold(B), o1);
                (void)ab.NumTri();
                r = right ? cm.Boolean(ab, o2) : ab.Boolean(cm, o2);
              } else {
                // temporaries (no named handle on the inner node): the evaluator may flatten it into its parent
                r = right ? cm.Boolean(boxManifold(A).Boolean(boxManifold(B), o1), o2) : boxManifold(A).Boolean(boxManifold(B), o1).Boolean(cm, o2);
              }
              uint64_t mab = voxOp(voxMask(A, N), voxMask(B, N), o1), mc = voxMask(C, N);
              uint64_t want = right ? voxOp(mc, mab, o2) : voxOp(mab, mc, o2);
              std::string why = judgeLattice(r, want, N);
              c.count("transitions", 2);
              uint64_t h = mix64(want) ^ canonGeomHash(r.GetMeshGL64());
              c.distinct(h);
              if (want != 0 && want != mab && want != mc) c.nontrivial(h);
              if (!why.empty()) c.viol("lattice:" + prog, prog, why);
              if (idx % 100003 == 0) c.sample(prog);
            },
            {"transitions"});
  }

  // ---------- phase lattice-xf: a lazily built intermediate result is TRANSLATED before it is used again:
  // ((A o1 B) o2 C).Translate(t) o3 D  over boxes of [0,2]^3, t in {0,1}^3 \ {0}: exercises the evaluator's
  // transform push-down / flattening on lattice data (voxel model on the 3x3x3 grid)
  {
    const int N = 3;
    auto boxes = allBoxes(2);
    const int nb = (int)boxes.size();
    std::vector<int> cs, ds;  // quick: C and D from the 8 unit cubes; thorough: all boxes
    for (int i = 0; i < nb; ++i) {
      const LBox& b = boxes[i];
      bool unit = b.hi[0] - b.lo[0] == 1 && b.hi[1] - b.lo[1] == 1 && b.hi[2] - b.lo[2] == 1;
      if (thorough || unit) {
        cs.push_back(i);
        ds.push_back(i);
      }
    }
    static const int TS[3][3] = {{0, 0, 1}, {1, 1, 0}, {1, 1, 1}};
    const int nt = thorough ? 3 : 2;
    std::vector<int> radix = {nb, nb, (int)cs.size(), (int)ds.size(), 27, nt, 2};
    if (thorough) R.limitNextPhase(0.3);  // 86 M programs: must not starve the BFS, depth-3 and general-position phases behind it
    R.phase("lattice-xf", product(radix), 54,
            [&](uint64_t idx, Ctx& c) {
              auto d = digits(idx, radix);
              const LBox &A = boxes[d[0]], &B = boxes[d[1]], &C = boxes[cs[d[2]]], &D = boxes[ds[d[3]]];
              OpType o1 = OPS[d[4] % 3], o2 = OPS[(d[4] / 3) % 3], o3 = OPS[d[4] / 9];
              const int* t = TS[d[5]];
              bool forced = d[6];
              auto shifted = [&](LBox b) {
                for (int k = 0; k < 3; ++k) {
                  b.lo[k] += t[k];
                  b.hi[k] += t[k];
                }
                return b;
              };
              std::string tn = std::string("T") + char('0' + t[0]) + char('0' + t[1]) + char('0' + t[2]);
              std::string prog = "((" + A.str() + opName(o1) + B.str() + ")" + opName(o2) + C.str() + ")" + (forced ? "!" : "") + "." + tn + opName(o3) + D.str();
              c.describe(prog);
              Manifold r;
              if (forced) {
                Manifold in = boxManifold(A).Boolean(boxManifold(B), o1).Boolean(boxManifold(C), o2);
                (void)in.NumTri();
                r = in.Translate({double(t[0]), double(t[1]), double(t[2])}).Boolean(boxManifold(D), o3);
              } else {
                // one expression: the intermediates are temporaries, so the evaluator may collapse / flatten them
                r = boxManifold(A).Boolean(boxManifold(B), o1).Boolean(boxManifold(C), o2).Translate({double(t[0]), double(t[1]), double(t[2])}).Boolean(boxManifold(D), o3);
              }
              uint64_t m = voxOp(voxOp(voxMask(shifted(A), N), voxMask(shifted(B), N), o1), voxMask(shifted(C), N), o2);
              uint64_t want = voxOp(m, voxMask(D, N), o3);
              std::string why = judgeLattice(r, want, N);
              c.count("transitions", 4);
              uint64_t h = mix64(want) ^ canonGeomHash(r.GetMeshGL64());
              c.distinct(h);
              if (want != 0 && want != m) c.nontrivial(h);
              if (!why.empty()) {
                // classify: the translated intermediate ((A o1 B) o2 C), evaluated on its own
                Manifold in1 = boxManifold(A).Boolean(boxManifold(B), o1);
                Manifold in2 = in1.Boolean(boxManifold(C), o2);
                uint64_t m1 = voxOp(voxMask(A, N), voxMask(B, N), o1), m2 = voxOp(m1, voxMask(C, N), o2);
                std::string note;
                std::vector<std::pair<Manifold, uint64_t>> cand = {{in1, m1}, {in2, m2}};
                if (o2 == o3) cand.push_back({boxManifold(shifted(C)).Boolean(boxManifold(D), OpType::Add), voxMask(shifted(C), N) | voxMask(D, N)});
                if (o1 == o2 && o1 == OpType::Subtract) cand.push_back({boxManifold(B).Boolean(boxManifold(C), OpType::Add), voxMask(B, N) | voxMask(C, N)});
                std::string key = latticeKeyFor(cand, N, prog, note);
                if (key.rfind("lattice:", 0) != 0) c.count("violations_with_degenerate_operand");
                c.viol(key, prog, why + note);
              }
              if (idx % 500009 == 0) c.sample(prog);
            },
            {"transitions", "violations_with_degenerate_operand"}, 23);
  }

  // ---------- phase lattice-bfs: breadth-first over (voxel set, canonical mesh) states:
  // every result mesh reached is re-used as an operand against every box, so the
  // same solid is tried under every triangulation the library produces for it.
  {
    const int N = 2;
    auto boxes = allBoxes(N);
    const int nb = (int)boxes.size();
    struct St {
      std::vector<int> prog;  // box, then (op*2+order, box)*
    };
    auto build = [&](const std::vector<int>& p, uint64_t& mask, std::string& str) {
      Manifold m = boxManifold(boxes[p[0]]);
      mask = voxMask(boxes[p[0]], N);
      str = boxes[p[0]].str();
      for (size_t i = 1; i + 1 < p.size(); i += 2) {
        OpType op = OPS[p[i] / 2];
        bool swap = p[i] & 1;
        const LBox& B = boxes[p[i + 1]];
        (void)m.NumTri();  // operand meshes are materialised results
        Manifold b = boxManifold(B);
        m = swap ? b.Boolean(m, op) : m.Boolean(b, op);
        uint64_t mb = voxMask(B, N);
        mask = swap ? voxOp(mb, mask, op) : voxOp(mask, mb, op);
        str = swap ? B.str() + " " + opName(op) + " (" + str + ")!" : "(" + str + ")! " + opName(op) + " " + B.str();
      }
      return m;
    };
    auto encode = [&](const std::vector<int>& p) {
      uint64_t e = 1;  // leading 1 marks the length
      for (size_t i = p.size(); i-- > 1;) e = e * (i % 2 ? 6 : nb) + p[i];  // p[i] odd i: op/order, even i: box
      return e * nb + p[0];
    };
    auto decode = [&](uint64_t e) {
      std::vector<int> p;
      p.push_back(e % nb);
      e /= nb;
      while (e > 1) {
        p.push_back(e % 6);
        e /= 6;
        p.push_back(e % nb);
        e /= nb;
      }
      return p;
    };
    // does any proper prefix of the program (the result meshes that were fed back as operands) carry a sheet?
    auto bfsKey = [&](const std::vector<int>& p, const std::string& str, std::string& note) {
      std::vector<std::pair<Manifold, uint64_t>> ops;
      for (size_t len = 3; len < p.size(); len += 2) {
        std::vector<int> q(p.begin(), p.begin() + len);
        uint64_t mk;
        std::string st;
        Manifold m = build(q, mk, st);
        ops.push_back({m, mk});
      }
      return latticeKeyFor(ops, N, str, note);
    };
    R.replayOnly("lattice-prog", [&](uint64_t idx, Ctx& c) {
      uint64_t want;
      std::string str;
      auto p = decode(idx);
      Manifold r = build(p, want, str);
      std::string why = judgeLattice(r, want, N);
      std::string note;
      if (!why.empty()) {
        std::string key = bfsKey(p, str, note);
        c.viol(key, str, why + note);
      }
    });
    std::vector<St> frontier;
    for (int i = 0; i < nb; ++i) frontier.push_back({{i}});
    std::map<uint64_t, int> seen;  // canonical state -> depth
    {
      for (int i = 0; i < nb; ++i) seen[mix64(voxMask(boxes[i], N)) ^ canonGeomHash(boxManifold(boxes[i]).GetMeshGL64())] = 0;
    }
    const int maxDepth = thorough ? 3 : 2;
    for (int depth = 1; depth <= maxDepth && !frontier.empty(); ++depth) {
      const uint64_t per = 6 * nb;
      R.usedMin_ = true;
      auto lines = R.phase(
          "lattice-bfs-d" + std::to_string(depth), frontier.size() * per, per,
          [&](uint64_t idx, Ctx& c) {
            std::vector<int> p = frontier[idx / per].prog;
            int k = idx % per;
            p.push_back(k / nb);
            p.push_back(k % nb);
            uint64_t want;
            std::string str;
            // describe before running: crash attribution
            {
              std::ostringstream s;
              s << "bfs:";
              for (int v : p) s << v << ",";
              c.describe(s.str());
            }
            Manifold r = build(p, want, str);
            std::string why = judgeLattice(r, want, N);
            c.count("transitions");
            if (!why.empty()) {
              std::string note;
              std::string key = bfsKey(p, str, note);
              if (key.rfind("lattice:", 0) != 0) c.count("violations_with_degenerate_operand");
              c.violAt("lattice-prog", encode(p), key, str, why + note);
              return;  // violating states are not expanded
            }
            uint64_t h = mix64(want) ^ canonGeomHash(r.GetMeshGL64());
            // the representative of a state is the smallest program index reaching it: deterministic
            // frontier (and therefore stable violation keys) however the workers race
            if (c.distinctMin(h, idx)) {
              if (want != 0) c.nontrivial(h);
              if (idx % 50 == 0) c.sample(str);
            }
          },
          {"transitions", "violations_with_degenerate_operand"});
      std::vector<St> next;
      (void)lines;
      for (auto& ht : R.minTags()) {
        if (seen.count(ht.first)) continue;
        seen[ht.first] = depth;
        St st;
        st.prog = frontier[ht.second / per].prog;
        int k = ht.second % per;
        st.prog.push_back(k / nb);
        st.prog.push_back(k % nb);
        next.push_back(st);
      }
      R.usedMin_ = false;
      frontier.swap(next);
      if (!R.a.onlyCase.empty()) break;
    }
  }

  // ---------- phase lattice-d3 (thorough): (A o B) o (C o D) and ((A o B) o C) o D over [0,2]^3
  if (thorough) {
    const int N = 2;
    auto boxes = allBoxes(N);
    const int nb = (int)boxes.size();
    std::vector<int> radix = {nb, nb, nb, nb, 3, 3, 3, 2};
    R.limitNextPhase(0.8);
    R.phase("lattice-d3", product(radix), 54,
            [&](uint64_t idx, Ctx& c) {
              auto d = digits(idx, radix);
              const LBox &A = boxes[d[0]], &B = boxes[d[1]], &C = boxes[d[2]], &D = boxes[d[3]];
              OpType o1 = OPS[d[4]], o2 = OPS[d[5]], o3 = OPS[d[6]];
              bool chain = d[7];
              uint64_t ma = voxMask(A, N), mb = voxMask(B, N), mc = voxMask(C, N), md = voxMask(D, N);
              std::string prog;
              Manifold r;
              uint64_t want;
              if (chain) {
                prog = "((" + A.str() + opName(o1) + B.str() + ")" + opName(o2) + C.str() + ")" + opName(o3) + D.str();
                c.describe(prog);
                r = boxManifold(A).Boolean(boxManifold(B), o1).Boolean(boxManifold(C), o2).Boolean(boxManifold(D), o3);
                want = voxOp(voxOp(voxOp(ma, mb, o1), mc, o2), md, o3);
              } else {
                prog = "(" + A.str() + opName(o1) + B.str() + ")" + opName(o3) + "(" + C.str() + opName(o2) + D.str() + ")";
                c.describe(prog);
                r = boxManifold(A).Boolean(boxManifold(B), o1).Boolean(boxManifold(C).Boolean(boxManifold(D), o2), o3);
                want = voxOp(voxOp(ma, mb, o1), voxOp(mc, md, o2), o3);
              }
              std::string why = judgeLattice(r, want, N);
              c.count("transitions", 3);
              uint64_t h = mix64(want) ^ canonGeomHash(r.GetMeshGL64());
              c.distinct(h);
              if (want != 0) c.nontrivial(h);
              if (!why.empty()) {
                Manifold ab = boxManifold(A).Boolean(boxManifold(B), o1);
                std::vector<std::pair<Manifold, uint64_t>> ops = {{ab, voxOp(ma, mb, o1)}};
                if (chain) ops.push_back({ab.Boolean(boxManifold(C), o2), voxOp(voxOp(ma, mb, o1), mc, o2)});
                else ops.push_back({boxManifold(C).Boolean(boxManifold(D), o2), voxOp(mc, md, o2)});
                // operands the evaluator forms by its rewrites: (x-c)-d = x-(c+d), (a-b)-c-d = a-(b+c+d), (x+c)+d, (x^c)^d batches
                if (chain && o2 == o3) ops.push_back({boxManifold(C).Boolean(boxManifold(D), OpType::Add), mc | md});
                if (chain && o1 == o2 && o2 == o3 && o1 == OpType::Subtract) ops.push_back({boxManifold(B).Boolean(boxManifold(C), OpType::Add).Boolean(boxManifold(D), OpType::Add), mb | mc | md});
                if (chain && o1 == o2 && o1 == OpType::Subtract) ops.push_back({boxManifold(B).Boolean(boxManifold(C), OpType::Add), mb | mc});
                std::string note;
                std::string key = latticeKeyFor(ops, N, prog, note);
                if (key.rfind("lattice:", 0) != 0) c.count("violations_with_degenerate_operand");
                c.viol(key, prog, why + note);
              }
              if (idx % 3000017 == 0) c.sample(prog);
            },
            {"transitions", "violations_with_degenerate_operand"}, 24);
  }

  // ---------- general position: ordered pairs (all ops, Split, inclusion-exclusion)
  {
    std::vector<Leaf> L = makeLeaves();
    const uint64_t nl = L.size();
    const int G = thorough ? 11 : 8;
    R.phase("gp-pairs", nl * nl, 1,
            [&](uint64_t idx, Ctx& c) {
              const Leaf &A = L[idx / nl], &B = L[idx % nl];
              if (idx / nl == idx % nl) return;  // identical operands are the lattice regime's business
              Grid g = gridOver(A.m.BoundingBox(), B.m.BoundingBox(), G);
              std::vector<char> ia(g.pts.size()), ib(g.pts.size());
              for (size_t i = 0; i < g.pts.size(); ++i) {
                ia[i] = windingInt(A.soup, g.pts[i]) > 0;
                ib[i] = windingInt(B.soup, g.pts[i]) > 0;
              }
              long judged = 0;
              double vols[3];
              double tolArea = 0;
              for (int o = 0; o < 3; ++o) {
                std::string prog = A.name + " " + opName(OPS[o]) + " " + B.name;
                c.describe(prog);
                Manifold r = A.m.Boolean(B.m, OPS[o]);
                std::vector<char> ex(g.pts.size());
                for (size_t i = 0; i < ex.size(); ++i) ex[i] = formula(OPS[o], ia[i], ib[i]);
                std::string why = judgeSamples(r, g.pts, ex, {&A.soup, &B.soup}, judged);
                if (!why.empty()) c.viol("gp:" + prog, prog, why);
                vols[o] = r.Volume();
                tolArea = std::max(tolArea, r.GetTolerance() * (r.SurfaceArea() + A.m.SurfaceArea() + B.m.SurfaceArea()));
                c.count("transitions");
                uint64_t h = canonGeomHash(r.GetMeshGL64());
                c.distinct(h);
                if (!r.IsEmpty()) c.nontrivial(h);
              }
              std::string pr = A.name + " , " + B.name;
              double slack = 10 * tolArea + 1e-9;
              if (std::fabs(vols[0] + vols[2] - A.vol - B.vol) > slack) {
                std::ostringstream s;
                s.precision(17);
                s << "vol(A+B)+vol(A^B)=" << vols[0] + vols[2] << " vs vol A+vol B=" << A.vol + B.vol << " slack " << slack;
                c.viol("gp:incl-excl:" + pr, pr, s.str());
              }
              if (std::fabs(vols[1] + vols[2] - A.vol) > slack) {
                std::ostringstream s;
                s.precision(17);
                s << "vol(A-B)+vol(A^B)=" << vols[1] + vols[2] << " vs vol A=" << A.vol;
                c.viol("gp:difference-volume:" + pr, pr, s.str());
              }
              // Split == (A^B, A-B)
              {
                std::string prog = "Split(" + A.name + "," + B.name + ")";
                c.describe(prog);
                auto sp = A.m.Split(B.m);
                std::vector<char> e1(g.pts.size()), e2(g.pts.size());
                for (size_t i = 0; i < e1.size(); ++i) {
                  e1[i] = ia[i] && ib[i];
                  e2[i] = ia[i] && !ib[i];
                }
                std::string w1 = judgeSamples(sp.first, g.pts, e1, {&A.soup, &B.soup}, judged);
                std::string w2 = judgeSamples(sp.second, g.pts, e2, {&A.soup, &B.soup}, judged);
                if (!w1.empty()) c.viol("gp:" + prog + ".first", prog, w1);
                if (!w2.empty()) c.viol("gp:" + prog + ".second", prog, w2);
                if (std::fabs(sp.first.Volume() - vols[2]) > slack || std::fabs(sp.second.Volume() - vols[1]) > slack)
                  c.viol("gp:" + prog + ".volume", prog, "Split volumes differ from (A^B, A-B)");
                c.count("transitions");
              }
              c.count("points_judged", judged);
              if (idx % 97 == 1) c.sample(A.name + " {+,-,^,Split} " + B.name);
            },
            {"transitions", "points_judged"});

    // BatchBoolean over triples
    std::vector<int> sub;
    for (int i = 0; i < (int)nl; ++i)
      if (thorough || i % 3 == 0) sub.push_back(i);
    const uint64_t ns = sub.size();
    R.phase("gp-batch3", ns * ns * ns * 3, 3,
            [&](uint64_t idx, Ctx& c) {
              int o = idx % 3;
              uint64_t t = idx / 3;
              int i0 = sub[t / (ns * ns)], i1 = sub[(t / ns) % ns], i2 = sub[t % ns];
              if (i0 == i1 || i1 == i2 || i0 == i2) return;
              if (OPS[o] != OpType::Subtract && !(i0 < i1 && i1 < i2)) {
                // commutative ops: unordered triples once, plus the reversed order as an order-independence check
                if (!(i0 > i1 && i1 > i2)) return;
              }
              const Leaf &A = L[i0], &B = L[i1], &C = L[i2];
              std::string prog = std::string("Batch") + opName(OPS[o]) + "(" + A.name + "," + B.name + "," + C.name + ")";
              c.describe(prog);
              Manifold r = Manifold::BatchBoolean({A.m, B.m, C.m}, OPS[o]);
              Box bb = A.m.BoundingBox().Union(B.m.BoundingBox());
              Grid g = gridOver(bb, C.m.BoundingBox(), G - 1);
              std::vector<char> ex(g.pts.size());
              for (size_t i = 0; i < g.pts.size(); ++i) {
                bool a = windingInt(A.soup, g.pts[i]) > 0, b = windingInt(B.soup, g.pts[i]) > 0,
                     cc = windingInt(C.soup, g.pts[i]) > 0;
                ex[i] = formula(OPS[o], formula(OPS[o], a, b), cc);
              }
              long judged = 0;
              std::string why = judgeSamples(r, g.pts, ex, {&A.soup, &B.soup, &C.soup}, judged);
              if (!why.empty()) c.viol("gp:" + prog, prog, why);
              c.count("transitions");
              c.count("points_judged", judged);
              uint64_t h = canonGeomHash(r.GetMeshGL64());
              c.distinct(h);
              if (!r.IsEmpty()) c.nontrivial(h);
              if (idx % 1009 == 0) c.sample(prog);
            },
            {"transitions", "points_judged"});

    // SplitByPlane / TrimByPlane with 12 generic planes per leaf
    static const double NRM[4][3] = {{0.3, 0.5, 0.81}, {-0.7, 0.2, 0.1}, {0.05, -0.9, 0.4}, {1, 0.01, -0.02}};
    static const double OFF[3] = {-0.21, 0.07, 0.33};
    // every leaf also far from the origin with the plane on either side of it (the half-space cutter is sized from
    // the bounding box and the plane offset)
    // far placements are made per case below: the object is moved to +-4 along the plane normal
    std::vector<Leaf> LP = L;
    for (size_t i = 0; i < L.size(); i += 5) {
      Leaf f = L[i];
      f.name = L[i].name + ".far";
      LP.push_back(f);
    }
    static const double OFFFAR[3] = {-4.1, 0.2, 3.9};
    R.phase("gp-planes", LP.size() * 12, 12,
            [&](uint64_t idx, Ctx& c) {
              int k = idx % 12;
              vec3 n(NRM[k / 3][0], NRM[k / 3][1], NRM[k / 3][2]);
              const bool far = idx / 12 >= L.size();
              double off = far ? OFFFAR[k % 3] : OFF[k % 3];
              Leaf moved;
              if (far) {
                // object on one side of the origin along the normal, plane on the other side (offsets -4.1 / 3.9) or near it (0.2)
                vec3 nh = la::normalize(n);
                double s4 = (k % 3 == 2) ? -4.0 : 4.0;
                moved = LP[idx / 12];
                moved.m = moved.m.Translate(nh * s4 + vec3(0.3, -0.2, 0.1));
                moved.soup = soupOf(moved.m);
                moved.vol = moved.m.Volume();
              }
              const Leaf& A = far ? moved : LP[idx / 12];
              std::ostringstream ps;
              ps << "SplitByPlane(" << A.name << ", n" << k / 3 << ", " << off << ")";
              std::string prog = ps.str();
              c.describe(prog);
              auto sp = A.m.SplitByPlane(n, off);
              Manifold tr = A.m.TrimByPlane(n, off);
              Grid g = gridOver(A.m.BoundingBox(), A.m.BoundingBox(), G + 1);
              vec3 nn = la::normalize(n);
              std::vector<V3> pts;
              std::vector<char> e1, e2;
              for (auto& p : g.pts) {
                double s = nn.x * (double)p.x + nn.y * (double)p.y + nn.z * (double)p.z - off;
                if (std::fabs(s) < 1e-4) continue;  // too close to the cutting plane to judge
                bool a = windingInt(A.soup, p) > 0;
                pts.push_back(p);
                e1.push_back(a && s > 0);
                e2.push_back(a && s < 0);
              }
              long judged = 0;
              std::string w1 = judgeSamples(sp.first, pts, e1, {&A.soup}, judged);
              std::string w2 = judgeSamples(sp.second, pts, e2, {&A.soup}, judged);
              std::string w3 = judgeSamples(tr, pts, e1, {&A.soup}, judged);
              if (!w1.empty()) c.viol("gp:" + prog + ".first", prog, w1);
              if (!w2.empty()) c.viol("gp:" + prog + ".second", prog, w2);
              if (!w3.empty()) c.viol("gp:Trim:" + prog, prog, w3);
              double slack = 10 * A.m.GetTolerance() * A.m.SurfaceArea() + 1e-9;
              if (std::fabs(sp.first.Volume() + sp.second.Volume() - A.vol) > slack)
                c.viol("gp:" + prog + ".volume", prog, "the two parts do not add up to the whole");
              c.count("transitions", 3);
              c.count("points_judged", judged);
              c.distinct(canonGeomHash(sp.first.GetMeshGL64()));
              if (!sp.first.IsEmpty() && !sp.second.IsEmpty()) c.nontrivial(canonGeomHash(sp.first.GetMeshGL64()));
              if (k == 0 && idx % 5 == 0) c.sample(prog);
            },
            {"transitions", "points_judged"});
  }
  return R.finish();
}
