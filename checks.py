"""Per-property configuration of bin/check: which harness runs in which build
variant, with what time budget, and how the evidence describes it."""

def S(variant, quick=150, thorough=1500, **kw):
    d = dict(variant=variant, budget=dict(quick=quick, thorough=thorough))
    d.update(kw)
    return d

COMMON_ASSUME = [
    "compiler, sanitizers and the oracle library under /verif/lib are trusted",
    "the claim is the stated finite alphabet and depth, not all inputs",
]

HOOK_COMMITS = []
NOT_APPLICABLE_REASON = {}

CHECKS = {
    "C02": dict(
        level="model_checking", engine="S",
        technique="explicit-state model checking of the real Boolean code: exhaustive program enumeration + BFS over canonical mesh states vs voxel-set reference model",
        level_text=("Every CSG program of the stated alphabet and depth is executed on the real library and compared with a voxel-set "
                    "reference model (lattice regime, exact) or a solid-angle winding oracle (general position); BFS re-uses every distinct "
                    "result mesh as an operand. Exhaustive inside the bound, silent outside it."),
        level_note="Trusted: compiler, the 60-line voxel model, the long-double solid-angle winding oracle (cross-checked against the voxel model on every lattice case). Bound: depth <= 3 programs over boxes of [0,2]^3/[0,3]^3 and a 30-leaf general-position family.",
        runs=[S("seq-fast", quick=170, thorough=2400)],
        rule=("exhaustive enumeration of CSG programs: all ordered pairs of the 216 integer boxes of [0,3]^3 x {+,-,^,Split}; all depth-2 "
              "programs over the 27 boxes of [0,2]^3 (both nestings, forced and lazy intermediates); breadth-first search over (voxel set, "
              "canonical mesh) states re-using every result mesh as operand; thorough adds all depth-3 programs. General position: all ordered "
              "pairs of a 30-leaf family x 3 ops + Split + inclusion-exclusion, BatchBoolean triples, 12 cutting planes per leaf, judged at grid "
              "points by a solid-angle winding oracle. distinct = (voxel set, canonical result mesh) pairs; non-trivial = result differs from "
              "both operands and from empty."),
        bounds=dict(quick="lattice N=3 depth 1, N=2 depth 2, BFS depth 3; gp pairs 30x30, triples over 10 leaves",
                    thorough="adds lattice N=2 depth 3 (28.7M programs), BFS depth 4, gp triples over 30 leaves, finer grid"),
        assumptions=COMMON_ASSUME + ["points closer than max(result tolerance,1e-6) to an input surface are not judged"],
    ),
}
