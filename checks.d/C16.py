CHECK = dict(
    level="exploration", engine="S",
    technique=("exhaustive enumeration of Hull / Minkowski inputs on the real library: every point multiset of a 27-point lattice up to the size bound "
               "(in several exact and rounded similarity frames), every subset of an 18-point slab, all lattice boxes up to 5x5x5, all seeds and ordered seed pairs, "
               "25 operand pairs x {sum, difference} x both call orders; judged by exact integer predicates / a long-double winding and distance oracle"),
    level_text=("Hull: every multiset of 0..6 (quick) / 0..7 (thorough) points of {0,1,2}^3, in sorted and in reversed order, is passed to Manifold::Hull in the "
                "identity frame, in a 2^-30 cluster around (3,-5,7), in a 2^-20 cluster (straddling QuickHull's own epsilon), rotated by (17,31,47) degrees "
                "(all coordinates rounded: collinear/coplanar up to 1e-16 as after Refine) and, thorough, scaled by 0.1; plus all 2^18 subsets of the 3x3x2 slab "
                "and all full lattice boxes up to 5x5x5 in 8 orders, exact and rotated; plus Hull() of 35 seeds and Hull(vector) of all 1225 ordered pairs. "
                "Oracle on lattice coordinates in exact integer arithmetic: C01 manifoldness, NoError, empty iff affine rank < 3, result vertices bit-equal to "
                "input points, every input point on or below every face plane (distance <= max(GetEpsilon,GetTolerance)), every edge convex, positive exact "
                "volume, genus 0. Minkowski: A and 0.3*B from {cube, tetrahedron, octahedron, L-solid, notched cube}, origin strictly inside both, sum and "
                "difference in both call orders: all vertex sums inside-or-on the sum, admissible grid samples of either operand inside the sum, samples of the "
                "sum within reach of the other operand, samples p of X.MinkowskiDifference(Y) inside X with p - y inside X for all vertices (and, Y non-convex, "
                "interior samples) y of Y."),
    level_note=("Trusted: compiler, lib/topo.h, lib/solid.h, 64-bit integer determinants on coordinates <= 5. Convention for the difference: p in X (-) Y => p - y in X "
                "for every y in Y (the property's wording; it is also what the implementation's X - (boundary(X) (+) Y) construction yields). Two failure classes "
                "are systematic (hundreds of thousands of inputs each, one root cause each): they are counted exactly in the counters v_* but only a "
                "deterministic representative family plus the first 3 per worker process are listed as violation lines."),
    runs=[S("seq-fast", quick=300, thorough=2400, workers=8, case_timeout=120),
          # the sanitizer run is thorough-only: ~30 s start-up per phase in this sandbox, and Hull/Minkowski already run under ASan in C01's program space
          S("seq-asan", quick=400, thorough=900, workers=8, case_timeout=300, args=["--asan-subset"], tiers=("thorough",))],
    rule=("cases = one library call (Hull of one ordered point sequence / one seed or seed pair / one Minkowski call); distinct = canonical result meshes; "
          "non-trivial = hull inputs of affine rank 3 with >= 5 distinct points (QuickHull's iteration runs), non-empty seed hulls, non-empty Minkowski results. "
          "Admissible samples are farther than max(tolerance, 1e-6) from the surface they are classified against."),
    bounds=dict(quick="multisets of <= 6 points of {0,1,2}^3 x 2 orders x 3 frames (<= 5 in the 2^-20 frame), multisets of 5..6 points of a 12-point sub-lattice x 4 frames, "
                      "2^19 rotated slab subsets, 2 x 1728 boxes, 144 needle-shaped boxes (aspect ratio 1e3 .. 3e4), 35 seeds, 1225 pairs, 120 Minkowski calls (first operands incl. a 1200-triangle notched sphere and two disjoint cubes) on a 13^3 grid: 7.7M library calls",
                thorough="adds multisets of 7 points (8.5M per frame), the 0.1-scaled frame, the 2^-20 frame at 6 points, the exact slab subsets, a 21^3 Minkowski grid "
                         "(55M calls), and an ASan/UBSan run of a 0.3M-call subset"),
    assumptions=COMMON_ASSUME + [
        "'within epsilon' is read as max(GetEpsilon(), GetTolerance()) of the result (and of the inputs for Hull of Manifolds)",
        "for rounded (rotated / 0.1-scaled) frames the predicates are evaluated on the integer lattice pre-image and only distances above the tolerance (>= 1e-12, i.e. 10^4 ulp) are reported",
        "seed hulls: triangles thinner than 4x the tolerance define no plane and are not judged; emptiness is judged only when the rank of the input is certain",
    ],
)
