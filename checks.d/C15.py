CHECK = dict(
    level="fault_enumeration", engine="F+T",
    technique="exhaustive fault-point enumeration: cancel injected at every k-th IsCancelled check of every program (hook H2), outcome compared with the uncancelled run",
    level_text=("For 26 context-observed programs (deferred trees incl. shared sub-expressions and shared impl_, BatchBoolean, Refine*, Hull, "
                "Minkowski*, FromMeshGL, Smooth, LevelSet) the number N of cancellation checks of the uncancelled run is measured and the program "
                "is re-run with the cancel flag raised exactly at check k for EVERY k in 1..N. Each run must return the complete result "
                "(bit-identical up to mesh-ID renaming) or an empty Cancelled manifold that stays Cancelled; operands and other handles that share already evaluated sub-expressions must be untouched; rebuilding "
                "from the operands with a fresh context must give the reference result; a cancelled context must short-circuit later evaluations; "
                "progress samples taken at every check must be non-decreasing, <= 1 and end at 1."),
    level_note=("Trusted: hook H2 (the probe sits inside IsCancelled, the only reader of the flag, so 'Cancel() from another thread at any moment' "
                "is exactly 'check k is the first to see it'); compiler; lib/canon.h fingerprints. Two builds: the serial library, and MANIFOLD_PAR=1 on the modelled TBB runtime (engine T) under its "
                "default schedule with kSeqThreshold=4, par_threshold=0, gate_override=0, where every chunk of a cancellable parallel loop is a check site; "
                "other schedules of the same checks are not enumerated here."),
    runs=[S("seq-fast", quick=600, thorough=2400, workers=8),
          # the same enumeration on the parallel build (modelled TBB runtime, 2 workers, default schedule, every gated loop parallel):
          # each chunk of a cancellable parallel loop is a check site of its own there (160k sites instead of 30k)
          S("par-model", quick=2400, thorough=5400, workers=16, case_timeout=600)],
    rule=("cases = (program, k) for every k in 1..N(program); distinct = (program,k) pairs; non-trivial = runs that ended Cancelled (the flag was "
          "observed before completion). The reference phase runs each program twice uncancelled (determinism, progress monotone / final == 1)."),
    bounds=dict(quick="26 programs, every check index: 30k injected runs on the serial build + 161k on the parallel build (default schedule)", thorough="same programs with larger Minkowski operands (about 36k injected runs)"),
    assumptions=COMMON_ASSUME + ["relaxed-memory reorderings of the cancel flag and progress counters are not modelled (single thread here)"],
)
