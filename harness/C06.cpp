// C06 - shared objects may be used from many threads: no data race, no deadlock, same answers.
// Engine C: 2-3 client threads, 1-2 operations each, on shared lazy Manifolds /
// CrossSections / an ExecutionContext.  Every interleaving within the
// preemption bound is executed under the cooperative scheduler; scheduling
// points are every pthread mutex operation (interposed), every hooked atomic
// of the library (H5) and every task boundary of the TBB model.  Oracles:
// (1) the scheduler reports a deadlock when no thread is enabled, (2) in the
// TSan variant every report of the race detector on any explored schedule is
// a violation, (3) each thread's observations must be ones a serial execution
// can produce.
// VBUILD: variants=par-model,par-model-tsan
#include <sstream>

#include "engine/explore.h"
#include "engine/runner.h"
#include "lib/canon.h"
#include "manifold/cross_section.h"
#include "manifold/manifold.h"
#include "parallel.h"
#include "verif_hooks.h"

using namespace manifold;
using namespace vf;

extern "C" void __tsan_on_report(void*) { vs_note_race(); }

static std::string hx(uint64_t h) {
  char b[32];
  snprintf(b, sizeof b, "%llx", (unsigned long long)(h & 0xffffffffffull));
  return b;
}

// the shared world of one execution
struct World {
  Manifold R, R2, leafT, smooth, H2;  // H2: a second shared handle that one thread assigns into
  CrossSection CS;
  ExecutionContext ctx;
};
static World* makeWorld() {
  World* w = new World;
  Manifold a = Manifold::Cube({1, 1, 1}, true), b = Manifold::Sphere(0.65, 6).Translate({0.3, 0.2, 0.1});
  (void)a.NumTri();
  (void)b.NumTri();
  Manifold S = a + b;                                   // shared sub-expression, unevaluated
  w->R = S - Manifold::Tetrahedron().Scale({0.7, 0.7, 0.7});
  w->R2 = S.Translate({0.2, 0, 0}) ^ Manifold::Cube({1.2, 0.8, 0.9}, true);
  w->leafT = Manifold::Sphere(0.8, 6).Translate({0.5, 0, 0}).Rotate(10, 20, 30);  // leaf with a pending transform
  w->smooth = Manifold::Tetrahedron().SmoothOut();
  (void)w->smooth.NumTri();
  w->H2 = w->leafT;  // a second handle on the same lazily transformed leaf node
  // a CrossSection with a PENDING transform (a Boolean result is materialised eagerly; the transforms applied after
  // it are not): the first const query rewrites paths_ and transform_ together
  w->CS = (CrossSection::Square({1, 2}) - CrossSection::Circle(0.4, 6)).Translate({0.5, 0}).Rotate(30);
  return w;
}

struct Op {
  const char* name;
  std::function<std::string(World&)> f;
};
static std::vector<Op> ops() {
  std::vector<Op> O;
  O.push_back({"R.Status", [](World& w) { return std::to_string((int)w.R.Status()); }});
  O.push_back({"R.NumTri", [](World& w) { return std::to_string(w.R.NumTri()); }});
  O.push_back({"R.GetMeshGL64", [](World& w) { return hx(byteHash(w.R.GetMeshGL64(), false)); }});
  O.push_back({"copy(R).NumVert", [](World& w) {
                 Manifold c(w.R);
                 return std::to_string(c.NumVert());
               }});
  O.push_back({"local=R;local.Volume", [](World& w) {
                 Manifold l;
                 l = w.R;
                 char b[64];
                 snprintf(b, sizeof b, "%.17g", l.Volume());
                 return std::string(b);
               }});
  // (Assignment INTO a shared handle while other threads read it is not promised by the statement - "copy and
  //  assign FROM it" - and is therefore not in the alphabet.  A first version had "H2 = leafT"; under TSan it showed
  //  a use-after-free of the old leaf node in a concurrent H2.NumTri() (GetCsgLeafNode returns a reference that the
  //  assignment can free), recorded in DESIGN.md as an observation outside the property.)
  O.push_back({"H2.NumTri", [](World& w) { return std::to_string(w.H2.NumTri()); }});
  O.push_back({"copy(H2).NumVert", [](World& w) {
                 Manifold c(w.H2);
                 return std::to_string(c.NumVert());
               }});
  O.push_back({"(R+X).NumTri", [](World& w) { return std::to_string((w.R + Manifold::Cube().Translate({0.4, 0.4, 0.4})).NumTri()); }});
  O.push_back({"R.Translate.NumVert", [](World& w) { return std::to_string(w.R.Translate({1, 0, 0}).NumVert()); }});
  O.push_back({"R2.NumTri", [](World& w) { return std::to_string(w.R2.NumTri()); }});
  O.push_back({"leafT.GetMeshGL64", [](World& w) { return hx(byteHash(w.leafT.GetMeshGL64(), false)); }});
  O.push_back({"R.WithContext.Status", [](World& w) { return std::to_string((int)w.R.WithContext(w.ctx).Status()); }});
  O.push_back({"ctx.Cancel", [](World& w) {
                 w.ctx.Cancel();
                 return std::string("cancelled");
               }});
  O.push_back({"ctx.Progress", [](World& w) {
                 double p = w.ctx.Progress();
                 return std::string(p >= 0 && p <= 1 ? "in[0,1]" : "OUT-OF-RANGE");
               }});
  O.push_back({"ReserveIDs(2)", [](World&) { return std::string("id") + std::to_string(Manifold::ReserveIDs(2)); }});
  O.push_back({"CS.Area", [](World& w) {
                 char b[64];
                 snprintf(b, sizeof b, "%.17g", w.CS.Area());
                 return std::string(b);
               }});
  O.push_back({"CS.ToPolygons", [](World& w) { return hx(polyHash(w.CS.ToPolygons())); }});
  O.push_back({"copy(CS).NumVert", [](World& w) {
                 CrossSection c(w.CS);
                 return std::to_string(c.NumVert());
               }});
  // a derived expression that shares the lazy CrossSection's pending transform and paths
  O.push_back({"CS.Translate.Area+Bounds", [](World& w) {
                 CrossSection t = w.CS.Translate({100, 50});
                 Rect r = t.Bounds();
                 char b[160];
                 snprintf(b, sizeof b, "%.17g [%.17g,%.17g]-[%.17g,%.17g]", t.Area(), r.min.x, r.min.y, r.max.x, r.max.y);
                 return std::string(b);
               }});
  // union of bounding-box-disjoint parts: evaluated by Compose, which shifts mesh IDs by a snapshot of the global counter
  O.push_back({"compose(A+far).GetMeshGL64", [](World&) {
                 Manifold u = Manifold::Cube() + Manifold::Cube().Translate({5, 0, 0}) + Manifold::Tetrahedron().Translate({0, 7, 0});
                 MeshGL64 m = u.GetMeshGL64();
                 return hx(byteHash(m, false)) + "/runs=" + std::to_string(m.runOriginalID.size());
               }});
  O.push_back({"smooth.Refine(3)", [](World& w) { return hx(byteHash(w.smooth.Refine(3).GetMeshGL64(), false)); }});
  return O;
}

// allowed observation of op `o` given which ops may have run before it
struct Allowed {
  std::vector<std::string> vals;
};

int main(int argc, char** argv) {
  Runner R("C06", argc, argv);
  const bool thorough = R.a.thorough();
  auto O = ops();
  const int no = (int)O.size();

  // serial reference values: the op alone on a fresh world, and after each possible predecessor op
  // (observations of a thread must equal those of SOME serial order of all ops of the program)
  auto serial = [&](const std::vector<int>& order) {
    World* w = makeWorld();
    std::vector<std::string> out;
    for (int o : order) out.push_back(O[o].f(*w));
    return out;  // world leaked on purpose (process-lifetime scratch)
  };

  // thread programs are built from GROUPS of operations that touch the same shared object (so that
  // every program collides on something); the same op twice is included.
  auto idx = [&](const char* n) {
    for (int i = 0; i < no; ++i)
      if (std::string(O[i].name) == n) return i;
    fprintf(stderr, "unknown op %s\n", n);
    abort();
  };
  std::vector<std::vector<int>> groups;
  groups.push_back({idx("R.Status"), idx("R.NumTri"), idx("R.GetMeshGL64"), idx("copy(R).NumVert"), idx("local=R;local.Volume"),
                    idx("(R+X).NumTri"), idx("R.Translate.NumVert"), idx("R2.NumTri"), idx("R.WithContext.Status")});
  groups.push_back({idx("H2.NumTri"), idx("copy(H2).NumVert"), idx("leafT.GetMeshGL64")});
  groups.push_back({idx("R.WithContext.Status"), idx("ctx.Cancel"), idx("ctx.Progress")});
  groups.push_back({idx("CS.Area"), idx("CS.ToPolygons"), idx("copy(CS).NumVert"), idx("CS.Translate.Area+Bounds")});
  groups.push_back({idx("ReserveIDs(2)"), idx("(R+X).NumTri"), idx("smooth.Refine(3)")});
  struct TP {
    std::vector<std::vector<int>> threads;
    int bound;
    bool taskPoints = false;
  };
  std::vector<TP> progs;
  for (auto& g : groups) {
    // 2 threads x 1 op: all unordered pairs incl. the same op twice
    for (size_t a = 0; a < g.size(); ++a)
      for (size_t b = a; b < g.size(); ++b) progs.push_back({{{g[a]}, {g[b]}}, thorough ? 3 : 2});
    // 3 threads x 1 op
    for (size_t a = 0; a < g.size(); ++a)
      for (size_t b = a; b < g.size(); ++b)
        for (size_t c2 = b; c2 < g.size(); ++c2)
          if (thorough || g.size() <= 4) progs.push_back({{{g[a]}, {g[b]}, {g[c2]}}, thorough ? 2 : 1});
    // 2 threads, one of them running two ops
    for (size_t a = 0; a < g.size(); ++a)
      for (size_t b = 0; b < g.size(); ++b)
        for (size_t c2 = 0; c2 < g.size(); ++c2)
          if (thorough || g.size() <= 4) progs.push_back({{{g[a], g[c2]}, {g[b]}}, thorough ? 2 : 1});
  }

  // the mesh-ID counter: Compose reads it while other clients advance it.  Nothing but TBB task boundaries lies between
  // Compose's reads, so in these programs task boundaries are scheduling points too (taskPoints), with bound 1.
  {
    const int cmp = idx("compose(A+far).GetMeshGL64"), rid = idx("ReserveIDs(2)");
    for (auto t : std::vector<std::vector<std::vector<int>>>{{{cmp}, {rid}}, {{cmp}, {cmp}}, {{cmp}, {rid, rid}}, {{cmp}, {rid}, {rid}}}) {
      TP p;
      p.threads = t;
      p.bound = thorough ? 2 : 1;
      p.taskPoints = true;
      progs.push_back(p);
    }
  }

  R.phase("interleavings", progs.size(), 4, [&](uint64_t idx, Ctx& c) {
    const auto& pr = progs[idx].threads;
    std::ostringstream nm;
    for (size_t t = 0; t < pr.size(); ++t) {
      nm << (t ? " || " : "") << "T" << t << ":";
      for (int o : pr[t]) nm << " " << O[o].name << ";";
    }
    std::string name = nm.str();
    c.describe(name);
    // all serial orders (interleavings of whole ops respecting per-thread order) -> allowed joint observations
    std::vector<std::string> allowedJoint;
    {
      std::vector<std::pair<int, int>> all;  // (thread, pos)
      std::vector<size_t> pos(pr.size(), 0);
      std::function<void(std::vector<std::pair<int, int>>&)> rec = [&](std::vector<std::pair<int, int>>& cur) {
        bool done = true;
        for (size_t t = 0; t < pr.size(); ++t)
          if (pos[t] < pr[t].size()) {
            done = false;
            cur.push_back({(int)t, (int)pos[t]});
            pos[t]++;
            rec(cur);
            pos[t]--;
            cur.pop_back();
          }
        if (done) {
          std::vector<int> order;
          for (auto& tp : cur) order.push_back(pr[tp.first][tp.second]);
          auto out = serial(order);
          // joint observation string in (thread,pos) order
          std::vector<std::vector<std::string>> per(pr.size());
          for (size_t k = 0; k < cur.size(); ++k) {
            if ((int)per[cur[k].first].size() <= cur[k].second) per[cur[k].first].resize(cur[k].second + 1);
            per[cur[k].first][cur[k].second] = out[k];
          }
          std::string j;
          for (auto& t : per)
            for (auto& v : t) j += v + "|";
          allowedJoint.push_back(j);
        }
      };
      std::vector<std::pair<int, int>> cur;
      rec(cur);
    }
    auto normalise = [](std::string s) {
      // ReserveIDs values depend on the global counter: keep only distinctness (checked in the body)
      size_t p;
      while ((p = s.find("id")) != std::string::npos) {
        size_t e = p + 2;
        while (e < s.size() && isdigit(s[e])) ++e;
        s.replace(p, e - p, "ID");
      }
      return s;
    };
    for (auto& a : allowedJoint) a = normalise(a);

    // executions run inside the worker process (fork costs ~30 ms here and is far slower under TSan): a fresh
    // world per execution, one discarded warm-up run brings caches to their steady state
    const bool inProc = true;
    vx::Explorer ex;
    vx::Config cfg;
    cfg.bound = progs[idx].bound;
    cfg.freeCost = 0;
    cfg.workers = 1;  // the TBB model runs each client's parallel loops on the client's own thread
    cfg.taskPoints = progs[idx].taskPoints;
    cfg.concurrency = 2;
    cfg.timeout = 60;
    cfg.captureStderr = true;
    cfg.inProcess = inProc;
    cfg.maxExec = thorough ? 30000 : 5000;
    // The world is built ONCE here and every execution forks from it, so each child starts from the
    // same unevaluated shared objects.  Scheduling points: every mutex operation (pNodeMutex_, the
    // ConcurrentSharedPtr guard, CsgLeafNode::mutex_, the Partition cache lock, libstdc++'s shared_ptr
    // atomic-access pool) and the hooked atomics that are shared BETWEEN clients (tags "shared-*").
    // Atomics on data private to one evaluating client are not scheduling points (sound for
    // race-free code; race freedom is what the TSan variant monitors on the same schedules).
    World* w0 = inProc ? nullptr : makeWorld();
    auto body = [&]() {
      // in-process exploration (TSan variant): a fresh world per execution, built before the scheduler hooks are armed
      World* w = inProc ? makeWorld() : w0;
      verif::yield = [](const char* tag, const void*) {
        if (tag[0] == 's' && tag[1] == 'h') vs_point(tag);
      };
      std::vector<std::vector<std::string>> obs(pr.size());
      std::vector<std::function<void()>> fs;
      for (size_t t = 0; t < pr.size(); ++t)
        fs.push_back([&, t] {
          for (int o : pr[t]) obs[t].push_back(O[o].f(*w));
        });
      std::vector<int> tids;
      for (auto& f : fs) tids.push_back(vs_thread_create([](void* p) { (*(std::function<void()>*)p)(); }, &f));
      for (int t : tids) vs_thread_join(t);
      verif::yield = nullptr;
      if (inProc) delete w;  // every client has finished; a leaked world per execution costs gigabytes under TSan in the thorough tier
      std::string j, ids;
      for (auto& t : obs)
        for (auto& v : t) {
          j += v + "|";
          if (v.rfind("id", 0) == 0) ids += v + ",";
        }
      // ReserveIDs(2): the two blocks must not overlap
      {
        std::vector<long> st;
        size_t p = 0;
        while ((p = ids.find("id", p)) != std::string::npos) {
          st.push_back(atol(ids.c_str() + p + 2));
          p += 2;
        }
        for (size_t a = 0; a < st.size(); ++a)
          for (size_t b = a + 1; b < st.size(); ++b)
            if (std::labs(st[a] - st[b]) < 2) j += "OVERLAPPING-IDS|";
      }
      return j;
    };
    bool reported = false, raceReported = false;
    vx::Stats st = ex.explore(cfg, body, [&](const vx::Exec& e) {
      std::string got = normalise(e.outcome);
      bool ok = false;
      for (auto& a : allowedJoint) ok = ok || a == got;
      if (!ok && e.status == 1) {
        // Cancel() racing with an evaluation on ANOTHER thread is not a serial order of whole operations: the
        // evaluation may legitimately observe the flag midway and return Cancelled (14) (that outcome is C15's
        // all-or-nothing statement).  So a WithContext.Status whose thread differs from a ctx.Cancel's thread may
        // read either its serial value or 14.
        auto split = [](const std::string& x) {
          std::vector<std::string> t;
          size_t b = 0, p;
          while ((p = x.find('|', b)) != std::string::npos) {
            t.push_back(x.substr(b, p - b));
            b = p + 1;
          }
          return t;
        };
        std::vector<int> opAt, thrAt;
        for (size_t t = 0; t < pr.size(); ++t)
          for (int o : pr[t]) {
            opAt.push_back(o);
            thrAt.push_back((int)t);
          }
        auto gt = split(got);
        for (auto& a : allowedJoint) {
          auto at = split(a);
          if (at.size() != gt.size() || gt.size() < opAt.size()) continue;
          bool match = true;
          for (size_t k = 0; k < at.size() && match; ++k) {
            if (at[k] == gt[k]) continue;
            bool wild = false;
            if (k < opAt.size() && std::string(O[opAt[k]].name) == "R.WithContext.Status" && gt[k] == "14")
              for (size_t j = 0; j < opAt.size(); ++j)
                if (std::string(O[opAt[j]].name) == "ctx.Cancel" && thrAt[j] != thrAt[k]) wild = true;
            if (!wild) match = false;
          }
          ok = ok || match;
        }
      }
      if (!ok && !reported) {
        reported = true;
        std::string kind = e.status == 2 ? "deadlock" : (e.status == 1 ? "non-serializable" : "crash");
        c.viol(kind + ":" + name, name, "schedule " + e.scheduleStr() + " gives [" + e.outcome + "]; serial orders allow [" + allowedJoint[0] + "]" +
                                            (allowedJoint.size() > 1 ? " and " + std::to_string(allowedJoint.size() - 1) + " more" : "") +
                                            (e.note.empty() ? "" : " (" + e.note + ")") + (e.stderrText.empty() ? "" : "\n" + e.stderrText.substr(0, 1500)));
      }
      if (e.races && !raceReported) {
        raceReported = true;
        vx::Exec withText = e;
        if (cfg.inProcess && e.stderrText.empty() && !R.single_) {
          // the reports of this worker process went to its stderr file (the runner redirects it): read what is there
          const char* d = getenv("VERIF_RUN_DIR");
          std::string path = std::string(d ? d : ".") + "/C06.w" + std::to_string(c.wid) + ".err";
          FILE* f = fopen(path.c_str(), "r");
          if (f) {
            static long consumed = 0;
            fseek(f, 0, SEEK_END);
            long end = ftell(f);
            if (consumed > end) consumed = 0;
            fseek(f, consumed, SEEK_SET);
            std::string t(end - consumed, 0);
            size_t n = fread(&t[0], 1, t.size(), f);
            t.resize(n);
            consumed = end;
            fclose(f);
            withText.stderrText = t.substr(0, 20000);
          }
        }
        const vx::Exec& e = withText;
        // key by the two access sites of the first report.  Exploration runs with symbolize=0 (spawning the
        // symbolizer for every report of every schedule is far too slow); the top frame of each of the two stacks is
        // resolved here, once per case, from its module offset.
        std::string site;
        size_t p = e.stderrText.find("WARNING: ThreadSanitizer");
        std::string rep = p == std::string::npos ? e.stderrText : e.stderrText.substr(p);
        auto symbolize = [](const std::string& off) {
          char exe[512];
          ssize_t n = readlink("/proc/self/exe", exe, sizeof exe - 1);
          if (n <= 0) return off;
          exe[n] = 0;
          std::string cmd = "llvm-symbolizer -f -C -e '" + std::string(exe) + "' " + off + " 2>/dev/null";
          FILE* f = popen(cmd.c_str(), "r");
          if (!f) return off;
          char l1[512] = "", l2[512] = "";
          if (!fgets(l1, sizeof l1, f)) l1[0] = 0;
          if (!fgets(l2, sizeof l2, f)) l2[0] = 0;
          pclose(f);
          std::string fn(l1), loc(l2);
          while (!fn.empty() && (fn.back() == '\n' || fn.back() == ' ')) fn.pop_back();
          while (!loc.empty() && (loc.back() == '\n' || loc.back() == ' ')) loc.pop_back();
          size_t sl = loc.rfind('/');
          if (sl != std::string::npos) loc = loc.substr(sl + 1);
          size_t par = fn.find('(');
          if (par != std::string::npos) fn = fn.substr(0, par);
          return fn.empty() ? off : fn + "@" + loc;
        };
        size_t q = 0;
        int found = 0;
        while (found < 2 && (q = rep.find("#", q)) != std::string::npos) {
          // a frame line looks like "    #0 <something> (C06+0x986aa) ..." ; take the first NON-runtime frame of each stack
          size_t eol = rep.find('\n', q);
          std::string line = rep.substr(q, eol - q);
          bool first = line.rfind("#0 ", 0) == 0;
          size_t lp = line.find("+0x");
          if (first && lp != std::string::npos) {
            // walk down this stack until a frame outside the sanitizer runtime / interposition layer
            size_t qq = q;
            std::string chosen;
            for (int depth = 0; depth < 8; ++depth) {
              size_t e3 = rep.find('\n', qq);
              std::string ln = rep.substr(qq, e3 - qq);
              size_t l2p = ln.find("+0x");
              if (l2p == std::string::npos) break;
              size_t r2 = ln.find(')', l2p);
              std::string off = ln.substr(l2p + 1, r2 - l2p - 1);
              std::string sym = symbolize(off);
              chosen = sym;
              if (sym.find("pthread_mutex") == std::string::npos && sym.find("interpose") == std::string::npos &&
                  sym.find("__tsan") == std::string::npos && sym.find("__interceptor") == std::string::npos && sym.find("operator new") == std::string::npos &&
                  sym.find("operator delete") == std::string::npos && sym.find("std::") != 0 && sym.find("memcpy") == std::string::npos)
                break;
              if (e3 == std::string::npos) break;
              qq = rep.find('#', e3);
              if (qq == std::string::npos) break;
            }
            site += (found ? " <-> " : "") + chosen;
            ++found;
          }
          q = eol == std::string::npos ? rep.size() : eol;
        }
        c.viol("race:" + site + " in " + name, name, "schedule " + e.scheduleStr() + ": ThreadSanitizer reports\n" + rep.substr(0, 1800));
      }
      return true;
    });
    if (R.single_) fprintf(stderr, "%s: %llu executions, max %llu choice points, %zu outcomes, %llu with races\n", name.c_str(),
                           (unsigned long long)st.executions, (unsigned long long)st.maxTrace, st.outcomes.size(), (unsigned long long)st.withRaces);
    c.count("executions", st.executions);
    c.count("choice_points", st.choicePoints);
    c.count("executions_with_race_reports", st.withRaces);
    if (st.capped) c.count("capped_cases");
    c.distinct(hash_str(name));
    if (st.outcomes.size() > 1 || st.executions > 1) c.nontrivial(hash_str(name));
    if (idx % 101 == 0) {
      std::ostringstream s2;
      s2 << name << ": " << st.executions << " interleavings (bound " << cfg.bound << "), " << st.outcomes.size() << " distinct joint observations";
      c.sample(s2.str());
    }
  }, {"executions", "choice_points", "executions_with_race_reports", "capped_cases"});
  return R.finish();
}
