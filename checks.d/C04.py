CHECK = dict(
    level="model_checking", engine="T",
    technique="stateless model checking of the TBB scheduling nondeterminism: deviation-bounded exhaustive enumeration of worker/steal choices on a replacement oneTBB runtime under the real header algorithms; byte-hash comparison across all schedules, reported concurrencies and the serial build",
    level_text=("Whole-library programs (Booleans, BatchBoolean of 5 and 9, Hull, LevelSet, Smooth+Refine, Simplify, SetTolerance, normals/curvature, MeshGL import, Decompose, "
                "Minkowski, Warp+SetProperties+Refine, CrossSection Booleans+Offset, Extrude/Revolve/Slice/Project, Triangulate) are built with MANIFOLD_PAR=1 against oneTBB's "
                "headers and engine/tbbrt. With every autoPolicy-gated loop forced parallel and kSeqThreshold=4 (hook H3) each program has 10^3-10^4 scheduling points "
                "(spawn, task end, wait); the default schedule runs everything on the caller; a deviation is 'another modelled worker takes a ready task here' (it then steals the "
                "victim's oldest task, TBB's partitioners see the steal and split accordingly) or a non-default victim. EVERY schedule with at most `bound` deviations is executed "
                "and the byte hash of GetMeshGL64 + GetMeshGL + Status + Volume + SurfaceArea (resp. ToPolygons / triangle lists) must equal, in all of them and for every reported "
                "max_concurrency, the hash produced by the SERIAL build (MANIFOLD_PAR=-1) of the same program. Thorough adds scale-L programs at production thresholds "
                "(two 160-segment spheres, a 60^3 level set, a refined 128-segment sphere, a 700-rectangle comb) where one deviation = one stolen task."),
    level_note=("Trusted: the runtime model (owner LIFO, thief FIFO, isolation, task-boundary scheduling points) - its conformance run against real libtbb is not built; W=2 modelled workers; "
                "original IDs are compared up to order-preserving renaming (they come from a process-wide counter). Compiler FP contraction is off in both builds."),
    runs=[S("seq-fast", quick=120, thorough=900, workers=8),
          S("par-model", quick=1200, thorough=5400, workers=16, case_timeout=1800)],
    rule=("cases = (program, reported concurrency, 1/16 of the root's alternatives); executions = schedules run; distinct = (program, concurrency) pairs; non-trivial = cases in "
          "which at least one explored schedule contained a steal. The serial-reference phase runs each program twice in the serial build (determinism) and writes the reference hashes."),
    bounds=dict(quick="10 programs (incl. a BatchBoolean whose round results tie in NumVert and an import of 6 bow-ties) x concurrency 2, kSeqThreshold 4, par_threshold 0, literal gates lowered (H4), every single deviation (bound 1)",
                thorough="21 scale-S programs x concurrency {1,2,4,16}, bound 2 capped at 40000 executions per case; 6 scale-L programs at the production thresholds, bound 1"),
    assumptions=COMMON_ASSUME + ["real libtbb's scheduler is represented by the model", "sequentially consistent interleavings at task granularity"],
)
