// VBUILD: cxxflags=-fno-access-control
// C14 - spatial indices report exactly the overlapping pairs.
// Engine S: exhaustive enumeration of (leaf boxes, Morton code sequence,
// query) spaces on the real Collider / 2-D BVH / edge-pair broad phase /
// polygon k-d tree; the oracle is an all-pairs scan in integer arithmetic
// (closed intervals; for point queries the z-projected test the header
// documents).  Private members of Collider are read (never written) for the
// radix-tree shape checks, hence -fno-access-control.
#include <algorithm>
#include <array>
#include <cmath>
#include <cstring>
#include <sstream>

#include "engine/runner.h"
#include "boolean2.h"  // collider.h, Box2, BVH, CollectIntersectionPairs
#include "tree2d.h"
#include "vec.h"

using namespace manifold;
using namespace vf;

#if defined(__SANITIZE_ADDRESS__)
static const bool kAsan = true;
#else
static const bool kAsan = false;
#endif

// ---------------------------------------------------------------- combinatorics
static uint64_t BIN[72][72];
static void initBin() {
  for (int n = 0; n < 72; ++n) {
    BIN[n][0] = 1;
    for (int k = 1; k <= n; ++k) BIN[n][k] = BIN[n - 1][k - 1] + (k <= n - 1 ? BIN[n - 1][k] : 0);
  }
}
// multisets of size n over k symbols
static uint64_t nMulti(int n, int k) {
  if (k == 0) return n == 0;
  return BIN[n + k - 1][k - 1];
}
static void unrankMulti(uint64_t idx, int n, int k, int* cnt) {
  int rem = n;
  for (int s = 0; s < k - 1; ++s) {
    int c = 0;
    for (;; ++c) {
      uint64_t ways = nMulti(rem - c, k - s - 1);
      if (idx < ways) break;
      idx -= ways;
    }
    cnt[s] = c;
    rem -= c;
  }
  cnt[k - 1] = rem;
}
// all non-decreasing sequences of length n over the given symbols
static std::vector<std::vector<uint32_t>> codeSeqs(int n, const std::vector<uint32_t>& sym) {
  std::vector<std::vector<uint32_t>> out;
  int k = (int)sym.size();
  uint64_t N = nMulti(n, k);
  std::vector<int> cnt(k);
  for (uint64_t i = 0; i < N; ++i) {
    unrankMulti(i, n, k, cnt.data());
    std::vector<uint32_t> s;
    for (int j = 0; j < k; ++j)
      for (int r = 0; r < cnt[j]; ++r) s.push_back(sym[j]);
    out.push_back(s);
  }
  return out;
}

// ---------------------------------------------------------------- integer model
struct IB {
  int lo[3], hi[3];
};
static const int IVL[6][2] = {{0, 0}, {0, 1}, {0, 2}, {1, 1}, {1, 2}, {2, 2}};  // intervals over {0,1,2}
static const int IVS[3][2] = {{0, 0}, {0, 1}, {1, 1}};                          // intervals over {0,1}

static inline bool ovBB(const IB& a, const IB& b) {  // closed intervals, all three axes
  for (int k = 0; k < 3; ++k)
    if (a.lo[k] > b.hi[k] || b.lo[k] > a.hi[k]) return false;
  return true;
}
static inline bool ovBP(const IB& a, const int* p) {  // point query: projected in z (collider.h / common.h doc)
  return p[0] >= a.lo[0] && p[0] <= a.hi[0] && p[1] >= a.lo[1] && p[1] <= a.hi[1];
}
static Box toBox(const IB& b) {
  Box o;
  o.min = vec3(b.lo[0], b.lo[1], b.lo[2]);
  o.max = vec3(b.hi[0], b.hi[1], b.hi[2]);
  return o;
}
static std::string str(const IB& b) {
  char s[96];
  snprintf(s, sizeof s, "[%d..%d,%d..%d,%d..%d]", b.lo[0], b.hi[0], b.lo[1], b.hi[1], b.lo[2], b.hi[2]);
  return s;
}
// 2-D lattice box b (0..35) of {0,1,2}^2 embedded in plane e (0: xy, 1: yz, 2: xz); third axis [1,1]
static IB emb2(int b, int e, const int (*iv)[2] = IVL, int niv = 6) {
  static const int AX[3][3] = {{0, 1, 2}, {1, 2, 0}, {0, 2, 1}};
  IB o;
  o.lo[AX[e][0]] = iv[b / niv][0];
  o.hi[AX[e][0]] = iv[b / niv][1];
  o.lo[AX[e][1]] = iv[b % niv][0];
  o.hi[AX[e][1]] = iv[b % niv][1];
  o.lo[AX[e][2]] = o.hi[AX[e][2]] = 1;
  return o;
}
// 1-D box along axis e; other axes [1,1]
static IB emb1(int i, int e, const int (*iv)[2] = IVL) {
  IB o;
  for (int k = 0; k < 3; ++k) o.lo[k] = o.hi[k] = 1;
  o.lo[e] = iv[i][0];
  o.hi[e] = iv[i][1];
  return o;
}

// axis-aligned affine maps: out[a] = sc[a] * in[perm[a]] + t[a]
struct XF {
  int perm[3], sc[3], t[3];
  std::string name;
};
static IB apply(const XF& g, const IB& b) {
  IB o;
  for (int a = 0; a < 3; ++a) {
    int v1 = g.sc[a] * b.lo[g.perm[a]] + g.t[a], v2 = g.sc[a] * b.hi[g.perm[a]] + g.t[a];
    o.lo[a] = std::min(v1, v2);
    o.hi[a] = std::max(v1, v2);
  }
  return o;
}
static mat3x4 toMat(const XF& g) {
  mat3x4 m;
  for (int c = 0; c < 4; ++c) m[c] = vec3(0.0);
  for (int a = 0; a < 3; ++a) {
    m[g.perm[a]][a] = g.sc[a];
    m[3][a] = g.t[a];
  }
  return m;
}
static std::vector<XF> makeXFs() {
  std::vector<XF> out;
  int p[3] = {0, 1, 2};
  do {
    for (int s = 0; s < 8; ++s) {
      XF g;
      std::ostringstream nm;
      nm << "T(";
      for (int a = 0; a < 3; ++a) {
        g.perm[a] = p[a];
        g.sc[a] = (s >> a) & 1 ? -1 : 1;
        g.t[a] = g.sc[a] < 0 ? 2 : 0;  // keeps the lattice cube [0,2]^3 in place
        nm << (a ? "," : "") << (g.sc[a] < 0 ? "2-" : "") << "xyz"[p[a]];
      }
      nm << ")";
      g.name = nm.str();
      out.push_back(g);
    }
  } while (std::next_permutation(p, p + 3));
  for (int a = 0; a < 3; ++a)
    for (int d = -1; d <= 1; d += 2) {
      XF g = out[0];
      g.t[a] = d;
      g.name = std::string("T(shift ") + "xyz"[a] + (d > 0 ? "+1)" : "-1)");
      out.push_back(g);
    }
  for (int a = 0; a < 3; ++a) {
    XF g = out[0];
    g.sc[a] = 2;
    g.name = std::string("T(scale ") + "xyz"[a] + " by 2)";
    out.push_back(g);
  }
  {
    XF g;
    for (int a = 0; a < 3; ++a) {
      g.perm[a] = (a + 1) % 3;
      g.sc[a] = -2;
      g.t[a] = 4;
    }
    g.name = "T(4-2y,4-2z,4-2x)";
    out.push_back(g);
  }
  return out;
}

// ---------------------------------------------------------------- query sets
struct QuerySet {
  std::vector<IB> ib;  // integer model of each query box (ignored where empty[i])
  std::vector<char> empty;
  std::vector<Box> boxes;
  std::vector<std::array<int, 3>> ip;
  std::vector<vec3> pts;
  void addBox(const IB& b) {
    ib.push_back(b);
    empty.push_back(0);
    boxes.push_back(toBox(b));
  }
  void addEmpty() {
    ib.push_back(IB{{0, 0, 0}, {0, 0, 0}});
    empty.push_back(1);
    boxes.push_back(Box());  // min=+inf, max=-inf: FindCollision's early exit
  }
  void addPt(int x, int y, int z) {
    ip.push_back({x, y, z});
    pts.push_back(vec3(x, y, z));
  }
};
// all 216 boxes of {0,1,2}^3, the empty box, all 27 lattice points
static QuerySet makeQFull() {
  QuerySet q;
  for (int a = 0; a < 6; ++a)
    for (int b = 0; b < 6; ++b)
      for (int c = 0; c < 6; ++c) q.addBox(IB{{IVL[a][0], IVL[b][0], IVL[c][0]}, {IVL[a][1], IVL[b][1], IVL[c][1]}});
  q.addEmpty();
  for (int x = 0; x < 3; ++x)
    for (int y = 0; y < 3; ++y)
      for (int z = 0; z < 3; ++z) q.addPt(x, y, z);
  return q;
}
// the 36 boxes in plane e (third axis [1,1]), the empty box, the 9 points of the plane
static QuerySet makeQPlane(int e) {
  QuerySet q;
  for (int b = 0; b < 36; ++b) q.addBox(emb2(b, e));
  q.addEmpty();
  static const int AX[3][3] = {{0, 1, 2}, {1, 2, 0}, {0, 2, 1}};
  for (int u = 0; u < 3; ++u)
    for (int v = 0; v < 3; ++v) {
      int p[3];
      p[AX[e][0]] = u;
      p[AX[e][1]] = v;
      p[AX[e][2]] = 1;
      q.addPt(p[0], p[1], p[2]);
    }
  return q;
}

// ---------------------------------------------------------------- small collider check
struct ChkStat {
  uint64_t hash = 0;
  bool nontrivial = false;
  long pairs = 0, queries = 0;
};
static const int MAXN = 8, MAXQ = 256;

static std::string mism(const char* kind, const std::string& q, int leaf, const IB& lb, int got, int want) {
  std::ostringstream s;
  s << kind << " query " << q << " vs leaf " << leaf << " " << str(lb) << ": recorded " << got << " time(s), all-pairs scan says "
    << want;
  return s.str();
}

// Allocation-free structural guard for small trees: a malformed tree (cycle, missing leaf) is reported as such and
// not queried, because FindCollision's traversal need not terminate on it.
static const char* smallShapeProblem(const Collider& col, int n) {
  using namespace collider_internal;
  if ((int)col.internalChildren_.size() != n - 1 || (int)col.nodeBBox_.size() != 2 * n - 1) return "radix tree arrays have the wrong size";
  int visits[2 * MAXN] = {0}, stack[4 * MAXN], top = 0, steps = 0;
  stack[top++] = kRoot;
  visits[kRoot] = 1;
  while (top > 0) {
    int node = stack[--top];
    if (++steps > 4 * n) return "radix tree has a cycle";
    if (IsLeaf(node)) continue;
    auto ch = col.internalChildren_[Node2Internal(node)];
    for (int child : {ch.first, ch.second}) {
      if (child < 0 || child >= 2 * n - 1) return "radix tree has an out-of-range child";
      if (++visits[child] > 1) return "a radix tree node is reachable more than once";
      if (top >= 4 * MAXN) return "radix tree traversal overflow";
      stack[top++] = child;
    }
  }
  for (int i = 0; i < 2 * n - 1; ++i)
    if (visits[i] != 1) return "a radix tree node is not reachable from the root";
  return nullptr;
}

// Runs every query of Q through both Collisions overloads and compares the recorded (query, leaf) multiset
// with the all-pairs scan.  L are the current leaf boxes in leaf order.
static std::string checkColl(const Collider& col, const IB* L, int n, const QuerySet& Q, ChkStat& st, bool functorToo = false) {
  if (const char* sp = smallShapeProblem(col, n)) return sp;
  uint8_t cnt[MAXQ * MAXN];
  bool bad = false;
  int nq = (int)Q.boxes.size();
  auto f = [&](int q, int l) {
    if (q < 0 || q >= nq || l < 0 || l >= n)
      bad = true;
    else
      ++cnt[q * n + l];
  };
  auto rec = MakeSimpleRecorder(f);
  for (int pass = 0; pass < (functorToo ? 2 : 1); ++pass) {
    // ---- box queries
    nq = (int)Q.boxes.size();
    memset(cnt, 0, nq * n);
    if (pass == 0)
      col.Collisions<false>(rec, VecView<const Box>(Q.boxes.data(), Q.boxes.size()), pass == 0);
    else {
      auto qf = [&Q](const int i) -> Box { return Q.boxes[i]; };
      col.Collisions<false>(rec, qf, nq, false);
    }
    if (bad) return "recorder called with an out-of-range query or leaf index";
    uint64_t h = st.hash;
    for (int q = 0; q < nq; ++q) {
      int hits = 0;
      for (int l = 0; l < n; ++l) {
        int want = !Q.empty[q] && ovBB(L[l], Q.ib[q]);
        int got = cnt[q * n + l];
        if (got != want) return mism(pass ? "box(functor)" : "box", Q.empty[q] ? "Box()" : str(Q.ib[q]), l, L[l], got, want);
        hits += want;
      }
      st.pairs += hits;
      if (hits > 0 && hits < n) st.nontrivial = true;
    }
    st.queries += nq;
    h = hash_bytes(cnt, nq * n, h);
    // ---- point queries
    nq = (int)Q.pts.size();
    memset(cnt, 0, nq * n);
    if (pass == 0)
      col.Collisions<false>(rec, VecView<const vec3>(Q.pts.data(), Q.pts.size()), false);
    else {
      auto qf = [&Q](const int i) -> vec3 { return Q.pts[i]; };
      col.Collisions<false>(rec, qf, nq, true);
    }
    if (bad) return "recorder called with an out-of-range query or leaf index";
    for (int q = 0; q < nq; ++q) {
      int hits = 0;
      for (int l = 0; l < n; ++l) {
        int want = ovBP(L[l], Q.ip[q].data());
        int got = cnt[q * n + l];
        if (got != want) {
          char b[64];
          snprintf(b, sizeof b, "(%d,%d,%d)", Q.ip[q][0], Q.ip[q][1], Q.ip[q][2]);
          return mism(pass ? "point(functor)" : "point", b, l, L[l], got, want);
        }
        hits += want;
      }
      st.pairs += hits;
      if (hits > 0 && hits < n) st.nontrivial = true;
    }
    st.queries += nq;
    st.hash = hash_bytes(cnt, nq * n, h);
  }
  // ---- selfCollision variant: the leaves query themselves, the diagonal is skipped
  {
    Box lb[MAXN];
    for (int l = 0; l < n; ++l) lb[l] = toBox(L[l]);
    nq = n;
    memset(cnt, 0, n * n);
    col.Collisions<true>(rec, VecView<const Box>(lb, n));
    if (bad) return "recorder called with an out-of-range query or leaf index";
    for (int q = 0; q < n; ++q)
      for (int l = 0; l < n; ++l) {
        int want = q != l && ovBB(L[l], L[q]);
        int got = cnt[q * n + l];
        if (got != want) return mism("self", "leaf " + std::to_string(q) + " " + str(L[q]), l, L[l], got, want);
        st.pairs += want;
      }
    st.queries += n;
  }
  return "";
}

struct ColCase {
  int n = 0;
  IB L[MAXN];
  uint32_t codes[MAXN];
  std::string desc() const {
    char b[700];
    int k = snprintf(b, sizeof b, "n=%d leaves=", n);
    for (int i = 0; i < n; ++i)
      k += snprintf(b + k, sizeof b - k, "%s[%d..%d,%d..%d,%d..%d]", i ? ";" : "", L[i].lo[0], L[i].hi[0], L[i].lo[1], L[i].hi[1], L[i].lo[2], L[i].hi[2]);
    k += snprintf(b + k, sizeof b - k, " codes=");
    for (int i = 0; i < n; ++i) k += snprintf(b + k, sizeof b - k, "%s%u", i ? "," : "", codes[i]);
    return b;
  }
};
static Collider build(const IB* L, const uint32_t* codes, int n) {
  Box b[MAXN];
  for (int i = 0; i < n; ++i) b[i] = toBox(L[i]);
  return Collider(VecView<const Box>(b, n), VecView<const uint32_t>(codes, n));
}
static void updateBoxes(Collider& col, const IB* L, int n) {
  Box b[MAXN];
  for (int i = 0; i < n; ++i) b[i] = toBox(L[i]);
  col.UpdateBoxes(VecView<const Box>(b, n));
}
static uint64_t shapeHash(const Collider& col) {
  return hash_bytes(col.internalChildren_.data(), col.internalChildren_.size() * sizeof(std::pair<int, int>));
}

// fresh build + three UpdateBoxes histories ending in the same leaf set
static void runStatic(Ctx& c, const ColCase& cc, const std::string& d, const QuerySet& QF, const QuerySet& QU, bool functorToo) {
  const int n = cc.n;
  c.describe("col:" + d);
  ChkStat st;
  {
    Collider col = build(cc.L, cc.codes, n);
    st.hash = shapeHash(col);
    std::string why = checkColl(col, cc.L, n, QF, st, functorToo);
    if (!why.empty()) c.viol("col:" + d + " | build", d, why);
    c.count("builds");
  }
  c.distinct(st.hash);
  if (st.nontrivial) c.nontrivial(st.hash);
  // UpdateBoxes from adversarial earlier contents
  for (int k = 0; k < 3; ++k) {
    IB A[MAXN];
    const char* nm;
    if (k == 0) {
      for (int i = 0; i < n; ++i) A[i] = IB{{0, 0, 0}, {0, 0, 0}};
      nm = "build(all [0..0]^3).UpdateBoxes(leaves)";
    } else if (k == 1) {
      for (int i = 0; i < n; ++i) A[i] = IB{{0, 0, 0}, {2, 2, 2}};
      nm = "build(all [0..2]^3).UpdateBoxes(leaves)";
    } else {
      for (int i = 0; i < n; ++i) A[i] = cc.L[n - 1 - i];
      nm = "build(leaves reversed).UpdateBoxes(leaves)";
    }
    Collider col = build(A, cc.codes, n);
    updateBoxes(col, cc.L, n);
    std::string why = checkColl(col, cc.L, n, QU, st);
    if (!why.empty()) c.viol("col:" + d + " | " + nm, d, why);
    c.count("updates");
  }
  c.count("queries", st.queries);
  c.count("pairs_expected", st.pairs);
  c.count("cases");
}

// build; Transform(g); UpdateBoxes(reversed leaves); Transform(g) [; Transform(g)]  - queried after every step
static void runXform(Ctx& c, const ColCase& cc, const std::string& d, const XF& g, const QuerySet& Q, bool twice) {
  const int n = cc.n;
  {
    char b[1100];
    snprintf(b, sizeof b, "col:%s | %s", d.c_str(), g.name.c_str());
    c.describe(b);
  }
  ChkStat st;
  Collider col = build(cc.L, cc.codes, n);
  st.hash = shapeHash(col);
  mat3x4 m = toMat(g);
  if (!Collider::IsAxisAligned(m)) {
    c.viol("col:IsAxisAligned " + g.name, g.name, "IsAxisAligned rejects an axis-aligned map");
    return;
  }
  IB cur[MAXN];
  for (int i = 0; i < n; ++i) cur[i] = apply(g, cc.L[i]);
  col.Transform(m);
  std::string why = checkColl(col, cur, n, Q, st);
  if (!why.empty()) c.viol("col:" + d + " | build." + g.name, d, why);
  for (int i = 0; i < n; ++i) cur[i] = cc.L[n - 1 - i];
  updateBoxes(col, cur, n);
  why = checkColl(col, cur, n, Q, st);
  if (!why.empty()) c.viol("col:" + d + " | build." + g.name + ".UpdateBoxes(leaves reversed)", d, why);
  for (int rep = 0; rep < (twice ? 2 : 1); ++rep) {
    for (int i = 0; i < n; ++i) cur[i] = apply(g, cur[i]);
    col.Transform(m);
    why = checkColl(col, cur, n, Q, st);
    if (!why.empty())
      c.viol("col:" + d + " | build." + g.name + ".UpdateBoxes(leaves reversed)." + g.name + (rep ? "." + g.name : ""), d, why);
  }
  c.distinct(st.hash);
  if (st.nontrivial) c.nontrivial(st.hash);
  c.count("queries", st.queries);
  c.count("pairs_expected", st.pairs);
  c.count("cases");
  c.count("transforms", twice ? 3 : 2);
  c.count("updates", 1);
}

// ---------------------------------------------------------------- radix-tree shape (private members, read only)
static std::string checkShape(const Collider& col, int n, int& maxDepth) {
  using namespace collider_internal;
  maxDepth = 0;
  if ((int)col.internalChildren_.size() != n - 1) return "internalChildren_ has wrong size";
  if ((int)col.nodeParent_.size() != 2 * n - 1 || (int)col.nodeBBox_.size() != 2 * n - 1) return "node arrays have wrong size";
  std::vector<int> visits(2 * n - 1, 0);
  std::vector<std::pair<int, int>> stack;  // node, depth
  stack.push_back({kRoot, 0});
  if (col.nodeParent_[kRoot] != -1) return "root has a parent";
  visits[kRoot] = 1;
  long steps = 0;
  while (!stack.empty()) {
    auto [node, depth] = stack.back();
    stack.pop_back();
    if (++steps > 4L * n) return "traversal does not terminate (cycle)";
    maxDepth = std::max(maxDepth, depth);
    if (IsLeaf(node)) continue;
    auto ch = col.internalChildren_[Node2Internal(node)];
    for (int child : {ch.first, ch.second}) {
      if (child < 0 || child >= 2 * n - 1) return "internal node " + std::to_string(node) + " has child " + std::to_string(child);
      if (++visits[child] > 1) return "node " + std::to_string(child) + " is reachable more than once";
      if (col.nodeParent_[child] != node)
        return "nodeParent_[" + std::to_string(child) + "]=" + std::to_string(col.nodeParent_[child]) + " but it is a child of " +
               std::to_string(node);
      if (!col.nodeBBox_[node].Contains(col.nodeBBox_[child]))
        return "box of internal node " + std::to_string(node) + " does not contain the box of its child " + std::to_string(child);
      stack.push_back({child, depth + 1});
    }
  }
  for (int i = 0; i < 2 * n - 1; ++i)
    if (visits[i] != 1) return std::string(IsLeaf(i) ? "leaf " : "internal node ") + std::to_string(i / 2) + " is not reachable from the root";
  // FindCollision keeps at most one saved node per level on a stack of 64
  if (maxDepth > 64) return "tree depth " + std::to_string(maxDepth) + " exceeds the traversal stack of 64";
  return "";
}

// a recorder with real per-"thread" storage (exercises Recorder::local())
struct ListRecorder {
  using Local = std::vector<std::pair<int, int>>;
  Local store;
  void record(int q, int l, Local& loc) const { loc.emplace_back(q, l); }
  Local& local() { return store; }
};

// leaves on the x axis: leaf i = the point box [i,i] (identical=false) or all leaves = [0,0] (identical=true).
// Queries: [j,j], [j,j+1] for every j, [0,n-1], one miss; point queries (j,0,0) and (n+3,0,0).
static std::string checkLine(const Collider& col, int n, bool identical, long& nPairs) {
  std::vector<Box> qb;
  std::vector<std::pair<int, int>> qiv;
  auto addq = [&](int a, int b) {
    qiv.push_back({a, b});
    qb.push_back(Box(vec3(a, 0, 0), vec3(b, 0, 0)));
  };
  for (int j = 0; j < n; ++j) addq(j, j);
  for (int j = 0; j + 1 < n; ++j) addq(j, j + 1);
  addq(0, n - 1);
  addq(n + 1, n + 5);
  addq(-3, -1);
  auto leafLo = [&](int l) { return identical ? 0 : l; };
  // all-pairs scan, written as its closed form: leaf l sits at x = l (or at 0 when identical)
  std::vector<std::pair<int, int>> want;
  for (int q = 0; q < (int)qiv.size(); ++q) {
    int a = qiv[q].first, b = qiv[q].second;
    if (identical) {
      if (a <= 0 && 0 <= b)
        for (int l = 0; l < n; ++l) want.push_back({q, l});
    } else {
      for (int l = std::max(a, 0); l <= std::min(b, n - 1); ++l) want.push_back({q, l});
    }
  }
  ListRecorder rec;
  col.Collisions<false>(rec, VecView<const Box>(qb.data(), qb.size()));
  auto got = rec.store;
  std::sort(got.begin(), got.end());
  nPairs += (long)want.size();
  if (got != want) {
    // first difference
    size_t i = 0;
    while (i < got.size() && i < want.size() && got[i] == want[i]) ++i;
    std::ostringstream s;
    s << "box queries: recorded " << got.size() << " pairs, scan says " << want.size() << "; first difference at sorted position " << i
      << ": ";
    if (i < want.size()) s << "expected (query [" << qiv[want[i].first].first << ".." << qiv[want[i].first].second << "], leaf " << want[i].second << ") ";
    if (i < got.size()) s << "recorded (query [" << qiv[got[i].first].first << ".." << qiv[got[i].first].second << "], leaf " << got[i].second << ")";
    return s.str();
  }
  // points
  std::vector<vec3> qp;
  for (int j = 0; j < n; ++j) qp.push_back(vec3(j, 0, 0));
  qp.push_back(vec3(n + 3, 0, 0));
  want.clear();
  for (int q = 0; q < n; ++q) {  // the last point (n+3,0,0) hits nothing
    if (identical) {
      if (q == 0)
        for (int l = 0; l < n; ++l) want.push_back({q, l});
    } else
      want.push_back({q, q});
  }
  ListRecorder rec2;
  auto pf = [&](const int i) { return qp[i]; };
  col.Collisions<false>(rec2, pf, (int)qp.size(), false);
  got = rec2.store;
  std::sort(got.begin(), got.end());
  nPairs += (long)want.size();
  if (got != want) {
    std::ostringstream s;
    s << "point queries: recorded " << got.size() << " pairs, scan says " << want.size();
    return s.str();
  }
  // self collision: every leaf queries with its own box; expected per query: all other leaves (identical) or none.
  // Counted instead of stored (n^2 pairs); `last` detects a leaf reported twice for the same query.
  std::vector<Box> lb;
  for (int l = 0; l < n; ++l) lb.push_back(Box(vec3(leafLo(l), 0, 0), vec3(leafLo(l), 0, 0)));
  std::vector<int> hits(n, 0), last(n, -1);
  bool diag = false, dup = false, range = false;
  auto sf = [&](int q, int l) {
    if (q < 0 || q >= n || l < 0 || l >= n) {
      range = true;
      return;
    }
    if (q == l) diag = true;
    if (last[l] == q) dup = true;
    last[l] = q;
    ++hits[q];
  };
  auto srec = MakeSimpleRecorder(sf);
  col.Collisions<true>(srec, VecView<const Box>(lb.data(), lb.size()), false);
  if (range) return "selfCollision: index out of range";
  if (diag) return "selfCollision: the diagonal (query i, leaf i) was reported";
  if (dup) return "selfCollision: a pair was reported twice";
  for (int q = 0; q < n; ++q) {
    int wantSelf = identical ? n - 1 : 0;
    if (hits[q] != wantSelf) return "selfCollision: leaf " + std::to_string(q) + " met " + std::to_string(hits[q]) + " other leaves, scan says " + std::to_string(wantSelf);
    nPairs += wantSelf;
  }
  return "";
}

static std::string runsStr(const std::vector<uint32_t>& codes) {
  std::ostringstream s;
  for (size_t i = 0; i < codes.size();) {
    size_t j = i;
    while (j < codes.size() && codes[j] == codes[i]) ++j;
    s << (i ? " " : "") << codes[i] << "x" << (j - i);
    i = j;
  }
  return s.str();
}

static void runLine(Ctx& c, const std::vector<uint32_t>& codes, bool identical, const char* phaseKey) {
  int n = (int)codes.size();
  if (identical && n > 3000) {  // n^2 self pairs: the all-identical-boxes variant is bounded to n <= 3000
    c.count("skipped");
    return;
  }
  std::string d = std::string(phaseKey) + ":codes=" + runsStr(codes) + (identical ? " boxes=all [0,0]" : " boxes=leaf i at x=i");
  c.describe(d);
  std::vector<Box> lb;
  for (int l = 0; l < n; ++l) {
    int x = identical ? 0 : l;
    lb.push_back(Box(vec3(x, 0, 0), vec3(x, 0, 0)));
  }
  Collider col(VecView<const Box>(lb.data(), lb.size()), VecView<const uint32_t>(codes.data(), codes.size()));
  int depth = 0;
  std::string why = checkShape(col, n, depth);
  if (!why.empty()) {
    c.viol(d + " | shape", d, why);
    return;  // the traversal may not terminate on a broken tree
  }
  long pairs = 0;
  why = checkLine(col, n, identical, pairs);
  if (!why.empty()) c.viol(d + " | queries", d, why);
  uint64_t h = shapeHash(col);
  c.distinct(h);
  if (depth >= 2) c.nontrivial(h);
  c.count("cases");
  c.count("pairs_expected", pairs);
  c.count("max_depth_sum", depth);
}

// ---------------------------------------------------------------- 2-D helpers
struct IB2 {
  int lo[2], hi[2];
};
static inline bool ov2(const IB2& a, const IB2& b) {
  return a.lo[0] <= b.hi[0] && b.lo[0] <= a.hi[0] && a.lo[1] <= b.hi[1] && b.lo[1] <= a.hi[1];
}
static Box2 toBox2(const IB2& b) {
  Box2 o;
  o.min = vec2(b.lo[0], b.lo[1]);
  o.max = vec2(b.hi[0], b.hi[1]);
  return o;
}
static std::string str(const IB2& b) {
  char s[64];
  snprintf(s, sizeof s, "[%d..%d,%d..%d]", b.lo[0], b.hi[0], b.lo[1], b.hi[1]);
  return s;
}

struct Seg {
  int x0, y0, x1, y1;
};
// expected candidate pairs of the edge-pair broad phase: eps-padded boxes overlap (closed) and the pair is not a
// shared-endpoint pair that boolean2.cpp documents as dropped ("both non-shared endpoints are more than eps from
// the opposite edge line").  eps = epsQ / 4; everything in exact integers (quarter units).
static std::vector<std::pair<int, int>> expectPairs(const std::vector<Seg>& sg, const std::vector<EdgeM>& edges, int epsQ) {
  int n = (int)sg.size();
  std::vector<IB2> bx(n);
  for (int i = 0; i < n; ++i) {
    bx[i].lo[0] = 4 * std::min(sg[i].x0, sg[i].x1) - epsQ;
    bx[i].hi[0] = 4 * std::max(sg[i].x0, sg[i].x1) + epsQ;
    bx[i].lo[1] = 4 * std::min(sg[i].y0, sg[i].y1) - epsQ;
    bx[i].hi[1] = 4 * std::max(sg[i].y0, sg[i].y1) + epsQ;
  }
  std::vector<std::pair<int, int>> out;
  for (int i = 0; i < n; ++i)
    for (int j = i + 1; j < n; ++j) {
      if (!ov2(bx[i], bx[j])) continue;
      const EdgeM &a = edges[i], &b = edges[j];
      bool sh00 = a.v0 == b.v0, sh01 = a.v0 == b.v1, sh10 = a.v1 == b.v0, sh11 = a.v1 == b.v1;
      if (sh00 || sh01 || sh10 || sh11) {
        // shared vertex S, other ends A (of a) and B (of b)
        long sx, sy, ax, ay, bxx, byy;
        if (sh00 || sh01) {
          sx = sg[i].x0, sy = sg[i].y0, ax = sg[i].x1, ay = sg[i].y1;
        } else {
          sx = sg[i].x1, sy = sg[i].y1, ax = sg[i].x0, ay = sg[i].y0;
        }
        if (sh00 || sh10) {
          bxx = sg[j].x1, byy = sg[j].y1;
        } else {
          bxx = sg[j].x0, byy = sg[j].y0;
        }
        long dax = ax - sx, day = ay - sy, dbx = bxx - sx, dby = byy - sy;
        long cr = dax * dby - day * dbx;
        long la2 = dax * dax + day * day, lb2 = dbx * dbx + dby * dby;
        // dist(A, line SB) = |cr|/|SB| > eps and dist(B, line SA) = |cr|/|SA| > eps
        if (16 * cr * cr > (long)epsQ * epsQ * std::max(la2, lb2)) continue;  // documented drop
      }
      out.push_back({i, j});
    }
  return out;
}

// run both broad phases on one edge set; returns "" or the reason
static std::string checkPairs(const std::vector<Seg>& sg, bool shared, int epsQ, long& nPairs, bool& nontrivial,
                              std::vector<std::pair<int, int>>* wantOut = nullptr) {
  const int n = (int)sg.size();
  const double eps = epsQ / 4.0;
  std::vector<vec2> verts;
  std::vector<EdgeM> edges;
  if (shared) {
    // one vertex per distinct coordinate
    std::vector<std::pair<int, int>> pts;
    for (auto& s : sg) {
      pts.push_back({s.x0, s.y0});
      pts.push_back({s.x1, s.y1});
    }
    std::sort(pts.begin(), pts.end());
    pts.erase(std::unique(pts.begin(), pts.end()), pts.end());
    for (auto& p : pts) verts.push_back(vec2(p.first, p.second));
    auto id = [&](int x, int y) { return (int)(std::lower_bound(pts.begin(), pts.end(), std::make_pair(x, y)) - pts.begin()); };
    for (auto& s : sg) edges.push_back({id(s.x0, s.y0), id(s.x1, s.y1), 1});
  } else {
    for (auto& s : sg) {
      edges.push_back({(int)verts.size(), (int)verts.size() + 1, 1});
      verts.push_back(vec2(s.x0, s.y0));
      verts.push_back(vec2(s.x1, s.y1));
    }
  }
  std::vector<Box2> boxes(n);
  for (int i = 0; i < n; ++i) boxes[i] = BoxOf2DEdge(verts[edges[i].v0], verts[edges[i].v1], eps);
  auto want = expectPairs(sg, edges, epsQ);
  nPairs += (long)want.size();
  nontrivial = !want.empty() && want.size() < (size_t)n * (n - 1) / 2;
  if (wantOut) *wantOut = want;
  auto cmp = [&](std::vector<std::pair<int, int>> got, const char* path) -> std::string {
    std::sort(got.begin(), got.end());
    if (got == want) return "";
    size_t i = 0;
    while (i < got.size() && i < want.size() && got[i] == want[i]) ++i;
    std::ostringstream s;
    s << path << ": " << got.size() << " pairs, brute force says " << want.size() << "; first difference: ";
    if (i < want.size()) s << "expected (" << want[i].first << "," << want[i].second << ") ";
    if (i < got.size()) s << "got (" << got[i].first << "," << got[i].second << ")";
    return s.str();
  };
  std::vector<std::pair<int, int>> pairs;
  CollectIntersectionPairs(edges, verts, eps, boxes, BVH(), pairs);  // x-sorted sweep (below the gate)
  std::string why = cmp(pairs, "sweep path");
  if (!why.empty()) return why;
  if (n >= 2) {
    BVH bvh = BVHBuildFromBoxes(boxes);  // BVH path (at and above the gate)
    pairs.clear();
    CollectIntersectionPairs(edges, verts, eps, boxes, bvh, pairs);
    why = cmp(pairs, "BVH path");
    if (!why.empty()) return why;
  }
  return "";
}
static std::string str(const std::vector<Seg>& sg) {
  std::ostringstream s;
  for (size_t i = 0; i < sg.size(); ++i) s << (i ? " " : "") << "(" << sg[i].x0 << "," << sg[i].y0 << ")-(" << sg[i].x1 << "," << sg[i].y1 << ")";
  return s.str();
}

// structural edge families for the 1024 gate
static const char* FAMN[] = {"grid-h-disjoint", "grid-h-touching", "grid-mixed", "identical", "comb", "squares", "zigzag", "collinear-chain"};
static const int NFAM = 8;
static std::vector<Seg> family(int fam, int n, bool& shared) {
  std::vector<Seg> s;
  shared = false;
  static const int D[8][2] = {{1, 0}, {0, 1}, {1, 1}, {1, -1}, {2, 0}, {0, 2}, {2, 1}, {1, 2}};
  for (int i = 0; i < n; ++i) {
    switch (fam) {
      case 0: s.push_back({2 * (i % 32), i / 32, 2 * (i % 32) + 1, i / 32}); break;
      case 1: s.push_back({i % 32, i / 32, i % 32 + 1, i / 32}); break;
      case 2: s.push_back({i % 32, i / 32, i % 32 + D[i % 8][0], i / 32 + D[i % 8][1]}); break;
      case 3: s.push_back({0, 0, 1, 1}); break;
      case 4:
        if (i == 0)
          s.push_back({0, 0, n, 0});
        else
          s.push_back({i, -1, i, 1});
        break;
      case 5: {  // squares of side 3 on a pitch of 2 (neighbours overlap), vertices shared inside a square
        shared = true;
        int k = i / 4, e = i % 4, ox = 2 * (k % 16), oy = 2 * (k / 16);
        static const int C[5][2] = {{0, 0}, {3, 0}, {3, 3}, {0, 3}, {0, 0}};
        s.push_back({ox + C[e][0], oy + C[e][1], ox + C[e + 1][0], oy + C[e + 1][1]});
        break;
      }
      case 6: shared = true; s.push_back({i, i % 2, i + 1, (i + 1) % 2}); break;
      case 7: shared = true; s.push_back({i, 0, i + 1, 0}); break;
    }
  }
  return s;
}

// ---------------------------------------------------------------- main
int main(int argc, char** argv) {
  Runner R("C14", argc, argv);
  // The sanitizer build always runs its own (smaller) bound - same phases, smaller alphabets - in both tiers;
  // the seq-fast build carries the quick / thorough bounds.
  const bool thorough = R.a.thorough() && !kAsan;
  const bool asanQuick = kAsan;
  initBin();
  const std::vector<uint32_t> SYM5 = {0, 1, 4, 5, 0x3FFFFFFFu};
  const QuerySet QFULL = makeQFull();
  const QuerySet QPL[3] = {makeQPlane(0), makeQPlane(1), makeQPlane(2)};
  const std::vector<XF> XFS = makeXFs();
  const std::vector<const char*> CN = {"cases", "builds", "updates", "transforms", "queries", "pairs_expected"};

  // ---------- the documented overlap tests themselves, Box::Transform and Box::Union against the integer model
  {
    std::vector<IB> all;
    for (size_t i = 0; i < QFULL.ib.size(); ++i)
      if (!QFULL.empty[i]) all.push_back(QFULL.ib[i]);
    R.phase("box-model", 216, 8,
            [&](uint64_t idx, Ctx& c) {
              const IB& A = all[idx];
              Box a = toBox(A);
              c.describe("box-model:" + str(A));
              for (auto& Bq : all) {
                Box b = toBox(Bq);
                if (a.DoesOverlap(b) != ovBB(A, Bq)) c.viol("box-model:DoesOverlap " + str(A) + " " + str(Bq), str(A), "Box::DoesOverlap(Box) differs from the closed-interval test");
                Box u = a.Union(b);
                IB U;
                for (int k = 0; k < 3; ++k) U.lo[k] = std::min(A.lo[k], Bq.lo[k]), U.hi[k] = std::max(A.hi[k], Bq.hi[k]);
                if (u != toBox(U)) c.viol("box-model:Union " + str(A) + " " + str(Bq), str(A), "Box::Union differs from the componentwise hull");
                c.count("cases");
              }
              if (a.DoesOverlap(Box()) || Box().DoesOverlap(a)) c.viol("box-model:empty " + str(A), str(A), "the default (empty) Box overlaps a finite box");
              for (auto& p : QFULL.ip)
                if (a.DoesOverlap(vec3(p[0], p[1], p[2])) != ovBP(A, p.data()))
                  c.viol("box-model:DoesOverlap(vec3) " + str(A), str(A), "Box::DoesOverlap(vec3) differs from the z-projected closed test");
              for (auto& g : XFS) {
                if (a.Transform(toMat(g)) != toBox(apply(g, A))) c.viol("box-model:Transform " + str(A) + " " + g.name, str(A), "Box::Transform differs from the integer model");
                c.count("transforms");
              }
              c.distinct(idx + 1);
              c.nontrivial(idx + 1);
            },
            CN);
  }

  // ---------- Collider, n = 2: all ordered pairs of the 36 boxes x 15 code sequences x 3 embeddings;
  // fresh build + UpdateBoxes histories (full query set), then every axis-aligned map
  {
    auto seqs = codeSeqs(2, SYM5);
    std::vector<int> radix = {36, 36, (int)seqs.size(), asanQuick ? 1 : 3};
    R.phase("col-n2", product(radix), (uint64_t)seqs.size() * 3,
            [&](uint64_t idx, Ctx& c) {
              auto d = digits(idx, radix);
              ColCase cc;
              cc.n = 2;
              cc.L[0] = emb2(d[0], d[3]);
              cc.L[1] = emb2(d[1], d[3]);
              for (int i = 0; i < 2; ++i) cc.codes[i] = seqs[d[2]][i];
              std::string ds = cc.desc();
              runStatic(c, cc, ds, QFULL, QFULL, true);
              // n = 2 has a single tree shape, so quick runs the maps for three code sequences only (thorough: all)
              bool seqSel = (cc.codes[0] == 0 && cc.codes[1] <= 1) || cc.codes[0] == 0x3FFFFFFFu;
              if ((d[3] == 0 && !asanQuick && seqSel) || thorough)
                for (auto& g : XFS) runXform(c, cc, ds, g, QFULL, true);
              if (idx % 9973 == 0) c.sample(ds);
            },
            CN);
  }

  // ---------- Collider, n = 3: all ordered triples of the 36 boxes x 35 code sequences x embeddings
  {
    auto seqs = codeSeqs(3, SYM5);
    const int nemb = thorough ? 3 : 1;  // quick: the xy plane (n=2 covers all planes, col-n3-xform all axis permutations)
    const int nb3 = asanQuick ? 9 : 36;  // ASan quick: boxes of {0,1}^2
    std::vector<int> radix = {nb3, nb3, nb3, (int)seqs.size(), nemb};
    R.phase("col-n3", product(radix), (uint64_t)seqs.size() * nemb,
            [&](uint64_t idx, Ctx& c) {
              auto d = digits(idx, radix);
              ColCase cc;
              cc.n = 3;
              for (int i = 0; i < 3; ++i) cc.L[i] = asanQuick ? emb2(d[i], d[4], IVS, 3) : emb2(d[i], d[4]), cc.codes[i] = seqs[d[3]][i];
              std::string ds = cc.desc();
              runStatic(c, cc, ds, QFULL, QPL[d[4]], false);
              if (idx % 300007 == 0) c.sample(ds);
            },
            CN, 24);
  }

  // ---------- Collider, n = 3 under Transform: the 9 boxes of {0,1}^2 x code sequences over
  // {0,0x3FFFFFFF} (4; thorough: SYM5, 35) x 58 maps.  (n = 3 has only two tree shapes, both reached by the 4
  // sequences; Transform works per node.)
  const std::vector<uint32_t> SYM3 = {0, 0x3FFFFFFFu};
  {
    auto seqs = codeSeqs(3, thorough ? SYM5 : SYM3);
    const int nb = asanQuick ? 3 : 9;  // ASan subset: the 3 boxes [0..0|0..1|1..1] x [0..0]
    std::vector<int> radix = {nb, nb, nb, (int)seqs.size(), (int)XFS.size()};
    R.phase("col-n3-xform", product(radix), XFS.size(),
            [&](uint64_t idx, Ctx& c) {
              auto d = digits(idx, radix);
              ColCase cc;
              cc.n = 3;
              for (int i = 0; i < 3; ++i) {
                cc.L[i] = emb2(d[i], 0, IVS, 3);
                cc.codes[i] = seqs[d[3]][i];
              }
              std::string ds = cc.desc();
              runXform(c, cc, ds, XFS[d[4]], QFULL, thorough);
              if (idx % 300007 == 0) c.sample(ds + " " + XFS[d[4]].name);
            },
            CN, 24);
  }

  // ---------- Collider, n = 4, 5 (thorough: 6) with 1-D boxes along each axis
  for (int n = 4; n <= (thorough ? 6 : 5); ++n) {
    auto seqs = codeSeqs(n, asanQuick && n == 5 ? std::vector<uint32_t>{0, 5, 0x3FFFFFFFu} : SYM5);
    const int nax = (n == 6 || (!thorough && n == 5) || asanQuick) ? 1 : 3;  // quick n=5: along x only (n=4 covers every axis)
    const int niv = asanQuick ? 3 : 6;                              // ASan quick: intervals over {0,1}
    std::vector<int> radix;
    for (int i = 0; i < n; ++i) radix.push_back(niv);
    radix.push_back((int)seqs.size());
    radix.push_back(nax);
    R.phase("col-n" + std::to_string(n), product(radix), (uint64_t)seqs.size() * nax,
            [&, n](uint64_t idx, Ctx& c) {
              auto d = digits(idx, radix);
              ColCase cc;
              cc.n = n;
              int e = d[n + 1];
              for (int i = 0; i < n; ++i) cc.L[i] = asanQuick ? emb1(d[i], e, IVS) : emb1(d[i], e), cc.codes[i] = seqs[d[n]][i];
              // the plane that contains axis e: e=0 -> xy, e=1 -> yz, e=2 -> xz
              const QuerySet& QP = QPL[e == 0 ? 0 : e == 1 ? 1 : 2];
              std::string ds = cc.desc();
              runStatic(c, cc, ds, thorough && n < 6 ? QFULL : QP, QP, false);
              if (idx % 500009 == 0) c.sample(ds);
            },
            CN, 24);
  }

  // ---------- Collider, n = 4 (thorough: 5) under Transform: 1-D boxes over {0,1} along x x sequences x maps
  for (int n = 4; n <= (thorough ? 5 : 4) && !asanQuick; ++n) {
    auto seqs = codeSeqs(n, thorough ? SYM5 : SYM3);
    std::vector<int> radix;
    for (int i = 0; i < n; ++i) radix.push_back(3);
    radix.push_back((int)seqs.size());
    radix.push_back((int)XFS.size());
    R.phase("col-n" + std::to_string(n) + "-xform", product(radix), XFS.size(),
            [&, n](uint64_t idx, Ctx& c) {
              auto d = digits(idx, radix);
              ColCase cc;
              cc.n = n;
              for (int i = 0; i < n; ++i) cc.L[i] = emb1(d[i], 0, IVS), cc.codes[i] = seqs[d[n]][i];
              std::string ds = cc.desc();
              runXform(c, cc, ds, XFS[d[n + 1]], QFULL, thorough);
              if (idx % 100003 == 0) c.sample(ds + " " + XFS[d[n + 1]].name);
            },
            CN);
  }

  // ---------- Collider built the way sort.cpp builds it: codes = Collider::MortonCode(centre, bounding box),
  // stable sort by code; all ordered tuples of the 27 boxes of {0,1}^3, n = 2..4
  {
    std::vector<IB> b27;
    for (int a = 0; a < 3; ++a)
      for (int b = 0; b < 3; ++b)
        for (int cc = 0; cc < 3; ++cc) b27.push_back(IB{{IVS[a][0], IVS[b][0], IVS[cc][0]}, {IVS[a][1], IVS[b][1], IVS[cc][1]}});
    for (int n = 2; n <= (asanQuick ? 2 : 4); ++n) {
      std::vector<int> radix(n, 27);
      R.phase("col-morton-n" + std::to_string(n), product(radix), 27,
              [&, n](uint64_t idx, Ctx& c) {
                auto d = digits(idx, radix);
                IB in[MAXN];
                Box bb;
                for (int i = 0; i < n; ++i) in[i] = b27[d[i]], bb = bb.Union(toBox(in[i]));
                uint32_t code[MAXN];
                int order[MAXN];
                std::string ds = "n=" + std::to_string(n) + " boxes=";
                for (int i = 0; i < n; ++i) ds += (i ? ";" : "") + str(in[i]);
                c.describe("col-morton:" + ds);
                for (int i = 0; i < n; ++i) code[i] = Collider::MortonCode(toBox(in[i]).Center(), bb), order[i] = i;
                std::stable_sort(order, order + n, [&](int a, int b) { return code[a] < code[b]; });
                ColCase cc;
                cc.n = n;
                for (int i = 0; i < n; ++i) cc.L[i] = in[order[i]], cc.codes[i] = code[order[i]];
                ChkStat st;
                Collider col = build(cc.L, cc.codes, n);
                st.hash = shapeHash(col);
                std::string why = checkColl(col, cc.L, n, QFULL, st);
                if (!why.empty()) c.viol("col-morton:" + ds, ds, cc.desc() + ": " + why);
                c.distinct(st.hash);
                if (st.nontrivial) c.nontrivial(st.hash);
                c.count("cases");
                c.count("builds");
                c.count("queries", st.queries);
                c.count("pairs_expected", st.pairs);
                if (idx % 50021 == 0) c.sample(cc.desc());
              },
              CN);
    }
  }

  // ---------- radix-tree shape: all non-decreasing code sequences of length 2..Lmax over SYM5 (thorough: 6 symbols)
  {
    std::vector<uint32_t> sym = SYM5;
    if (thorough) sym = {0, 1, 4, 5, 6, 0x3FFFFFFFu};
    const int Lmax = thorough ? 20 : asanQuick ? 10 : 16, k = (int)sym.size();
    std::vector<uint64_t> off = {0};
    for (int n = 2; n <= Lmax; ++n) off.push_back(off.back() + nMulti(n, k));
    R.phase("radix-shape", off.back() * 2, 64,
            [&](uint64_t idx, Ctx& c) {
              bool identical = idx & 1;
              uint64_t i = idx >> 1;
              // off[j] is the first index of length j+2
              int n = 2;
              while (i >= off[n - 1]) ++n;
              std::vector<int> cnt(k);
              unrankMulti(i - off[n - 2], n, k, cnt.data());
              std::vector<uint32_t> codes;
              for (int j = 0; j < k; ++j)
                for (int r = 0; r < cnt[j]; ++r) codes.push_back(sym[j]);
              runLine(c, codes, identical, "radix");
              if (idx % 2001 == 0) c.sample(runsStr(codes));
            },
            {"cases", "pairs_expected", "max_depth_sum", "skipped"});
  }

  // ---------- long runs of identical codes around kInitialLength (128) and 128*4 (512; thorough: 2048, 8192):
  // codes = 0 x p, 5 x L, 0x3FFFFFFF x s
  {
    std::vector<int> Ls, Ps = {0, 1, 2, 3, 7, 8, 9, 127, 128, 129, 130}, Ss = {0, 1, 2, 128, 129};
    if (asanQuick) {
      Ls = {128, 129, 512, 513};
      Ps = {0, 1, 129};
      Ss = {0, 1};
    } else {
      for (int L = 126; L <= 131; ++L) Ls.push_back(L);
      for (int L = 510; L <= 515; ++L) Ls.push_back(L);
    }
    if (thorough) {
      for (int L = 2046; L <= 2050; ++L) Ls.push_back(L);
      for (int L = 8190; L <= 8194; ++L) Ls.push_back(L);
      for (int p : {511, 512, 513}) Ps.push_back(p);
    }
    std::vector<int> radix = {(int)Ls.size(), (int)Ps.size(), (int)Ss.size(), 2};
    R.phase("radix-runs", product(radix), 1,
            [&](uint64_t idx, Ctx& c) {
              auto d = digits(idx, radix);
              std::vector<uint32_t> codes;
              codes.insert(codes.end(), Ps[d[1]], 0u);
              codes.insert(codes.end(), Ls[d[0]], 5u);
              codes.insert(codes.end(), Ss[d[2]], 0x3FFFFFFFu);
              runLine(c, codes, d[3], "radix");
              if (idx % 101 == 0) c.sample(runsStr(codes));
            },
            {"cases", "pairs_expected", "max_depth_sum", "skipped"});
    // two adjacent long runs
    if (asanQuick) Ls = {129, 513};
    std::vector<int> radix2 = {(int)Ls.size(), (int)Ls.size(), 2};
    R.phase("radix-runs2", product(radix2), 1,
            [&](uint64_t idx, Ctx& c) {
              auto d = digits(idx, radix2);
              std::vector<uint32_t> codes;
              codes.insert(codes.end(), Ls[d[0]], 4u);
              codes.insert(codes.end(), Ls[d[1]], 5u);
              runLine(c, codes, d[2], "radix");
              if (idx % 37 == 0) c.sample(runsStr(codes));
            },
            {"cases", "pairs_expected", "max_depth_sum", "skipped"});
  }

  // ---------- 2-D BVH: BVHBuildFromBoxes + BVHCollisions / CollidePairs, all ordered tuples of lattice rectangles
  {
    std::vector<IB2> r36, r9;
    for (int a = 0; a < 6; ++a)
      for (int b = 0; b < 6; ++b) r36.push_back(IB2{{IVL[a][0], IVL[b][0]}, {IVL[a][1], IVL[b][1]}});
    for (int a = 0; a < 3; ++a)
      for (int b = 0; b < 3; ++b) r9.push_back(IB2{{IVS[a][0], IVS[b][0]}, {IVS[a][1], IVS[b][1]}});
    std::vector<Box2> qb;
    for (auto& r : r36) qb.push_back(toBox2(r));
    qb.push_back(Box2());  // empty
    for (int n = 2; n <= (thorough ? 6 : asanQuick ? 4 : 5); ++n) {
      const std::vector<IB2>& src = n <= (asanQuick ? 2 : 3) ? r36 : r9;
      std::vector<int> radix(n, (int)src.size());
      R.phase("bvh2d-n" + std::to_string(n), product(radix), src.size(),
              [&, n](uint64_t idx, Ctx& c) {
                auto d = digits(idx, radix);
                std::vector<Box2> boxes;
                std::string ds = "boxes=";
                for (int i = 0; i < n; ++i) boxes.push_back(toBox2(src[d[i]])), ds += (i ? ";" : "") + str(src[d[i]]);
                c.describe("bvh2d:" + ds);
                BVH bvh = BVHBuildFromBoxes(boxes);
                // leafToOrig must be a permutation
                std::vector<int> seen(n, 0);
                bool perm = (int)bvh.leafToOrig.size() == n;
                if (perm)
                  for (int v : bvh.leafToOrig)
                    if (v < 0 || v >= n || seen[v]++) perm = false;
                if (!perm) {
                  c.viol("bvh2d:" + ds + " | leafToOrig", ds, "leafToOrig is not a permutation of the input boxes");
                  return;
                }
                int nq = (int)qb.size();
                std::vector<uint8_t> cnt(nq * n, 0), cnt2(nq * n, 0);
                bool bad = false;
                CollidePairs(bvh, qb, [&](int q, int o) {
                  if (q < 0 || q >= nq || o < 0 || o >= n)
                    bad = true;
                  else
                    ++cnt[q * n + o];
                });
                ListRecorder rec;
                auto qf = [&](int i) { return qb[i]; };
                BVHCollisions(bvh, rec, qf, nq, true);
                for (auto& p : rec.store) {
                  if (p.first < 0 || p.first >= nq || p.second < 0 || p.second >= n)
                    bad = true;
                  else
                    ++cnt2[p.first * n + bvh.leafToOrig[p.second]];
                }
                if (bad) {
                  c.viol("bvh2d:" + ds + " | index", ds, "recorder called with an out-of-range index");
                  return;
                }
                long pairs = 0;
                bool nt = false;
                for (int q = 0; q < nq; ++q) {
                  int hits = 0;
                  for (int o = 0; o < n; ++o) {
                    int want = q < 36 && ov2(r36[q], src[d[o]]);
                    hits += want;
                    if (cnt[q * n + o] != want || cnt2[q * n + o] != want) {
                      std::ostringstream s;
                      s << "query " << (q < 36 ? str(r36[q]) : std::string("Box2()")) << " vs input box " << o << ": CollidePairs reported " << (int)cnt[q * n + o]
                        << ", BVHCollisions " << (int)cnt2[q * n + o] << ", brute force " << want;
                      c.viol("bvh2d:" + ds, ds, s.str());
                      return;
                    }
                  }
                  pairs += hits;
                  if (hits > 0 && hits < n) nt = true;
                }
                uint64_t h = hash_bytes(cnt.data(), cnt.size(), hash_bytes(bvh.internalChildren.data(), bvh.internalChildren.size() * sizeof(std::pair<int, int>)));
                c.distinct(h);
                if (nt) c.nontrivial(h);
                c.count("cases");
                c.count("queries", 2 * nq);
                c.count("pairs_expected", pairs);
                if (idx % 20011 == 0) c.sample(ds);
              },
              {"cases", "queries", "pairs_expected"});
    }
  }

  // ---------- edge-pair broad phase on small edge sets: both paths (sweep / BVH) x eps in {0, 1/4} x
  // {private vertices, shared vertices}; k = 2, 3 directed lattice segments of {0,1,2}^2, k = 4 (thorough 5) of {0,1}^2
  {
    auto segsOf = [](int m, bool directed) {
      std::vector<Seg> s;
      for (int a = 0; a < m * m; ++a)
        for (int b = 0; b < m * m; ++b)
          if (a != b && (directed || a < b)) s.push_back({a / m, a % m, b / m, b % m});
      return s;
    };
    // ASan quick: k = 2 over the 36 undirected segments of {0,1,2}^2, k = 3 over the 12 directed ones of {0,1}^2, k = 4 over the 6 undirected ones
    std::vector<Seg> s72 = segsOf(3, true), s12 = segsOf(2, true), s36 = segsOf(3, false), s6 = segsOf(2, false);
    for (int k = 2; k <= (thorough ? 5 : 4); ++k) {
      const std::vector<Seg>& src = asanQuick ? (k == 2 ? s36 : k == 3 ? s12 : s6) : k <= 3 ? s72 : s12;
      std::vector<int> radix(k, (int)src.size());
      radix.push_back(2);
      radix.push_back(2);
      R.phase("pairs-k" + std::to_string(k), product(radix), 4 * src.size(),
              [&, k](uint64_t idx, Ctx& c) {
                auto d = digits(idx, radix);
                std::vector<Seg> sg;
                for (int i = 0; i < k; ++i) sg.push_back(src[d[i]]);
                bool shared = d[k];
                int epsQ = d[k + 1];
                std::string ds = "edges=" + str(sg) + (shared ? " shared-verts" : " private-verts") + " eps=" + (epsQ ? "0.25" : "0");
                c.describe("pairs:" + ds);
                long np = 0;
                bool nt = false;
                std::vector<std::pair<int, int>> want;
                std::string why = checkPairs(sg, shared, epsQ, np, nt, &want);
                if (!why.empty()) c.viol("pairs:" + ds, ds, why);
                // distinct = distinct (input, expected candidate set); non-trivial = some but not all pairs are candidates
                // (k = 2: the single pair is a candidate)
                uint64_t h = mix64(idx + 1);
                if (!want.empty()) h = hash_bytes(want.data(), want.size() * sizeof(want[0]), h);
                c.distinct(h);
                if (nt || (k == 2 && !want.empty())) c.nontrivial(h);
                c.count("cases");
                c.count("pairs_expected", np);
                if (idx % 100003 == 0) c.sample(ds);
              },
              {"cases", "pairs_expected"});
    }
  }

  // ---------- edge-pair broad phase on both sides of kEdgePairBvhThreshold = 1024: structural families
  {
    std::vector<int> Ns = {1022, 1023, 1024, 1025, 1026};
    if (asanQuick) Ns = {1023, 1024, 1025};
    if (thorough)
      for (int n : {511, 512, 513, 2047, 2048, 2049, 4096, 4100}) Ns.push_back(n);
    std::vector<int> radix = {NFAM, (int)Ns.size(), 2};
    R.phase("pairs-gate", product(radix), 1,
            [&](uint64_t idx, Ctx& c) {
              auto d = digits(idx, radix);
              int n = Ns[d[1]], epsQ = d[2];
              bool shared;
              std::vector<Seg> sg = family(d[0], n, shared);
              std::string ds = std::string("family=") + FAMN[d[0]] + " n=" + std::to_string(n) + " eps=" + (epsQ ? "0.25" : "0");
              c.describe("pairs-gate:" + ds);
              long np = 0;
              bool nt = false;
              std::string why = checkPairs(sg, shared, epsQ, np, nt);
              if (!why.empty()) c.viol("pairs-gate:" + ds, ds, why);
              c.distinct(idx + 1);
              if (nt) c.nontrivial(idx + 1);
              c.count("cases");
              c.count("pairs_expected", np);
              c.count(n >= kEdgePairBvhThreshold ? "driver_would_use_bvh" : "driver_would_use_sweep");
              if (n == 1024) c.sample(ds + ": " + std::to_string(np) + " pairs");
            },
            {"cases", "pairs_expected", "driver_would_use_bvh", "driver_would_use_sweep"});
  }

  // ---------- the gate inside the driver: RemoveOverlaps2D on 1023 edges (sweep) and on the same input plus one
  // far-away triangle (1026 edges, BVH) must produce the same arrangement for the common part
  {
    R.phase("gate-e2e", 6, 1,
            [&](uint64_t idx, Ctx& c) {
              int lay = idx % 3;
              WindRule rule = idx / 3 ? WindRule::EvenOdd : WindRule::Add;
              std::vector<vec2> verts;
              std::vector<EdgeM> edges;
              auto poly = [&](std::initializer_list<std::pair<int, int>> p) {
                int base = (int)verts.size(), m = (int)p.size(), i = 0;
                for (auto& q : p) {
                  verts.push_back(vec2(q.first, q.second));
                  edges.push_back({base + i, base + (i + 1) % m, 1});
                  ++i;
                }
              };
              for (int k = 0; k < 255; ++k) {
                int ox = lay == 0 ? 2 * k : lay == 1 ? 2 * (k % 16) : 4 * (k % 16), oy = lay == 0 ? 0 : lay == 1 ? 2 * (k / 16) : 4 * (k / 16);
                poly({{ox, oy}, {ox + 3, oy}, {ox + 3, oy + 3}, {ox, oy + 3}});
              }
              poly({{0, 100}, {2, 100}, {0, 102}});
              std::string ds = std::string("layout=") + (lay == 0 ? "row" : lay == 1 ? "grid-overlapping" : "grid-disjoint") + " rule=" + (idx / 3 ? "EvenOdd" : "Add");
              c.describe("gate-e2e:" + ds);
              const double eps = EpsilonFromScale(5002.0);
              auto canon = [&](const OverlapResult& r, bool farPart) {
                std::vector<std::array<double, 5>> v;
                for (auto& e : r.edges) {
                  vec2 a = r.verts[e.v0], b = r.verts[e.v1];
                  if ((a.x > 4000) != farPart) continue;
                  v.push_back({a.x, a.y, b.x, b.y, (double)e.mult});
                }
                std::sort(v.begin(), v.end());
                return v;
              };
              if ((int)edges.size() != 1023) abort();
              OverlapResult r1 = RemoveOverlaps2D(verts, edges, eps, false, rule);
              poly({{5000, 5000}, {5002, 5000}, {5000, 5002}});
              if ((int)edges.size() != 1026) abort();
              OverlapResult r2 = RemoveOverlaps2D(verts, edges, eps, false, rule);
              auto a = canon(r1, false), b = canon(r2, false), f = canon(r2, true);
              c.count("cases");
              c.count("pairs_expected", (long)a.size());
              if (!a.empty()) {
                uint64_t h = hash_bytes(a.data(), a.size() * sizeof(a[0]));
                c.distinct(h);
                c.nontrivial(h);
              }
              if (a != b) {
                std::ostringstream s;
                s << "1023-edge input (sweep broad phase) gives " << a.size() << " output edges, the same input + a far triangle (1026 edges, BVH broad phase) gives "
                  << b.size() << " for the common part, or they differ in position";
                c.viol("gate-e2e:" + ds, ds, s.str());
              }
              if (f.size() != 3) c.viol("gate-e2e:" + ds + " | far triangle", ds, "the isolated far triangle is not returned as 3 edges");
              c.sample(ds + ": " + std::to_string(a.size()) + " output edges");
            },
            {"cases", "pairs_expected"});
  }

  // ---------- polygon k-d tree: all multisets of n points of the 3x3 lattice x 3 input orders x all rectangles
  {
    // n <= 8: linear scan; 9..17: one split level; 18: the left half (9 points) is split again, the right half (8) is
    // not; 19: both halves (9 + 9) are split again - the smallest size that reaches the second level on both sides
    // (mutation M5 in findings/C14.md is invisible below 19)
    std::vector<int> sizes;
    if (asanQuick)
      sizes = {0, 1, 9};
    else
      for (int n = 0; n <= 12; ++n) sizes.push_back(n);
    if (asanQuick) {
      // ASan quick subset: one split level only (the second level is in the seq-fast run and in thorough)
    } else {
      sizes.push_back(19);
      if (thorough)
        for (int n : {13, 14, 15, 16, 17, 18, 20, 21}) sizes.push_back(n);
    }
    std::vector<uint64_t> off = {0};
    for (int n : sizes) off.push_back(off.back() + nMulti(n, 9));
    std::vector<Rect> rects;
    std::vector<IB2> rib;
    for (int a = 0; a < 6; ++a)
      for (int b = 0; b < 6; ++b) {
        Rect r;
        r.min = vec2(IVL[a][0], IVL[b][0]);
        r.max = vec2(IVL[a][1], IVL[b][1]);
        rects.push_back(r);
        rib.push_back(IB2{{IVL[a][0], IVL[b][0]}, {IVL[a][1], IVL[b][1]}});
      }
    rects.push_back(Rect());  // empty
    static const int ORD[3][9] = {{0, 1, 2, 3, 4, 5, 6, 7, 8}, {8, 7, 6, 5, 4, 3, 2, 1, 0}, {4, 0, 8, 2, 6, 1, 7, 3, 5}};
    R.phase("kd2d", off.back() * 3, 300,
            [&](uint64_t idx, Ctx& c) {
              int ord = idx % 3;
              uint64_t i = idx / 3;
              size_t si = 0;
              while (i >= off[si + 1]) ++si;
              int n = sizes[si];
              if (!thorough && n > 12 && ord != 2) {  // quick: the two-level sizes only in the order that is neither sort order
                c.count("skipped");
                return;
              }
              int cnt[9];
              unrankMulti(i - off[si], n, 9, cnt);
              PolyVert pts[32];
              std::pair<int, int> orig[32];
              int np = 0;
              for (int j = 0; j < 9; ++j) {
                int p = ORD[ord][j];
                for (int r = 0; r < cnt[p]; ++r) {
                  pts[np] = PolyVert{vec2(p / 3, p % 3), np};
                  orig[np++] = {p / 3, p % 3};
                }
              }
              // mult[p] = multiplicity of lattice point (p/3, p%3); the input lists the points in the stated order
              char ds[160];
              snprintf(ds, sizeof ds, "mult=[%d,%d,%d,%d,%d,%d,%d,%d,%d] order=%s", cnt[0], cnt[1], cnt[2], cnt[3], cnt[4], cnt[5], cnt[6], cnt[7], cnt[8],
                       ord == 0 ? "ascending" : ord == 1 ? "descending" : "4,0,8,2,6,1,7,3,5");
              c.describe(std::string("kd2d:") + ds);
              VecView<PolyVert> view(pts, np);
              BuildTwoDTree(view);
              uint8_t hit[32];
              long pairs = 0;
              bool nt = false;
              for (size_t q = 0; q < rects.size(); ++q) {
                memset(hit, 0, sizeof hit);
                bool bad = false;
                QueryTwoDTree(view, rects[q], [&](const PolyVert& p) {
                  if (p.idx < 0 || p.idx >= n)
                    bad = true;
                  else
                    ++hit[p.idx];
                });
                int hits = 0;
                for (int v = 0; v < n && !bad; ++v) {
                  int want = q < 36 && orig[v].first >= rib[q].lo[0] && orig[v].first <= rib[q].hi[0] && orig[v].second >= rib[q].lo[1] &&
                             orig[v].second <= rib[q].hi[1];
                  hits += want;
                  if (hit[v] != want) {
                    std::ostringstream s;
                    s << "rectangle " << (q < 36 ? str(rib[q]) : std::string("Rect()")) << ": point #" << v << " (" << orig[v].first << "," << orig[v].second
                      << ") reported " << (int)hit[v] << " time(s), brute force says " << want;
                    c.viol(std::string("kd2d:") + ds, ds, s.str());
                    return;
                  }
                }
                if (bad) {
                  c.viol(std::string("kd2d:") + ds + " | idx", ds, "a reported PolyVert carries an index that was not in the input");
                  return;
                }
                pairs += hits;
                if (hits > 0 && hits < n) nt = true;
              }
              uint64_t h = hash_bytes(cnt, sizeof cnt, 7);  // distinct = distinct point multisets (input order ignored)
              c.distinct(h);
              if (nt && n > 8) c.nontrivial(h);
              c.count("cases");
              c.count("queries", (long)rects.size());
              c.count("pairs_expected", pairs);
              if (idx % 700001 == 0) c.sample(ds);
            },
            {"cases", "queries", "pairs_expected", "skipped"}, thorough ? 25 : 23);
  }

  // ---------- polygon k-d tree: all subsets of >= 9 points of the 4x4 lattice (distinct points) x all 100 rectangles
  {
    static const int IV4[10][2] = {{0, 0}, {0, 1}, {0, 2}, {0, 3}, {1, 1}, {1, 2}, {1, 3}, {2, 2}, {2, 3}, {3, 3}};
    R.phase("kd2d-4x4", 65536, 64,
            [&](uint64_t idx, Ctx& c) {
              int n = __builtin_popcount((unsigned)idx);
              if (n < 9 || (!thorough && n > (asanQuick ? 9 : 12))) {
                c.count("skipped");
                return;
              }
              std::vector<PolyVert> pts;
              std::vector<std::pair<int, int>> orig;
              // input order: descending y-major (neither of the two sort orders)
              for (int p = 15; p >= 0; --p)
                if (idx >> p & 1) {
                  pts.push_back({vec2(p % 4, p / 4), (int)pts.size()});
                  orig.push_back({p % 4, p / 4});
                }
              char ds[64];
              snprintf(ds, sizeof ds, "4x4 subset mask=0x%04x (bit p = point (p%%4,p/4))", (unsigned)idx);
              c.describe(std::string("kd2d:") + ds);
              VecView<PolyVert> view(pts.data(), pts.size());
              BuildTwoDTree(view);
              long pairs = 0;
              for (int a = 0; a < 10; ++a)
                for (int b = 0; b < 10; ++b) {
                  Rect r;
                  r.min = vec2(IV4[a][0], IV4[b][0]);
                  r.max = vec2(IV4[a][1], IV4[b][1]);
                  uint8_t hit[16] = {0};
                  bool bad = false;
                  QueryTwoDTree(view, r, [&](const PolyVert& p) {
                    if (p.idx < 0 || p.idx >= n)
                      bad = true;
                    else
                      ++hit[p.idx];
                  });
                  for (int v = 0; v < n; ++v) {
                    int want = orig[v].first >= IV4[a][0] && orig[v].first <= IV4[a][1] && orig[v].second >= IV4[b][0] && orig[v].second <= IV4[b][1];
                    pairs += want;
                    if (bad || hit[v] != want) {
                      std::ostringstream s;
                      s << "rectangle [" << IV4[a][0] << ".." << IV4[a][1] << "," << IV4[b][0] << ".." << IV4[b][1] << "]: point (" << orig[v].first << ","
                        << orig[v].second << ") reported " << (int)hit[v] << " time(s), brute force says " << want;
                      c.viol(std::string("kd2d:") + ds, ds, s.str());
                      return;
                    }
                  }
                }
              c.distinct(idx + 1);
              c.nontrivial(idx + 1);
              c.count("cases");
              c.count("queries", 100);
              c.count("pairs_expected", pairs);
              if (idx % 8191 == 0) c.sample(ds);
            },
            {"cases", "queries", "pairs_expected", "skipped"});
  }
  return R.finish();
}
