// 2-D oracle helpers for CrossSection properties (C11, C12).  Self-contained:
// depends only on the standard library, not on manifold headers.  Everything
// is a template over "anything with .x and .y", so manifold::vec2 /
// manifold::Polygons can be passed directly.
//
// Contents
//   1. exact integer geometry for lattice polygons      (IPt, orient, segRel,
//      windingExact, distSqPointSeg)
//   2. floating-point judgement of library output       (windingOf,
//      properCrossFar, overlapLen, ringDefects, distPointSeg, distToRings,
//      signedArea, canonPolysHash)
//   3. the pixel-set reference model for lattice rectangles (LRect, allRects,
//      PixSet)
//
// Conventions: a ring is a closed contour, first and last point implicitly
// connected.  Winding number is the usual signed one (CCW ring = +1 inside).
#pragma once
#include <algorithm>
#include <cmath>
#include <cstdint>
#include <cstdio>
#include <cstring>
#include <string>
#include <vector>

namespace vf {
namespace g2 {

// ---------------------------------------------------------------- 1. exact

struct IPt {
  int64_t x, y;
  bool operator==(const IPt& o) const { return x == o.x && y == o.y; }
  bool operator!=(const IPt& o) const { return !(*this == o); }
  bool operator<(const IPt& o) const { return x < o.x || (x == o.x && y < o.y); }
};
using IRing = std::vector<IPt>;

inline int sgn(int64_t v) { return (v > 0) - (v < 0); }

// cross(b-a, c-a): > 0 iff c is to the left of a->b.  Exact for |coord| < 2^30.
inline int64_t orient(IPt a, IPt b, IPt c) {
  return (b.x - a.x) * (c.y - a.y) - (b.y - a.y) * (c.x - a.x);
}
inline int64_t dot(IPt a, IPt b, IPt c) {  // (b-a).(c-a)
  return (b.x - a.x) * (c.x - a.x) + (b.y - a.y) * (c.y - a.y);
}
// p on the closed segment ab (a == b allowed)
inline bool onSegment(IPt a, IPt b, IPt p) {
  if (orient(a, b, p) != 0) return false;
  return std::min(a.x, b.x) <= p.x && p.x <= std::max(a.x, b.x) && std::min(a.y, b.y) <= p.y &&
         p.y <= std::max(a.y, b.y);
}

// Relation of two closed non-degenerate segments ab and cd.
//   Disjoint    no common point
//   Touch       exactly one common point, and it is an endpoint of at least
//               one of them (shared endpoint, T-junction, collinear end to end)
//   ProperCross exactly one common point, interior to both
//   Overlap     collinear with a common sub-segment of positive length
enum class SegRel { Disjoint, Touch, ProperCross, Overlap };
inline SegRel segRel(IPt a, IPt b, IPt c, IPt d) {
  const int o1 = sgn(orient(a, b, c)), o2 = sgn(orient(a, b, d));
  const int o3 = sgn(orient(c, d, a)), o4 = sgn(orient(c, d, b));
  if (o1 == 0 && o2 == 0) {  // collinear: compare the parameter intervals along ab
    // project on the dominant axis
    const bool useX = std::llabs(b.x - a.x) >= std::llabs(b.y - a.y);
    int64_t a0 = useX ? a.x : a.y, a1 = useX ? b.x : b.y, c0 = useX ? c.x : c.y, c1 = useX ? d.x : d.y;
    if (a0 > a1) std::swap(a0, a1);
    if (c0 > c1) std::swap(c0, c1);
    const int64_t lo = std::max(a0, c0), hi = std::min(a1, c1);
    if (lo > hi) return SegRel::Disjoint;
    return lo == hi ? SegRel::Touch : SegRel::Overlap;
  }
  if (o1 * o2 < 0 && o3 * o4 < 0) return SegRel::ProperCross;
  if ((o1 == 0 && onSegment(a, b, c)) || (o2 == 0 && onSegment(a, b, d)) || (o3 == 0 && onSegment(c, d, a)) ||
      (o4 == 0 && onSegment(c, d, b)))
    return SegRel::Touch;
  return SegRel::Disjoint;
}

// Exact winding number of p with respect to one closed integer ring.  Edges of
// zero length contribute nothing.  *onEdge is set (and the return value is
// meaningless) when p lies on the ring.
inline int windingExact(const IRing& r, IPt p, bool* onEdge = nullptr) {
  int w = 0;
  const size_t n = r.size();
  for (size_t i = 0; i < n; ++i) {
    const IPt a = r[i], b = r[(i + 1) % n];
    if (a == b) {
      if (a == p && onEdge) *onEdge = true;
      continue;
    }
    const int64_t o = orient(a, b, p);
    if (o == 0 && onSegment(a, b, p)) {
      if (onEdge) *onEdge = true;
      continue;
    }
    if (a.y <= p.y) {
      if (b.y > p.y && o > 0) ++w;
    } else if (b.y <= p.y && o < 0)
      --w;
  }
  return w;
}
inline int windingExact(const std::vector<IRing>& rs, IPt p, bool* onEdge = nullptr) {
  int w = 0;
  for (auto& r : rs) w += windingExact(r, p, onEdge);
  return w;
}

// Squared distance from p to the closed segment ab, all integer: the exact
// rational value evaluated in long double (operands are small integers, so the
// only rounding is the final division).
inline long double distSqPointSeg(IPt p, IPt a, IPt b) {
  const int64_t len2 = dot(a, b, b);
  if (len2 == 0) return (long double)dot(a, p, p);
  const int64_t t = dot(a, b, p);
  if (t <= 0) return (long double)dot(a, p, p);
  if (t >= len2) return (long double)dot(b, p, p);
  const int64_t c = orient(a, b, p);
  return (long double)c * (long double)c / (long double)len2;
}
inline long double distSqPointRing(IPt p, const IRing& r) {
  long double best = INFINITY;
  for (size_t i = 0, n = r.size(); i < n; ++i) best = std::min(best, distSqPointSeg(p, r[i], r[(i + 1) % n]));
  return best;
}

// Is the closed integer ring a simple polygon (no repeated vertex, no two
// edges sharing more than a common endpoint of consecutive edges)?
inline bool isSimpleRing(const IRing& r) {
  const size_t n = r.size();
  if (n < 3) return false;
  for (size_t i = 0; i < n; ++i)
    for (size_t j = i + 1; j < n; ++j)
      if (r[i] == r[j]) return false;
  for (size_t i = 0; i < n; ++i)
    for (size_t j = i + 1; j < n; ++j) {
      const SegRel s = segRel(r[i], r[(i + 1) % n], r[j], r[(j + 1) % n]);
      const bool adjacent = (j == i + 1) || (i == 0 && j == n - 1);
      if (s == SegRel::ProperCross || s == SegRel::Overlap) return false;
      if (s == SegRel::Touch && !adjacent) return false;
    }
  return true;
}
inline int64_t area2(const IRing& r) {  // twice the signed area
  int64_t s = 0;
  for (size_t i = 0, n = r.size(); i < n; ++i) s += r[i].x * r[(i + 1) % n].y - r[(i + 1) % n].x * r[i].y;
  return s;
}

// ---------------------------------------------------------------- 2. floating

// long-double cross(b-a, p-a)
template <class A, class B>
inline long double orientL(const A& a, const B& b, long double px, long double py) {
  return ((long double)b.x - (long double)a.x) * (py - (long double)a.y) -
         (px - (long double)a.x) * ((long double)b.y - (long double)a.y);
}

// Winding number of (px,py) w.r.t. a set of closed rings with double
// coordinates.  Always an integer; reliable when the point is farther than
// ~1e-15 x scale from every edge (double filter, long-double fallback).
template <class Rings>
inline int windingOf(const Rings& rings, double px, double py) {
  int w = 0;
  for (const auto& r : rings) {
    const size_t n = r.size();
    if (n < 2) continue;
    for (size_t i = 0; i < n; ++i) {
      const auto& a = r[i];
      const auto& b = r[i + 1 == n ? 0 : i + 1];
      const bool up = a.y <= py && b.y > py, down = a.y > py && b.y <= py;
      if (!up && !down) continue;
      const double t1 = (b.x - a.x) * (py - a.y), t2 = (px - a.x) * (b.y - a.y);
      double o = t1 - t2;
      if (std::fabs(o) <= 1e-13 * (std::fabs(t1) + std::fabs(t2))) o = (double)orientL(a, b, px, py);
      if (up && o > 0) ++w;
      if (down && o < 0) --w;
    }
  }
  return w;
}

// The same for n points (xs[i], py) on one horizontal line: edges that do not
// straddle the line are looked at once per row instead of once per point.
template <class Rings>
inline void windingRow(const Rings& rings, double py, const double* xs, int n, int* w) {
  for (int i = 0; i < n; ++i) w[i] = 0;
  for (const auto& r : rings) {
    const size_t m = r.size();
    if (m < 2) continue;
    for (size_t k = 0; k < m; ++k) {
      const auto& a = r[k];
      const auto& b = r[k + 1 == m ? 0 : k + 1];
      const bool up = a.y <= py && b.y > py, down = a.y > py && b.y <= py;
      if (!up && !down) continue;
      const double t1 = (b.x - a.x) * (py - a.y), dy = b.y - a.y;
      for (int i = 0; i < n; ++i) {
        const double t2 = (xs[i] - a.x) * dy;
        double o = t1 - t2;
        if (std::fabs(o) <= 1e-13 * (std::fabs(t1) + std::fabs(t2))) o = (double)orientL(a, b, xs[i], py);
        if (up) w[i] += o > 0;
        else w[i] -= o < 0;
      }
    }
  }
}

template <class A>
inline long double distPointSeg(long double px, long double py, const A& a, const A& b) {
  const long double ax = a.x, ay = a.y, bx = b.x, by = b.y;
  const long double dx = bx - ax, dy = by - ay, len2 = dx * dx + dy * dy;
  long double t = len2 > 0 ? ((px - ax) * dx + (py - ay) * dy) / len2 : 0;
  t = std::max(0.0L, std::min(1.0L, t));
  const long double qx = ax + t * dx - px, qy = ay + t * dy - py;
  return sqrtl(qx * qx + qy * qy);
}
template <class Rings>
inline long double distToRings(const Rings& rings, long double px, long double py) {
  long double best = INFINITY;
  for (const auto& r : rings)
    for (size_t i = 0, n = r.size(); i < n; ++i) best = std::min(best, distPointSeg(px, py, r[i], r[(i + 1) % n]));
  return best;
}

// Do segments ab and cd cross properly, with every endpoint farther than eps
// from the *line* of the other segment?  This implies the crossing point is
// farther than eps from all four endpoints, so it is never stricter than "a
// proper crossing whose crossing point is farther than eps from the
// endpoints".
template <class A>
inline bool properCrossFar(const A& a, const A& b, const A& c, const A& d, long double eps) {
  const long double lab = hypotl((long double)b.x - a.x, (long double)b.y - a.y);
  const long double lcd = hypotl((long double)d.x - c.x, (long double)d.y - c.y);
  if (lab == 0 || lcd == 0) return false;
  const long double o1 = orientL(a, b, c.x, c.y) / lab, o2 = orientL(a, b, d.x, d.y) / lab;
  const long double o3 = orientL(c, d, a.x, a.y) / lcd, o4 = orientL(c, d, b.x, b.y) / lcd;
  if (!((o1 > eps && o2 < -eps) || (o1 < -eps && o2 > eps))) return false;
  if (!((o3 > eps && o4 < -eps) || (o3 < -eps && o4 > eps))) return false;
  return true;
}

// Length of the common part of ab and cd if all four endpoints are within eps
// of the other segment's line (i.e. the segments are collinear up to eps),
// else 0.
template <class A>
inline long double overlapLen(const A& a, const A& b, const A& c, const A& d, long double eps) {
  const long double dx = (long double)b.x - a.x, dy = (long double)b.y - a.y, lab = hypotl(dx, dy);
  const long double lcd = hypotl((long double)d.x - c.x, (long double)d.y - c.y);
  if (lab == 0 || lcd == 0) return 0;
  if (fabsl(orientL(a, b, c.x, c.y)) > eps * lab || fabsl(orientL(a, b, d.x, d.y)) > eps * lab) return 0;
  if (fabsl(orientL(c, d, a.x, a.y)) > eps * lcd || fabsl(orientL(c, d, b.x, b.y)) > eps * lcd) return 0;
  long double t0 = (((long double)c.x - a.x) * dx + ((long double)c.y - a.y) * dy) / lab;
  long double t1 = (((long double)d.x - a.x) * dx + ((long double)d.y - a.y) * dy) / lab;
  if (t0 > t1) std::swap(t0, t1);
  const long double lo = std::max(0.0L, t0), hi = std::min(lab, t1);
  return hi > lo ? hi - lo : 0;
}

// Regularity defects of a set of output rings.  Returns "" if none, else a
// description of the first one found:
//   - a ring with fewer than 3 vertices, a non-finite coordinate,
//   - a ring that visits exactly the same point twice,
//   - two edges (same or different ring) that cross properly with all four
//     endpoints farther than eps from the other edge's line,
//   - two edges collinear within eps that share more than minOverlap of length.
// Edges that merely touch (shared vertex, T-junction) are fine.
template <class Rings>
inline std::string ringDefects(const Rings& rings, long double eps, long double minOverlap) {
  struct E {
    double ax, ay, bx, by;
    int ring, k;
  };
  struct P {
    long double x, y;
  };
  std::vector<E> es;
  char buf[400];
  int ri = 0;
  for (const auto& r : rings) {
    const size_t n = r.size();
    if (n < 3) {
      snprintf(buf, sizeof buf, "ring %d has %zu vertices", ri, n);
      return buf;
    }
    for (size_t i = 0; i < n; ++i) {
      if (!std::isfinite((double)r[i].x) || !std::isfinite((double)r[i].y)) return "non-finite output coordinate";
      for (size_t j = i + 1; j < n; ++j)
        if (r[i].x == r[j].x && r[i].y == r[j].y) {
          snprintf(buf, sizeof buf, "ring %d visits (%.17g,%.17g) twice (vertices %zu and %zu)", ri, (double)r[i].x,
                   (double)r[i].y, i, j);
          return buf;
        }
      const auto& b = r[(i + 1) % n];
      es.push_back({(double)r[i].x, (double)r[i].y, (double)b.x, (double)b.y, ri, (int)i});
    }
    ++ri;
  }
  for (size_t i = 0; i < es.size(); ++i) {
    const E& e = es[i];
    const double exlo = std::min(e.ax, e.bx), exhi = std::max(e.ax, e.bx), eylo = std::min(e.ay, e.by),
                 eyhi = std::max(e.ay, e.by);
    for (size_t j = i + 1; j < es.size(); ++j) {
      const E& f = es[j];
      if (std::min(f.ax, f.bx) > exhi || std::max(f.ax, f.bx) < exlo || std::min(f.ay, f.by) > eyhi ||
          std::max(f.ay, f.by) < eylo)
        continue;
      const P a{e.ax, e.ay}, b{e.bx, e.by}, c{f.ax, f.ay}, d{f.bx, f.by};
      if (properCrossFar(a, b, c, d, eps)) {
        snprintf(buf, sizeof buf, "edges cross: ring %d edge %d (%.17g,%.17g)-(%.17g,%.17g) x ring %d edge %d (%.17g,%.17g)-(%.17g,%.17g)",
                 e.ring, e.k, e.ax, e.ay, e.bx, e.by, f.ring, f.k, f.ax, f.ay, f.bx, f.by);
        return buf;
      }
      const long double ov = overlapLen(a, b, c, d, eps);
      if (ov > minOverlap) {
        snprintf(buf, sizeof buf, "edges overlap over %.3g: ring %d edge %d (%.17g,%.17g)-(%.17g,%.17g) / ring %d edge %d (%.17g,%.17g)-(%.17g,%.17g)",
                 (double)ov, e.ring, e.k, e.ax, e.ay, e.bx, e.by, f.ring, f.k, f.ax, f.ay, f.bx, f.by);
        return buf;
      }
    }
  }
  return "";
}

template <class Ring>
inline long double signedAreaRing(const Ring& r) {
  long double s = 0;
  for (size_t i = 0, n = r.size(); i < n; ++i) {
    const auto& a = r[i];
    const auto& b = r[(i + 1) % n];
    s += (long double)a.x * b.y - (long double)b.x * a.y;
  }
  return s / 2;
}
template <class Rings>
inline long double signedArea(const Rings& rings) {
  long double s = 0;
  for (const auto& r : rings) s += signedAreaRing(r);
  return s;
}

// Hash of a ring set up to rotation of each ring's start vertex and up to the
// order of the rings (exact coordinates).
template <class Rings>
inline uint64_t canonPolysHash(const Rings& rings) {
  auto mix = [](uint64_t h, uint64_t v) {
    h ^= v + 0x9e3779b97f4a7c15ULL + (h << 6) + (h >> 2);
    h *= 0xff51afd7ed558ccdULL;
    return h ^ (h >> 33);
  };
  std::vector<uint64_t> hs;
  for (const auto& r : rings) {
    const size_t n = r.size();
    size_t s = 0;
    for (size_t i = 1; i < n; ++i)
      if (r[i].x < r[s].x || (r[i].x == r[s].x && r[i].y < r[s].y)) s = i;
    uint64_t h = 0x1234567 + n;
    for (size_t i = 0; i < n; ++i) {
      double x = r[(s + i) % n].x, y = r[(s + i) % n].y;
      if (x == 0) x = 0;  // -0 == +0
      if (y == 0) y = 0;
      uint64_t bx, by;
      memcpy(&bx, &x, 8);
      memcpy(&by, &y, 8);
      h = mix(mix(h, bx), by);
    }
    hs.push_back(h);
  }
  std::sort(hs.begin(), hs.end());
  uint64_t h = 0xabcdef + hs.size();
  for (uint64_t v : hs) h = mix(h, v);
  return h;
}

// ---------------------------------------------------------------- 3. pixel model

// Rectangle [x0,x1] x [y0,y1] with integer corners, x0 < x1, y0 < y1.
struct LRect {
  int x0, y0, x1, y1;
  std::string str() const {
    char b[64];
    snprintf(b, sizeof b, "R[%d,%d]x[%d,%d]", x0, x1, y0, y1);
    return b;
  }
};
// all rectangles with integer corners in [0,N]^2: (N(N+1)/2)^2 of them
inline std::vector<LRect> allRects(int N) {
  std::vector<LRect> v;
  for (int x0 = 0; x0 < N; ++x0)
    for (int x1 = x0 + 1; x1 <= N; ++x1)
      for (int y0 = 0; y0 < N; ++y0)
        for (int y1 = y0 + 1; y1 <= N; ++y1) v.push_back({x0, y0, x1, y1});
  return v;
}

enum class SetOp { Add, Subtract, Intersect, Xor };

// A signed pixel map over the window [ox, ox+W) x [oy, oy+H): w(x,y) is the
// winding number of the open unit pixel (x,x+1) x (y,y+1).  A region is a map
// with values in {0,1}.  Anything written outside the window sets `clipped`
// (the harness must size the window so that this never happens).
struct PixSet {
  int ox = 0, oy = 0, W = 0, H = 0;
  std::vector<int16_t> w;
  bool clipped = false;
  PixSet() {}
  PixSet(int ox_, int oy_, int W_, int H_) : ox(ox_), oy(oy_), W(W_), H(H_), w((size_t)W_ * H_, 0) {}
  PixSet like() const { return PixSet(ox, oy, W, H); }
  bool inWin(int x, int y) const { return x >= ox && x < ox + W && y >= oy && y < oy + H; }
  int get(int x, int y) const { return inWin(x, y) ? w[(size_t)(y - oy) * W + (x - ox)] : 0; }
  void add(int x, int y, int v) {
    if (!inWin(x, y)) {
      if (v) clipped = true;
      return;
    }
    w[(size_t)(y - oy) * W + (x - ox)] += (int16_t)v;
  }
  void addRect(const LRect& r, int v = 1) {
    for (int y = r.y0; y < r.y1; ++y)
      for (int x = r.x0; x < r.x1; ++x) add(x, y, v);
  }
  static PixSet ofRect(int ox, int oy, int W, int H, const LRect& r) {
    PixSet p(ox, oy, W, H);
    p.addRect(r, 1);
    return p;
  }
  long count() const {  // number of pixels with non-zero value
    long c = 0;
    for (auto v : w) c += v != 0;
    return c;
  }
  bool operator==(const PixSet& o) const { return ox == o.ox && oy == o.oy && W == o.W && H == o.H && w == o.w; }
  bool operator!=(const PixSet& o) const { return !(*this == o); }
  uint64_t hash() const {
    uint64_t h = 0xcbf29ce484222325ULL ^ ((uint64_t)W << 32) ^ (uint64_t)H;
    for (auto v : w) h = (h ^ (uint64_t)(uint16_t)v) * 0x100000001b3ULL;
    return h ^ (h >> 29);
  }
  // fill rules: the region {w > 0} / {w odd} as a 0/1 map
  PixSet positive() const {
    PixSet p = *this;
    for (auto& v : p.w) v = v > 0;
    return p;
  }
  PixSet evenOdd() const {
    PixSet p = *this;
    for (auto& v : p.w) v = (v % 2) != 0;
    return p;
  }
  // set operation of two regions (0/1 maps over the same window)
  PixSet op(const PixSet& b, SetOp o) const {
    PixSet p = *this;
    p.clipped = clipped || b.clipped;
    for (size_t i = 0; i < w.size(); ++i) {
      const bool x = w[i] != 0, y = b.w[i] != 0;
      p.w[i] = o == SetOp::Add ? (x || y) : o == SetOp::Subtract ? (x && !y) : o == SetOp::Intersect ? (x && y) : (x != y);
    }
    return p;
  }
  PixSet sum(const PixSet& b, int sign = 1) const {  // pointwise w + sign * b.w
    PixSet p = *this;
    p.clipped = clipped || b.clipped;
    for (size_t i = 0; i < w.size(); ++i) p.w[i] = (int16_t)(p.w[i] + sign * b.w[i]);
    return p;
  }
  PixSet translate(int dx, int dy) const {
    PixSet p = like();
    p.clipped = clipped;
    for (int y = oy; y < oy + H; ++y)
      for (int x = ox; x < ox + W; ++x)
        if (int v = get(x, y)) p.add(x + dx, y + dy, v);
    return p;
  }
  // rotation by k*90 degrees counter-clockwise about the origin: the point map
  // (x,y)->(-y,x) sends pixel (x,y) to pixel (-y-1,x)
  PixSet rot90(int k) const {
    PixSet cur = *this;
    for (k = ((k % 4) + 4) % 4; k > 0; --k) {
      PixSet p = cur.like();
      p.clipped = cur.clipped;
      for (int y = oy; y < oy + H; ++y)
        for (int x = ox; x < ox + W; ++x)
          if (int v = cur.get(x, y)) p.add(-y - 1, x, v);
      cur = p;
    }
    return cur;
  }
  // reflection x -> -x: pixel (x,y) -> (-x-1,y).  An orientation-preserving
  // library operation (Mirror/Scale re-reverse the rings) keeps the sign;
  // pass flipSign for a raw point map that reverses ring orientation.
  PixSet mirrorX(bool flipSign = false) const {
    PixSet p = like();
    p.clipped = clipped;
    for (int y = oy; y < oy + H; ++y)
      for (int x = ox; x < ox + W; ++x)
        if (int v = get(x, y)) p.add(-x - 1, y, flipSign ? -v : v);
    return p;
  }
};

}  // namespace g2
}  // namespace vf
