CHECK = dict(
    level="exploration", engine="S",
    technique=("exhaustive enumeration of (leaf boxes, Morton-code sequence, query) spaces on the real Collider, 2-D BVH, "
               "edge-pair broad phase and polygon k-d tree; every recorded (query, leaf) multiset is compared with an "
               "all-pairs scan in integer arithmetic"),
    level_text=("Colliders are built directly from n = 2..5 (thorough 6) lattice leaf boxes (all boxes of {0,1,2}^2 embedded in each coordinate "
                "plane incl. point/segment boxes for n = 2,3; 1-D boxes for n >= 4) x every non-decreasing Morton code sequence over "
                "{0,1,4,5,0x3FFFFFFF} (duplicates force the index tie-break); every lattice box, the empty box and every lattice point is "
                "queried through both Collisions overloads and the selfCollision variant, afresh, after UpdateBoxes from three adversarial "
                "earlier contents, and after Transform by 58 axis-aligned maps (48 signed permutations, shifts, scalings). The radix tree is "
                "additionally checked structurally (every node reachable exactly once, parent/child arrays consistent, child boxes contained, "
                "depth <= 64) for all code sequences up to length 16 (thorough 20) and for runs of identical codes of length 126..131 and "
                "510..515 (thorough 2046..2050, 8190..8194) with varying offsets. 2-D: BVHBuildFromBoxes + BVHCollisions/CollidePairs for all "
                "tuples of lattice rectangles; CollectIntersectionPairs through both broad phases (x-sorted sweep, BVH) for all small lattice "
                "segment sets and for eight structural families of 1022..1026 edges (both sides of kEdgePairBvhThreshold), plus the gate "
                "inside RemoveOverlaps2D; QueryTwoDTree for all multisets of <= 12 and of 19 points of the 3x3 lattice (both sides of the "
                "`<= 8` leaf rule at the first and second level) and all >= 9-point subsets of the 4x4 lattice x all lattice rectangles."),
    level_note=("Trusted: compiler, the 6-comparison integer overlap model (itself cross-checked against Box::DoesOverlap on all 216x216 "
                "lattice box pairs in phase box-model). Bound: the lattices and counts above; sequential build (MANIFOLD_PAR=-1), so the "
                "atomic arrival counters of BuildInternalBoxes are exercised only in their serial order (interleavings belong to C13). "
                "Collider private members are read, never written (-fno-access-control in the harness TU only). The sanitizer run uses a "
                "smaller bound of the same phases in both tiers."),
    # budgets are caps with headroom for a loaded machine, not targets (measured times: findings/C14.md)
    runs=[S("seq-fast", quick=600, thorough=3000, workers=8, case_timeout=60),
          S("seq-asan", quick=600, thorough=600, workers=8, case_timeout=60)],
    rule=("a case = one (leaf set, code sequence[, map]) with all its queries; each (query, leaf) pair must be recorded exactly as often "
          "(0 or 1) as the closed-interval all-pairs scan says (point queries: the documented z-projected test; selfCollision: minus the "
          "diagonal). distinct = distinct (tree shape, incidence matrix) outcomes per phase (2-D phases: distinct inputs; kd2d: distinct point multisets); non-trivial = at "
          "least one query meets some but not all leaves, so pruning decisions matter (radix phases: tree depth >= 2; pair phases: some but "
          "not all pairs are candidates)."),
    bounds=dict(
        quick=("col-n2 36^2 boxes x 15 code seqs x 3 planes (+58 maps in the xy plane for the sequences (0,0), (0,1), (M,M)); col-n3 36^3 x 35 (xy plane); col-n3-xform 9^3 boxes x 4 seqs "
               "x 58 maps; col-n4 6^4 x 70 x 3 axes; col-n5 6^5 x 126 (x axis); col-n4-xform 3^4 x 5 x 58; col-morton 27^n, n<=4; radix-shape "
               "length <= 16 over 5 symbols; runs 126..131, 510..515; bvh2d 36^2, 36^3, 9^4, 9^5; pairs 72^2, 72^3, 12^4 x {private,shared verts} "
               "x eps {0,1/4}; gate n in 1022..1026 x 8 families; kd2d multisets of size 0..12 (3 input orders) and 19 (1 order; 9+9 split: second level on both sides)"),
        thorough=("all three planes for n=3; maps also for n=2 in every plane and n=5; n=6; SYM5 sequences under Transform; full query set for "
                  "n=4,5; radix length <= 20 over 6 symbols; runs up to 8194; bvh2d 9^6; pairs 12^5; gate sizes 511..4100; kd2d all sizes 0..21 "
                  "x 3 orders")),
    assumptions=COMMON_ASSUME + [
        "leaf counts >= 2 (the property's quantifier); a 1-leaf Collider/BVH reports nothing by construction and is outside the claim",
        "Morton code sequences are non-decreasing (the constructor's precondition; every caller sorts)",
        "shared-endpoint edge pairs that boolean2.cpp documents as dropped are dropped by the oracle too (exact integer re-implementation)",
    ],
)
