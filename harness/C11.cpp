// C11 - CrossSections are regularized and 2D Booleans compute the set operation.
//
// Engine S: exhaustive enumeration of inputs / programs on the real library,
// judged by two independent oracles from lib/geom2.h:
//
//  (1) contours: every vertex sequence of length 3..5 over the 4x4 lattice
//      (no validity filter: self-intersecting, clockwise, collinear, repeated
//      vertices), both fill rules.  The input winding number is computed in
//      exact integer arithmetic at the 42x42 sample points (2i+1)/24; the
//      output must have winding [w>0] resp. [w odd] (so 0 or 1) at every
//      sample farther than max(tolerance,1e-9) from the input edges, and its
//      rings must not cross / overlap / repeat a vertex.
//  (2) Booleans of regularized contours (all ordered pairs of the 516 lattice
//      triangles, thorough: of every distinct region a <=4-vertex contour
//      regularizes to) x 3 ops: same sample oracle with the set formula, area
//      identities, operand-order independence.
//  (3) lattice rectangles of [0,3]^2 (36): ordered pairs x construction
//      variants x 3 ops, BatchBoolean triples, depth-2 programs, fill-rule
//      triples with signs, transforms/warps - against the exact pixel-set
//      model: every output edge on a lattice line, winding at every pixel centre
//      equal to the model bit (=> the point set IS the pixel set), Area() ==
//      pixel count within 1e-9.
//  (4) combs of >= 400 rectangles (> 1024 edges in one arrangement) to reach
//      the BVH broad phase, against the pixel model.
#include <cmath>
#include <map>
#include <sstream>

#include "engine/runner.h"
#include "lib/geom2.h"
#include "manifold/cross_section.h"

using namespace manifold;
using namespace vf;
using namespace vf::g2;

static const OpType OPS[3] = {OpType::Add, OpType::Subtract, OpType::Intersect};
static const char* opName(OpType op) { return op == OpType::Add ? "+" : op == OpType::Subtract ? "-" : "^"; }
static SetOp setOp(OpType op) {
  return op == OpType::Add ? SetOp::Add : op == OpType::Subtract ? SetOp::Subtract : SetOp::Intersect;
}
static bool formula(OpType op, bool a, bool b) {
  return op == OpType::Add ? (a || b) : op == OpType::Subtract ? (a && !b) : (a && b);
}
static double marginOf(const CrossSection& r) { return std::max(r.GetTolerance(), 1e-9); }

// ------------------------------------------------------------------ lattice contours
static std::string ringStr(const IRing& r) {
  std::string s = "[";
  for (size_t i = 0; i < r.size(); ++i) {
    if (i) s += ",";
    s += "(" + std::to_string(r[i].x) + "," + std::to_string(r[i].y) + ")";
  }
  return s + "]";
}
static SimplePolygon toPoly(const IRing& r) {
  SimplePolygon p;
  for (auto& v : r) p.push_back({(double)v.x, (double)v.y});
  return p;
}
constexpr uint64_t N3 = 16 * 16 * 16, N4 = N3 * 16, N5 = N4 * 16;
// idx in [0, N3+N4+N5): all vertex sequences of length 3, then 4, then 5 over the 16 lattice points
static IRing decodeSeq(uint64_t idx) {
  int n = 3;
  if (idx >= N3 + N4) {
    n = 5;
    idx -= N3 + N4;
  } else if (idx >= N3) {
    n = 4;
    idx -= N3;
  }
  IRing r(n);
  for (int i = n - 1; i >= 0; --i) {
    r[i] = {(int64_t)((idx % 16) / 4), (int64_t)((idx % 16) % 4)};
    idx /= 16;
  }
  return r;
}

// ------------------------------------------------------------------ sample oracle
// Sample points ((2i+1)/24, (2j+1)/24), i,j in [-3,39): 42x42 points covering
// (-0.21, 3.21)^2.  In units of 1/24 they are odd integers, lattice vertices are
// multiples of 24, so input windings and distances are exact.
constexpr int NS = 42, K = 24;
static inline int64_t sCoord(int i) { return 2 * (i - 3) + 1; }
constexpr int8_t NEAR = 127;  // sample within the margin of an input edge: not judged
using WMap = std::vector<int8_t>;

// exact winding map of one lattice ring; samples within `margin` of an edge get NEAR
static WMap windingMap(const IRing& latticeRing, double margin) {
  IRing r = latticeRing;
  for (auto& v : r) {
    v.x *= K;
    v.y *= K;
  }
  const size_t n = r.size();
  const long double m2 = (long double)margin * K * (long double)margin * K;
  WMap wm(NS * NS, 0);
  for (int j = 0; j < NS; ++j)
    for (int i = 0; i < NS; ++i) {
      const IPt p{sCoord(i), sCoord(j)};
      int w = 0;
      bool near = false;
      for (size_t e = 0; e < n && !near; ++e) {
        const IPt a = r[e], b = r[e + 1 == n ? 0 : e + 1];
        const int64_t o = orient(a, b, p);
        const int64_t len2 = dot(a, b, b);
        // distance to the segment >= distance to the line = |o|/len
        if ((long double)o * o <= m2 * len2 || len2 == 0) {
          if (distSqPointSeg(p, a, b) <= m2) {
            near = true;
            break;
          }
        }
        if (a.y <= p.y) {
          if (b.y > p.y && o > 0) ++w;
        } else if (b.y <= p.y && o < 0)
          --w;
      }
      wm[j * NS + i] = near ? NEAR : (int8_t)w;
    }
  return wm;
}
// membership map (0 / 1 / NEAR) under a fill rule
static WMap memberMap(const WMap& w, bool evenOdd) {
  WMap m(w.size());
  for (size_t i = 0; i < w.size(); ++i) m[i] = w[i] == NEAR ? NEAR : evenOdd ? (w[i] % 2 != 0) : (w[i] > 0);
  return m;
}
// Compare the output's winding with the expected membership at every judged sample.
static std::string judgeSamples(const Polygons& out, const WMap& expect, long& judged) {
  static double xs[NS];
  static bool init = false;
  if (!init) {
    for (int i = 0; i < NS; ++i) xs[i] = (double)sCoord(i) / K;
    init = true;
  }
  int w[NS];
  for (int j = 0; j < NS; ++j) {
    windingRow(out, xs[j], xs, NS, w);
    for (int i = 0; i < NS; ++i) {
      const int8_t e = expect[j * NS + i];
      if (e == NEAR) continue;
      ++judged;
      if (w[i] != e) {
        std::ostringstream s;
        s << "at (" << sCoord(i) << "/24," << sCoord(j) << "/24) the output has winding " << w[i] << " but the point is "
          << (e ? "inside" : "outside") << " by the exact input winding";
        return s.str();
      }
    }
  }
  return "";
}
static std::string polysStr(const Polygons& p) {
  std::ostringstream s;
  s.precision(17);
  s << "output " << p.size() << " ring(s):";
  for (auto& r : p) {
    s << " [";
    for (size_t i = 0; i < r.size(); ++i) s << (i ? "," : "") << "(" << r[i].x << "," << r[i].y << ")";
    s << "]";
  }
  return s.str();
}

// ------------------------------------------------------------------ pixel oracle
static bool isInt(double v) { return v == std::nearbyint(v); }
// The CrossSection must be exactly the pixel set `want` (a 0/1 map): every edge
// on a lattice line and inside the window, no ring defects, winding at each pixel
// centre == model, Area() == pixel count.
static std::string judgePixels(const CrossSection& cs, const PixSet& want) {
  if (want.clipped) return "HARNESS: model window too small";
  const Polygons out = cs.ToPolygons();
  char buf[300];
  for (auto& r : out)
    for (size_t i = 0, n = r.size(); i < n; ++i) {
      const vec2 a = r[i], b = r[(i + 1) % n];
      const bool v = a.x == b.x && isInt(a.x), h = a.y == b.y && isInt(a.y);
      if (!v && !h) {
        snprintf(buf, sizeof buf, "edge (%.17g,%.17g)-(%.17g,%.17g) is not on a lattice line", a.x, a.y, b.x, b.y);
        return buf;
      }
      if (a.x < want.ox || a.x > want.ox + want.W || a.y < want.oy || a.y > want.oy + want.H) {
        snprintf(buf, sizeof buf, "vertex (%.17g,%.17g) outside the lattice window", a.x, a.y);
        return buf;
      }
    }
  std::string d = ringDefects(out, 1e-9L, 1e-9L);
  if (!d.empty()) return d;
  const long cnt = want.count();
  const double area = cs.Area();
  if (!(std::fabs(area - cnt) <= 1e-9)) {
    snprintf(buf, sizeof buf, "Area()=%.17g but the pixel model has %ld pixels", area, cnt);
    return buf;
  }
  for (int y = want.oy; y < want.oy + want.H; ++y)
    for (int x = want.ox; x < want.ox + want.W; ++x) {
      const int w = windingOf(out, x + 0.5, y + 0.5), m = want.get(x, y);
      if (w != m) {
        snprintf(buf, sizeof buf, "winding %d at pixel centre (%g,%g) but model bit %d", w, x + 0.5, y + 0.5, m);
        return buf;
      }
    }
  return "";
}

// rectangle construction variants
constexpr int NVAR = 5;
static CrossSection rectVariant(const LRect& r, int v) {
  const double x0 = r.x0, y0 = r.y0, x1 = r.x1, y1 = r.y1;
  switch (v) {
    case 0:
      return CrossSection(Rect({x0, y0}, {x1, y1}));
    case 1:
      return CrossSection(SimplePolygon{{x0, y0}, {x1, y0}, {x1, y1}, {x0, y1}});
    case 2:  // clockwise, read by the even-odd rule
      return CrossSection::EvenOdd(SimplePolygon{{x0, y0}, {x0, y1}, {x1, y1}, {x1, y0}});
    case 3:
      return CrossSection::Square({x1 - x0, y1 - y0}).Translate({x0, y0});
    default:  // other start vertex, with a redundant collinear vertex on the bottom edge
      return CrossSection(SimplePolygon{{x1, y1}, {x0, y1}, {x0, y0}, {(x0 + x1) / 2, y0}, {x1, y0}});
  }
}
static SimplePolygon rectPoly(const LRect& r, bool ccw) {
  const double x0 = r.x0, y0 = r.y0, x1 = r.x1, y1 = r.y1;
  if (ccw) return {{x0, y0}, {x1, y0}, {x1, y1}, {x0, y1}};
  return {{x0, y0}, {x0, y1}, {x1, y1}, {x1, y0}};
}

// unary transforms with their pixel model
struct Xf {
  const char* name;
  std::function<CrossSection(const CrossSection&)> f;
  std::function<PixSet(const PixSet&)> m;
};
static std::vector<Xf> makeXfs() {
  std::vector<Xf> t;
  t.push_back({"id", [](const CrossSection& c) { return c; }, [](const PixSet& p) { return p; }});
  t.push_back({"Tr(1,0)", [](const CrossSection& c) { return c.Translate({1, 0}); }, [](const PixSet& p) { return p.translate(1, 0); }});
  t.push_back({"Tr(0,-1)", [](const CrossSection& c) { return c.Translate({0, -1}); }, [](const PixSet& p) { return p.translate(0, -1); }});
  t.push_back({"Tr(-1,1)", [](const CrossSection& c) { return c.Translate({-1, 1}); }, [](const PixSet& p) { return p.translate(-1, 1); }});
  t.push_back({"Rot(90)", [](const CrossSection& c) { return c.Rotate(90); }, [](const PixSet& p) { return p.rot90(1); }});
  t.push_back({"Rot(180)", [](const CrossSection& c) { return c.Rotate(180); }, [](const PixSet& p) { return p.rot90(2); }});
  t.push_back({"Rot(270)", [](const CrossSection& c) { return c.Rotate(270); }, [](const PixSet& p) { return p.rot90(3); }});
  t.push_back({"Rot(-90)", [](const CrossSection& c) { return c.Rotate(-90); }, [](const PixSet& p) { return p.rot90(3); }});
  t.push_back({"Tr(0,1).Rot(90)", [](const CrossSection& c) { return c.Translate({0, 1}).Rotate(90); },
               [](const PixSet& p) { return p.translate(0, 1).rot90(1); }});
  t.push_back({"Rot(90).Tr(1,-1)", [](const CrossSection& c) { return c.Rotate(90).Translate({1, -1}); },
               [](const PixSet& p) { return p.rot90(1).translate(1, -1); }});
  t.push_back({"Mirror(1,0)", [](const CrossSection& c) { return c.Mirror({1, 0}); }, [](const PixSet& p) { return p.mirrorX(); }});
  t.push_back({"Scale(-1,1)", [](const CrossSection& c) { return c.Scale({-1, 1}); }, [](const PixSet& p) { return p.mirrorX(); }});
  t.push_back({"Warp(x+1)", [](const CrossSection& c) { return c.Warp([](vec2& v) { v.x += 1; }); },
               [](const PixSet& p) { return p.translate(1, 0); }});
  t.push_back({"Warp(rot90)", [](const CrossSection& c) { return c.Warp([](vec2& v) { v = vec2(-v.y, v.x); }); },
               [](const PixSet& p) { return p.rot90(1); }});
  // an orientation-reversing point map turns every ring clockwise: winding -1, so the positive fill is empty
  t.push_back({"Warp(-x)", [](const CrossSection& c) { return c.Warp([](vec2& v) { v.x = -v.x; }); },
               [](const PixSet& p) { return p.mirrorX(true).positive(); }});
  return t;
}

// ------------------------------------------------------------------ Boolean operand families
struct Operand {
  IRing ring;
  bool evenOdd;
  CrossSection cs;
  WMap mem;  // 0 / 1 / NEAR at the samples
  double area;
  std::string str() const { return ringStr(ring) + (evenOdd ? "/eo" : "/pos"); }
};
static Operand makeOperand(const IRing& r, bool eo) {
  Operand o;
  o.ring = r;
  o.evenOdd = eo;
  o.cs = eo ? CrossSection::EvenOdd(toPoly(r)) : CrossSection(toPoly(r));
  o.mem = memberMap(windingMap(r, 1e-9), eo);
  o.area = o.cs.Area();
  return o;
}
// all 516 non-degenerate lattice triangles, counter-clockwise, positive fill
static std::vector<Operand> triangleFamily() {
  std::vector<Operand> f;
  for (int a = 0; a < 16; ++a)
    for (int b = a + 1; b < 16; ++b)
      for (int c = b + 1; c < 16; ++c) {
        IPt A{a / 4, a % 4}, B{b / 4, b % 4}, C{c / 4, c % 4};
        const int64_t o = orient(A, B, C);
        if (o == 0) continue;
        f.push_back(makeOperand(o > 0 ? IRing{A, B, C} : IRing{A, C, B}, false));
      }
  return f;
}
// every distinct non-empty region that a contour of <= 4 vertices regularizes to (either rule);
// the representative is the first contour in enumeration order producing it
static std::vector<Operand> regionFamily() {
  std::vector<Operand> f;
  std::map<uint64_t, int> seen;
  for (uint64_t idx = 0; idx < N3 + N4; ++idx)
    for (int eo = 0; eo < 2; ++eo) {
      IRing r = decodeSeq(idx);
      CrossSection cs = eo ? CrossSection::EvenOdd(toPoly(r)) : CrossSection(toPoly(r));
      if (cs.IsEmpty()) continue;
      const uint64_t h = canonPolysHash(cs.ToPolygons());
      if (seen.count(h)) continue;
      seen[h] = 1;
      f.push_back(makeOperand(r, eo));
    }
  return f;
}

// All pairs (A,B) in FA x FB.  `mixed` = the two families differ, so the swapped programs
// B+A, B-A, B^A are not cases of their own and are run (and judged) here as well; otherwise
// the swapped commutative programs are only re-run for the operand-order area comparison.
static void boolPairPhase(Runner& R, const std::string& name, const std::vector<Operand>& FA, const std::vector<Operand>& FB,
                          bool mixed) {
  const uint64_t na = FA.size(), nb = FB.size();
  R.phase(name, na * nb, 16,
          [&, na, nb, mixed](uint64_t idx, Ctx& c) {
            const uint64_t ia = idx / nb, ib = idx % nb;
            const Operand &A = FA[ia], &B = FB[ib];
            long judged = 0;
            bool nontrivialPair = false;
            // runs X op Y, judges it (if asked) and returns its area
            auto run = [&](const Operand& X, const Operand& Y, int o, bool judge) {
              const std::string prog = X.str() + " " + opName(OPS[o]) + " " + Y.str();
              c.describe(prog);
              CrossSection r = X.cs.Boolean(Y.cs, OPS[o]);
              c.count("transitions");
              const double area = r.Area();
              if (!judge) return area;
              const Polygons out = r.ToPolygons();
              if (marginOf(r) >= 0.009) {
                c.count("unjudged");
                return area;
              }
              WMap ex(X.mem.size());
              bool both = false, onlyX = false, onlyY = false;
              for (size_t i = 0; i < ex.size(); ++i) {
                if (X.mem[i] == NEAR || Y.mem[i] == NEAR) {
                  ex[i] = NEAR;
                  continue;
                }
                ex[i] = (int8_t)formula(OPS[o], X.mem[i], Y.mem[i]);
                both |= X.mem[i] && Y.mem[i];
                onlyX |= X.mem[i] && !Y.mem[i];
                onlyY |= !X.mem[i] && Y.mem[i];
              }
              std::string why = judgeSamples(out, ex, judged);
              if (why.empty()) why = ringDefects(out, marginOf(r), 1e-6L);
              if (!why.empty()) c.viol("bool:" + prog, prog, why + "\n" + polysStr(out));
              c.distinct(canonPolysHash(out) ^ mix64(o + 1));
              if (both && onlyX && onlyY) nontrivialPair = true;  // the operands properly overlap
              return area;
            };
            double ab[3], ba[3] = {0, 0, 0};
            for (int o = 0; o < 3; ++o) ab[o] = run(A, B, o, true);
            const bool swapped = mixed || ia < ib;
            if (swapped)
              for (int o = 0; o < 3; ++o)
                if (mixed || OPS[o] != OpType::Subtract) ba[o] = run(B, A, o, mixed);
            const std::string pr = A.str() + " , " + B.str();
            auto areaViol = [&](const char* key, const std::string& what, double got, double want) {
              if (std::fabs(got - want) <= 1e-9) return;
              std::ostringstream s;
              s.precision(17);
              s << what << ": " << got << " vs " << want;
              c.viol(std::string(key) + ":" + pr, pr, s.str());
            };
            areaViol("bool-incl-excl", "Area(A+B)+Area(A^B) vs Area(A)+Area(B)", ab[0] + ab[2], A.area + B.area);
            areaViol("bool-diff-area", "Area(A-B)+Area(A^B) vs Area(A)", ab[1] + ab[2], A.area);
            if (swapped) {
              areaViol("bool-order+", "Area(A+B) vs Area(B+A)", ab[0], ba[0]);
              areaViol("bool-order^", "Area(A^B) vs Area(B^A)", ab[2], ba[2]);
              if (mixed) areaViol("bool-diff-area-swapped", "Area(B-A)+Area(B^A) vs Area(B)", ba[1] + ba[2], B.area);
            }
            c.count("points_judged", judged);
            if (nontrivialPair) c.nontrivial(mix64(idx + 1));
            if (idx % 50021 == 7) c.sample(A.str() + " {+,-,^} " + B.str());
          },
          {"transitions", "points_judged", "unjudged"}, 24);
}

// ------------------------------------------------------------------ comb scenes (BVH broad phase)
struct Scene {
  std::string name;
  std::vector<LRect> parts;
  LRect bar;
  int W, H;
};
static std::vector<Scene> makeScenes(int T) {
  std::vector<Scene> s;
  {
    Scene v{"vcomb" + std::to_string(T), {}, {1, 2, 2 * T - 2, 3}, 2 * T, 5};
    for (int i = 0; i < T; ++i) v.parts.push_back({2 * i, 1, 2 * i + 1, 4});
    v.parts.push_back({0, 0, 2 * T - 1, 1});
    s.push_back(v);
    Scene h{"hcomb" + std::to_string(T), {}, {2, 1, 3, 2 * T - 2}, 5, 2 * T};
    for (int i = 0; i < T; ++i) h.parts.push_back({1, 2 * i, 4, 2 * i + 1});
    h.parts.push_back({0, 0, 1, 2 * T - 1});
    s.push_back(h);
  }
  {
    Scene g{"stagger" + std::to_string(T), {}, {0, 1, T + 2, 2}, T + 3, 5};
    for (int i = 0; i < T; ++i) g.parts.push_back({i, i % 3, i + 2, i % 3 + 2});
    s.push_back(g);
  }
  {
    int side = 1;
    while (side * side < T) ++side;
    Scene g{"grid" + std::to_string(side) + "x" + std::to_string(side), {}, {1, 1, 2 * side - 3, 2 * side - 2}, 2 * side, 2 * side};
    for (int i = 0; i < side; ++i)
      for (int j = 0; j < side; ++j) g.parts.push_back({2 * i, 2 * j, 2 * i + 1, 2 * j + 1});
    s.push_back(g);
  }
  return s;
}
constexpr int NPROG = 7;
static const char* PROGN[NPROG] = {"BatchAdd(parts)",   "Positive{parts}",       "EvenOdd{parts}",   "Positive{parts} + bar",
                                   "Positive{parts} - bar", "Positive{parts} ^ bar", "BatchSubtract(window, parts)"};

int main(int argc, char** argv) {
  Runner R("C11", argc, argv);
  const bool thorough = R.a.thorough();
  bool asanSubset = false;
  for (int i = 1; i < argc; ++i)
    if (std::string(argv[i]) == "--asan-subset") asanSubset = true;

  // ---------- contour1: every vertex sequence of length 3..5, both fill rules
  {
    const uint64_t N = asanSubset ? N3 + N4 : N3 + N4 + N5;
    R.phase("contour1", N, 64,
            [&](uint64_t idx, Ctx& c) {
              const IRing ring = decodeSeq(idx);
              const SimplePolygon poly = toPoly(ring);
              const WMap wm = windingMap(ring, 1e-9);
              const bool simple = isSimpleRing(ring) && area2(ring) > 0;
              long judged = 0;
              for (int eo = 0; eo < 2; ++eo) {
                const std::string prog = std::string("fill:") + (eo ? "eo:" : "pos:") + ringStr(ring);
                c.describe(prog);
                CrossSection cs = eo ? CrossSection::EvenOdd(poly) : CrossSection(poly);
                c.count("transitions");
                const Polygons out = cs.ToPolygons();
                if (marginOf(cs) >= 0.009) {
                  c.count("unjudged");
                  continue;
                }
                std::string why = judgeSamples(out, memberMap(wm, eo), judged);
                if (why.empty()) why = ringDefects(out, marginOf(cs), 1e-6L);
                if (why.empty() && !(cs.Area() >= 0)) why = "Area() is negative";
                if (!why.empty()) c.viol(prog, prog, why + "\n" + polysStr(out));
                c.distinct(canonPolysHash(out));
                if (!out.empty() && !simple) c.nontrivial(mix64(idx * 2 + eo + 1));
              }
              c.count("points_judged", judged);
              if (idx % 150001 == 4242) c.sample("fill:{pos,eo}:" + ringStr(ring));
            },
            {"transitions", "points_judged", "unjudged"});
  }

  // ---------- contour2 (thorough): every ordered pair of 3-vertex sequences as one contour set
  if (thorough && !asanSubset) {
    std::vector<WMap> wm3(N3);
    for (uint64_t i = 0; i < N3; ++i) wm3[i] = windingMap(decodeSeq(i), 1e-9);
    R.phase("contour2", N3 * N3, 64,
            [&](uint64_t idx, Ctx& c) {
              const uint64_t i1 = idx / N3, i2 = idx % N3;
              const IRing r1 = decodeSeq(i1), r2 = decodeSeq(i2);
              const Polygons polys{toPoly(r1), toPoly(r2)};
              WMap wm(NS * NS);
              for (size_t k = 0; k < wm.size(); ++k)
                wm[k] = (wm3[i1][k] == NEAR || wm3[i2][k] == NEAR) ? NEAR : (int8_t)(wm3[i1][k] + wm3[i2][k]);
              long judged = 0;
              bool nonEmpty = false;
              for (int eo = 0; eo < 2; ++eo) {
                const std::string prog = std::string("fill:") + (eo ? "eo:" : "pos:") + ringStr(r1) + "+" + ringStr(r2);
                c.describe(prog);
                CrossSection cs = eo ? CrossSection::EvenOdd(polys) : CrossSection(polys);
                c.count("transitions");
                const Polygons out = cs.ToPolygons();
                if (marginOf(cs) >= 0.009) {
                  c.count("unjudged");
                  continue;
                }
                std::string why = judgeSamples(out, memberMap(wm, eo), judged);
                if (why.empty()) why = ringDefects(out, marginOf(cs), 1e-6L);
                if (!why.empty()) c.viol(prog, prog, why + "\n" + polysStr(out));
                c.distinct(canonPolysHash(out));
                if (!out.empty()) nonEmpty = true;
              }
              c.count("points_judged", judged);
              if (nonEmpty) c.nontrivial(mix64(idx + 1));
              if (idx % 2500009 == 4242) c.sample("fill:{pos,eo}:" + ringStr(r1) + "+" + ringStr(r2));
            },
            {"transitions", "points_judged", "unjudged"}, 25);
  }

  // ---------- Booleans of regularized contours
  if (!asanSubset) {
    const std::vector<Operand> tri = triangleFamily();
    boolPairPhase(R, "tri-bool", tri, tri, false);
    if (thorough) {
      const std::vector<Operand> F = regionFamily();
      boolPairPhase(R, "region-bool", F, tri, true);
    }
  }

  // ---------- lattice rectangles vs the pixel model
  const std::vector<LRect> rects = allRects(3);
  const int nr = (int)rects.size();
  auto win = [](const LRect& r) { return PixSet::ofRect(-4, -4, 8, 8, r); };
  auto nontriv = [](const PixSet& want, std::initializer_list<const PixSet*> ops) {
    if (want.count() == 0) return false;
    for (auto p : ops)
      if (want == *p) return false;
    return true;
  };

  // pairs x construction variants x 3 ops
  {
    std::vector<int> radix = {nr, NVAR, nr, NVAR};
    R.phase("rect-pairs", product(radix), NVAR,
            [&](uint64_t idx, Ctx& c) {
              auto d = digits(idx, radix);
              const LRect &A = rects[d[0]], &B = rects[d[2]];
              const std::string an = A.str() + "/v" + std::to_string(d[1]), bn = B.str() + "/v" + std::to_string(d[3]);
              c.describe(an + " ? " + bn);
              CrossSection a = rectVariant(A, d[1]), b = rectVariant(B, d[3]);
              const PixSet ma = win(A), mb = win(B);
              std::string w0 = judgePixels(a, ma);
              if (!w0.empty()) {
                c.viol("rect:construct " + an, an, w0);
                return;
              }
              for (OpType op : OPS) {
                const std::string prog = an + " " + opName(op) + " " + bn;
                c.describe(prog);
                CrossSection r = a.Boolean(b, op);
                c.count("transitions");
                const PixSet want = ma.op(mb, setOp(op));
                std::string why = judgePixels(r, want);
                if (!why.empty()) c.viol("rect:" + prog, prog, why + "\n" + polysStr(r.ToPolygons()));
                const uint64_t h = want.hash() ^ canonPolysHash(r.ToPolygons());
                c.distinct(h);
                if (nontriv(want, {&ma, &mb})) c.nontrivial(h);
              }
              if (idx % 3001 == 0) c.sample(an + " {+,-,^} " + bn);
            },
            {"transitions"});
  }

  // an operand whose TOLERANCE was raised above the size of the other operand's features.  Raising the tolerance
  // decimates the operand itself (Simplify) - a rectangle with sides >= 4 survives a tolerance of 1.6 unchanged, which
  // is checked - but it is not a merge distance for later Booleans: unit features of the other operand must survive.
  {
    const int OFF[4] = {0, 2, 5, 9};
    std::vector<int> radix = {nr, nr, 4, 4, 2};
    R.phase("rect-tolerance", product(radix), 32,
            [&](uint64_t idx, Ctx& c) {
              auto d = digits(idx, radix);
              const LRect& A0 = rects[d[0]];
              const LRect A{4 * A0.x0, 4 * A0.y0, 4 * A0.x1, 4 * A0.y1};
              const LRect& B0 = rects[d[1]];
              const LRect B{B0.x0 + OFF[d[2]], B0.y0 + OFF[d[3]], B0.x1 + OFF[d[2]], B0.y1 + OFF[d[3]]};
              const bool loosFirst = d[4] == 0;
              const std::string an = A.str() + ".SetTolerance(1.6)", bn = B.str();
              c.describe(an + " ? " + bn);
              CrossSection a = rectVariant(A, 0).SetTolerance(1.6), b = rectVariant(B, 1);
              auto winL = [](const LRect& r) { return PixSet::ofRect(-4, -4, 24, 24, r); };
              const PixSet ma = winL(A), mb = winL(B);
              std::string w0 = judgePixels(a, ma);
              if (!w0.empty()) {
                c.viol("rect:construct " + an, an, w0);
                return;
              }
              for (OpType op : OPS) {
                const std::string prog = loosFirst ? an + " " + opName(op) + " " + bn : bn + " " + opName(op) + " " + an;
                c.describe(prog);
                CrossSection r = loosFirst ? a.Boolean(b, op) : b.Boolean(a, op);
                c.count("transitions");
                const PixSet want = loosFirst ? ma.op(mb, setOp(op)) : mb.op(ma, setOp(op));
                std::string why = judgePixels(r, want);
                if (!why.empty()) c.viol("rect:" + prog, prog, why + "\n" + polysStr(r.ToPolygons()));
                const uint64_t h = want.hash() ^ canonPolysHash(r.ToPolygons());
                c.distinct(h);
                if (nontriv(want, {&ma, &mb})) c.nontrivial(h);
              }
              if (idx % 5003 == 0) c.sample(an + " {+,-,^} " + bn);
            },
            {"transitions"});
  }

  // BatchBoolean over all ordered triples
  {
    std::vector<int> radix = {asanSubset ? 6 : nr, nr, nr, 3};  // ASan: first operand from the 6 rectangles with x in [0,1]
    R.phase("rect-batch3", product(radix), 108,
            [&](uint64_t idx, Ctx& c) {
              auto d = digits(idx, radix);
              const LRect &A = rects[d[0]], &B = rects[d[1]], &C = rects[d[2]];
              const OpType op = OPS[d[3]];
              const int va = d[0] % NVAR, vb = (d[1] + 1) % NVAR, vc = (d[2] + 3) % NVAR;  // mixed constructions
              const std::string prog = std::string("Batch") + opName(op) + "(" + A.str() + "/v" + std::to_string(va) + "," + B.str() +
                                       "/v" + std::to_string(vb) + "," + C.str() + "/v" + std::to_string(vc) + ")";
              c.describe(prog);
              CrossSection r = CrossSection::BatchBoolean({rectVariant(A, va), rectVariant(B, vb), rectVariant(C, vc)}, op);
              c.count("transitions");
              const PixSet ma = win(A), mb = win(B), mc = win(C);
              const PixSet want = ma.op(mb, setOp(op)).op(mc, setOp(op));
              std::string why = judgePixels(r, want);
              if (!why.empty()) c.viol("rect:" + prog, prog, why + "\n" + polysStr(r.ToPolygons()));
              const uint64_t h = want.hash() ^ canonPolysHash(r.ToPolygons());
              c.distinct(h);
              if (nontriv(want, {&ma, &mb, &mc})) c.nontrivial(h);
              if (idx % 20011 == 0) c.sample(prog);
            },
            {"transitions"});
  }

  // fill rules over signed rectangle triples: Positive / EvenOdd of {+-A, +-B, +-C}
  if (!asanSubset) {
    std::vector<int> radix = {nr, nr, nr, 8, 2};
    R.phase("rect-fill3", product(radix), 16 * nr,
            [&](uint64_t idx, Ctx& c) {
              auto d = digits(idx, radix);
              const LRect* Rr[3] = {&rects[d[0]], &rects[d[1]], &rects[d[2]]};
              const bool eo = d[4];
              std::string prog = std::string(eo ? "EvenOdd{" : "Positive{");
              Polygons polys;
              PixSet w(-4, -4, 8, 8);
              for (int k = 0; k < 3; ++k) {
                const bool ccw = !((d[3] >> k) & 1);
                prog += (k ? "," : "") + std::string(ccw ? "+" : "-") + Rr[k]->str();
                polys.push_back(rectPoly(*Rr[k], ccw));
                w.addRect(*Rr[k], ccw ? 1 : -1);
              }
              prog += "}";
              c.describe(prog);
              CrossSection r = eo ? CrossSection::EvenOdd(polys) : CrossSection(polys);
              c.count("transitions");
              const PixSet want = eo ? w.evenOdd() : w.positive();
              std::string why = judgePixels(r, want);
              if (!why.empty()) c.viol("rect:" + prog, prog, why + "\n" + polysStr(r.ToPolygons()));
              const uint64_t h = want.hash() ^ canonPolysHash(r.ToPolygons());
              c.distinct(h);
              if (want.count()) c.nontrivial(h);
              if (idx % 100003 == 0) c.sample(prog);
            },
            {"transitions"});
  }

  // depth-2 programs (A o1 B) o2 C and C o2 (A o1 B)
  if (!asanSubset) {
    std::vector<int> radix = {nr, nr, nr, 3, 3, 2};
    R.phase("rect-d2", product(radix), 18 * nr,
            [&](uint64_t idx, Ctx& c) {
              auto d = digits(idx, radix);
              const LRect &A = rects[d[0]], &B = rects[d[1]], &C = rects[d[2]];
              const OpType o1 = OPS[d[3]], o2 = OPS[d[4]];
              const bool right = d[5];
              const std::string inner = "(" + A.str() + " " + opName(o1) + " " + B.str() + ")";
              const std::string prog = right ? C.str() + " " + opName(o2) + " " + inner : inner + " " + opName(o2) + " " + C.str();
              c.describe(prog);
              CrossSection ab = rectVariant(A, 0).Boolean(rectVariant(B, 1), o1);
              CrossSection cm = rectVariant(C, 0);
              CrossSection r = right ? cm.Boolean(ab, o2) : ab.Boolean(cm, o2);
              c.count("transitions", 2);
              const PixSet mab = win(A).op(win(B), setOp(o1)), mc = win(C);
              const PixSet want = right ? mc.op(mab, setOp(o2)) : mab.op(mc, setOp(o2));
              std::string why = judgePixels(r, want);
              if (!why.empty()) c.viol("rect:" + prog, prog, why + "\n" + polysStr(r.ToPolygons()));
              const uint64_t h = want.hash() ^ canonPolysHash(r.ToPolygons());
              c.distinct(h);
              if (nontriv(want, {&mab, &mc})) c.nontrivial(h);
              if (idx % 100003 == 0) c.sample(prog);
            },
            {"transitions"});
  }

  // transforms and warps of both operands
  {
    const std::vector<Xf> T = makeXfs();
    const int nt = (int)T.size();
    std::vector<int> radix = {nr, nt, nr, nt};
    R.phase("rect-xf", asanSubset ? product(radix) / 6 : product(radix), nt,
            [&](uint64_t idx, Ctx& c) {
              auto d = digits(idx, radix);
              const LRect &A = rects[d[0]], &B = rects[d[2]];
              const Xf &ta = T[d[1]], &tb = T[d[3]];
              const std::string an = A.str() + "." + ta.name, bn = B.str() + "." + tb.name;
              c.describe(an + " ? " + bn);
              // A is built unregularized (Rect constructor), B through the fill rule
              CrossSection a = ta.f(rectVariant(A, 0)), b = tb.f(rectVariant(B, 1));
              const PixSet ma = ta.m(win(A)), mb = tb.m(win(B));
              c.count("transitions", 2);
              std::string w0 = judgePixels(a, ma);
              if (!w0.empty()) {
                c.viol("rect:" + an, an, w0 + "\n" + polysStr(a.ToPolygons()));
                return;
              }
              for (OpType op : OPS) {
                const std::string prog = an + " " + opName(op) + " " + bn;
                c.describe(prog);
                CrossSection r = a.Boolean(b, op);
                c.count("transitions");
                const PixSet want = ma.op(mb, setOp(op));
                std::string why = judgePixels(r, want);
                if (!why.empty()) c.viol("rect:" + prog, prog, why + "\n" + polysStr(r.ToPolygons()));
                const uint64_t h = want.hash() ^ canonPolysHash(r.ToPolygons());
                c.distinct(h);
                if (nontriv(want, {&ma, &mb})) c.nontrivial(h);
              }
              if (idx % 30011 == 0) c.sample(an + " {+,-,^} " + bn);
            },
            {"transitions"});
  }

  // ---------- combs: one arrangement of > 1024 edges (BVH broad phase) against the pixel model
  {
    const std::vector<Scene> scenes = makeScenes(thorough && !asanSubset ? 1000 : 400);
    R.phase("comb-bvh", scenes.size() * NPROG, 1,
            [&](uint64_t idx, Ctx& c) {
              const Scene& s = scenes[idx / NPROG];
              const int p = (int)(idx % NPROG);
              const std::string prog = "comb:" + s.name + ":" + PROGN[p];
              c.describe(prog);
              PixSet w(0, 0, s.W, s.H);
              Polygons polys;
              std::vector<CrossSection> cs;
              for (auto& r : s.parts) {
                w.addRect(r, 1);
                polys.push_back(rectPoly(r, true));
              }
              const PixSet bar = PixSet::ofRect(0, 0, s.W, s.H, s.bar);
              CrossSection r;
              PixSet want;
              size_t edges = polys.size() * 4;
              if (p == 0 || p == 6) {
                if (p == 6) cs.push_back(CrossSection(Rect({0.0, 0.0}, {(double)s.W, (double)s.H})));
                for (auto& q : s.parts) cs.push_back(rectVariant(q, 0));
                r = CrossSection::BatchBoolean(cs, p == 0 ? OpType::Add : OpType::Subtract);
                want = p == 0 ? w.positive() : PixSet::ofRect(0, 0, s.W, s.H, {0, 0, s.W, s.H}).op(w.positive(), SetOp::Subtract);
              } else if (p == 1) {
                r = CrossSection(polys);
                want = w.positive();
              } else if (p == 2) {
                r = CrossSection::EvenOdd(polys);
                want = w.evenOdd();
              } else {
                CrossSection u(polys);
                edges = u.NumVert() + 4;
                r = u.Boolean(rectVariant(s.bar, 0), OPS[p - 3]);
                want = w.positive().op(bar, setOp(OPS[p - 3]));
              }
              c.count("transitions");
              if (edges >= 1024) c.count("arrangements_over_1024_edges");
              std::string why = judgePixels(r, want);
              if (!why.empty()) c.viol(prog, prog, why);
              const uint64_t h = want.hash() ^ canonPolysHash(r.ToPolygons());
              c.distinct(h);
              if (want.count()) c.nontrivial(h);
              c.sample(prog + " (" + std::to_string(edges) + " input edges, " + std::to_string(r.NumVert()) + " output vertices)");
            },
            {"transitions", "arrangements_over_1024_edges"});
  }
  return R.finish();
}
