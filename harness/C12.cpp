// C12 - Offset, Hull, Decompose and Simplify of CrossSections mean what they say.
//
// Engine S: exhaustive enumeration of small input spaces on the real library,
// judged by oracles that never look at how the library computes its answer.
//
//  (1) offset: 9 regions on half-integer coordinates x 4 join types x miter
//      limit {1,2,4} x segment count {0,4,8,16}; each case runs the 9 deltas
//      -1.5 .. 1.5 (0 included).  Oracle: exact distance field of the input
//      region at the sample points (2k+1)/U of (-7.5,12.5)^2, U = 32 (quick; 64
//      thorough, 16 under ASan) - int64 arithmetic in units of 1/U: vertices are
//      multiples of U/2, samples odd, so membership, distance and edge-strip
//      depth are exact rationals.
//        delta>0  must be inside : the input region; every point q+t*n, q in an
//                                  edge's interior, n its outward normal, t<delta;
//                                  Round only: d(p) < delta*cos(pi/n)
//                 must be outside: Round: d(p) > delta; other joins:
//                                  d(p) > max(2,miterLimit)*delta
//        delta<0  the mirror statement about the complement.
//      Plus: monotone in delta at the samples, winding in {0,1}, no ring defects
//      (lib/geom2.h ringDefects), Offset(0) == input.  Every non-empty result
//      is additionally fed to Decompose / Hull / Simplify (general-position
//      oracles: partition, convexity + containment, in-order subset + deviation).
//  (2) hull-pts: every subset of <= 6 (thorough: 8) of the 16 lattice points, in sorted,
//      reversed and reversed-with-a-repeated-point order, through
//      Hull(SimplePolygon): must equal the brute-force hull exactly.
//      hull-pairs: all ordered pairs of the 516 lattice triangles through
//      Hull(vector<CrossSection>) and Hull(Polygons).
//  (3) decomp-free: every multiset of <= 3 shapes (integer rectangles and
//      rectangles with a strictly interior rectangular hole) in [0,W]^2;
//      decomp-nest: a fixed frame ring plus every unordered pair of rectangles /
//      unit-thick rings inside its hole (ring in hole in ring, islands);
//      decomp-pixels: every subset of the 4x4 pixel grid as a union of unit
//      squares (all lattice regions of the window, every corner contact).  Judged
//      against the pixel model: contours partitioned, one outline per component,
//      areas sum, windings of the components at every pixel centre sum to the
//      model bit, the pixel to the left of every contour edge belongs to the
//      component the contour is attached to, component count == connected
//      components of the model (4- and 8-connectivity must agree to be judged
//      exactly, else the count must lie between them).
//  (4) simplify: every simple counter-clockwise lattice ring of 3..6 vertices
//      x tolerance {0, 0.1, 0.6, 1.1}.
#include <cmath>
#include <map>
#include <set>
#include <sstream>

#include "engine/runner.h"
#include "lib/geom2.h"
#include "manifold/cross_section.h"

using namespace manifold;
using namespace vf;
using namespace vf::g2;

// ------------------------------------------------------------------ printing
static std::string num(double v) {  // shortest decimal that reads back as v
  char b[40];
  for (int prec = 1; prec <= 17; ++prec) {
    snprintf(b, sizeof b, "%.*g", prec, v);
    if (strtod(b, nullptr) == v) break;
  }
  return b;
}
static std::string polysStr(const Polygons& p, const char* what = "output") {
  std::ostringstream s;
  s.precision(17);
  s << what << " " << p.size() << " ring(s):";
  for (auto& r : p) {
    s << " [";
    for (size_t i = 0; i < r.size(); ++i) s << (i ? "," : "") << "(" << r[i].x << "," << r[i].y << ")";
    s << "]";
  }
  return s.str();
}
static std::string ringStr(const IRing& r) {
  std::string s = "[";
  for (size_t i = 0; i < r.size(); ++i) {
    if (i) s += ",";
    s += "(" + std::to_string(r[i].x) + "," + std::to_string(r[i].y) + ")";
  }
  return s + "]";
}
static SimplePolygon toPoly(const IRing& r, double scale = 1) {
  SimplePolygon p;
  for (auto& v : r) p.push_back({v.x * scale, v.y * scale});
  return p;
}
static double maxAbsCoord(const Polygons& p) {
  double m = 0;
  for (auto& r : p)
    for (auto& v : r) m = std::max(m, std::max(std::fabs(v.x), std::fabs(v.y)));
  return m;
}

// ================================================================== general-position oracles
// (used on Offset results, whose coordinates are arbitrary doubles)

// is `o` a cyclic in-order subsequence of `r` (exact coordinate equality)?
static bool cyclicSubseq(const SimplePolygon& o, const SimplePolygon& r) {
  const size_t m = o.size(), n = r.size();
  if (m == 0) return true;
  if (m > n) return false;
  for (size_t s = 0; s < n; ++s) {
    if (!(r[s].x == o[0].x && r[s].y == o[0].y)) continue;
    size_t k = 1;
    for (size_t i = 1; i < n && k < m; ++i) {
      const vec2& v = r[(s + i) % n];
      if (v.x == o[k].x && v.y == o[k].y) ++k;
    }
    if (k == m) return true;
  }
  return false;
}
// distance from p to the line through a and b (long double); -1 if a == b
static long double lineDev(const vec2& p, const vec2& a, const vec2& b) {
  const long double dx = (long double)b.x - a.x, dy = (long double)b.y - a.y;
  const long double len = hypotl(dx, dy);
  if (len == 0) return -1;
  return fabsl(dx * ((long double)p.y - a.y) - dy * ((long double)p.x - a.x)) / len;
}

// Simplify: `out` = in.Simplify(tol).  tolEff is the tolerance the documentation says is used.
static std::string judgeSimplify(const Polygons& in, const Polygons& out, double tolEff, long* removed = nullptr) {
  const double scale = std::max(1.0, maxAbsCoord(in));
  // the library compares in double; a deviation is judged only if it is below the tolerance by more than this
  const long double margin = 1e-9L * tolEff + 16 * 2.3e-16L * scale;
  std::vector<char> used(in.size(), 0);
  size_t nin = 0, nout = 0;
  for (auto& r : in) nin += r.size();
  char buf[400];
  for (size_t oi = 0; oi < out.size(); ++oi) {
    const auto& o = out[oi];
    nout += o.size();
    int from = -1;
    for (size_t ii = 0; ii < in.size() && from < 0; ++ii)
      if (!used[ii] && cyclicSubseq(o, in[ii])) from = (int)ii;
    if (from < 0) {
      snprintf(buf, sizeof buf, "output ring %zu (%zu vertices) is not an in-order subset of the vertices of any (unused) input ring", oi,
               o.size());
      return buf;
    }
    used[from] = 1;
    const size_t m = o.size();
    if (m <= 3) continue;
    for (size_t i = 0; i < m; ++i) {
      const long double dev = lineDev(o[i], o[(i + m - 1) % m], o[(i + 1) % m]);
      if (dev < 0) continue;  // neighbours coincide: no line
      if (dev < (long double)tolEff - margin) {
        snprintf(buf, sizeof buf,
                 "output ring %zu has %zu vertices and vertex %zu (%.17g,%.17g) is %.6Lg from the line through its neighbours, closer than "
                 "the tolerance %.17g",
                 oi, m, i, o[i].x, o[i].y, dev, tolEff);
        return buf;
      }
    }
  }
  if (removed) *removed += (long)nin - (long)nout;
  return "";
}

static uint64_t ringHash(const SimplePolygon& r) { return canonPolysHash(Polygons{r}); }

// Decompose on arbitrary geometry: contours partitioned, one outline per component, areas sum, and at the
// given points the component windings are 0/1 and sum to the whole's winding.
static std::string judgeDecomposeGeneral(const CrossSection& cs, const std::vector<CrossSection>& comps, const std::vector<vec2>& pts,
                                         double margin) {
  const Polygons whole = cs.ToPolygons();
  char buf[400];
  if (whole.empty()) {
    for (auto& k : comps)
      if (!k.IsEmpty()) return "a component of an empty cross-section is not empty";
    return "";
  }
  std::vector<uint64_t> hw, hc;
  for (auto& r : whole) hw.push_back(ringHash(r));
  std::vector<Polygons> cp;
  long double areaSum = 0;
  for (size_t k = 0; k < comps.size(); ++k) {
    cp.push_back(comps[k].ToPolygons());
    int pos = 0;
    for (auto& r : cp.back()) {
      hc.push_back(ringHash(r));
      pos += signedAreaRing(r) > 0;
    }
    if (pos != 1) {
      snprintf(buf, sizeof buf, "component %zu has %d outline (positive) contours among its %zu contours", k, pos, cp.back().size());
      return buf;
    }
    areaSum += comps[k].Area();
  }
  std::sort(hw.begin(), hw.end());
  std::sort(hc.begin(), hc.end());
  if (hw != hc) {
    snprintf(buf, sizeof buf, "the %zu contours of the components are not a partition of the %zu contours of the whole", hc.size(), hw.size());
    return buf;
  }
  const double area = cs.Area();
  if (!(fabsl(areaSum - area) <= 1e-9 * (1 + std::fabs(area)))) {
    snprintf(buf, sizeof buf, "component areas sum to %.17Lg but the whole has area %.17g", areaSum, area);
    return buf;
  }
  for (auto& p : pts) {
    const int w = windingOf(whole, p.x, p.y);
    int sum = 0;
    bool bad = false;
    for (auto& q : cp) {
      const int wk = windingOf(q, p.x, p.y);
      sum += wk;
      bad |= wk != 0 && wk != 1;
    }
    if ((bad || sum != w) && distToRings(whole, p.x, p.y) > margin) {
      snprintf(buf, sizeof buf, "at (%.17g,%.17g) the component windings sum to %d%s, the whole has winding %d", p.x, p.y, sum,
               bad ? " (one of them is not 0/1)" : "", w);
      return buf;
    }
  }
  return "";
}

// Hull of arbitrary vertices: hull vertices are input vertices, the ring is convex counter-clockwise, every
// input vertex is inside it (all up to `margin`).
static std::string judgeHullGeneral(const Polygons& in, const Polygons& hull, double margin) {
  std::set<std::pair<double, double>> V;
  for (auto& r : in)
    for (auto& v : r) V.insert({v.x, v.y});
  char buf[400];
  if (hull.size() != 1) {
    snprintf(buf, sizeof buf, "hull of %zu vertices has %zu contours", V.size(), hull.size());
    return buf;
  }
  const auto& h = hull[0];
  const size_t m = h.size();
  for (auto& v : h)
    if (!V.count({v.x, v.y})) {
      snprintf(buf, sizeof buf, "hull vertex (%.17g,%.17g) is not an input vertex", v.x, v.y);
      return buf;
    }
  if (!(signedAreaRing(h) > 0)) return "hull ring is not counter-clockwise";
  for (size_t i = 0; i < m; ++i) {
    const vec2 &a = h[i], &b = h[(i + 1) % m], &c = h[(i + 2) % m];
    const long double len = hypotl((long double)b.x - a.x, (long double)b.y - a.y);
    if (len == 0) return "hull ring repeats a vertex";
    if (orientL(a, b, c.x, c.y) / len < -margin) {
      snprintf(buf, sizeof buf, "hull turns clockwise at (%.17g,%.17g)", b.x, b.y);
      return buf;
    }
    for (auto& v : V)
      if (orientL(a, b, v.first, v.second) / len < -margin) {
        snprintf(buf, sizeof buf, "input vertex (%.17g,%.17g) is outside hull edge (%.17g,%.17g)-(%.17g,%.17g)", v.first, v.second, a.x, a.y,
                 b.x, b.y);
        return buf;
      }
  }
  return "";
}

// ================================================================== (1) Offset
// Integer units per 1.0 (16, 32 or 64 by tier).  Region vertices are multiples of U/2, the samples are the odd
// integers SLO + 2 i, i in [0,NS): the points (2k+1)/U of (-7.5, 12.5) in both coordinates.
static int U = 32, SLO = -239, NS = 320;
static void setResolution(int u) {
  U = u;
  SLO = -15 * u / 2 + 1;
  NS = 10 * u;
}
static inline int64_t sUnit(int i) { return SLO + 2 * i; }

struct Region {
  std::string name;
  std::vector<IRing> rings;  // units of 1/U; outlines counter-clockwise, holes clockwise (interior on the left)
  Polygons polys() const {
    Polygons p;
    for (auto& r : rings) p.push_back(toPoly(r, 1.0 / U));
    return p;
  }
};
static IRing ring2(std::initializer_list<std::pair<double, double>> pts) {
  IRing r;
  for (auto& p : pts) r.push_back({(int64_t)std::llround(p.first * U), (int64_t)std::llround(p.second * U)});
  return r;
}
static std::vector<Region> makeRegions() {
  std::vector<Region> R;
  R.push_back({"square2", {ring2({{0, 0}, {2, 0}, {2, 2}, {0, 2}})}});
  R.push_back({"L", {ring2({{0, 0}, {3, 0}, {3, 1}, {1, 1}, {1, 3}, {0, 3}})}});
  R.push_back({"T", {ring2({{1, 0}, {2, 0}, {2, 2}, {3, 2}, {3, 3}, {0, 3}, {0, 2}, {1, 2}})}});
  R.push_back({"holed", {ring2({{0, 0}, {5, 0}, {5, 5}, {0, 5}}), ring2({{1, 1}, {1, 3.5}, {3.5, 3.5}, {3.5, 1}})}});
  R.push_back({"two", {ring2({{0, 0}, {2, 0}, {2, 2}, {0, 2}}), ring2({{3, 0.5}, {5, 0.5}, {5, 2.5}, {3, 2.5}})}});
  R.push_back({"spike", {ring2({{0, 0}, {4, 0}, {0, 0.5}})}});
  R.push_back({"tri45", {ring2({{0, 0}, {2, 0}, {0, 2}})}});  // 45 degree corners: mitered under limit 4, squared under 2
  R.push_back({"square2c", {ring2({{0, 0}, {1, 0}, {2, 0}, {2, 2}, {0.5, 2}, {0, 2}})}});  // collinear vertices on two edges
  R.push_back({"dart", {ring2({{0, 0}, {4, 1}, {0, 2}, {1, 1}})}});  // oblique reflex vertex, two 14 degree tips
  return R;
}

// exact distance field of a region at the samples
struct Field {
  std::vector<int8_t> inside;    // 1 inside, 0 outside, 2 on the boundary
  std::vector<double> dist;      // distance to the boundary
  std::vector<double> outDepth;  // min normal distance over edges whose outward strip contains the sample (inf if none)
  std::vector<double> inDepth;   // same for the inward strips
};
static Field makeField(const Region& rg) {
  Field f;
  const size_t N = (size_t)NS * NS;
  f.inside.assign(N, 0);
  f.dist.assign(N, 0);
  f.outDepth.assign(N, INFINITY);
  f.inDepth.assign(N, INFINITY);
  for (int j = 0; j < NS; ++j)
    for (int i = 0; i < NS; ++i) {
      const IPt p{sUnit(i), sUnit(j)};
      const size_t s = (size_t)j * NS + i;
      bool on = false;
      const int w = windingExact(rg.rings, p, &on);
      f.inside[s] = on ? 2 : (w > 0 ? 1 : 0);
      long double d2 = INFINITY;
      for (auto& r : rg.rings)
        for (size_t e = 0, n = r.size(); e < n; ++e) {
          const IPt a = r[e], b = r[(e + 1) % n];
          d2 = std::min(d2, distSqPointSeg(p, a, b));
          const int64_t len2 = dot(a, b, b), t = dot(a, b, p);
          if (t <= 0 || t >= len2) continue;  // the foot of the perpendicular is not in the edge's interior
          const int64_t o = orient(a, b, p);  // > 0: left of the edge = interior side
          const double depth = (double)(fabsl((long double)o) / sqrtl((long double)len2) / U);
          if (o < 0) f.outDepth[s] = std::min(f.outDepth[s], depth);
          if (o > 0) f.inDepth[s] = std::min(f.inDepth[s], depth);
        }
      f.dist[s] = (double)(sqrtl(d2) / U);
    }
  return f;
}

static const double DELTAS[9] = {-1.5, -1, -0.5, -0.25, 0, 0.25, 0.5, 1, 1.5};
static const JoinType JOINS[4] = {JoinType::Round, JoinType::Miter, JoinType::Square, JoinType::Bevel};
static const char* JOINN[4] = {"Round", "Miter", "Square", "Bevel"};
static const double MLS[3] = {1, 2, 4};
static const int SEGS[4] = {0, 4, 8, 16};
static const double SIMP_TOL_GENERAL[4] = {0, 0.01, 0.1, 0.6};

static void offsetCase(uint64_t idx, Ctx& c, const std::vector<Region>& regions, const std::vector<Field>& fields) {
  const std::vector<int> radix = {(int)regions.size(), 4, 3, 4};
  const auto dg = digits(idx, radix);
  const Region& rg = regions[dg[0]];
  const Field& F = fields[dg[0]];
  const JoinType jt = JOINS[dg[1]];
  const bool round = jt == JoinType::Round;
  const double ml = MLS[dg[2]];
  const int segs = SEGS[dg[3]];
  const std::string name = "offset:" + rg.name + ":" + JOINN[dg[1]] + ":ml=" + num(ml) + ":seg=" + std::to_string(segs);
  c.describe(name + ":construct");
  const CrossSection cs(rg.polys());
  const Polygons inPolys = cs.ToPolygons();
  const size_t N = (size_t)NS * NS;
  std::vector<double> xsv(NS);
  for (int i = 0; i < NS; ++i) xsv[i] = (double)sUnit(i) / U;
  const double* xs = xsv.data();

  std::vector<std::vector<int8_t>> W(9, std::vector<int8_t>(N));
  std::vector<Polygons> outs(9);
  std::vector<double> margins(9);
  long judged = 0, mustIn = 0, mustOut = 0;
  for (int di = 0; di < 9; ++di) {
    const double delta = DELTAS[di];
    const std::string key = name + ":delta=" + num(delta);
    c.describe(key);
    const CrossSection r = cs.Offset(delta, jt, ml, segs);
    c.count("transitions");
    const Polygons out = r.ToPolygons();
    outs[di] = out;
    const double margin = 2e-8 + r.GetTolerance();  // 1e-9 x coordinate scale (<= 20) + the result's tolerance
    margins[di] = margin;
    std::vector<int> wrowv(NS);
    int* wrow = wrowv.data();
    for (int j = 0; j < NS; ++j) {
      windingRow(out, xs[j], xs, NS, wrow);
      for (int i = 0; i < NS; ++i) W[di][(size_t)j * NS + i] = (int8_t)std::max(-100, std::min(100, wrow[i]));
    }
    const uint64_t h = canonPolysHash(out);
    c.distinct(h ^ mix64(di));
    if (delta != 0 && !out.empty()) c.nontrivial(h ^ mix64(di));

    std::string why, rule;
    if (delta == 0 && canonPolysHash(out) != canonPolysHash(inPolys)) {
      rule = "identity";
      why = "Offset(0) differs from the input";
    }
    // ---- the distance oracle
    const long double a = std::fabs(delta);
    int n = segs;
    if (n < 3) n = Quality::GetCircularSegments((double)a);  // "Default is calculated by the static Quality defaults according to the radius"
    if (n < 3) {
      c.viol("offset:GetCircularSegments<3", key, "");
      n = 3;
    }
    const long double inner = a * cosl(3.14159265358979323846264338327950288L / n);
    const long double outer = round ? a : std::max(2.0, ml) * a;
    for (size_t s = 0; s < N && why.empty(); ++s) {
      const int in = F.inside[s];
      const double dist = F.dist[s];
      int expect = -1;
      const char* rl = "";
      if (delta > 0) {
        if (in != 0) expect = 1, rl = "contains-input";
        else if (F.outDepth[s] < a - margin) expect = 1, rl = "edge-strip";
        else if (round && dist < inner - margin) expect = 1, rl = "round-inner";
        else if (dist > outer + margin) expect = 0, rl = round ? "round-outer" : "miter-limit";
      } else if (delta < 0) {
        if (in != 1) expect = 0, rl = "contains-complement";
        else if (F.inDepth[s] < a - margin) expect = 0, rl = "edge-strip";
        else if (round && dist < inner - margin) expect = 0, rl = "round-inner";
        else if (dist > outer + margin) expect = 1, rl = round ? "round-outer" : "miter-limit";
      } else {
        if (in == 1) expect = 1, rl = "identity";
        if (in == 0) expect = 0, rl = "identity";
      }
      if (expect < 0) continue;
      ++judged;
      (expect ? mustIn : mustOut)++;
      if (W[di][s] != expect) {
        rule = rl;
        std::ostringstream o;
        o.precision(17);
        o << "at (" << xs[s % NS] << "," << xs[s / NS] << ") the result has winding " << (int)W[di][s] << " but the point must be "
          << (expect ? "inside" : "outside") << " (rule " << rl << "): it is " << (in == 1 ? "inside" : in == 0 ? "outside" : "on the boundary of")
          << " the input, " << dist << " from its boundary, edge-strip depth out/in " << F.outDepth[s] << "/" << F.inDepth[s]
          << "; segments n=" << n << ", delta*cos(pi/n)=" << (double)inner << ", outer limit " << (double)outer;
        why = o.str();
      }
    }
    // ---- regularized
    if (why.empty()) {
      for (size_t s = 0; s < N; ++s)
        if (W[di][s] != 0 && W[di][s] != 1 && distToRings(out, xs[s % NS], xs[s / NS]) > margin) {
          rule = "winding";
          why = "at (" + num(xs[s % NS]) + "," + num(xs[s / NS]) + ") the result has winding " + std::to_string((int)W[di][s]);
          break;
        }
    }
    if (why.empty()) {
      why = ringDefects(out, margin, 1e-6L);
      if (!why.empty()) rule = "ring-defect";
    }
    if (!why.empty()) c.viol(key + ":" + rule, key, why + "\n" + polysStr(out));

    // ---- derived operations on a general-position result
    if (delta != 0 && !out.empty()) {
      c.describe(key + ":Decompose");
      const std::vector<CrossSection> comps = r.Decompose();
      c.count("transitions");
      std::vector<vec2> pts;
      for (int j = 1; j < NS; j += U / 4)
        for (int i = 1; i < NS; i += U / 4)
          if (F.dist[(size_t)j * NS + i] < 4) pts.push_back({xs[i], xs[j]});
      std::string w2 = judgeDecomposeGeneral(r, comps, pts, margin);
      if (!w2.empty()) c.viol(key + ":decompose", key, w2 + "\n" + polysStr(out));
      c.describe(key + ":Hull");
      const CrossSection hl = r.Hull();
      c.count("transitions");
      w2 = judgeHullGeneral(out, hl.ToPolygons(), margin);
      if (!w2.empty()) c.viol(key + ":hull", key, w2 + "\n" + polysStr(hl.ToPolygons(), "hull") + "\n" + polysStr(out, "input"));
      for (double tol : SIMP_TOL_GENERAL) {
        c.describe(key + ":Simplify(" + num(tol) + ")");
        const CrossSection sm = r.Simplify(tol);
        c.count("transitions");
        long removed = 0;
        w2 = judgeSimplify(out, sm.ToPolygons(), tol == 0 ? r.GetTolerance() : tol, &removed);
        c.count("simplify_vertices_removed", removed);
        if (!w2.empty())
          c.viol(key + ":simplify(" + num(tol) + ")", key, w2 + "\n" + polysStr(sm.ToPolygons()) + "\n" + polysStr(out, "input"));
      }
    }
  }
  // ---- monotone in delta
  for (int d1 = 0; d1 < 9; ++d1)
    for (int d2 = d1 + 1; d2 < 9; ++d2) {
      const int8_t *w1 = W[d1].data(), *w2 = W[d2].data();
      for (size_t s = 0; s < N; ++s) {
        if (!(w1[s] > 0 && w2[s] <= 0)) continue;
        const double x = xs[s % NS], y = xs[s / NS];
        if (distToRings(outs[d1], x, y) <= margins[d1] || distToRings(outs[d2], x, y) <= margins[d2]) continue;
        const std::string key = name + ":monotone:delta=" + num(DELTAS[d1]) + "<" + num(DELTAS[d2]);
        c.viol(key, key,
               "(" + num(x) + "," + num(y) + ") is inside Offset(" + num(DELTAS[d1]) + ") but outside Offset(" + num(DELTAS[d2]) + ")\n" +
                   polysStr(outs[d1], "smaller") + "\n" + polysStr(outs[d2], "larger"));
        break;
      }
    }
  c.count("points_judged", judged);
  c.count("must_in", mustIn);
  c.count("must_out", mustOut);
  if (idx % 37 == 5) c.sample(name + " x 9 deltas: " + std::to_string(judged) + " judged samples");
}

// ================================================================== (2) Hull on the lattice
// Brute force: p is a hull vertex iff it is neither on a segment between two other points nor in a
// non-degenerate triangle of three other points.  Returns the hull counter-clockwise starting at the
// smallest (x,y) point, or {} if the points are collinear / fewer than 3.
static IRing bruteHull(std::vector<IPt> S) {
  std::sort(S.begin(), S.end());
  S.erase(std::unique(S.begin(), S.end()), S.end());
  const size_t n = S.size();
  IRing ext;
  for (size_t i = 0; i < n; ++i) {
    const IPt p = S[i];
    bool extreme = true;
    for (size_t a = 0; a < n && extreme; ++a)
      for (size_t b = a + 1; b < n && extreme; ++b) {
        if (a == i || b == i) continue;
        if (onSegment(S[a], S[b], p)) extreme = false;
        for (size_t d = b + 1; d < n && extreme; ++d) {
          if (d == i) continue;
          const int64_t o = orient(S[a], S[b], S[d]);
          if (o == 0) continue;
          const int s1 = sgn(orient(S[a], S[b], p)) * sgn(o), s2 = sgn(orient(S[b], S[d], p)) * sgn(o),
                    s3 = sgn(orient(S[d], S[a], p)) * sgn(o);
          if (s1 >= 0 && s2 >= 0 && s3 >= 0) extreme = false;
        }
      }
    if (extreme) ext.push_back(p);
  }
  if (ext.size() < 3) return {};
  const IPt p0 = ext[0];  // smallest (x,y): S is sorted
  std::sort(ext.begin() + 1, ext.end(), [&](IPt a, IPt b) { return orient(p0, a, b) > 0; });
  return ext;
}
static std::string judgeHullLattice(const CrossSection& h, const IRing& want) {
  const Polygons out = h.ToPolygons();
  char buf[300];
  if (want.empty()) {
    // fewer than 3 points / collinear: the region is empty.  Accept an empty result or zero-area rings.
    if (out.empty()) return "";
    if (std::fabs(h.Area()) == 0 && signedArea(out) == 0) return "";
    return "hull of collinear / fewer than 3 points is not empty";
  }
  if (out.size() != 1) {
    snprintf(buf, sizeof buf, "hull has %zu contours", out.size());
    return buf;
  }
  const auto& r = out[0];
  const size_t m = want.size();
  bool ok = r.size() == m;
  if (ok) {
    size_t s = 0;
    while (s < m && !(r[s].x == (double)want[0].x && r[s].y == (double)want[0].y)) ++s;
    ok = s < m;
    for (size_t i = 0; ok && i < m; ++i) ok = r[(s + i) % m].x == (double)want[i].x && r[(s + i) % m].y == (double)want[i].y;
  }
  if (!ok) return "hull ring differs from the brute-force hull " + ringStr(want) + " (counter-clockwise)";
  const double area = h.Area();
  if (std::fabs(area - area2(want) / 2.0) > 1e-12) return "hull Area() = " + num(area) + " but the exact area is " + num(area2(want) / 2.0);
  return "";
}
static IPt lat(int k) { return {k / 4, k % 4}; }

// ================================================================== (3) Decompose on the lattice
struct Shape {
  LRect o;
  bool ring;
  LRect h;
  std::string str() const { return ring ? "Ring(" + o.str() + "-" + h.str() + ")" : o.str(); }
};
static SimplePolygon rectPoly(const LRect& r, bool ccw) {
  const double x0 = r.x0, y0 = r.y0, x1 = r.x1, y1 = r.y1;
  if (ccw) return {{x0, y0}, {x1, y0}, {x1, y1}, {x0, y1}};
  return {{x0, y0}, {x0, y1}, {x1, y1}, {x1, y0}};
}
// all rectangles with corners in [lo,hi]^2, then rings; anyHole: every strictly interior hole, else only the unit-thick ring
static std::vector<Shape> shapeFamily(int lo, int hi, bool anyHole) {
  std::vector<Shape> f;
  std::vector<LRect> rs;
  for (int x0 = lo; x0 < hi; ++x0)
    for (int x1 = x0 + 1; x1 <= hi; ++x1)
      for (int y0 = lo; y0 < hi; ++y0)
        for (int y1 = y0 + 1; y1 <= hi; ++y1) rs.push_back({x0, y0, x1, y1});
  for (auto& r : rs) f.push_back({r, false, {0, 0, 0, 0}});
  for (auto& r : rs) {
    if (anyHole) {
      for (int a = r.x0 + 1; a < r.x1; ++a)
        for (int b = a + 1; b < r.x1; ++b)
          for (int cc = r.y0 + 1; cc < r.y1; ++cc)
            for (int d = cc + 1; d < r.y1; ++d) f.push_back({r, true, {a, cc, b, d}});
    } else if (r.x1 - r.x0 >= 3 && r.y1 - r.y0 >= 3)
      f.push_back({r, true, {r.x0 + 1, r.y0 + 1, r.x1 - 1, r.y1 - 1}});
  }
  return f;
}
static int pixelComponents(const PixSet& m, bool eight) {
  std::vector<char> seen((size_t)m.W * m.H, 0);
  int n = 0;
  std::vector<std::pair<int, int>> st;
  for (int y = m.oy; y < m.oy + m.H; ++y)
    for (int x = m.ox; x < m.ox + m.W; ++x) {
      if (!m.get(x, y) || seen[(size_t)(y - m.oy) * m.W + (x - m.ox)]) continue;
      ++n;
      st.push_back({x, y});
      seen[(size_t)(y - m.oy) * m.W + (x - m.ox)] = 1;
      while (!st.empty()) {
        auto [cx, cy] = st.back();
        st.pop_back();
        for (int dy = -1; dy <= 1; ++dy)
          for (int dx = -1; dx <= 1; ++dx) {
            if ((dx == 0 && dy == 0) || (!eight && dx != 0 && dy != 0)) continue;
            const int nx = cx + dx, ny = cy + dy;
            if (!m.inWin(nx, ny) || !m.get(nx, ny)) continue;
            char& sn = seen[(size_t)(ny - m.oy) * m.W + (nx - m.ox)];
            if (sn) continue;
            sn = 1;
            st.push_back({nx, ny});
          }
      }
    }
  return n;
}
static bool isInt(double v) { return v == std::nearbyint(v); }

// The whole must be the model; the components must partition it as the property says.
static std::string judgeDecomposeLattice(const CrossSection& cs, const std::vector<CrossSection>& comps, const PixSet& model, int* nComp,
                                         bool* ambiguous, bool* like4 = nullptr) {
  const Polygons whole = cs.ToPolygons();
  char buf[400];
  const long cnt = model.count();
  if (std::fabs(cs.Area() - cnt) > 1e-9) {
    snprintf(buf, sizeof buf, "input: Area()=%.17g but the pixel model has %ld pixels", cs.Area(), cnt);
    return buf;
  }
  std::vector<Polygons> cp;
  std::vector<uint64_t> hw, hc;
  for (auto& r : whole) hw.push_back(ringHash(r));
  long double areaSum = 0;
  for (size_t k = 0; k < comps.size(); ++k) {
    if (comps[k].IsEmpty()) {
      if (whole.empty()) continue;  // Decompose of the empty set returns one empty piece; not judged (see findings)
      snprintf(buf, sizeof buf, "component %zu is empty", k);
      return buf;
    }
    cp.push_back(comps[k].ToPolygons());
    int pos = 0;
    for (auto& r : cp.back()) {
      hc.push_back(ringHash(r));
      pos += signedAreaRing(r) > 0;
    }
    if (pos != 1) {
      snprintf(buf, sizeof buf, "component %zu has %d outline (positive) contours among its %zu contours", k, pos, cp.back().size());
      return buf;
    }
    areaSum += comps[k].Area();
  }
  *nComp = (int)cp.size();
  std::sort(hw.begin(), hw.end());
  std::sort(hc.begin(), hc.end());
  if (hw != hc) {
    snprintf(buf, sizeof buf, "the %zu contours of the components are not a partition of the %zu contours of the whole", hc.size(), hw.size());
    return buf;
  }
  if (fabsl(areaSum - cnt) > 1e-9) {
    snprintf(buf, sizeof buf, "component areas sum to %.17Lg but the whole has area %ld", areaSum, cnt);
    return buf;
  }
  // components pairwise disjoint and covering the model at every pixel centre
  for (int y = model.oy; y < model.oy + model.H; ++y)
    for (int x = model.ox; x < model.ox + model.W; ++x) {
      int sum = 0, hit = -1;
      for (size_t k = 0; k < cp.size(); ++k) {
        const int wk = windingOf(cp[k], x + 0.5, y + 0.5);
        if (wk != 0 && wk != 1) {
          snprintf(buf, sizeof buf, "component %zu has winding %d at pixel centre (%g,%g)", k, wk, x + 0.5, y + 0.5);
          return buf;
        }
        if (wk && hit >= 0) {
          snprintf(buf, sizeof buf, "components %d and %zu both contain pixel centre (%g,%g)", hit, k, x + 0.5, y + 0.5);
          return buf;
        }
        if (wk) hit = (int)k;
        sum += wk;
      }
      if (sum != model.get(x, y)) {
        snprintf(buf, sizeof buf, "pixel centre (%g,%g): %d component(s) contain it but the model bit is %d", x + 0.5, y + 0.5, sum, model.get(x, y));
        return buf;
      }
    }
  // every contour (outline or hole) bounds the component it is attached to: the pixel to the left of each of its
  // unit edges belongs to that component, the pixel to the right does not
  for (size_t k = 0; k < cp.size(); ++k)
    for (size_t ri = 0; ri < cp[k].size(); ++ri) {
      const auto& r = cp[k][ri];
      for (size_t i = 0, n = r.size(); i < n; ++i) {
        const vec2 a = r[i], b = r[(i + 1) % n];
        if (!isInt(a.x) || !isInt(a.y) || !isInt(b.x) || !isInt(b.y) || (a.x != b.x && a.y != b.y)) {
          snprintf(buf, sizeof buf, "input: edge (%.17g,%.17g)-(%.17g,%.17g) is not on a lattice line", a.x, a.y, b.x, b.y);
          return buf;
        }
        const int len = (int)std::llround(std::fabs(b.x - a.x) + std::fabs(b.y - a.y));
        if (len == 0) continue;
        const double ux = (b.x - a.x) / len, uy = (b.y - a.y) / len;
        for (int t = 0; t < len; ++t) {
          const double mx = a.x + ux * (t + 0.5), my = a.y + uy * (t + 0.5);
          const double lx = mx - 0.5 * uy, ly = my + 0.5 * ux, rx = mx + 0.5 * uy, ry = my - 0.5 * ux;
          const int wl = windingOf(cp[k], lx, ly), wr = windingOf(cp[k], rx, ry);
          if (wl != 1 || wr != 0) {
            snprintf(buf, sizeof buf,
                     "%s contour %zu of component %zu: at its edge (%g,%g)-(%g,%g) the component has winding %d on the left and %d on the right "
                     "(must be 1 and 0): the contour is attached to a component it does not bound",
                     signedAreaRing(r) > 0 ? "outline" : "hole", ri, k, a.x, a.y, b.x, b.y, wl, wr);
            return buf;
          }
        }
      }
    }
  const int n4 = pixelComponents(model, false), n8 = pixelComponents(model, true);
  *ambiguous = n4 != n8;
  if (like4) *like4 = *nComp == n4;
  if (*nComp < n8 || *nComp > n4) {
    snprintf(buf, sizeof buf, "%d components, but the pixel model has %d connected components (%d if pixels touching at a corner are connected)",
             *nComp, n4, n8);
    return buf;
  }
  return "";
}

static void decompCase(Ctx& c, const std::vector<const Shape*>& shapes, int W) {
  std::string prog = "decomp:{";
  Polygons polys;
  PixSet w(0, 0, W, W);
  for (size_t i = 0; i < shapes.size(); ++i) {
    const Shape& s = *shapes[i];
    prog += (i ? "," : "") + s.str();
    polys.push_back(rectPoly(s.o, true));
    w.addRect(s.o, 1);
    if (s.ring) {
      polys.push_back(rectPoly(s.h, false));
      w.addRect(s.h, -1);
    }
  }
  prog += "}";
  c.describe(prog);
  const CrossSection cs(polys);
  const std::vector<CrossSection> comps = cs.Decompose();
  c.count("transitions", 2);
  const PixSet model = w.positive();
  int nComp = 0;
  bool amb = false;
  const std::string why = judgeDecomposeLattice(cs, comps, model, &nComp, &amb);
  if (!why.empty()) {
    std::string det = why + "\n" + polysStr(cs.ToPolygons(), "whole");
    for (size_t k = 0; k < comps.size(); ++k) det += "\n" + polysStr(comps[k].ToPolygons(), ("component " + std::to_string(k)).c_str());
    c.viol(prog, prog, det);
  }
  if (amb) c.count("corner_touching_cases");
  const size_t nc = cs.NumContour();
  if (nc > (size_t)nComp) c.count("cases_with_holes");
  uint64_t h = model.hash();
  c.distinct(h);
  if (nComp >= 2 || nc > (size_t)nComp) c.nontrivial(h);
  c.count("components", nComp);
}
// idx -> (i <= j <= k) over n
static void unrank3(uint64_t idx, int n, int& i, int& j, int& k) {
  for (i = 0;; ++i) {
    const uint64_t t = (uint64_t)(n - i) * (n - i + 1) / 2;
    if (idx < t) break;
    idx -= t;
  }
  for (j = i;; ++j) {
    const uint64_t t = n - j;
    if (idx < t) break;
    idx -= t;
  }
  k = j + (int)idx;
}
static void unrank2(uint64_t idx, int n, int& i, int& j) {
  for (i = 0;; ++i) {
    const uint64_t t = n - i;
    if (idx < t) break;
    idx -= t;
  }
  j = i + (int)idx;
}

// ================================================================== (4) Simplify on the lattice
static const double SIMP_TOL[6] = {0, 0.1, 0.6, 1.1, 1.6, 2.5};  // the last two are well above 1, where tol and tol^2 order the other way round
// A case is the set of the 256 vertex sequences of length n that share their first n-2 vertices:
// idx over 16^1 + 16^2 + 16^3 (+ 16^4) prefixes for n = 3, 4, 5 (, 6).
static IRing decodePrefix(uint64_t idx, int maxN) {
  int n = 3;
  uint64_t block = 16;
  while (n < maxN && idx >= block) {
    idx -= block;
    block *= 16;
    ++n;
  }
  IRing r(n);
  for (int i = n - 3; i >= 0; --i) {
    r[i] = lat((int)(idx % 16));
    idx /= 16;
  }
  return r;
}

int main(int argc, char** argv) {
  Runner R("C12", argc, argv);
  const bool thorough = R.a.thorough();
  bool asanSubset = false;
  for (int i = 1; i < argc; ++i)
    if (std::string(argv[i]) == "--asan-subset") asanSubset = true;

  // ---------- (1) offset
  {
    setResolution(asanSubset ? 16 : thorough ? 64 : 32);
    const std::vector<Region> regions = makeRegions();
    std::vector<Field> fields;
    for (auto& r : regions) fields.push_back(makeField(r));
    const std::vector<int> radix = {(int)regions.size(), 4, 3, 4};
    R.phase("offset", product(radix), 1, [&](uint64_t idx, Ctx& c) { offsetCase(idx, c, regions, fields); },
            {"transitions", "points_judged", "must_in", "must_out", "simplify_vertices_removed"});
  }

  // ---------- (2) hull
  {
    std::vector<uint32_t> masks;
    for (uint32_t m = 0; m < 65536; ++m)
      if (__builtin_popcount(m) <= (thorough ? 8 : 6)) masks.push_back(m);
    R.phase("hull-pts", masks.size() * 3, 64,
            [&](uint64_t idx, Ctx& c) {
              const uint32_t m = masks[idx / 3];
              const int order = (int)(idx % 3);
              std::vector<IPt> S;
              for (int k = 0; k < 16; ++k)
                if (m >> k & 1) S.push_back(lat(k));  // sorted by (x,y)
              std::vector<IPt> seq = S;
              if (order >= 1) std::reverse(seq.begin(), seq.end());
              if (order == 2 && !seq.empty()) seq.push_back(seq[0]);  // a repeated point
              static const char* ON[3] = {"sorted", "reversed", "reversed+first-repeated"};
              const std::string key = std::string("hull:pts=") + ringStr(S) + ":" + ON[order];
              c.describe(key);
              const CrossSection h = CrossSection::Hull(toPoly(seq));
              c.count("transitions");
              const IRing want = bruteHull(S);
              const std::string why = judgeHullLattice(h, want);
              if (!why.empty()) c.viol(key, key, why + "\n" + polysStr(h.ToPolygons()));
              c.distinct(hash_str(ringStr(want)));
              if (!want.empty() && want.size() < S.size()) c.nontrivial(mix64(m));  // some point is not a hull vertex
              if (want.empty()) c.count("degenerate_inputs");
              if (idx % 7919 == 11) c.sample(key);
            },
            {"transitions", "degenerate_inputs"});

    // all non-degenerate lattice triangles, counter-clockwise
    std::vector<IRing> tris;
    for (int a = 0; a < 16; ++a)
      for (int b = a + 1; b < 16; ++b)
        for (int d = b + 1; d < 16; ++d) {
          const int64_t o = orient(lat(a), lat(b), lat(d));
          if (o == 0) continue;
          tris.push_back(o > 0 ? IRing{lat(a), lat(b), lat(d)} : IRing{lat(a), lat(d), lat(b)});
        }
    std::vector<CrossSection> triCs;
    for (auto& t : tris) triCs.emplace_back(toPoly(t));
    const uint64_t nt = tris.size();
    const uint64_t nA = asanSubset ? nt / 8 : nt;
    R.phase("hull-pairs", nA * nt, nt,
            [&](uint64_t idx, Ctx& c) {
              const uint64_t ia = idx / nt, ib = idx % nt;
              const std::string pr = ringStr(tris[ia]) + "," + ringStr(tris[ib]);
              c.describe("hull:pair=" + pr);
              // the vertices the two cross-sections actually have
              std::vector<IPt> S;
              bool lattice = true;
              for (const CrossSection* q : {&triCs[ia], &triCs[ib]})
                for (auto& r : q->ToPolygons())
                  for (auto& v : r) {
                    lattice &= isInt(v.x) && isInt(v.y);
                    S.push_back({(int64_t)v.x, (int64_t)v.y});
                  }
              if (!lattice) {
                c.viol("hull:input-not-lattice:" + pr, pr, "a lattice triangle was regularized to non-lattice vertices");
                return;
              }
              const IRing want = bruteHull(S);
              auto judge = [&](const char* api, const CrossSection& h) {
                c.count("transitions");
                const std::string why = judgeHullLattice(h, want);
                const std::string key = std::string("hull:") + api + ":" + pr;
                if (!why.empty()) c.viol(key, key, why + "\n" + polysStr(h.ToPolygons()));
              };
              judge("Hull(vector<CrossSection>)", CrossSection::Hull(std::vector<CrossSection>{triCs[ia], triCs[ib]}));
              // raw contours, the second one clockwise: Hull(Polygons) takes points, not regions
              SimplePolygon rb = toPoly(tris[ib]);
              std::reverse(rb.begin(), rb.end());
              std::vector<IPt> S2 = tris[ia];
              S2.insert(S2.end(), tris[ib].begin(), tris[ib].end());
              {
                const IRing want2 = bruteHull(S2);
                c.count("transitions");
                const CrossSection h = CrossSection::Hull(Polygons{toPoly(tris[ia]), rb});
                const std::string why = judgeHullLattice(h, want2);
                const std::string key = "hull:Hull(Polygons):" + pr;
                if (!why.empty()) c.viol(key, key, why + "\n" + polysStr(h.ToPolygons()));
              }
              if (ia == ib) {
                judge("Hull()", triCs[ia].Hull());
                judge("Hull({A})", CrossSection::Hull(std::vector<CrossSection>{triCs[ia]}));
                if (ia == 0) {
                  c.count("transitions");
                  if (!CrossSection::Hull(std::vector<CrossSection>{}).IsEmpty()) c.viol("hull:Hull({})", "Hull({})", "hull of nothing is not empty");
                  if (!CrossSection::Hull(std::vector<CrossSection>{CrossSection(), CrossSection()}).IsEmpty())
                    c.viol("hull:Hull({empty,empty})", "Hull({empty,empty})", "hull of nothing is not empty");
                }
              }
              c.distinct(hash_str(ringStr(want)));
              if (want.size() > 3) c.nontrivial(hash_str(ringStr(want)));
              if (idx % 40009 == 11) c.sample("hull:pair=" + pr);
            },
            {"transitions"});
  }

  // ---------- (3) decompose
  {
    const int W = asanSubset ? 3 : thorough ? 5 : 4;
    const std::vector<Shape> fam = shapeFamily(0, W, true);
    const int n = (int)fam.size();
    const uint64_t N = (uint64_t)n * (n + 1) * (n + 2) / 6;
    R.phase("decomp-free", N, 256,
            [&](uint64_t idx, Ctx& c) {
              int i, j, k;
              unrank3(idx, n, i, j, k);
              // i == j == k: one shape; i == j < k or i < j == k: two shapes; else three
              std::vector<const Shape*> s{&fam[i]};
              if (j != i) s.push_back(&fam[j]);
              if (k != j) s.push_back(&fam[k]);
              decompCase(c, s, W);
              if (idx % 50021 == 77) c.sample("decomp:{" + fam[i].str() + "," + fam[j].str() + "," + fam[k].str() + "}");
            },
            {"transitions", "components", "cases_with_holes", "corner_touching_cases"});
  }
  {
    const int W = asanSubset ? 7 : thorough ? 11 : 9;
    const Shape frame{{0, 0, W, W}, true, {1, 1, W - 1, W - 1}};
    const std::vector<Shape> fam = shapeFamily(1, W - 1, false);
    const int n = (int)fam.size();
    const uint64_t N = (uint64_t)n * (n + 1) / 2;
    R.phase("decomp-nest", N, 256,
            [&](uint64_t idx, Ctx& c) {
              int i, j;
              unrank2(idx, n, i, j);
              std::vector<const Shape*> s{&frame, &fam[i]};
              if (j != i) s.push_back(&fam[j]);
              decompCase(c, s, W);
              if (idx % 50021 == 77) c.sample("decomp:{" + frame.str() + "," + fam[i].str() + "," + fam[j].str() + "}");
            },
            {"transitions", "components", "cases_with_holes", "corner_touching_cases"});
  }

  // every region made of unit pixels of a PW x PH grid: all lattice regions of that window, including every way of
  // touching at corners (two outlines, hole and outline, hole and hole)
  {
    const int PW = 4, PH = asanSubset ? 3 : thorough ? 5 : 4;
    R.phase("decomp-pixels", 1ull << (PW * PH), 64,
            [&](uint64_t idx, Ctx& c) {
              std::string prog = "decomp:pixels(rows y=0..)=[";
              Polygons polys;
              PixSet w(0, 0, PW, PH);
              for (int y = 0; y < PH; ++y) {
                if (y) prog += "/";
                for (int x = 0; x < PW; ++x) {
                  const bool on = idx >> (y * PW + x) & 1;
                  prog += on ? "1" : "0";
                  if (!on) continue;
                  const LRect r{x, y, x + 1, y + 1};
                  polys.push_back(rectPoly(r, true));
                  w.addRect(r, 1);
                }
              }
              prog += "]";
              c.describe(prog);
              const CrossSection cs(polys);
              const std::vector<CrossSection> comps = cs.Decompose();
              c.count("transitions", 2);
              int nComp = 0;
              bool amb = false, like4 = false;
              const std::string why = judgeDecomposeLattice(cs, comps, w, &nComp, &amb, &like4);
              if (!why.empty()) {
                std::string det = why + "\n" + polysStr(cs.ToPolygons(), "whole");
                for (size_t k = 0; k < comps.size(); ++k) det += "\n" + polysStr(comps[k].ToPolygons(), ("component " + std::to_string(k)).c_str());
                c.viol(prog, prog, det);
              }
              if (amb) c.count("corner_touching_cases");
              if (amb && like4) c.count("corner_touching_split_like_4conn");
              const size_t nc = cs.NumContour();
              if (nc > (size_t)nComp) c.count("cases_with_holes");
              c.count("components", nComp);
              c.distinct(canonPolysHash(cs.ToPolygons()));
              if (nComp >= 2 || nc > (size_t)nComp) c.nontrivial(idx + 1);
              if (idx % 9973 == 4242) c.sample(prog);
            },
            {"transitions", "components", "cases_with_holes", "corner_touching_cases", "corner_touching_split_like_4conn"});
  }

  // ---------- (4) simplify
  {
    const int maxN = asanSubset ? 5 : 6;
    uint64_t N = 0, b = 16;
    for (int n = 3; n <= maxN; ++n, b *= 16) N += b;
    R.phase("simplify", N, 16,
            [&](uint64_t idx, Ctx& c) {
              IRing ring = decodePrefix(idx, maxN);
              const size_t n = ring.size();
              for (int tail = 0; tail < 256; ++tail) {
                ring[n - 2] = lat(tail / 16);
                ring[n - 1] = lat(tail % 16);
                c.count("sequences");
                bool rep = false;
                for (size_t i = 0; i < n; ++i) rep |= ring[i] == ring[(i + 1) % n];
                if (rep || area2(ring) <= 0 || !isSimpleRing(ring)) continue;  // not a simple counter-clockwise ring: not in the space
                c.count("rings");
                const std::string rs = ringStr(ring);
                c.describe("simplify:" + rs + ":construct");
                const CrossSection cs(toPoly(ring));
                const Polygons in = cs.ToPolygons();
                bool collinear = false;
                for (auto& r : in)
                  for (size_t i = 0, m = r.size(); i < m && m > 3; ++i) collinear |= lineDev(r[i], r[(i + m - 1) % m], r[(i + 1) % m]) == 0;
                if (collinear) c.count("inputs_with_collinear_vertex");
                for (double tol : SIMP_TOL) {
                  const std::string key = "simplify:" + rs + ":tol=" + num(tol);
                  c.describe(key);
                  const CrossSection sm = cs.Simplify(tol);
                  c.count("transitions");
                  const Polygons out = sm.ToPolygons();
                  long removed = 0;
                  const std::string why = judgeSimplify(in, out, tol == 0 ? cs.GetTolerance() : tol, &removed);
                  if (!why.empty()) c.viol(key, key, why + "\n" + polysStr(out) + "\n" + polysStr(in, "input"));
                  c.count("vertices_removed", removed);
                  const uint64_t h = canonPolysHash(out) ^ mix64((uint64_t)(tol * 10) + 1);
                  c.distinct(h);
                  if (removed > 0 && !out.empty()) c.nontrivial(hash_str(key));
                  if (out.empty()) c.count("emptied");
                }
                if (tail == 77 && idx % 4001 == 12) c.sample("simplify:" + rs + " x tol {0,0.1,0.6,1.1,1.6,2.5}");
              }
            },
            {"transitions", "sequences", "rings", "vertices_removed", "inputs_with_collinear_vertex", "emptied"}, 23);
  }
  return R.finish();
}
