// C16 - Hull is the convex hull; Minkowski sum/difference are dilation and erosion.
// Engine S: exhaustive enumeration of (a) point multisets / subsets of small
// integer lattices handed to Manifold::Hull, judged in exact integer
// arithmetic, (b) Hull() of the shared seeds and Hull(vector) of all ordered
// pairs, judged in long double, (c) all ordered pairs of five small solids x
// {sum, difference} x both call orders, judged with the winding/distance oracle.
#include <cmath>
#include <cstring>
#include <functional>
#include <map>
#include <set>
#include <sstream>
#include <unordered_map>

#include "engine/runner.h"
#include "lib/alphabet.h"
#include "lib/canon.h"
#include "lib/solid.h"
#include "lib/topo.h"

using namespace manifold;
using namespace vf;

// ---------------------------------------------------------------------------
// exact integer geometry (lattice coordinates are tiny: long long never overflows)
struct I3 {
  long long x, y, z;
};
static inline I3 operator-(I3 a, I3 b) { return {a.x - b.x, a.y - b.y, a.z - b.z}; }
static inline bool operator==(I3 a, I3 b) { return a.x == b.x && a.y == b.y && a.z == b.z; }
static inline I3 icross(I3 a, I3 b) { return {a.y * b.z - a.z * b.y, a.z * b.x - a.x * b.z, a.x * b.y - a.y * b.x}; }
static inline long long idot(I3 a, I3 b) { return a.x * b.x + a.y * b.y + a.z * b.z; }
static inline bool izero(I3 a) { return a.x == 0 && a.y == 0 && a.z == 0; }

// dimension of the affine hull: -1 (no point), 0, 1, 2, 3
static int affineRank(const std::vector<I3>& p) {
  if (p.empty()) return -1;
  size_t i = 1;
  while (i < p.size() && p[i] == p[0]) ++i;
  if (i == p.size()) return 0;
  I3 u = p[i] - p[0];
  I3 n{0, 0, 0};
  for (++i; i < p.size(); ++i) {
    n = icross(u, p[i] - p[0]);
    if (!izero(n)) break;
  }
  if (i >= p.size()) return 1;
  for (++i; i < p.size(); ++i)
    if (idot(n, p[i] - p[0]) != 0) return 3;
  return 2;
}

static std::string ptsStr(const std::vector<I3>& p) {
  std::string s = "[";
  for (size_t i = 0; i < p.size(); ++i) {
    if (i) s += ",";
    s += "(" + std::to_string(p[i].x) + "," + std::to_string(p[i].y) + "," + std::to_string(p[i].z) + ")";
  }
  return s + "]";
}

template <typename M>
static std::string meshStr(const M& g, size_t maxTri = 40) {
  std::ostringstream s;
  s.precision(17);
  size_t np = g.numProp, nv = np ? g.vertProperties.size() / np : 0;
  s << "verts:";
  for (size_t v = 0; v < nv && v < 60; ++v)
    s << " " << v << "(" << g.vertProperties[v * np] << "," << g.vertProperties[v * np + 1] << "," << g.vertProperties[v * np + 2] << ")";
  s << " tris:";
  for (size_t t = 0; t < g.triVerts.size() / 3 && t < maxTri; ++t)
    s << " (" << g.triVerts[3 * t] << "," << g.triVerts[3 * t + 1] << "," << g.triVerts[3 * t + 2] << ")";
  return s.str();
}

// A similarity image of lattice points: actual = c + s * R * lattice.  For the "exact" frames
// (R = identity, s a power of two, small c) every coordinate is exactly representable, so the
// cloud is an exact affine image of the lattice.  For the "inexact" frames (s = 0.1 / a rotation)
// every coordinate is rounded: exactly collinear / coplanar lattice points become collinear /
// coplanar up to ~1e-16, which is what meshes produced by Refine() etc. look like.  The oracle
// evaluates all predicates on the integer lattice coordinates and converts to a distance with
// the scale s; it only reports when that distance exceeds the tolerance (>= 1e-12, four orders
// of magnitude above the rounding of the actual coordinates), so it is sound for both kinds.
static const int kListPerProcess = 3;
struct Frame {
  double cx = 0, cy = 0, cz = 0, s = 1;
  std::string name;  // "" for the identity
  bool rot = false;
  double R[3][3] = {{1, 0, 0}, {0, 1, 0}, {0, 0, 1}};
  vec3 at(I3 l) const {
    if (!rot) return vec3(cx + s * (double)l.x, cy + s * (double)l.y, cz + s * (double)l.z);
    double v[3];
    for (int i = 0; i < 3; ++i) v[i] = R[i][0] * (double)l.x + R[i][1] * (double)l.y + R[i][2] * (double)l.z;
    return vec3(cx + s * v[0], cy + s * v[1], cz + s * v[2]);
  }
  // rotation about x by a, then y by b, then z by g (degrees)
  void setRotation(double a, double b, double g) {
    rot = true;
    const double k = 3.14159265358979323846 / 180;
    double ca = cos(a * k), sa = sin(a * k), cb = cos(b * k), sb = sin(b * k), cg = cos(g * k), sg = sin(g * k);
    double Rx[3][3] = {{1, 0, 0}, {0, ca, -sa}, {0, sa, ca}}, Ry[3][3] = {{cb, 0, sb}, {0, 1, 0}, {-sb, 0, cb}},
           Rz[3][3] = {{cg, -sg, 0}, {sg, cg, 0}, {0, 0, 1}}, T[3][3];
    for (int i = 0; i < 3; ++i)
      for (int j = 0; j < 3; ++j) {
        T[i][j] = 0;
        for (int m = 0; m < 3; ++m) T[i][j] += Ry[i][m] * Rx[m][j];
      }
    for (int i = 0; i < 3; ++i)
      for (int j = 0; j < 3; ++j) {
        R[i][j] = 0;
        for (int m = 0; m < 3; ++m) R[i][j] += Rz[i][m] * T[m][j];
      }
  }
};

// One Hull(points) case on lattice input.  `in` is the input sequence exactly as passed.
// Violations are reported as  hull/<class>:<what>
static void judgeLatticeHull(Ctx& c, const std::string& what, const std::vector<I3>& in, const Frame& F) {
  c.describe("hull:" + what);
  std::vector<vec3> pts(in.size());
  for (size_t i = 0; i < in.size(); ++i) pts[i] = F.at(in[i]);
  Manifold h = Manifold::Hull(pts);
  c.count("hulls");
  const int rank = affineRank(in);
  // Two failure classes are systematic (one root cause, hundreds of thousands of inputs): a
  // non-empty result for flat input, and - in the clustered frames - clouds smaller than
  // QuickHull's own epsilon.  They are counted exactly (counters v_*), but only listed as
  // violation lines for a deterministic representative family plus the first few per worker
  // process, so that the runner's flood guard cannot swallow the rare classes.
  auto viol = [&](const char* cls, const std::function<std::string()>& detail) {
    c.count((std::string("v_") + cls).c_str());
    bool systematic = !strcmp(cls, "nonempty-flat") ||
                      (F.s < 1e-3 && (!strcmp(cls, "point-outside") || !strcmp(cls, "edge-concave") || !strcmp(cls, "not-positive-volume")));
    if (systematic) {
      bool rep = true;  // representative family: all points in the unit square x=0, y,z in {0,1} / the unit corner
      for (auto& p : in) rep &= (p.x == 0 && p.y <= 1 && p.z <= 1) || (!strcmp(cls, "nonempty-flat") ? false : (p.x == 1 && p.y == 0 && p.z == 0));
      static std::map<std::string, int> listed;
      if (!rep && listed[c.phase + "/" + cls]++ >= kListPerProcess) {
        c.count("violations_not_listed");
        return;
      }
    }
    c.viol(std::string("hull/") + cls + ":" + what, cls, detail());
  };

  std::string why = checkManifoldC01(h);
  if (!why.empty()) {
    viol("not-manifold", [&] { return why + " | " + meshStr(h.GetMeshGL64()); });
    return;
  }
  if (h.Status() != Manifold::Error::NoError) {
    viol("status", [&] { return "Hull(points) returned status " + std::to_string((int)h.Status()); });
    return;
  }
  MeshGL64 g = h.GetMeshGL64();
  const bool empty = h.IsEmpty();
  uint64_t hr = canonGeomHash(g);
  c.distinct(hr);
  if (rank < 3) {
    c.count("rank_lt3");
    if (!empty) {
      viol("nonempty-flat", [&] {
        return "points have affine rank " + std::to_string(rank) + " (span no volume) but Hull is not empty: NumTri=" + std::to_string(h.NumTri()) +
               " | " + meshStr(g);
      });
    }
  } else {
    c.count("rank3");
    if (empty) {
      viol("empty-rank3", [&] { return std::string("points span a volume (affine rank 3) but Hull is empty"); });
      return;
    }
  }
  if (empty) return;

  // ---- vertices are input points (bit-equal coordinates)
  const size_t nv = g.vertProperties.size() / g.numProp, nt = g.triVerts.size() / 3;
  std::vector<I3> rv(nv);
  for (size_t v = 0; v < nv; ++v) {
    double x = g.vertProperties[v * g.numProp], y = g.vertProperties[v * g.numProp + 1], z = g.vertProperties[v * g.numProp + 2];
    bool found = false;
    for (size_t i = 0; i < in.size(); ++i)
      if (pts[i].x == x && pts[i].y == y && pts[i].z == z) {
        rv[v] = in[i];
        found = true;
        break;
      }
    if (!found) {
      viol("vertex-not-input", [&] {
        std::ostringstream s;
        s.precision(17);
        s << "result vertex " << v << " = (" << x << "," << y << "," << z << ") is not an input point | " << meshStr(g);
        return s.str();
      });
      return;
    }
  }
  const double tol = std::max(h.GetEpsilon(), h.GetTolerance());
  // ---- every input point is inside or on every face plane; every edge is convex
  std::vector<int> opp(nv * nv, -1);  // directed edge (u,v) -> third vertex of its triangle
  for (size_t t = 0; t < nt; ++t)
    for (int k = 0; k < 3; ++k)
      opp[g.triVerts[3 * t + k] * nv + g.triVerts[3 * t + (k + 1) % 3]] = (int)g.triVerts[3 * t + (k + 2) % 3];
  long long vol6 = 0;
  size_t degenerate = 0;
  for (size_t t = 0; t < nt; ++t) {
    I3 a = rv[g.triVerts[3 * t]], b = rv[g.triVerts[3 * t + 1]], d = rv[g.triVerts[3 * t + 2]];
    vol6 += idot(a, icross(b, d));
    I3 n = icross(b - a, d - a);
    if (izero(n)) {
      ++degenerate;
      continue;
    }
    const double nlen = std::sqrt((double)idot(n, n));
    for (size_t i = 0; i < in.size(); ++i) {
      long long det = idot(n, in[i] - a);
      if (det > 0 && F.s * (double)det / nlen > tol) {
        viol("point-outside", [&] {
          std::ostringstream s;
          s.precision(6);
          s << "input point #" << i << " " << ptsStr({in[i]}) << " is outside face (" << g.triVerts[3 * t] << "," << g.triVerts[3 * t + 1] << ","
            << g.triVerts[3 * t + 2] << ") by " << F.s * (double)det / nlen << " > tolerance " << tol << " | Volume()=" << h.Volume() << " | " << meshStr(g);
          return s.str();
        });
        return;
      }
    }
    for (int k = 0; k < 3; ++k) {
      int w = opp[g.triVerts[3 * t + (k + 1) % 3] * nv + g.triVerts[3 * t + k]];
      if (w < 0) continue;  // cannot happen after the manifold check
      long long det = idot(n, rv[w] - a);
      if (det > 0 && F.s * (double)det / nlen > tol) {
        viol("edge-concave", [&] {
          std::ostringstream s;
          s << "edge (" << g.triVerts[3 * t + k] << "," << g.triVerts[3 * t + (k + 1) % 3] << ") is concave: neighbour apex " << w
            << " lies above face " << t << " by " << F.s * (double)det / nlen << " > tolerance " << tol << " | " << meshStr(g);
          return s.str();
        });
        return;
      }
    }
  }
  if (degenerate) c.count("degenerate_tris", (int64_t)degenerate);
  if (rank == 3) {
    // all inputs inside all half-spaces + vertices are inputs: the solid is the hull iff
    // the surface is a positively oriented sphere
    if (vol6 <= 0) {
      viol("not-positive-volume", [&] { return "6*volume of the result (exact, lattice units) = " + std::to_string(vol6) + " | " + meshStr(g); });
      return;
    }
    if (h.Genus() != 0) {
      viol("genus", [&] { return "Genus() = " + std::to_string(h.Genus()) + " | " + meshStr(g); });
      return;
    }
    std::set<std::tuple<long long, long long, long long>> dv;
    for (auto& p : in) dv.insert({p.x, p.y, p.z});
    if (dv.size() >= 5) {
      c.count("rank3_ge5distinct");
      c.nontrivial(hr);
    }
  }
}

// ---- enumeration helpers -----------------------------------------------------
static uint64_t binom(int n, int k) {
  if (k < 0 || k > n) return 0;
  static uint64_t T[80][16];
  static bool init = false;
  if (!init) {
    for (int i = 0; i < 80; ++i)
      for (int j = 0; j < 16; ++j) T[i][j] = j == 0 ? 1 : (i == 0 ? 0 : T[i - 1][j - 1] + T[i - 1][j]);
    init = true;
  }
  return T[n][k];
}
// idx-th multiset of size k over {0..n-1} (non-decreasing), combinatorial number system
static std::vector<int> unrankMultiset(uint64_t idx, int n, int k) {
  std::vector<int> m(k);
  for (int i = k; i >= 1; --i) {
    int cc = i - 1;
    while (binom(cc + 1, i) <= idx) ++cc;
    idx -= binom(cc, i);
    m[i - 1] = cc - (i - 1);
  }
  (void)n;
  return m;
}
static I3 lat27(int i) { return {i / 9, (i / 3) % 3, i % 3}; }

// ---------------------------------------------------------------------------
// general (floating point) hull oracle for Hull() / Hull(vector<Manifold>)
struct D3 {
  double x, y, z;
  bool operator<(const D3& o) const { return std::tie(x, y, z) < std::tie(o.x, o.y, o.z); }
};
static std::vector<D3> vertsOf(const MeshGL64& g) {
  std::vector<D3> v;
  size_t nv = g.numProp ? g.vertProperties.size() / g.numProp : 0;
  for (size_t i = 0; i < nv; ++i)
    v.push_back({g.vertProperties[i * g.numProp], g.vertProperties[i * g.numProp + 1], g.vertProperties[i * g.numProp + 2]});
  return v;
}
static V3 toV(D3 p) { return {(long double)p.x, (long double)p.y, (long double)p.z}; }

// +1: certainly spans a volume; -1: certainly flat (fewer than 4 distinct points or one coordinate
// constant); 0: not decided
static int spansVolume(const std::vector<D3>& p) {
  std::set<D3> d(p.begin(), p.end());
  if (d.size() < 4) return -1;
  bool cx = true, cy = true, cz = true;
  for (auto& q : p) {
    cx &= q.x == p[0].x;
    cy &= q.y == p[0].y;
    cz &= q.z == p[0].z;
  }
  if (cx || cy || cz) return -1;
  // greedy simplex: farthest from p0, from the line, from the plane
  V3 a = toV(p[0]);
  long double best = 0, scale = 0;
  V3 b = a;
  for (auto& q : p) {
    long double l = norm(toV(q) - a);
    if (l > best) best = l, b = toV(q);
  }
  scale = best;
  if (scale == 0) return 0;
  V3 cpt = a;
  best = 0;
  for (auto& q : p) {
    long double l = norm(cross(b - a, toV(q) - a));
    if (l > best) best = l, cpt = toV(q);
  }
  if (best < 1e-6L * scale * scale) return 0;
  V3 n = cross(b - a, cpt - a);
  long double h = 0;
  for (auto& q : p) h = std::max(h, fabsl(dot(n, toV(q) - a)) / norm(n));
  return h > 1e-6L * scale ? 1 : 0;
}

// returns "" or "<class>|detail"
static std::string judgeGeneralHull(Ctx& c, const Manifold& h, const std::vector<D3>& in, double inTol) {
  std::string why = checkManifoldC01(h);
  if (!why.empty()) return "not-manifold|" + why;
  if (h.Status() != Manifold::Error::NoError) return "status|hull status " + std::to_string((int)h.Status()) + " although all inputs are NoError";
  int sv = spansVolume(in);
  if (sv > 0 && h.IsEmpty()) return "empty-rank3|inputs span a volume but the hull is empty";
  if (sv < 0 && !h.IsEmpty()) {
    c.count("flat_nonempty");
    return "nonempty-flat|input points span no volume but the hull has " + std::to_string(h.NumTri()) + " triangles";
  }
  if (sv == 0) c.count("rank_undecided");
  if (h.IsEmpty()) return "";
  MeshGL64 g = h.GetMeshGL64();
  std::vector<D3> rv = vertsOf(g);
  std::set<D3> inset(in.begin(), in.end());
  for (size_t v = 0; v < rv.size(); ++v)
    if (!inset.count(rv[v])) {
      std::ostringstream s;
      s.precision(17);
      s << "vertex-not-input|result vertex " << v << " (" << rv[v].x << "," << rv[v].y << "," << rv[v].z << ") is not a vertex of any input";
      return s.str();
    }
  const long double tol = std::max({h.GetEpsilon(), h.GetTolerance(), inTol});
  const size_t nt = g.triVerts.size() / 3;
  std::unordered_map<uint64_t, uint32_t> opp;
  for (size_t t = 0; t < nt; ++t)
    for (int k = 0; k < 3; ++k)
      opp[(uint64_t)g.triVerts[3 * t + k] * rv.size() + g.triVerts[3 * t + (k + 1) % 3]] = (uint32_t)g.triVerts[3 * t + (k + 2) % 3];
  long double vol6 = 0;
  size_t sliver = 0;
  std::vector<D3> din(inset.begin(), inset.end());
  for (size_t t = 0; t < nt; ++t) {
    V3 a = toV(rv[g.triVerts[3 * t]]), b = toV(rv[g.triVerts[3 * t + 1]]), d = toV(rv[g.triVerts[3 * t + 2]]);
    vol6 += dot(a, cross(b, d));
    V3 n = cross(b - a, d - a);
    long double nl = norm(n);
    long double longest = std::max({norm(b - a), norm(d - b), norm(a - d)});
    // a triangle thinner than the tolerance does not define a plane: moving a vertex by tol tilts it arbitrarily
    if (longest == 0 || nl / longest <= 4 * tol) {
      ++sliver;
      continue;
    }
    for (auto& q : din) {
      long double dist = dot(n, toV(q) - a) / nl;
      if (dist > tol) {
        std::ostringstream s;
        s.precision(17);
        s << "point-outside|input vertex (" << q.x << "," << q.y << "," << q.z << ") is " << (double)dist << " outside face " << t << " ("
          << g.triVerts[3 * t] << "," << g.triVerts[3 * t + 1] << "," << g.triVerts[3 * t + 2] << "), tolerance " << (double)tol;
        return s.str();
      }
    }
    for (int k = 0; k < 3; ++k) {
      auto it = opp.find((uint64_t)g.triVerts[3 * t + (k + 1) % 3] * rv.size() + g.triVerts[3 * t + k]);
      if (it == opp.end()) continue;
      long double dist = dot(n, toV(rv[it->second]) - a) / nl;
      if (dist > tol) {
        std::ostringstream s;
        s << "edge-concave|edge (" << g.triVerts[3 * t + k] << "," << g.triVerts[3 * t + (k + 1) % 3] << ") of face " << t
          << " is concave by " << (double)dist << ", tolerance " << (double)tol;
        return s.str();
      }
    }
  }
  if (sliver) c.count("sliver_tris_skipped", (int64_t)sliver);
  if (sv > 0) {
    if (vol6 <= 0) return "not-positive-volume|signed volume of the hull is " + std::to_string((double)(vol6 / 6));
    if (h.Genus() != 0) return "genus|Genus() = " + std::to_string(h.Genus());
  }
  return "";
}

// ---------------------------------------------------------------------------
// Minkowski
struct Solid {
  std::string name;
  Manifold m;
  Soup soup;
  std::vector<D3> verts;
  Box box;
  double reach = 0;  // max |v| over vertices
  bool convex = false;
};
static Solid mkSolid(const std::string& name, const Manifold& m, bool convex) {
  Solid s;
  s.name = name;
  s.m = m;
  MeshGL64 g = m.GetMeshGL64();
  s.soup = soupOf(g);
  s.verts = vertsOf(g);
  s.box = m.BoundingBox();
  for (auto& v : s.verts) s.reach = std::max(s.reach, std::sqrt(v.x * v.x + v.y * v.y + v.z * v.z));
  s.convex = convex;
  return s;
}
struct MinkShapes {
  std::vector<Solid> A, B;  // A: natural size, B: scaled by 0.3; the origin is strictly inside every one of them
};
static MinkShapes makeMinkShapes() {
  Polygons L = {{{0, 0}, {2, 0}, {2, 1}, {1, 1}, {1, 2}, {0, 2}}};
  struct Sh {
    const char* name;
    Manifold m;
    vec3 q;  // a point strictly inside
    bool convex;
  };
  std::vector<Sh> sh = {
      {"cube", Manifold::Cube({1, 1, 1}), {0.5, 0.5, 0.5}, true},
      {"tet", Manifold::Tetrahedron(), {0, 0, 0}, true},
      {"octa", Manifold::Sphere(1, 4), {0, 0, 0}, true},
      {"Lsolid", Manifold::Extrude(L, 1), {0.5, 0.5, 0.5}, false},
      {"notchcube", Manifold::Cube({2, 2, 2}) - Manifold::Cube({0.6, 3, 1.1}).Translate({0.7, -0.5, 1.4}), {1, 1, 0.7}, false},
  };
  MinkShapes r;
  for (auto& s : sh) {
    r.A.push_back(mkSolid(s.name, s.m.Translate(-s.q + vec3(0.05, -0.04, 0.03)), s.convex));
    r.B.push_back(mkSolid(std::string("0.3*") + s.name, s.m.Translate(-s.q).Scale(vec3(0.3)).Translate({0.02, -0.03, 0.01}), s.convex));
  }
  // a non-convex first operand with more than 1000 triangles: the sweep works through the triangles in batches of 1000
  {
    Manifold big = Manifold::Sphere(1, 48) - Manifold::Cube({0.5, 3, 0.5}).Translate({0.55, -1.5, 0.55});
    r.A.push_back(mkSolid("notchSphere48", big.Translate({0.05, -0.04, 0.03}), false));
  }
  // a first operand made of two disjoint convex pieces: every piece is convex, the solid is not
  r.A.push_back(mkSolid("twoCubes", (Manifold::Cube({1, 1, 1}) + Manifold::Cube({1, 1, 1}).Translate({3, 0, 0})).Translate({-0.45, -0.54, -0.47}), false));
  return r;
}

struct Probe {
  const Soup& s;
  long double tolU;
  long judged = 0;
  // inside or on the surface (within tolU)
  bool insideOrOn(V3 p) const { return windingInt(s, p) >= 1 || distToSoup(s, p) <= tolU; }
  // strictly inside and farther than tolU from the surface
  bool strictlyInside(V3 p) const { return windingInt(s, p) >= 1 && distToSoup(s, p) > tolU; }
  long double distTo(V3 p) const { return windingInt(s, p) >= 1 ? 0 : distToSoup(s, p); }
};
static std::vector<V3> gridIn(const Box& b, int n, double pad) {
  std::vector<V3> g;
  vec3 lo = b.min - vec3(pad), sz = b.Size() + vec3(2 * pad);
  for (int i = 0; i < n; ++i)
    for (int j = 0; j < n; ++j)
      for (int k = 0; k < n; ++k)
        g.push_back({lo.x + (i + 0.4142135) / n * sz.x, lo.y + (j + 0.7320508) / n * sz.y, lo.z + (k + 0.2360679) / n * sz.z});
  return g;
}
static std::string v3s(V3 p) {
  std::ostringstream s;
  s.precision(9);
  s << "(" << (double)p.x << "," << (double)p.y << "," << (double)p.z << ")";
  return s.str();
}

// R = X.MinkowskiSum(Y); the origin is strictly inside both X and Y
static std::string judgeSum(Ctx& c, const Solid& X, const Solid& Y, const Manifold& R, int n) {
  std::string why = checkManifoldC01(R);
  if (!why.empty()) return "not-manifold|" + why;
  if (R.Status() != Manifold::Error::NoError) return "status|status " + std::to_string((int)R.Status());
  if (R.IsEmpty()) return "sum-empty|the sum of two non-empty solids is empty";
  Soup sr = soupOf(R);
  const long double tolU = std::max({R.GetTolerance(), X.m.GetTolerance(), Y.m.GetTolerance(), 1e-6});
  Probe PR{sr, tolU}, PX{X.soup, tolU}, PY{Y.soup, tolU};
  // (1) x + y for all vertex pairs
  for (auto& x : X.verts)
    for (auto& y : Y.verts) {
      V3 p{(long double)(x.x + y.x), (long double)(x.y + y.y), (long double)(x.z + y.z)};
      c.count("vertex_sums");
      if (!PR.insideOrOn(p)) {
        std::ostringstream s;
        s << "sum-misses-vertex-sum|x+y = " << v3s(toV(x)) << "+" << v3s(toV(y)) << " = " << v3s(p) << " is outside the sum: winding "
          << (double)winding(sr, p) << ", distance to its surface " << (double)distToSoup(sr, p) << " > " << (double)tolU;
        return s.str();
      }
    }
  // (2),(3) grid samples over the sum's box
  Box bb = R.BoundingBox().Union(X.box).Union(Y.box);
  std::vector<V3> grid = gridIn(bb, n, 0.05);
  std::vector<char> inOp[2];
  for (int role = 0; role < 2; ++role) {
    const Solid& P = role ? Y : X;
    const Solid& Q = role ? X : Y;
    const Probe& PP = role ? PY : PX;
    inOp[role].assign(grid.size(), 0);
    for (size_t i = 0; i < grid.size(); ++i)
      if (PP.strictlyInside(grid[i])) {
        inOp[role][i] = 1;
        c.count("samples_in_operand");
        if (!PR.insideOrOn(grid[i]))
          return "sum-misses-operand|" + v3s(grid[i]) + " is strictly inside " + P.name + " (0 is in " + Q.name + ") but outside the sum";
      }
  }
  for (V3 p : grid) {
    if (!PR.strictlyInside(p)) continue;
    c.count("samples_in_sum");
    long double dx = PX.distTo(p), dy = PY.distTo(p);
    if (dx > Y.reach + tolU) {
      std::ostringstream s;
      s << "sum-too-far|" << v3s(p) << " is strictly inside the sum but " << (double)dx << " from " << X.name << " > reach(" << Y.name
        << ") = " << Y.reach;
      return s.str();
    }
    if (dy > X.reach + tolU) {
      std::ostringstream s;
      s << "sum-too-far|" << v3s(p) << " is strictly inside the sum but " << (double)dy << " from " << Y.name << " > reach(" << X.name
        << ") = " << X.reach;
      return s.str();
    }
  }
  // (4) p + q for every admissible sample p inside one operand and every vertex q of the other
  for (int role = 0; role < 2; ++role) {
    const Solid& P = role ? Y : X;
    const Solid& Q = role ? X : Y;
    for (size_t i = 0; i < grid.size(); ++i) {
      if (!inOp[role][i]) continue;
      for (auto& qv : Q.verts) {
        V3 pq = grid[i] + toV(qv);
        c.count("sample_plus_vertex");
        if (!PR.insideOrOn(pq))
          return "sum-misses-sample-sum|p + q = " + v3s(grid[i]) + " + " + v3s(toV(qv)) + " = " + v3s(pq) + " with p strictly inside " + P.name +
                 " and q a vertex of " + Q.name + " is outside the sum: winding " + std::to_string((double)winding(sr, pq)) +
                 ", distance to its surface " + std::to_string((double)distToSoup(sr, pq));
      }
    }
  }
  return "";
}

// R = X.MinkowskiDifference(Y); the origin is strictly inside Y.  Convention (from the property
// and from the implementation's construction X - (boundary(X) (+) Y)): p in R  =>  p - y in X
// for every y in Y.
static std::string judgeDiff(Ctx& c, const Solid& X, const Solid& Y, const Manifold& R, int n, int nY) {
  std::string why = checkManifoldC01(R);
  if (!why.empty()) return "not-manifold|" + why;
  if (R.Status() != Manifold::Error::NoError) return "status|status " + std::to_string((int)R.Status());
  if (R.IsEmpty()) {
    c.count("diff_empty");
    return "";
  }
  Soup sr = soupOf(R);
  const long double tolU = std::max({R.GetTolerance(), X.m.GetTolerance(), Y.m.GetTolerance(), 1e-6});
  Probe PR{sr, tolU}, PX{X.soup, tolU}, PY{Y.soup, tolU};
  // structuring points: vertices of Y, plus interior samples when Y is not convex
  std::vector<V3> ys;
  for (auto& y : Y.verts) ys.push_back(toV(y));
  if (!Y.convex)
    for (V3 q : gridIn(Y.box, nY, 0))
      if (PY.strictlyInside(q)) ys.push_back(q);
  for (auto& v : vertsOf(R.GetMeshGL64())) {
    c.count("diff_vertices");
    if (!PX.insideOrOn(toV(v)))
      return "diff-outside-operand|vertex " + v3s(toV(v)) + " of the difference is outside " + X.name + " by " +
             std::to_string((double)distToSoup(X.soup, toV(v)));
  }
  for (V3 p : gridIn(X.box.Union(R.BoundingBox()), n, 0.05)) {
    if (!PR.strictlyInside(p)) continue;
    c.count("samples_in_diff");
    if (!PX.insideOrOn(p)) return "diff-outside-operand|" + v3s(p) + " is strictly inside the difference but outside " + X.name;
    for (V3 y : ys) {
      c.count("erosion_probes");
      V3 q = p - y;
      if (!PX.insideOrOn(q)) {
        std::ostringstream s;
        s << "diff-not-eroded|p = " << v3s(p) << " is strictly inside the difference but p - y = " << v3s(q) << " for y = " << v3s(y) << " in "
          << Y.name << " is outside " << X.name << " by " << (double)distToSoup(X.soup, q);
        return s.str();
      }
    }
  }
  return "";
}

// ---------------------------------------------------------------------------
int main(int argc, char** argv) {
  Runner R("C16", argc, argv);
  const bool thorough = R.a.thorough();
  // --asan-subset (the ASan/UBSan run; every phase costs ~30 s of sanitizer start-up on 8 workers
  // here, so few phases): identity and rotated frame only, 27-point multisets cut at 4 points,
  // 12-point multisets of 5, rotated boxes, seeds, pairs, Minkowski on a coarser sample grid.
  // Phase names and indices are unchanged, so a replay with the same flag reproduces a case.
  bool asanSubset = false;
  for (int i = 1; i < argc; ++i) asanSubset |= !strcmp(argv[i], "--asan-subset");
  std::vector<const char*> HC = {"hulls", "rank3", "rank_lt3", "rank3_ge5distinct", "degenerate_tris", "violations_not_listed",
                                 "v_not-manifold", "v_status", "v_nonempty-flat", "v_empty-rank3", "v_vertex-not-input", "v_point-outside",
                                 "v_edge-concave", "v_not-positive-volume", "v_genus"};

  // The clustered frames: the lattice scaled by a power of two around a far point; every
  // coordinate c + s*{0,1,2} is exact in double, so the cloud is an exact affine image of the
  // lattice.  2^-30 ~ 0.93e-9 (the "1e-9 cluster" of the design): far below QuickHull's
  // own 1e-7*scale threshold, 250 x above the result's epsilon.
  Frame ident;
  Frame cl30{3, -5, 7, std::ldexp(1.0, -30), "c=(3,-5,7),s=2^-30"};
  Frame cl20{3, -5, 7, std::ldexp(1.0, -20), "c=(3,-5,7),s=2^-20"};
  Frame tenth{0.3, -0.5, 0.7, 0.1, "c=(0.3,-0.5,0.7),s=0.1"};
  Frame rotf{0.3, -0.5, 0.7, 1.0, "c=(0.3,-0.5,0.7),s=1,rot=(17,31,47)"};
  rotf.setRotation(17, 31, 47);
  std::vector<std::pair<std::string, const Frame*>> frames = {{"lattice", &ident}, {"cluster", &cl30}, {"eps20", &cl20}, {"rot", &rotf}};
  if (thorough) frames.push_back({"tenth", &tenth});
  if (asanSubset) frames = {{"lattice", &ident}, {"rot", &rotf}};

  auto latticeWhat = [](const Frame& F, const std::vector<I3>& in) {
    return F.name.empty() ? "pts=" + ptsStr(in) : F.name + ",lattice=" + ptsStr(in);
  };

  // ---- (a0) fewer than 4 points: k = 0..3, both orders, both frames
  {
    uint64_t off[5] = {0};
    for (int k = 0; k <= 3; ++k) off[k + 1] = off[k] + binom(27 + k - 1, k);
    R.phase("hull-few", off[4] * 4, 256, [&](uint64_t idx, Ctx& c) {
      int variant = idx % 4;
      uint64_t mi = idx / 4;
      int k = 0;
      while (mi >= off[k + 1]) ++k;
      auto m = unrankMultiset(mi - off[k], 27, k);
      std::vector<I3> in;
      for (int i : m) in.push_back(lat27(i));
      if (variant & 1) std::reverse(in.begin(), in.end());
      const Frame& F = (variant & 2) ? cl30 : ident;
      judgeLatticeHull(c, latticeWhat(F, in), in, F);
      if (idx % 997 == 0) c.sample(latticeWhat(F, in));
    }, HC);
  }

  // ---- (a1) every multiset of k points of {0,1,2}^3, sorted and reversed, in every frame
  const int kMax = asanSubset ? 4 : thorough ? 7 : 6;
  for (int k = 4; k <= kMax; ++k) {
    for (auto& fr : frames) {
      const Frame& F = *fr.second;
      if (!thorough && k == 6 && fr.first == "eps20") continue;  // quick: the straddling frame stops at 5 points
      uint64_t nm = binom(27 + k - 1, k);
      R.phase("hull-" + fr.first + "-" + std::to_string(k), nm * 2, 4096, [&, k](uint64_t idx, Ctx& c) {
        auto m = unrankMultiset(idx / 2, 27, k);
        std::vector<I3> in;
        for (int i : m) in.push_back(lat27(i));
        if (idx & 1) std::reverse(in.begin(), in.end());
        judgeLatticeHull(c, latticeWhat(F, in), in, F);
        if (idx % 100003 == 0) c.sample(latticeWhat(F, in));
      }, HC, k <= 5 ? 19 : k == 6 ? 21 : 23);
    }
  }

  // ---- (a1') every multiset of 5..6 (thorough: 7) points of the 12-point sub-lattice {0,1,2}x{0,1}x{0,1}
  //      (collinear triples along x, many coplanar quadruples), sorted and reversed, in every frame: the
  //      part of (a1) that is small enough for the sanitizer run
  for (int k = 5; k <= (asanSubset ? 5 : thorough ? 7 : 6); ++k) {
    for (auto& fr : frames) {
      const Frame& F = *fr.second;
      uint64_t nm = binom(12 + k - 1, k);
      R.phase("hull12-" + fr.first + "-" + std::to_string(k), nm * 2, 512, [&, k](uint64_t idx, Ctx& c) {
        auto m = unrankMultiset(idx / 2, 12, k);
        std::vector<I3> in;
        for (int i : m) in.push_back({i / 4, (i / 2) % 2, i % 2});
        if (idx & 1) std::reverse(in.begin(), in.end());
        judgeLatticeHull(c, latticeWhat(F, in), in, F);
        if (idx % 10007 == 0) c.sample(latticeWhat(F, in));
      }, HC, 17);
    }
  }

  // ---- (a2) every subset of the 3x3x2 slab (18 points: many collinear / coplanar points), sorted and
  //      reversed; rotated (quick and thorough) and exact (thorough)
  for (int fr = thorough ? 0 : 1; fr < 2 && !asanSubset; ++fr) {
    const Frame& F = fr ? rotf : ident;
    R.phase(std::string("hull-slab-subsets") + (fr ? "-rot" : ""), (1ull << 18) * 2, 4096, [&](uint64_t idx, Ctx& c) {
      uint64_t mask = idx / 2;
      std::vector<I3> in;
      for (int i = 0; i < 18; ++i)
        if (mask >> i & 1) in.push_back({i / 6, (i / 2) % 3, i % 2});
      if (idx & 1) std::reverse(in.begin(), in.end());
      judgeLatticeHull(c, latticeWhat(F, in), in, F);
      if (idx % 100003 == 0) c.sample(latticeWhat(F, in));
    }, HC, 20);
  }

  // ---- (a3) full lattice boxes {0..a}x{0..b}x{0..c}, a,b,c <= 5, in 8 deterministic orders, exact and rotated
  for (int fr = asanSubset ? 1 : 0; fr < 2; ++fr) {
    const Frame& F = fr ? rotf : ident;
    const int nOrd = 8;
    R.phase(std::string("hull-boxes") + (fr ? "-rot" : ""), 6 * 6 * 6 * nOrd, 8, [&](uint64_t idx, Ctx& c) {
      auto d = digits(idx, {6, 6, 6, nOrd});
      std::vector<I3> all;
      for (int x = 0; x <= d[0]; ++x)
        for (int y = 0; y <= d[1]; ++y)
          for (int z = 0; z <= d[2]; ++z) all.push_back({x, y, z});
      size_t n = all.size();
      std::vector<I3> in(n);
      // order 0 sorted, 1 reversed, 2.. stride permutations i -> (i*stride + o) mod n with stride coprime to n
      static const int strides[] = {1, 1, 7, 11, 13, 17, 19, 23};
      if (d[3] == 0) in = all;
      else if (d[3] == 1) {
        in = all;
        std::reverse(in.begin(), in.end());
      } else {
        size_t st = strides[d[3]];
        while (std::__gcd(st, n) != 1) ++st;
        for (size_t i = 0; i < n; ++i) in[i] = all[(i * st + d[3]) % n];
      }
      std::string what = (F.name.empty() ? "" : F.name + ",") + "box=" + std::to_string(d[0]) + "x" + std::to_string(d[1]) + "x" + std::to_string(d[2]) +
                         ",order=" + std::to_string(d[3]);
      judgeLatticeHull(c, what, in, F);
      if (idx % 97 == 0) c.sample(what);
    }, HC, 16);
  }

  // ---- (b) Hull() of the seeds and Hull(vector) of ordered pairs
  {
    auto S = seeds();
    S.push_back({"LsTwo|Refine(3)", [] { return seeds()[15].make().Refine(3); }, false});
    S.push_back({"Cube|Refine(3)", [] { return Manifold::Cube().Refine(3); }, false});
    S.push_back({"Sphere8|Refine(2)", [] { return Manifold::Sphere(1, 8).Refine(2); }, false});
    if (S[15].name != "LsTwo") {
      fprintf(stderr, "seed table changed\n");
      return 2;
    }
    const int ns = (int)S.size();
    auto seedOf = [&](int i) -> const Manifold& {
      static std::vector<Manifold> cache;
      static std::vector<char> have;
      if (cache.empty()) {
        cache.resize(ns);
        have.assign(ns, 0);
      }
      if (!have[i]) {
        cache[i] = S[i].make();
        have[i] = 1;
      }
      return cache[i];
    };
    std::vector<const char*> GC = {"hulls", "status_propagated", "flat_nonempty", "rank_undecided", "sliver_tris_skipped", "input_points"};
    auto run = [&](Ctx& c, const std::string& key, const std::vector<int>& ids, bool member) {
      c.describe(key);
      std::vector<Manifold> ins;
      bool err = false;
      for (int i : ids) {
        ins.push_back(seedOf(i));
        err |= ins.back().Status() != Manifold::Error::NoError;
      }
      Manifold h = member ? ins[0].Hull() : Manifold::Hull(ins);
      c.count("hulls");
      if (err) {
        c.count("status_propagated");
        std::string why = checkManifoldC01(h);
        if (why.empty() && h.Status() == Manifold::Error::NoError) why = "an input has an error status but the hull is NoError";
        if (!why.empty()) c.viol("hullm/status:" + key, "status", why);
        return;
      }
      std::vector<D3> in;
      double inTol = 0;
      for (auto& m : ins) {
        auto v = vertsOf(m.GetMeshGL64());
        in.insert(in.end(), v.begin(), v.end());
        inTol = std::max(inTol, m.GetTolerance());
      }
      c.count("input_points", (int64_t)in.size());
      std::string r = judgeGeneralHull(c, h, in, inTol);
      uint64_t hh = canonGeomHash(h.GetMeshGL64());
      c.distinct(hh);
      if (!h.IsEmpty()) c.nontrivial(hh);
      if (!r.empty()) {
        auto p = r.find('|');
        c.viol("hullm/" + r.substr(0, p) + ":" + key, r.substr(0, p), r.substr(p + 1));
      }
    };
    R.phase("hull-seeds", ns, 1, [&](uint64_t idx, Ctx& c) {
      run(c, S[idx].name + ".Hull()", {(int)idx}, true);
      c.sample(S[idx].name + ".Hull()");
    }, GC);
    R.phase("hull-pairs", (uint64_t)ns * ns, 4, [&](uint64_t idx, Ctx& c) {
      int i = idx / ns, j = idx % ns;
      std::string key = "Hull({" + S[i].name + "," + S[j].name + "})";
      run(c, key, {i, j}, false);
      if (idx % 211 == 0) c.sample(key);
    }, GC);
  }

  // ---- (a4) needles: lattice boxes {0..a}x{0..b}x{0..c} squeezed to aspect ratios of 10^3 .. 3x10^4 in two directions (axis-aligned,
  // so that faces stay exactly coplanar - rotated boxes fall under the known coplanar-up-to-rounding finding): wide enough (>= 3e-5 of the length) to be far above any rounding or private epsilon, thin enough to be
  // mistaken for a line by a test that compares a distance with a squared distance
  {
    static const double WID[3] = {1e-3, 1e-4, 3e-5};
    R.phase("hull-needles", 4 * 2 * 2 * 3 * 3, 1, [&](uint64_t idx, Ctx& c) {
      auto d = digits(idx, {4, 2, 2, 3, 3});
      const int a = d[0] + 1, b = d[1] + 1, cc = d[2] + 1;
      const double w = WID[d[3]];
      const int axis = d[4];
      std::vector<D3> in;
      for (int x = 0; x <= a; ++x)
        for (int y = 0; y <= b; ++y)
          for (int z = 0; z <= cc; ++z) {
            double p[3] = {x / (double)a * 4.0, y * w, z * w};  // long axis first
            double q[3] = {p[(3 - axis) % 3], p[(4 - axis) % 3], p[(5 - axis) % 3]};  // long axis along x, y or z
            in.push_back({q[0], q[1], q[2]});
          }
      std::ostringstream k;
      k << "needle:" << a << "x" << b << "x" << cc << ",w=" << w << ",axis=" << axis;
      c.describe(k.str());
      std::vector<vec3> pts;
      for (auto& p : in) pts.push_back({p.x, p.y, p.z});
      Manifold h = Manifold::Hull(pts);
      c.count("input_points", (int64_t)in.size());
      std::string r = judgeGeneralHull(c, h, in, 0);
      // the volume of the hull of a full box is the box
      if (r.empty() && std::fabs(h.Volume() - 4.0 * b * w * cc * w) > 1e-6 * 4.0 * b * w * cc * w) {
        std::ostringstream o;
        o.precision(17);
        o << "volume|hull volume " << h.Volume() << " but the box has " << 4.0 * b * w * cc * w;
        r = o.str();
      }
      uint64_t hh = canonGeomHash(h.GetMeshGL64());
      c.distinct(hh);
      if (!h.IsEmpty()) c.nontrivial(hh);
      if (!r.empty()) {
        auto p = r.find('|');
        c.viol("hull/" + r.substr(0, p) + ":" + k.str(), r.substr(0, p), r.substr(p + 1));
      }
      if (idx % 37 == 0) c.sample(k.str());
    }, {"hulls", "status_propagated", "flat_nonempty", "rank_undecided", "sliver_tris_skipped", "input_points"});
  }

  // ---- (c) Minkowski sum / difference
  {
    std::vector<const char*> MC = {"cases", "vertex_sums", "samples_in_operand", "sample_plus_vertex", "samples_in_sum", "diff_empty", "diff_vertices",
                                   "samples_in_diff", "erosion_probes"};
    const int n = asanSubset ? 7 : thorough ? 21 : 13, nY = asanSubset ? 4 : thorough ? 9 : 6;
    R.phase("minkowski", 7 * 5 * 2 * 2, 1, [&](uint64_t idx, Ctx& c) {
      static MinkShapes MS = makeMinkShapes();
      auto d = digits(idx, {7, 5, 2, 2});  // A, B, op, order
      if (d[0] >= 5 && (d[3] == 1 || MS.B[d[1]].convex == false)) return;  // the two extra first operands are swept by the convex small ones only
      const Solid& X = d[3] ? MS.B[d[1]] : MS.A[d[0]];
      const Solid& Y = d[3] ? MS.A[d[0]] : MS.B[d[1]];
      std::string key = X.name + (d[2] ? ".MinkowskiDifference(" : ".MinkowskiSum(") + Y.name + ")";
      c.describe("mink:" + key);
      c.count("cases");
      Manifold r = d[2] ? X.m.MinkowskiDifference(Y.m) : X.m.MinkowskiSum(Y.m);
      std::string res = d[2] ? judgeDiff(c, X, Y, r, n, nY) : judgeSum(c, X, Y, r, n);
      uint64_t hh = canonGeomHash(r.GetMeshGL64());
      c.distinct(hh);
      if (!r.IsEmpty()) c.nontrivial(hh);
      if (!res.empty()) {
        auto p = res.find('|');
        c.viol("mink/" + res.substr(0, p) + ":" + key, res.substr(0, p), res.substr(p + 1));
      }
      if (idx % 9 == 0) c.sample(key);
    }, MC);
  }
  return R.finish();
}
