CHECK = dict(
    level="fault_enumeration", engine="F",
    technique="exhaustive fault-point enumeration: cancel injected at every k-th IsCancelled check of every program (hook H2), outcome compared with the uncancelled run",
    level_text=("For 26 context-observed programs (deferred trees incl. shared sub-expressions and shared impl_, BatchBoolean, Refine*, Hull, "
                "Minkowski*, FromMeshGL, Smooth, LevelSet) the number N of cancellation checks of the uncancelled run is measured and the program "
                "is re-run with the cancel flag raised exactly at check k for EVERY k in 1..N. Each run must return the complete result "
                "(bit-identical up to mesh-ID renaming) or an empty Cancelled manifold that stays Cancelled; operands and other handles that share already evaluated sub-expressions must be untouched; rebuilding "
                "from the operands with a fresh context must give the reference result; a cancelled context must short-circuit later evaluations; "
                "progress samples taken at every check must be non-decreasing, <= 1 and end at 1."),
    level_note=("Trusted: hook H2 (the probe sits inside IsCancelled, the only reader of the flag, so 'Cancel() from another thread at any moment' "
                "is exactly 'check k is the first to see it'); compiler; lib/canon.h fingerprints. Serial build here; the parallel interleavings of "
                "the same checks are C04/C06's engines."),
    runs=[S("seq-fast", quick=300, thorough=2400, workers=8)],
    rule=("cases = (program, k) for every k in 1..N(program); distinct = (program,k) pairs; non-trivial = runs that ended Cancelled (the flag was "
          "observed before completion). The reference phase runs each program twice uncancelled (determinism, progress monotone / final == 1)."),
    bounds=dict(quick="24 programs, every check index (about 28k injected runs)", thorough="same programs with larger Minkowski operands (about 36k injected runs)"),
    assumptions=COMMON_ASSUME + ["relaxed-memory reorderings of the cancel flag and progress counters are not modelled (single thread here)"],
)
