// C04 - results are bit-identical across schedules, thread counts and backends.
// Engine T: whole-library programs run on oneTBB's header algorithms over the
// replacement runtime; every schedule with at most `bound` deviations from the
// serial schedule (a deviation = another modelled worker steals a ready task /
// a non-default victim) is executed and the byte hash of everything exported
// must be the same in all of them, for every reported concurrency, and equal
// to the hash the SERIAL build (MANIFOLD_PAR=-1, variant seq-fast) produces.
//
// The same source is built in both variants: in the serial variant it only
// writes the reference hashes.
#include <fstream>
#include <sstream>

#include "engine/runner.h"
#include "lib/canon.h"
#include "manifold/cross_section.h"
#include "manifold/manifold.h"
#include "manifold/polygon.h"
#include "parallel.h"
#if MANIFOLD_PAR == 1
#include "engine/explore.h"
#endif

using namespace manifold;
using namespace vf;

struct Prog {
  std::string name;
  bool large;  // scale L: production thresholds, big meshes
  std::function<std::string()> run;  // returns the hex byte-hash of everything observable
};

static std::string hx(uint64_t h) {
  char b[32];
  snprintf(b, sizeof b, "%016llx", (unsigned long long)h);
  return b;
}
static std::string meshHash(const Manifold& m) {
  // original IDs come from a process-wide counter: compare them up to order-preserving renaming
  uint64_t h = byteHash(m.GetMeshGL64(), false);
  uint64_t h32 = byteHash(m.GetMeshGL(), false);
  int st = (int)m.Status();
  h = hash_bytes(&h32, 8, h);
  h = hash_bytes(&st, sizeof st, h);
  double v[2] = {m.Volume(), m.SurfaceArea()};
  h = hash_bytes(v, sizeof v, h);
  return hx(h);
}
static std::string polyHashS(const Polygons& p) { return hx(polyHash(p)); }

// n bow-ties: pairs of tetrahedra sharing their apex (a pinched vertex each), imported as one mesh
static MeshGL64 bowTies(int n) {
  MeshGL64 g;
  g.numProp = 3;
  auto vert = [&](double x, double y, double z) {
    g.vertProperties.insert(g.vertProperties.end(), {x, y, z});
    return (uint64_t)(g.vertProperties.size() / 3 - 1);
  };
  auto tet = [&](uint64_t a, uint64_t b, uint64_t c2, uint64_t d) {
    for (uint64_t i : {a, c2, b, a, b, d, b, c2, d, c2, a, d}) g.triVerts.push_back(i);
  };
  for (int k = 0; k < n; ++k) {
    double ox = 3.0 * (k % 60), oy = 3.0 * (k / 60);
    uint64_t apex = vert(ox, oy, 0);
    uint64_t a = vert(ox + 1, oy, 1), b = vert(ox, oy + 1, 1), c2 = vert(ox - 1, oy - 1, 1.2);
    tet(a, b, c2, apex);
    uint64_t d = vert(ox + 1, oy, -1), e = vert(ox, oy + 1, -1), f = vert(ox - 1, oy - 1, -1.2);
    tet(e, d, f, apex);
  }
  return g;
}

static std::vector<Prog> programs() {
  using M = Manifold;
  std::vector<Prog> P;
  auto add = [&](const char* n, bool large, std::function<std::string()> f) { P.push_back({n, large, f}); };
  add("Sphere8 - Cube", false, [] { return meshHash(M::Sphere(1, 8) - M::Cube({1, 1, 1}, true).Translate({0.5, 0.3, 0.2})); });
  add("(Sphere8 + Cyl) ^ Cube.Rotate", false, [] {
    return meshHash((M::Sphere(1, 8) + M::Cylinder(2, 0.4, 0.4, 6, true)) ^ M::Cube({1.5, 1.5, 1.5}, true).Rotate(10, 20, 30));
  });
  add("BatchBoolean+ of 5", false, [] {
    std::vector<M> v;
    for (int i = 0; i < 5; ++i) v.push_back(M::Sphere(0.6, 6).Translate({0.35 * i, 0.1 * i, 0.05 * i}));
    return meshHash(M::BatchBoolean(v, OpType::Add));
  });
  // results of one round that tie in NumVert: the heap's tie-break (serial number) decides the pairing of the next round
  add("BatchBoolean+ with ties", false, [] {
    const M big = M::Sphere(1.0, 4);
    std::vector<M> v;
    v.push_back(M::Sphere(0.6, 4).Translate({0.4, 0.3, 0.2}));
    const vec3 d(0.83, 0.11, 0.07);
    for (const vec3 t : {vec3(0, 0, 0), vec3(0, 0.5, 0), vec3(0, 0, 0.5), vec3(0, 0.5, 0.5)}) {
      v.push_back(big.Translate(t));
      v.push_back(big.Translate(t + d));
    }
    return meshHash(M::BatchBoolean(v, OpType::Add));
  });
  add("BatchBoolean- of 9", false, [] {
    std::vector<M> v;
    v.push_back(M::Cube({3, 1, 1}));
    for (int i = 0; i < 8; ++i) v.push_back(M::Sphere(0.3, 4).Translate({0.35 * i + 0.2, 0.5, 0.5}));
    return meshHash(M::BatchBoolean(v, OpType::Subtract));
  });
  add("Hull(sphere verts)", false, [] { return meshHash(M::Sphere(1, 12).Hull()); });
  add("LevelSet(two spheres)", false, [] {
    return meshHash(M::LevelSet([](vec3 p) { return std::max(0.7 - la::length(p - vec3(0.5, 0, 0)), 0.7 - la::length(p + vec3(0.5, 0, 0))); },
                                Box(vec3(-1.5, -1, -1), vec3(1.5, 1, 1)), 0.25));
  });
  add("SmoothOut+Refine(3)", false, [] { return meshHash(M::Cube().SmoothOut().Refine(3)); });
  add("Smooth(tet)+RefineToLength", false, [] { return meshHash(M::Smooth(M::Tetrahedron().GetMeshGL64()).RefineToLength(0.3)); });
  add("Simplify(refined union)", false, [] { return meshHash((M::Cube() + M::Cube().Translate({1, 0, 0})).Refine(3).AsOriginal().Simplify(0.01)); });
  add("SetTolerance(sphere)", false, [] { return meshHash(M::Sphere(1, 16).SetTolerance(0.05)); });
  add("CalculateNormals+Curvature", false, [] { return meshHash(M::Sphere(1, 8).CalculateNormals(0, 40).CalculateCurvature(3, 4)); });
  add("Import MeshGL (merge vectors)", false, [] {
    M m = M::Sphere(1, 8).CalculateNormals(0, 30);
    return meshHash(M(m.GetMeshGL64())) + meshHash(M(m.GetMeshGL()));
  });
  add("Decompose(3 components)", false, [] {
    M m = M::Cube() + M::Sphere(0.4, 6).Translate({3, 0, 0}) + M::Tetrahedron().Translate({0, 4, 0});
    std::string s;
    for (auto& d : m.Decompose()) s += meshHash(d);
    return s;
  });
  add("MinkowskiSum(L, cube)", false, [] {
    M l = M::Extrude({{{0, 0}, {1, 0}, {0.3, 0.3}, {0, 1}}}, 0.5);
    return meshHash(l.MinkowskiSum(M::Cube({0.2, 0.2, 0.2}, true)));
  });
  add("Warp+SetProperties+Refine", false, [] {
    return meshHash(M::Sphere(1, 8).Warp([](vec3& p) { p.z += 0.2 * p.x * p.x; }).SetProperties(2, [](double* o, vec3 p, const double*) {
      o[0] = p.x;
      o[1] = p.y * p.z;
    }).Refine(2));
  });
  add("CrossSection booleans+Offset", false, [] {
    CrossSection a = CrossSection::Circle(1, 24), b = CrossSection::Square({1.5, 0.5}, true).Rotate(20);
    CrossSection c = (a - b) + b.Translate({0.3, 0.9});
    return polyHashS(c.ToPolygons()) + polyHashS(c.Offset(0.1, CrossSection::JoinType::Round, 2, 12).ToPolygons()) +
           polyHashS(c.Offset(-0.05, CrossSection::JoinType::Miter).ToPolygons());
  });
  add("Extrude/Revolve/Slice/Project", false, [] {
    CrossSection c = CrossSection::Circle(1, 16) - CrossSection::Circle(0.5, 8);
    M e = M::Extrude(c.ToPolygons(), 1, 3, 40, {0.5, 0.7});
    M r = M::Revolve(CrossSection::Square({0.5, 1}).Translate({1, 0}).ToPolygons(), 12, 270);
    return meshHash(e) + meshHash(r) + polyHashS(e.Slice(0.4)) + polyHashS(r.Project());
  });
  add("Triangulate(many holes)", false, [] {
    Polygons p;
    p.push_back({{0, 0}, {10, 0}, {10, 10}, {0, 10}});
    for (int i = 0; i < 4; ++i)
      for (int j = 0; j < 4; ++j) p.push_back({{1.0 + 2 * i, 1.0 + 2 * j}, {1.0 + 2 * i, 2.0 + 2 * j}, {2.0 + 2 * i, 2.0 + 2 * j}, {2.0 + 2 * i, 1.0 + 2 * j}});
    auto t = Triangulate(p);
    return hx(hashVec(t, 7));
  });
  // pinched vertices and duplicated edges on small inputs: the gated parallel paths of edge_op.cpp (hook H4 lowers the gates)
  add("Import 6 bow-ties", false, [] { return meshHash(M(bowTies(6))); });
  add("Import bow-ties + Boolean", false, [] { return meshHash(M(bowTies(3)) - M::Cube({2, 2, 2}, true).Translate({0.5, 0.5, 0})); });
  // ---- scale L: production thresholds
  // > 1e5 halfedges in the result: reaches the literal gates of edge_op.cpp (FlagStore::run_par, nbEdges > 1e4)
  add("L: Sphere(1,256) - Sphere(1,256).Translate", true, [] { return meshHash(M::Sphere(1, 256) - M::Sphere(1, 256).Translate({0.4, 0.3, 0.2})); });
  add("L: Cube.Refine(64) - rotated copy", true, [] {
    M c = M::Cube({1, 1, 1}, true).Refine(64);
    return meshHash(c - c.Rotate(10, 20, 30).Translate({0.3, 0.2, 0.1}));
  });
  // pinched vertices above the parallel threshold of SplitPinchedVerts: 3000 bow-ties (two tetrahedra sharing an apex)
  add("L: import 3000 bow-ties", true, [] { return meshHash(M(bowTies(3000))); });
  add("L: LevelSet 60^3", true, [] {
    return meshHash(M::LevelSet([](vec3 p) { return 1.0 - la::length(p) + 0.1 * std::sin(7 * p.x); }, Box(vec3(-1.3, -1.3, -1.3), vec3(1.3, 1.3, 1.3)), 0.04));
  });
  add("L: Sphere(1,128).Refine(2).CalculateNormals.Simplify", true, [] {
    return meshHash(M::Sphere(1, 128).Refine(2).CalculateNormals(0, 10).SetTolerance(0.001));
  });
  add("L: CrossSection comb 700 rects", true, [] {
    std::vector<CrossSection> v;
    for (int i = 0; i < 700; ++i) v.push_back(CrossSection::Square({0.7, 5.0 + (i % 7)}).Translate({0.5 * i, 0.1 * (i % 3)}));
    CrossSection c = CrossSection::BatchBoolean(v, OpType::Add) - CrossSection::Square({400, 1}).Translate({0, 2});
    return polyHashS(c.ToPolygons()) + polyHashS(c.Offset(0.05, CrossSection::JoinType::Square).ToPolygons());
  });
  return P;
}

static std::string refPath() {
  const char* d = getenv("VERIF_RUN_DIR");
  return std::string(d ? d : ".") + "/C04.serial-reference";
}

int main(int argc, char** argv) {
  Runner R("C04", argc, argv);
  const bool thorough = R.a.thorough();
  auto P = programs();
  // quick: a fixed subset (one program per parallel mechanism); thorough: everything incl. scale L
  static const char* QUICK[] = {"Sphere8 - Cube", "BatchBoolean+ of 5", "Hull(sphere verts)", "LevelSet(two spheres)",
                                "SmoothOut+Refine(3)", "CalculateNormals+Curvature", "CrossSection booleans+Offset", "Triangulate(many holes)", "Import 6 bow-ties", "BatchBoolean+ with ties"};
  std::vector<int> sel;
  for (int i = 0; i < (int)P.size(); ++i) {
    bool q = false;
    for (auto n : QUICK) q = q || P[i].name == n;
    if (thorough || q) sel.push_back(i);
  }

#if MANIFOLD_PAR != 1
  // ---------------- serial build: write the reference hashes
  {
    auto lines = R.phase("serial-reference", sel.size(), 1, [&](uint64_t idx, Ctx& c) {
      const Prog& p = P[sel[idx]];
      c.describe(p.name);
      std::string a = p.run(), b = p.run();
      c.count("executions", 2);
      c.distinct(hash_str(a));
      c.nontrivial(hash_str(a));
      if (a != b) c.viol("serial:" + p.name + ":nondeterministic", p.name, "two runs of the serial build differ: " + a + " vs " + b);
      c.emit(p.name + "\t" + a);
      c.sample(p.name + " -> " + a);
    }, {"executions"});
    if (R.a.onlyCase.empty()) {
      std::ofstream f(refPath());
      for (auto& l : lines) f << l << "\n";
    }
  }
  return R.finish();
#else
  // ---------------- parallel build on the model runtime
  std::map<std::string, std::string> ref;
  {
    std::ifstream f(refPath());
    std::string l;
    while (std::getline(f, l)) {
      auto t = l.find('\t');
      if (t != std::string::npos) ref[l.substr(0, t)] = l.substr(t + 1);
    }
  }
  const std::vector<int> CONC = thorough ? std::vector<int>{1, 2, 4, 16} : std::vector<int>{2};
  const int J = 16;  // the root's alternatives are partitioned over J cases
  const uint64_t nc = CONC.size();
  R.phase("schedules", (uint64_t)sel.size() * nc * J, 1, [&](uint64_t idx, Ctx& c) {
    int j = idx % J;
    int ci = (idx / J) % nc;
    const Prog& p = P[sel[idx / J / nc]];
    std::string name = p.name + " C=" + std::to_string(CONC[ci]);
    c.describe(name + " part " + std::to_string(j));
    auto it = ref.find(p.name);
    if (it == ref.end()) {
      if (j == 0) c.viol("setup:no-serial-reference:" + p.name, name, "the serial build's reference hash is missing (run order / build problem)");
      return;
    }
    const std::string expect = it->second;
    vx::Explorer ex;
    vx::Config cfg;
    cfg.bound = (thorough && !p.large) ? 2 : 1;
    if (thorough && !p.large) cfg.maxExec = 40000;  // bound 2 is capped per case; reported as not exhaustive if hit
    cfg.freeCost = 1;
    cfg.workers = 2;
    cfg.concurrency = CONC[ci];
    cfg.timeout = 900;
    cfg.inProcess = true;  // fork costs ~30 ms in this sandbox
    cfg.rootStride = J;
    cfg.rootOffset = j;
    const bool large = p.large;
    auto body = [&]() {
      if (!large) {
        kSeqThreshold = 4;
        verif::par_threshold = 0;  // every autoPolicy-gated loop takes its parallel branch
        verif::gate_override = 0;  // ... and so does every literal 1e4/1e5 gate (hook H4)
      }
      return p.run();
    };
    bool reported = false;
    vx::Stats st = ex.explore(cfg, body, [&](const vx::Exec& e) {
      if (e.outcome != expect && !reported) {
        reported = true;
        c.viol("sched:" + p.name, name, "schedule " + e.scheduleStr() + " gives " + e.outcome + " but the serial build gives " + expect +
                                            (e.note.empty() ? "" : " (" + e.note + ")"));
      }
      return true;
    });
    if (R.single_) fprintf(stderr, "%s part %d: %llu executions, max %llu choice points, %zu outcomes\n", name.c_str(), j,
                           (unsigned long long)st.executions, (unsigned long long)st.maxTrace, st.outcomes.size());
    // the default schedule is executed by every part; count it once
    c.count("executions", st.executions - (j ? 1 : 0));
    c.count("schedules_with_steals", st.withSteals);
    c.count("tasks", st.tasks);
    if (st.capped) c.count("capped_cases");
    if (j == 0) {
      c.count("choice_points_default_schedule", st.maxTrace);
      c.distinct(hash_str(name));
      std::ostringstream s;
      s << name << ": default schedule has " << st.maxTrace << " choice points";
      c.sample(s.str());
    }
    if (st.withSteals) c.nontrivial(hash_str(name));
  }, {"executions", "schedules_with_steals", "tasks", "capped_cases", "choice_points_default_schedule"});
  return R.finish();
#endif
}
