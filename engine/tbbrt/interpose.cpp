// pthread mutex interposition for the cooperative scheduler (engine C).
//
// Defining pthread_mutex_lock/trylock/unlock in the executable makes every
// std::mutex, std::recursive_mutex, std::scoped_lock and libstdc++'s
// shared_ptr-atomic mutex pool in the program go through here.  Under the
// scheduler a lock is a scheduling point; a lock held by another modelled
// thread DISABLES the caller (so the baton is never taken to sleep in the
// kernel), "no enabled thread" is a deadlock.  Outside the scheduler (or for
// unregistered threads) the calls pass straight through.
//
// In the TSan variant this TU is uninstrumented and forwards to TSan's own
// interceptors, so the race detector still sees the program's lock/unlock
// happens-before, but not the scheduler's hand-offs.
#include <dlfcn.h>
#include <errno.h>
#include <pthread.h>
#include <stdio.h>
#include <stdlib.h>

#include "engine/sched.h"

#ifdef TBBRT_TSAN
extern "C" int __interceptor_pthread_mutex_lock(pthread_mutex_t*);
extern "C" int __interceptor_pthread_mutex_trylock(pthread_mutex_t*);
extern "C" int __interceptor_pthread_mutex_unlock(pthread_mutex_t*);
#define REAL_LOCK __interceptor_pthread_mutex_lock
#define REAL_TRYLOCK __interceptor_pthread_mutex_trylock
#define REAL_UNLOCK __interceptor_pthread_mutex_unlock
#else
typedef int (*mfn)(pthread_mutex_t*);
static mfn real_lock, real_trylock, real_unlock;
static void resolve() {
  if (real_lock) return;
  real_lock = (mfn)dlsym(RTLD_NEXT, "pthread_mutex_lock");
  real_trylock = (mfn)dlsym(RTLD_NEXT, "pthread_mutex_trylock");
  real_unlock = (mfn)dlsym(RTLD_NEXT, "pthread_mutex_unlock");
  if (!real_lock || !real_trylock || !real_unlock) {
    fprintf(stderr, "interpose: cannot resolve pthread mutex functions\n");
    abort();
  }
}
__attribute__((constructor)) static void init_interpose() { resolve(); }
#define REAL_LOCK(m) (resolve(), real_lock(m))
#define REAL_TRYLOCK(m) (resolve(), real_trylock(m))
#define REAL_UNLOCK(m) (resolve(), real_unlock(m))
#endif

namespace {
struct Held {
  pthread_mutex_t* m;
  int owner;
  int depth;
};
enum { MAXHELD = 512 };
Held held[MAXHELD];
int nheld = 0;
Held* find(pthread_mutex_t* m) {
  for (int i = 0; i < nheld; ++i)
    if (held[i].m == m) return &held[i];
  return nullptr;
}
int free_pred(void* p) { return find((pthread_mutex_t*)p) == nullptr; }
}  // namespace

extern "C" {

void vs_mutex_reset(void) { nheld = 0; }

int pthread_mutex_lock(pthread_mutex_t* m) {
  if (!vs_active()) return REAL_LOCK(m);
  vs_point("mutex-lock");
  Held* h = find(m);
  int self = vs_self();
  if (h && h->owner != self) {
    vs_block(free_pred, m, "mutex-wait");
    h = find(m);
  }
  if (h) {  // owned by self: recursive acquisition (or a genuine self-deadlock on a plain mutex)
    int r = REAL_TRYLOCK(m);
    if (r == EBUSY) {
      // a non-recursive mutex re-locked by its owner: the real program would hang here
      vs_block([](void*) { return 0; }, nullptr, "self-deadlock on a non-recursive mutex");
    }
    if (r == 0) h->depth++;
    return r;
  }
  int r = REAL_LOCK(m);  // free in the model, hence free in reality: does not block
  if (r == 0) {
    if (nheld >= MAXHELD) {
      fprintf(stderr, "interpose: too many held mutexes\n");
      abort();
    }
    held[nheld++] = {m, self, 1};
  }
  return r;
}

int pthread_mutex_trylock(pthread_mutex_t* m) {
  if (!vs_active()) return REAL_TRYLOCK(m);
  vs_point("mutex-trylock");
  Held* h = find(m);
  int self = vs_self();
  if (h && h->owner != self) return EBUSY;
  int r = REAL_TRYLOCK(m);
  if (r == 0) {
    if (h) h->depth++;
    else if (nheld < MAXHELD) held[nheld++] = {m, self, 1};
  }
  return r;
}

int pthread_mutex_unlock(pthread_mutex_t* m) {
  if (!vs_active()) return REAL_UNLOCK(m);
  Held* h = find(m);
  int r = REAL_UNLOCK(m);
  if (h && h->owner == vs_self() && r == 0) {
    if (--h->depth == 0) *h = held[--nheld];
  }
  // No scheduling point after a release: a thread that was waiting for this mutex becomes enabled at
  // the releaser's next scheduling point (before its next acquire / at its next block), and everything
  // the releaser does in between is free of synchronisation, hence commutes with the waiter's steps
  // in race-free code.  This halves the number of choice points without losing interleavings.
  return r;
}
}
