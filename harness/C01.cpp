// C01 - every returned Manifold is a closed oriented 2-manifold or an empty error.
// Engine S: all programs over the shared alphabet up to the depth bound; the
// invariant (lib/topo.h) is evaluated on every reached state; violating states
// are not expanded.
#include <sstream>

#include "engine/runner.h"
#include "lib/alphabet.h"
#include "lib/canon.h"
#include "lib/topo.h"

using namespace manifold;
using namespace vf;

static const size_t kMaxTri = 6000;  // states larger than this are checked but not expanded

struct Judge {
  Ctx& c;
  // returns true if the state may be expanded further
  bool state(const Manifold& m, const std::string& prog, bool report) {
    std::string why = checkManifoldC01(m);
    if (report) {
      c.count("transitions");
      uint64_t h = canonGeomHash(m.GetMeshGL64()) ^ mix64((uint64_t)m.Status());
      if (c.distinct(h)) c.count("states");
      if (m.Status() == Manifold::Error::NoError && !m.IsEmpty()) c.nontrivial(h);
      if (!why.empty()) c.viol("C01:" + prog, prog, why);
    }
    if (!why.empty()) return false;
    if (m.NumTri() > kMaxTri) {
      if (report) c.count("not_expanded_size");
      return false;
    }
    return true;
  }
};

int main(int argc, char** argv) {
  Runner R("C01", argc, argv);
  const bool thorough = R.a.thorough();
  auto S = seeds();
  auto U = unops();
  auto B = binops();
  const int ns = (int)S.size(), nu = (int)U.size(), nbin = (int)B.size();
  std::vector<const char*> CN = {"transitions", "states", "not_expanded_size"};
  // seeds are values: build each once per process and reuse (Manifolds are immutable handles)
  auto seedOf = [&](int i) -> const Manifold& {
    static std::vector<Manifold> cache;
    static std::vector<char> have;
    if (cache.empty()) {
      cache.resize(ns);
      have.assign(ns, 0);
    }
    if (!have[i]) {
      cache[i] = S[i].make();
      have[i] = 1;
    }
    return cache[i];
  };

  // seeds used as *second* operand / in the binary phases
  std::vector<int> bs;
  for (int i = 0; i < ns; ++i) bs.push_back(i);

  R.phase("seeds", ns, 1, [&](uint64_t idx, Ctx& c) {
    c.describe(S[idx].name);
    Manifold m = S[idx].make();
    Judge{c}.state(m, S[idx].name, true);
    c.sample(S[idx].name);
  }, CN);

  // unary chains of length 1..3 (3 only in thorough)
  for (int len = 1; len <= (thorough ? 3 : 2); ++len) {
    std::vector<int> radix = {ns};
    for (int i = 0; i < len; ++i) radix.push_back(nu);
    R.phase("unary-" + std::to_string(len), product(radix), nu, [&, radix, len](uint64_t idx, Ctx& c) {
      auto d = digits(idx, radix);
      static uint64_t cachedPrefix = UINT64_MAX;
      static Manifold prefix;
      static bool prefixOk = false;
      static std::string prefixName;
      if (cachedPrefix != idx / nu) {
        cachedPrefix = idx / nu;
        prefixName = S[d[0]].name;
        c.describe(prefixName);
        prefix = seedOf(d[0]);
        Judge j{c};
        prefixOk = j.state(prefix, prefixName, false);
        for (int i = 1; i < len && prefixOk; ++i) {
          prefixName += "|" + U[d[i]].name;
          c.describe(prefixName);
          prefix = U[d[i]].f(prefix);
          prefixOk = j.state(prefix, prefixName, false);
        }
      }
      if (!prefixOk) {
        c.count("not_expanded_size", 0);
        return;
      }
      std::string prog = prefixName + "|" + U[d[len]].name;
      c.describe(prog);
      Manifold m = U[d[len]].f(prefix);
      Judge{c}.state(m, prog, true);
      if (idx % 977 == 0) c.sample(prog);
    }, CN);
  }

  // binary: b(s, s') for all ordered pairs, then one unary op on the result
  {
    std::vector<int> radix = {ns, ns, nbin};
    R.phase("binary", product(radix), nbin, [&, radix](uint64_t idx, Ctx& c) {
      auto d = digits(idx, radix);
      std::string prog = "(" + S[d[0]].name + " " + B[d[2]].name + " " + S[d[1]].name + ")";
      c.describe(prog);
      const Manifold &a = seedOf(d[0]), &b = seedOf(d[1]);
      Manifold m = B[d[2]].f(a, b);
      Judge{c}.state(m, prog, true);
      if (idx % 499 == 0) c.sample(prog);
    }, CN);
  }
  {
    // u(b(s,s')): every unary op on every binary result (thorough: all seeds; quick: every 2nd seed as second operand)
    std::vector<int> second;
    for (int i = 0; i < ns; ++i)
      if (thorough || i % 3 == 0) second.push_back(i);
    std::vector<int> radix = {ns, (int)second.size(), nbin, nu};
    R.phase("binary-unary", product(radix), nu, [&, radix, second](uint64_t idx, Ctx& c) {
      auto d = digits(idx, radix);
      static uint64_t cachedPrefix = UINT64_MAX;
      static Manifold prefix;
      static bool prefixOk = false;
      static std::string prefixName;
      if (cachedPrefix != idx / nu) {
        cachedPrefix = idx / nu;
        prefixName = "(" + S[d[0]].name + " " + B[d[2]].name + " " + S[second[d[1]]].name + ")";
        c.describe(prefixName);
        prefix = B[d[2]].f(seedOf(d[0]), seedOf(second[d[1]]));
        prefixOk = Judge{c}.state(prefix, prefixName, false);
      }
      if (!prefixOk) return;
      std::string prog = prefixName + "|" + U[d[3]].name;
      c.describe(prog);
      Manifold m = U[d[3]].f(prefix);
      Judge{c}.state(m, prog, true);
      if (idx % 7919 == 0) c.sample(prog);
    }, CN);
  }
  {
    // b(u(s), s') and b(s', u(s)): derived operand on either side
    std::vector<int> second;
    for (int i = 0; i < ns; ++i)
      if (thorough || i % 3 == 1) second.push_back(i);
    std::vector<int> radix = {ns, nu, (int)second.size(), 2, nbin};
    R.phase("unary-binary", product(radix), (uint64_t)second.size() * 2 * nbin, [&, radix, second](uint64_t idx, Ctx& c) {
      auto d = digits(idx, radix);
      static uint64_t cachedPrefix = UINT64_MAX;
      static Manifold prefix;
      static bool prefixOk = false;
      static std::string prefixName;
      uint64_t pk = idx / (radix[2] * 2 * nbin);
      if (cachedPrefix != pk) {
        cachedPrefix = pk;
        prefixName = S[d[0]].name + "|" + U[d[1]].name;
        c.describe(prefixName);
        const Manifold& s0 = seedOf(d[0]);
        prefixOk = Judge{c}.state(s0, S[d[0]].name, false);
        if (prefixOk) {
          prefix = U[d[1]].f(s0);
          prefixOk = Judge{c}.state(prefix, prefixName, false);
        }
      }
      if (!prefixOk) return;
      const Seed& o = S[second[d[2]]];
      std::string prog = d[3] ? "(" + o.name + " " + B[d[4]].name + " [" + prefixName + "])"
                              : "([" + prefixName + "] " + B[d[4]].name + " " + o.name + ")";
      c.describe(prog);
      const Manifold& other = seedOf(second[d[2]]);
      Manifold m = d[3] ? B[d[4]].f(other, prefix) : B[d[4]].f(prefix, other);
      Judge{c}.state(m, prog, true);
      if (idx % 7919 == 0) c.sample(prog);
    }, CN);
  }
  return R.finish();
}
